(* Proofs/C02Commit.v — decode_commit (encode_commit c true) = Ok c for every
   well-formed commit struct (Spec/ObjWf.wf_commit): the encoder's output is
   cut into complete header lines and the scanner is run over them. *)
From Coq Require Import List NArith ZArith Bool Lia ZifyBool ZifyNat ZifyN.
From GoGit Require Import Base.Out Model.ObjLines Model.Ident Model.Commit Spec.ObjWf
     Proofs.ObjLinesFacts Proofs.C02Dec Proofs.C02Ident Proofs.C03Commit Proofs.C03CommitSig Proofs.C02Lines.
Import ListNotations.
Local Open Scope N_scope.

(* ---- a value spread over continuation lines ---- *)
(* first segment and the remaining segments of w, cut at LF *)
Fixpoint segs (w : bytes) : bytes * list bytes :=
  match w with
  | [] => ([], [])
  | c :: r => let '(s, t) := segs r in if c =? LF then ([], s :: t) else (c :: s, t)
  end.

Lemma segs_no_lf w : no_lf (fst (segs w)) = true /\ Forall (fun s => no_lf s = true) (snd (segs w)).
Proof.
  induction w as [|c r [I1 I2]]; cbn [segs]; [split; [reflexivity|constructor]|].
  destruct (segs r) as [s t]. cbn [fst snd] in *. destruct (c =? LF) eqn:E; cbn [fst snd].
  - split; [reflexivity|]. now constructor.
  - split; [|exact I2]. rewrite no_lf_cons, E, I1. reflexivity.
Qed.

Lemma segs_indent w : indent_nl w = fst (segs w) ++ List.concat (map (fun s => LF :: SPC :: s) (snd (segs w))).
Proof.
  induction w as [|c r IH]; [reflexivity|]. cbn [segs]. destruct (segs r) as [s t]. cbn [fst snd] in *.
  change (indent_nl (c :: r)) with ((if c =? LF then [LF; SPC] else [c]) ++ indent_nl r). rewrite IH.
  destruct (c =? LF) eqn:E; cbn [fst snd map List.concat app].
  - apply N.eqb_eq in E. now subst c.
  - reflexivity.
Qed.

Lemma segs_join w : w = fst (segs w) ++ List.concat (map (fun s => LF :: s) (snd (segs w))).
Proof.
  induction w as [|c r IH]; [reflexivity|]. cbn [segs]. destruct (segs r) as [s t]. cbn [fst snd] in *.
  destruct (c =? LF) eqn:E; cbn [fst snd map List.concat app].
  - apply N.eqb_eq in E. subst c. now rewrite <- IH.
  - now rewrite <- IH.
Qed.

Lemma shift_lf (f : bytes -> bytes) (t : list bytes) (tail : bytes) :
  List.concat (map (fun s => LF :: f s) t) ++ LF :: tail = LF :: List.concat (map (fun s => f s ++ [LF]) t) ++ tail.
Proof.
  induction t as [|a t IH]; [reflexivity|]. cbn [map List.concat]. rewrite <- !app_assoc. cbn [app].
  rewrite IH. reflexivity.
Qed.

(* lines of "K SP indent(w)" once the LF that follows it is attached *)
Definition val_lines (K w : bytes) : list bytes :=
  (K ++ SPC :: fst (segs w) ++ [LF]) :: map (fun s => SPC :: s ++ [LF]) (snd (segs w)).

Lemma val_lines_concat K w : (K ++ SPC :: indent_nl w) ++ [LF] = List.concat (val_lines K w).
Proof.
  unfold val_lines. rewrite segs_indent. cbn [List.concat]. rewrite <- !app_assoc. cbn [app]. f_equal. f_equal.
  rewrite <- !app_assoc. f_equal.
  etransitivity; [exact (shift_lf (fun s => SPC :: s) (snd (segs w)) [])|]. cbn [app]. now rewrite app_nil_r.
Qed.

(* what the continuation states accumulate: w followed by LF *)
Lemma val_lines_acc w : fst (segs w) ++ [LF] ++ List.concat (map (fun s => s ++ [LF]) (snd (segs w))) = w ++ [LF].
Proof.
  rewrite (segs_join w) at 3. rewrite <- app_assoc. f_equal. symmetry.
  etransitivity; [exact (shift_lf (fun s => s) (snd (segs w)) [])|]. cbn [app]. now rewrite app_nil_r.
Qed.

Lemma val_lines_cline K w : no_lf K = true -> Forall cline (val_lines K w).
Proof.
  intros HK. destruct (segs_no_lf w) as [H1 H2]. unfold val_lines. constructor.
  - replace (K ++ SPC :: fst (segs w) ++ [LF]) with ((K ++ SPC :: fst (segs w)) ++ [LF]) by (now rewrite <- app_assoc).
    apply cline_mk. rewrite no_lf_app, HK, no_lf_cons, H1. reflexivity.
  - induction H2 as [|s t Hs _ IH]; cbn [map]; constructor; [|exact IH].
    change (SPC :: s ++ [LF]) with ((SPC :: s) ++ [LF]). apply cline_mk. rewrite no_lf_cons, Hs. reflexivity.
Qed.

(* sections written as LF :: x, regrouped as x ++ [LF] *)
Lemma shift_sections (h : bytes) (X : list bytes) :
  h ++ List.concat (map (fun x => LF :: x) X) ++ [LF] = List.concat (map (fun x => x ++ [LF]) (h :: X)).
Proof.
  cbn [map List.concat]. rewrite <- app_assoc. f_equal.
  etransitivity; [exact (shift_lf (fun x => x) X [])|]. cbn [app]. now rewrite app_nil_r.
Qed.

(* ---- the encoder's output as header lines ---- *)
Definition tree_line (t : bytes) : bytes := k_tree ++ SPC :: hex_encode t ++ [LF].
Definition parent_line (p : bytes) : bytes := k_parent ++ SPC :: hex_encode p ++ [LF].
Definition ident_line (K : bytes) (i : ident) : bytes := K ++ SPC :: encode_ident i ++ [LF].
Definition enc_lines (e : bytes) : list bytes := if beqb e utf8 then [] else [k_encoding ++ SPC :: e ++ [LF]].
Definition extra_lines (kv : bytes * bytes) : list bytes :=
  match snd kv with [] => [fst kv ++ [LF]] | v => val_lines (fst kv) (trim_suffix_lf v) end.
Definition sig_lines (K s : bytes) : list bytes :=
  match s with [] => [] | _ => val_lines K (trim_suffix_lf s) end.
Definition opt_lines (c : commit) : list bytes :=
  enc_lines (c_enc c) ++ flat_map extra_lines (c_extra c) ++
  sig_lines k_gpgsig (c_sig c) ++ sig_lines k_gpgsig256 (c_sig256 c).
Definition hdr_lines (c : commit) : list bytes :=
  tree_line (c_tree c) :: map parent_line (c_parents c) ++
  [ident_line k_author (c_author c); ident_line k_committer (c_committer c)] ++ opt_lines c ++ [[LF]].

(* the optional sections, each written by the encoder as LF :: section *)
Definition enc_secs (e : bytes) : list bytes := if beqb e utf8 then [] else [k_encoding ++ SPC :: e].
Definition sig_secs (K s : bytes) : list bytes :=
  match s with [] => [] | _ => [K ++ SPC :: indent_nl (trim_suffix_lf s)] end.
Definition sections (c : commit) : list bytes :=
  enc_secs (c_enc c) ++ map fmt_extra (c_extra c) ++ sig_secs k_gpgsig (c_sig c) ++ sig_secs k_gpgsig256 (c_sig256 c).

Definition lfs (X : list bytes) : bytes := List.concat (map (fun x => LF :: x) X).
Lemma lfs_app X Y : lfs (X ++ Y) = lfs X ++ lfs Y.
Proof. unfold lfs. now rewrite map_app, concat_app. Qed.

Lemma enc_piece e : e <> [] ->
  match e with [] => [] | n :: l => if beqb (n :: l) utf8 then [] else [LF] ++ k_encoding ++ [SPC] ++ n :: l end = lfs (enc_secs e).
Proof.
  intros H. destruct e as [|x e]; [contradiction|]. unfold enc_secs, lfs.
  destruct (beqb (x :: e) utf8); [reflexivity|]. cbn [map List.concat app]. rewrite app_nil_r; reflexivity.
Qed.

Lemma extra_piece xs : forallb wf_extra xs = true ->
  flat_map (fun kv => if is_standard_header (fst kv) then [] else [LF] ++ fmt_extra kv) xs = lfs (map fmt_extra xs).
Proof.
  unfold lfs. induction xs as [|[k v] xs IH]; [reflexivity|]. cbn [forallb]. intros H.
  apply andb_true_iff in H as [H1 H2]. cbn [flat_map map List.concat fst]. rewrite (IH H2).
  unfold wf_extra in H1. apply andb_true_iff in H1 as [H1 _]. apply andb_true_iff in H1 as [H1 _].
  apply andb_true_iff in H1 as [H1 _]. apply negb_true_iff in H1. rewrite H1. reflexivity.
Qed.

Lemma sig_piece K s : enc_sig_header K s = lfs (sig_secs K s).
Proof. unfold enc_sig_header, sig_secs, lfs. destruct s; [reflexivity|]. cbn [map List.concat app]. rewrite app_nil_r; reflexivity. Qed.

Lemma enc_sec_lines e : List.concat (map (fun x => x ++ [LF]) (enc_secs e)) = List.concat (enc_lines e).
Proof.
  unfold enc_secs, enc_lines. destruct (beqb e utf8); [reflexivity|]. cbn [map List.concat]. rewrite !app_nil_r, <- app_assoc. reflexivity.
Qed.

Lemma extra_sec_lines xs : forallb wf_extra xs = true ->
  List.concat (map (fun x => x ++ [LF]) (map fmt_extra xs)) = List.concat (flat_map extra_lines xs).
Proof.
  induction xs as [|[k v] xs IH]; [reflexivity|]. cbn [forallb]. intros H. apply andb_true_iff in H as [_ H2].
  cbn [map flat_map List.concat]. rewrite concat_app, (IH H2). f_equal.
  unfold fmt_extra, extra_lines. cbn [fst snd]. destruct v as [|y v].
  - cbn [List.concat]. rewrite app_nil_r; reflexivity.
  - change (k ++ [SPC] ++ indent_nl (trim_suffix_lf (y :: v))) with (k ++ SPC :: indent_nl (trim_suffix_lf (y :: v))).
    apply val_lines_concat.
Qed.

Lemma sig_sec_lines K s : List.concat (map (fun x => x ++ [LF]) (sig_secs K s)) = List.concat (sig_lines K s).
Proof.
  unfold sig_secs, sig_lines. destruct s as [|y s]; [reflexivity|]. cbn [map List.concat]. rewrite app_nil_r.
  apply val_lines_concat.
Qed.

Ltac norm_app := repeat (rewrite <- ?app_assoc; cbn [app]); rewrite <- ?app_assoc.

Lemma parents_piece ps :
  flat_map (fun p => k_parent ++ [SPC] ++ hex_encode p ++ [LF]) ps = List.concat (map parent_line ps).
Proof.
  induction ps as [|p ps IH]; [reflexivity|]. cbn [flat_map map List.concat]. rewrite IH. unfold parent_line.
  norm_app. reflexivity.
Qed.

Lemma encode_commit_lines c : wf_commit c = true ->
  encode_commit c true = List.concat (hdr_lines c) ++ c_msg c.
Proof.
  intros Hwf. unfold wf_commit in Hwf.
  apply andb_true_iff in Hwf as [Hwf Hs2]. apply andb_true_iff in Hwf as [Hwf Hs1].
  apply andb_true_iff in Hwf as [Hwf Hx]. apply andb_true_iff in Hwf as [Hwf He2].
  apply andb_true_iff in Hwf as [Hwf He1].
  assert (Hene : c_enc c <> []) by (destruct (c_enc c); [discriminate|discriminate]).
  unfold encode_commit.
  rewrite (enc_piece _ Hene), (extra_piece _ Hx), !sig_piece.
  assert (E : lfs (enc_secs (c_enc c)) ++ lfs (map fmt_extra (c_extra c)) ++
              (lfs (sig_secs k_gpgsig (c_sig c)) ++ lfs (sig_secs k_gpgsig256 (c_sig256 c))) ++ [LF; LF] ++ c_msg c
              = lfs (sections c) ++ [LF] ++ [LF] ++ c_msg c).
  { unfold sections. rewrite !lfs_app, <- !app_assoc. reflexivity. }
  (* regroup: everything from "committer" to the blank line *)
  set (H := k_committer ++ [SPC] ++ encode_ident (c_committer c)).
  assert (E2 : H ++ lfs (sections c) ++ [LF] = List.concat (ident_line k_committer (c_committer c) :: opt_lines c)).
  { unfold lfs. rewrite shift_sections. cbn [map List.concat].
    replace (H ++ [LF]) with (ident_line k_committer (c_committer c)) by reflexivity. f_equal.
    unfold sections, opt_lines. rewrite !map_app, !concat_app.
    f_equal; [apply enc_sec_lines|]. f_equal; [apply (extra_sec_lines _ Hx)|]. f_equal; apply sig_sec_lines. }
  rewrite parents_piece, E.
  transitivity ((k_tree ++ [SPC] ++ hex_encode (c_tree c) ++ [LF] ++ List.concat (map parent_line (c_parents c)) ++
                 k_author ++ [SPC] ++ encode_ident (c_author c) ++ [LF]) ++
                (H ++ lfs (sections c) ++ [LF]) ++ [LF] ++ c_msg c).
  - unfold H. norm_app. reflexivity.
  - rewrite E2. unfold hdr_lines, tree_line, ident_line. cbn [List.concat]. rewrite !concat_app. cbn [List.concat].
    norm_app. reflexivity.
Qed.

(* ---- every header line is a complete line ---- *)
Lemma no_lf_of_has b : has_byte LF b = false -> no_lf b = true.
Proof. intros H. now rewrite no_lf_has, H. Qed.

Lemma kline_cline K v : no_lf K = true -> no_lf v = true -> cline (K ++ SPC :: v ++ [LF]).
Proof.
  intros HK Hv. replace (K ++ SPC :: v ++ [LF]) with ((K ++ SPC :: v) ++ [LF]) by (rewrite <- app_assoc; reflexivity).
  apply cline_mk. rewrite no_lf_app, HK, no_lf_cons, Hv. reflexivity.
Qed.

Lemma wf_extra_parts k v : wf_extra (k, v) = true ->
  is_standard_header k = false /\ k <> [] /\ has_byte SPC k = false /\ no_lf k = true /\ last_is LF v = false.
Proof.
  unfold wf_extra. intros H. apply andb_true_iff in H as [H H4]. apply andb_true_iff in H as [H H3].
  apply andb_true_iff in H as [H1 H2]. apply negb_true_iff in H1, H3, H4. apply orb_false_iff in H3 as [H31 H32].
  repeat split; try assumption; [now destruct k|now apply no_lf_of_has].
Qed.

Lemma extra_lines_cline kv : wf_extra kv = true -> Forall cline (extra_lines kv).
Proof.
  destruct kv as [k v]. intros H. destruct (wf_extra_parts _ _ H) as [_ [_ [_ [Hk _]]]].
  unfold extra_lines. cbn [fst snd]. destruct v; [|now apply val_lines_cline].
  constructor; [now apply cline_mk|constructor].
Qed.

Lemma sig_lines_cline K s : no_lf K = true -> Forall cline (sig_lines K s).
Proof. intros HK. unfold sig_lines. destruct s; [constructor|now apply val_lines_cline]. Qed.

Lemma wf_commit_parts c : wf_commit c = true ->
  oid_ok (c_tree c) = true /\ forallb oid_ok (c_parents c) = true /\
  wf_ident (c_author c) = true /\ wf_ident (c_committer c) = true /\
  c_enc c <> [] /\ no_lf (c_enc c) = true /\ forallb wf_extra (c_extra c) = true /\
  wf_sigval (c_sig c) = true /\ wf_sigval (c_sig256 c) = true.
Proof.
  unfold wf_commit. intros H.
  apply andb_true_iff in H as [H Hs2]. apply andb_true_iff in H as [H Hs1].
  apply andb_true_iff in H as [H Hx]. apply andb_true_iff in H as [H He2].
  apply andb_true_iff in H as [H He1]. apply andb_true_iff in H as [H Hc].
  apply andb_true_iff in H as [H Ha]. apply andb_true_iff in H as [Ht Hp].
  apply negb_true_iff in He2.
  repeat split; try assumption; [now destruct (c_enc c)|now apply no_lf_of_has].
Qed.

Lemma oid_plain h : oid_ok h = true -> no_lf (hex_encode h) = true /\ has_byte SPC (hex_encode h) = false.
Proof. unfold oid_ok. intros H. apply andb_true_iff in H as [H _]. now apply hex_encode_plain. Qed.

Lemma hdr_lines_cline c : wf_commit c = true -> Forall cline (hdr_lines c).
Proof.
  intros Hwf. destruct (wf_commit_parts _ Hwf) as [Ht [Hp [Ha [Hc [_ [He [Hx [_ _]]]]]]]].
  unfold hdr_lines. constructor.
  - apply kline_cline; [reflexivity|]. now apply oid_plain.
  - rewrite !Forall_app. repeat split.
    + rewrite forallb_forall in Hp. apply Forall_forall. intros l Hl. apply in_map_iff in Hl as [p [<- Hin]].
      apply kline_cline; [reflexivity|]. now apply oid_plain, Hp.
    + constructor; [|constructor; [|constructor]]; (apply kline_cline; [reflexivity|now apply encode_ident_no_lf]).
    + unfold opt_lines. rewrite !Forall_app. repeat split.
      * unfold enc_lines. destruct (beqb (c_enc c) utf8); constructor; [|constructor]. now apply kline_cline.
      * rewrite forallb_forall in Hx. apply Forall_forall. intros l Hl. apply in_flat_map in Hl as [kv [Hin Hl]].
        pose proof (extra_lines_cline kv (Hx _ Hin)) as F. rewrite Forall_forall in F. now apply F.
      * now apply sig_lines_cline.
      * now apply sig_lines_cline.
    + constructor; [|constructor]. exists []. now split.
Qed.

(* ---- running the scanner over the header lines ---- *)
Definition hdrlike (st : cstate) : Prop :=
  match st with SHeaders | SPgp | SPgp256 | SExtra _ _ => True | _ => False end.

Lemma cstep_hdrlike st c se eof l : hdrlike st -> first_is SPC l = false ->
  cstep st c se eof l = Ok (on_headers (cfinish st c) se l).
Proof. intros Hh Hs. destruct st; try contradiction; cbn [cstep cfinish]; rewrite ?Hs; reflexivity. Qed.

Lemma first_is_app_ne c K r : K <> [] -> first_is c (K ++ r) = first_is c K.
Proof. destruct K; [contradiction|reflexivity]. Qed.

Lemma is_blank_kline K v : K <> [] -> is_blank (K ++ SPC :: v) = false.
Proof. destruct K as [|x [|y K]]; [contradiction|reflexivity|reflexivity]. Qed.

(* the tree line *)
Lemma run_tree t rest : oid_ok t = true ->
  decode_commit_lines (tree_line t :: rest) = crun SParents (commit_init t) false rest.
Proof.
  intros Ht. destruct (oid_plain _ Ht) as [H1 H2]. unfold decode_commit_lines, tree_line.
  rewrite (is_blank_kline k_tree); [|discriminate].
  rewrite (split_header_kv k_tree _ eq_refl eq_refl H1).
  replace (beqb k_tree k_tree) with true by reflexivity. cbn [negb]. rewrite (parse_oid_hex _ Ht).
  replace (ends_nl (k_tree ++ SPC :: hex_encode t ++ [LF])) with true; [reflexivity|].
  symmetry. apply cline_ends. now apply kline_cline.
Qed.

Lemma set_parents_parents c x : c_parents (set_parents c x) = x.
Proof. reflexivity. Qed.
Lemma set_parents_twice c x y : set_parents (set_parents c x) y = set_parents c y.
Proof. reflexivity. Qed.

(* parent lines *)
Lemma run_parents ps : forallb oid_ok ps = true -> forall c se rest,
  crun SParents c se (map parent_line ps ++ rest) = crun SParents (set_parents c (c_parents c ++ ps)) se rest.
Proof.
  induction ps as [|p ps IH]; intros Hp c se rest.
  - cbn [map app]. rewrite app_nil_r. now destruct c.
  - cbn [forallb] in Hp. apply andb_true_iff in Hp as [Hp1 Hp2].
    destruct (oid_plain _ Hp1) as [H1 H2].
    cbn [map app crun cstep].
    replace (ends_nl (parent_line p)) with true
      by (symmetry; apply cline_ends; unfold parent_line; now apply kline_cline).
    cbn [negb]. unfold parent_line at 1 2. rewrite (is_blank_kline k_parent); [|discriminate].
    rewrite (split_header_kv k_parent _ eq_refl eq_refl H1).
    replace (beqb k_parent k_parent) with true by reflexivity. rewrite (parse_oid_hex _ Hp1).
    rewrite (IH Hp2), set_parents_parents, set_parents_twice, <- app_assoc. reflexivity.
Qed.

Lemma crun_step st c se l rest c' se' st' :
  ends_nl l = true -> cstep st c se false l = Ok (c', se', st') ->
  crun st c se (l :: rest) = crun st' c' se' rest.
Proof. intros He Hs. cbn [crun]. rewrite He. cbn [negb]. now rewrite Hs. Qed.

Lemma std_false k : is_standard_header k = false ->
  (beqb k k_tree || beqb k k_parent || beqb k k_author || beqb k k_committer = false) /\
  beqb k k_encoding = false /\ beqb k k_gpgsig = false /\ beqb k k_gpgsig256 = false.
Proof.
  unfold is_standard_header. intros H.
  apply orb_false_iff in H as [H H7]. apply orb_false_iff in H as [H H6]. apply orb_false_iff in H as [H H5].
  now rewrite H, H5, H6, H7.
Qed.

Lemma ident_line_facts K i : K <> [] -> no_lf K = true -> has_byte SPC K = false -> wf_ident i = true ->
  ends_nl (ident_line K i) = true /\ is_blank (ident_line K i) = false /\
  split_header (ident_line K i) = (K, encode_ident i).
Proof.
  intros HK1 HK2 HK3 Hi. pose proof (encode_ident_no_lf _ Hi) as Hn. unfold ident_line. repeat split.
  - apply cline_ends. now apply kline_cline.
  - now apply is_blank_kline.
  - now apply split_header_kv.
Qed.

(* author and committer lines *)
Lemma run_author c se a : wf_ident a = true ->
  cstep SParents c se false (ident_line k_author a) = Ok (set_author c a, se, SCommitter).
Proof.
  intros Ha. destruct (ident_line_facts k_author a ltac:(discriminate) eq_refl eq_refl Ha) as [_ [Hb Hs]].
  cbn [cstep]. unfold on_author. rewrite Hb, Hs.
  replace (beqb k_author k_parent) with false by reflexivity.
  replace (beqb k_author k_author) with true by reflexivity. now rewrite (ident_dec_enc _ Ha).
Qed.

Lemma run_committer c se a : wf_ident a = true ->
  cstep SCommitter c se false (ident_line k_committer a) = Ok (set_committer c a, se, SHeaders).
Proof.
  intros Ha. destruct (ident_line_facts k_committer a ltac:(discriminate) eq_refl eq_refl Ha) as [_ [Hb Hs]].
  cbn [cstep]. unfold on_committer. rewrite Hb, Hs.
  replace (beqb k_committer k_committer) with true by reflexivity. now rewrite (ident_dec_enc _ Ha).
Qed.

(* the optional encoding line *)
Lemma run_enc st c e rest : hdrlike st -> no_lf e = true ->
  exists st' c' se', crun st c false (enc_lines e ++ rest) = crun st' c' se' rest /\ hdrlike st' /\
                     cfinish st' c' = (if beqb e utf8 then cfinish st c else set_enc (cfinish st c) e).
Proof.
  intros Hh He. unfold enc_lines. destruct (beqb e utf8).
  - exists st, c, false. split; [reflexivity|split; [exact Hh|reflexivity]].
  - exists SHeaders, (set_enc (cfinish st c) e), true. split; [|split; [exact I|reflexivity]].
    cbn [app]. apply crun_step; [apply cline_ends; now apply kline_cline|].
    rewrite (cstep_hdrlike st c false false (k_encoding ++ SPC :: e ++ [LF]) Hh eq_refl). unfold on_headers.
    rewrite (is_blank_kline k_encoding); [|discriminate].
    rewrite (split_header_kv k_encoding _ eq_refl eq_refl He). reflexivity.
Qed.

(* continuation lines *)
Lemma run_extra_conts ss : Forall (fun s => no_lf s = true) ss -> forall k acc c se rest,
  crun (SExtra k acc) c se (map (fun s => SPC :: s ++ [LF]) ss ++ rest) =
  crun (SExtra k (acc ++ List.concat (map (fun s => s ++ [LF]) ss))) c se rest.
Proof.
  induction 1 as [|s ss Hs _ IH]; intros k acc c se rest.
  - cbn [map List.concat app]. now rewrite app_nil_r.
  - cbn [map app List.concat].
    rewrite (crun_step (SExtra k acc) c se (SPC :: s ++ [LF]) _ c se (SExtra k (acc ++ s ++ [LF]))).
    + rewrite IH. now rewrite <- app_assoc.
    + apply cline_ends. change (SPC :: s ++ [LF]) with ((SPC :: s) ++ [LF]). apply cline_mk. now rewrite no_lf_cons, Hs.
    + reflexivity.
Qed.

Lemma run_pgp_conts ss : Forall (fun s => no_lf s = true) ss -> forall c se rest,
  crun SPgp c se (map (fun s => SPC :: s ++ [LF]) ss ++ rest) =
  crun SPgp (set_sig c (c_sig c ++ List.concat (map (fun s => s ++ [LF]) ss))) se rest.
Proof.
  induction 1 as [|s ss Hs _ IH]; intros c se rest.
  - cbn [map List.concat app]. rewrite app_nil_r. now destruct c.
  - cbn [map app List.concat].
    rewrite (crun_step SPgp c se (SPC :: s ++ [LF]) _ (set_sig c (c_sig c ++ s ++ [LF])) se SPgp).
    + rewrite IH. destruct c as [t0 ps0 a0 cm0 e0 x0 s0 s1 m0]. unfold set_sig.
      cbn [c_tree c_parents c_author c_committer c_enc c_extra c_sig c_sig256 c_msg]. now rewrite <- app_assoc.
    + apply cline_ends. change (SPC :: s ++ [LF]) with ((SPC :: s) ++ [LF]). apply cline_mk. now rewrite no_lf_cons, Hs.
    + reflexivity.
Qed.

Lemma run_pgp256_conts ss : Forall (fun s => no_lf s = true) ss -> forall c se rest,
  crun SPgp256 c se (map (fun s => SPC :: s ++ [LF]) ss ++ rest) =
  crun SPgp256 (set_sig256 c (c_sig256 c ++ List.concat (map (fun s => s ++ [LF]) ss))) se rest.
Proof.
  induction 1 as [|s ss Hs _ IH]; intros c se rest.
  - cbn [map List.concat app]. rewrite app_nil_r. now destruct c.
  - cbn [map app List.concat].
    rewrite (crun_step SPgp256 c se (SPC :: s ++ [LF]) _ (set_sig256 c (c_sig256 c ++ s ++ [LF])) se SPgp256).
    + rewrite IH. destruct c as [t0 ps0 a0 cm0 e0 x0 s0 s1 m0]. unfold set_sig256.
      cbn [c_tree c_parents c_author c_committer c_enc c_extra c_sig c_sig256 c_msg]. now rewrite <- app_assoc.
    + apply cline_ends. change (SPC :: s ++ [LF]) with ((SPC :: s) ++ [LF]). apply cline_mk. now rewrite no_lf_cons, Hs.
    + reflexivity.
Qed.

Lemma trim_suffix_lf_id v : last_is LF v = false -> trim_suffix_lf v = v.
Proof.
  unfold last_is. induction v as [|x v IH]; [reflexivity|]. cbn [rev]. intros H.
  destruct v as [|y v].
  - cbn in *. now rewrite H.
  - change (trim_suffix_lf (x :: y :: v)) with (x :: trim_suffix_lf (y :: v)). rewrite IH; [reflexivity|].
    cbn [rev] in *. destruct (rev v ++ [y]) eqn:E; [destruct (rev v); discriminate|]. exact H.
Qed.

Lemma trim_suffix_lf_snoc v : v <> [] -> last_is LF v = true -> trim_suffix_lf v ++ [LF] = v.
Proof.
  unfold last_is. induction v as [|x v IH]; [contradiction|]. intros _. cbn [rev]. intros H.
  destruct v as [|y v].
  - cbn in *. apply N.eqb_eq in H. subst. reflexivity.
  - change (trim_suffix_lf (x :: y :: v)) with (x :: trim_suffix_lf (y :: v)). cbn [app]. rewrite IH; [reflexivity|discriminate|].
    cbn [rev] in *. destruct (rev v ++ [y]) eqn:E; [destruct (rev v); discriminate|]. exact H.
Qed.

Lemma first_is_key k r : k <> [] -> has_byte SPC k = false -> first_is SPC (k ++ r) = false.
Proof.
  destruct k as [|x k]; [contradiction|]. intros _ H. rewrite has_byte_cons in H. apply orb_false_iff in H as [H _].
  cbn. now rewrite N.eqb_sym.
Qed.

(* one extra header *)
Lemma run_extra1 st c se k v rest : hdrlike st -> wf_extra (k, v) = true ->
  exists st' c', crun st c se (extra_lines (k, v) ++ rest) = crun st' c' se rest /\ hdrlike st' /\
                 cfinish st' c' = set_extra (cfinish st c) (c_extra (cfinish st c) ++ [(k, v)]).
Proof.
  intros Hh Hwf. destruct (wf_extra_parts _ _ Hwf) as [Hstd [Hne [Hsp [Hlf Hlast]]]].
  destruct (std_false _ Hstd) as [S1 [S2 [S3 S4]]].
  set (C := cfinish st c). unfold extra_lines. cbn [fst snd]. destruct v as [|y v].
  - exists SHeaders, (set_extra C (c_extra C ++ [(k, [])])). split; [|split; [exact I|reflexivity]].
    cbn [app]. apply crun_step; [apply cline_ends; now apply cline_mk|].
    rewrite (cstep_hdrlike _ _ _ _ _ Hh (first_is_key _ _ Hne Hsp)). fold C. unfold on_headers.
    replace (is_blank (k ++ [LF])) with false by (destruct k as [|a [|b k]]; [contradiction|reflexivity|reflexivity]).
    rewrite (split_header_k _ Hlf Hsp), S1, S2, S3, S4, (parse_extra_header_k _ Hlf Hsp). reflexivity.
  - set (w := trim_suffix_lf (y :: v)). destruct (segs_no_lf w) as [N1 N2].
    exists (SExtra k (fst (segs w) ++ [LF] ++ List.concat (map (fun s => s ++ [LF]) (snd (segs w))))), C.
    split; [|split; [exact I|]].
    + unfold val_lines. cbn [app].
      rewrite (crun_step st c se _ _ C se (SExtra k (fst (segs w) ++ [LF]))).
      * rewrite (run_extra_conts _ N2). now rewrite <- app_assoc.
      * apply cline_ends. now apply kline_cline.
      * rewrite (cstep_hdrlike _ _ _ _ _ Hh (first_is_key _ _ Hne Hsp)). fold C. unfold on_headers.
        rewrite (is_blank_kline k _ Hne), (split_header_kv k _ Hlf Hsp N1), S1, S2, S3, S4.
        now rewrite (parse_extra_header_kv k (fst (segs w) ++ [LF]) Hlf Hsp).
    + cbn [cfinish]. unfold finalise_extra. rewrite val_lines_acc, trim_right_snoc. unfold w.
      now rewrite (trim_suffix_lf_id _ Hlast), (trim_right_id _ _ Hlast).
Qed.

Lemma set_extra_extra c x : c_extra (set_extra c x) = x.
Proof. reflexivity. Qed.
Lemma set_extra_twice c x y : set_extra (set_extra c x) y = set_extra c y.
Proof. reflexivity. Qed.

Lemma run_extras xs : forallb wf_extra xs = true -> forall st c se rest, hdrlike st ->
  exists st' c', crun st c se (flat_map extra_lines xs ++ rest) = crun st' c' se rest /\ hdrlike st' /\
                 cfinish st' c' = set_extra (cfinish st c) (c_extra (cfinish st c) ++ xs).
Proof.
  induction xs as [|[k v] xs IH]; intros Hwf st c se rest Hh.
  - exists st, c. split; [reflexivity|split; [exact Hh|]]. rewrite app_nil_r. now destruct (cfinish st c).
  - cbn [forallb] in Hwf. apply andb_true_iff in Hwf as [H1 H2].
    cbn [flat_map]. rewrite <- app_assoc.
    destruct (run_extra1 st c se k v (flat_map extra_lines xs ++ rest) Hh H1) as [st1 [c1 [E1 [Hh1 F1]]]].
    destruct (IH H2 st1 c1 se rest Hh1) as [st2 [c2 [E2 [Hh2 F2]]]].
    exists st2, c2. split; [now rewrite E1|split; [exact Hh2|]].
    rewrite F2, F1, set_extra_extra, set_extra_twice, <- app_assoc. reflexivity.
Qed.

(* the signature headers *)
Lemma run_sig st c se s rest : hdrlike st -> wf_sigval s = true ->
  exists st' c', crun st c se (sig_lines k_gpgsig s ++ rest) = crun st' c' se rest /\ hdrlike st' /\
                 cfinish st' c' = set_sig (cfinish st c) (c_sig (cfinish st c) ++ s).
Proof.
  intros Hh Hwf. set (C := cfinish st c). unfold sig_lines. destruct s as [|y s].
  - exists st, c. split; [reflexivity|split; [exact Hh|]]. fold C. rewrite app_nil_r. now destruct C.
  - set (w := trim_suffix_lf (y :: s)). destruct (segs_no_lf w) as [N1 N2].
    exists SPgp, (set_sig C (c_sig C ++ (fst (segs w) ++ [LF]) ++ List.concat (map (fun x => x ++ [LF]) (snd (segs w))))).
    split; [|split; [exact I|]].
    + unfold val_lines. cbn [app].
      rewrite (crun_step st c se _ _ (set_sig C (c_sig C ++ fst (segs w) ++ [LF])) se SPgp).
      * rewrite (run_pgp_conts _ N2). destruct C as [t0 ps0 a0 cm0 e0 x0 s0 s1 m0]. unfold set_sig.
        cbn [c_tree c_parents c_author c_committer c_enc c_extra c_sig c_sig256 c_msg]. now rewrite <- !app_assoc.
      * apply cline_ends. now apply kline_cline.
      * rewrite (cstep_hdrlike st c se false (k_gpgsig ++ SPC :: fst (segs w) ++ [LF]) Hh eq_refl). fold C. unfold on_headers.
        rewrite (is_blank_kline k_gpgsig); [|discriminate].
        rewrite (split_header_kv k_gpgsig _ eq_refl eq_refl N1). reflexivity.
    + cbn [cfinish]. f_equal. f_equal. rewrite <- app_assoc, val_lines_acc. unfold w.
      apply trim_suffix_lf_snoc; [discriminate|exact Hwf].
Qed.

Lemma run_sig256 st c se s rest : hdrlike st -> wf_sigval s = true ->
  exists st' c', crun st c se (sig_lines k_gpgsig256 s ++ rest) = crun st' c' se rest /\ hdrlike st' /\
                 cfinish st' c' = set_sig256 (cfinish st c) (c_sig256 (cfinish st c) ++ s).
Proof.
  intros Hh Hwf. set (C := cfinish st c). unfold sig_lines. destruct s as [|y s].
  - exists st, c. split; [reflexivity|split; [exact Hh|]]. fold C. rewrite app_nil_r. now destruct C.
  - set (w := trim_suffix_lf (y :: s)). destruct (segs_no_lf w) as [N1 N2].
    exists SPgp256, (set_sig256 C (c_sig256 C ++ (fst (segs w) ++ [LF]) ++ List.concat (map (fun x => x ++ [LF]) (snd (segs w))))).
    split; [|split; [exact I|]].
    + unfold val_lines. cbn [app].
      rewrite (crun_step st c se _ _ (set_sig256 C (c_sig256 C ++ fst (segs w) ++ [LF])) se SPgp256).
      * rewrite (run_pgp256_conts _ N2). destruct C as [t0 ps0 a0 cm0 e0 x0 s0 s1 m0]. unfold set_sig256.
        cbn [c_tree c_parents c_author c_committer c_enc c_extra c_sig c_sig256 c_msg]. now rewrite <- !app_assoc.
      * apply cline_ends. now apply kline_cline.
      * rewrite (cstep_hdrlike st c se false (k_gpgsig256 ++ SPC :: fst (segs w) ++ [LF]) Hh eq_refl). fold C. unfold on_headers.
        rewrite (is_blank_kline k_gpgsig256); [|discriminate].
        rewrite (split_header_kv k_gpgsig256 _ eq_refl eq_refl N1). reflexivity.
    + cbn [cfinish]. f_equal. f_equal. rewrite <- app_assoc, val_lines_acc. unfold w.
      apply trim_suffix_lf_snoc; [discriminate|exact Hwf].
Qed.

Lemma run_blank st c se rest : hdrlike st -> crun st c se ([LF] :: rest) = crun SMessage (cfinish st c) se rest.
Proof.
  intros Hh. apply crun_step; [reflexivity|]. now rewrite (cstep_hdrlike st c se false [LF] Hh eq_refl).
Qed.

Theorem commit_dec_enc : forall c, wf_commit c = true -> decode_commit (encode_commit c true) = Ok c.
Proof.
  intros c Hwf. destruct (wf_commit_parts _ Hwf) as [Ht [Hp [Ha [Hc [Hene [He [Hx [Hs1 Hs2]]]]]]]].
  unfold decode_commit. rewrite (encode_commit_lines _ Hwf), (split_lines_clines _ (hdr_lines_cline _ Hwf)).
  unfold hdr_lines. cbn [app]. rewrite (run_tree _ _ Ht). rewrite <- app_assoc, (run_parents _ Hp).
  cbn [app].
  destruct (ident_line_facts k_author (c_author c) ltac:(discriminate) eq_refl eq_refl Ha) as [Ea _].
  destruct (ident_line_facts k_committer (c_committer c) ltac:(discriminate) eq_refl eq_refl Hc) as [Ec _].
  rewrite (crun_step _ _ _ _ _ _ _ _ Ea (run_author _ _ _ Ha)).
  rewrite (crun_step _ _ _ _ _ _ _ _ Ec (run_committer _ _ _ Hc)).
  unfold opt_lines. rewrite <- !app_assoc.
  destruct (run_enc SHeaders (set_committer (set_author (set_parents (commit_init (c_tree c)) (c_parents (commit_init (c_tree c)) ++ c_parents c)) (c_author c)) (c_committer c))
                    (c_enc c) (flat_map extra_lines (c_extra c) ++ sig_lines k_gpgsig (c_sig c) ++ sig_lines k_gpgsig256 (c_sig256 c) ++ [[LF]] ++ split_lines (c_msg c)) I He)
    as [st1 [c1 [se1 [E1 [H1 F1]]]]].
  refine (eq_trans E1 _).
  destruct (run_extras _ Hx st1 c1 se1 (sig_lines k_gpgsig (c_sig c) ++ sig_lines k_gpgsig256 (c_sig256 c) ++ [[LF]] ++ split_lines (c_msg c)) H1)
    as [st2 [c2 [E2 [H2 F2]]]].
  refine (eq_trans E2 _).
  destruct (run_sig st2 c2 se1 (c_sig c) (sig_lines k_gpgsig256 (c_sig256 c) ++ [[LF]] ++ split_lines (c_msg c)) H2 Hs1)
    as [st3 [c3 [E3 [H3 F3]]]].
  refine (eq_trans E3 _).
  destruct (run_sig256 st3 c3 se1 (c_sig256 c) ([[LF]] ++ split_lines (c_msg c)) H3 Hs2) as [st4 [c4 [E4 [H4 F4]]]].
  refine (eq_trans E4 _). cbn [app]. rewrite (run_blank _ _ _ _ H4), (crun_message _ (split_lines_abl _)), concat_split_lines.
  rewrite F4, F3, F2, F1. cbn [cfinish].
  destruct c as [t0 ps0 a0 cm0 e0 x0 s0 s1 m0]. cbn [c_tree c_parents c_author c_committer c_enc c_extra c_sig c_sig256 c_msg] in *.
  destruct (beqb e0 utf8) eqn:Eu.
  - apply beqb_eq in Eu. subst e0. reflexivity.
  - reflexivity.
Qed.
