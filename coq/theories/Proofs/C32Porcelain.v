(* Proofs/C32Porcelain.v — consequences of a sparse reset / checkout in the flat
   model of Model/SparseCheckout.v: flags, materialisation, untracked files. *)
From Coq Require Import List NArith Arith Lia Bool.
From GoGit Require Import Base.Out Model.SparseCheckout Spec.SparseSpec Proofs.C32.
Import ListNotations.
Local Open Scope N_scope.

(* ---- maps ---- *)
Lemma lookup_remove_same n m : lookup n (remove n m) = None.
Proof.
  induction m as [|[k v] m IH]; cbn; [reflexivity|].
  destruct (bytes_eqb k n) eqn:E; cbn; [exact IH|]. now rewrite E.
Qed.

Lemma lookup_remove_other n n' m : n' <> n -> lookup n' (remove n m) = lookup n' m.
Proof.
  intros Hne. induction m as [|[k v] m IH]; cbn; [reflexivity|].
  destruct (bytes_eqb k n) eqn:E; cbn.
  - apply bytes_eqb_eq in E. subst k.
    replace (bytes_eqb n n') with false by (symmetry; apply bytes_eqb_neq; congruence). exact IH.
  - destruct (bytes_eqb k n'); [reflexivity|exact IH].
Qed.

Lemma lookup_set_same n v m : lookup n (set n v m) = Some v.
Proof. unfold set. cbn. now rewrite bytes_eqb_refl. Qed.

Lemma lookup_set_other n n' v m : n' <> n -> lookup n' (set n v m) = lookup n' m.
Proof.
  intros Hne. unfold set. cbn.
  replace (bytes_eqb n n') with false by (symmetry; apply bytes_eqb_neq; congruence).
  now apply lookup_remove_other.
Qed.

Lemma lookup_filter (p : bytes -> bool) n m :
  lookup n (filter (fun kv => p (fst kv)) m) = if p n then lookup n m else None.
Proof.
  induction m as [|[k v] m IH]; cbn; [now destruct (p n)|].
  destruct (p k) eqn:Ek; cbn.
  - destruct (bytes_eqb k n) eqn:E.
    + apply bytes_eqb_eq in E. subst k. now rewrite Ek.
    + exact IH.
  - destruct (bytes_eqb k n) eqn:E.
    + apply bytes_eqb_eq in E. subst k. rewrite Ek in IH. rewrite IH. now rewrite Ek.
    + exact IH.
Qed.

Lemma idx_find_remove_same n i : idx_find n (idx_remove n i) = None.
Proof.
  induction i as [|e i IH]; cbn; [reflexivity|].
  destruct (bytes_eqb (e_name e) n) eqn:E; cbn; [exact IH|]. now rewrite E.
Qed.

Lemma idx_find_remove_other n n' i : n' <> n -> idx_find n' (idx_remove n i) = idx_find n' i.
Proof.
  intros Hne. induction i as [|e i IH]; cbn; [reflexivity|].
  destruct (bytes_eqb (e_name e) n) eqn:E; cbn.
  - apply bytes_eqb_eq in E. rewrite E.
    replace (bytes_eqb n n') with false by (symmetry; apply bytes_eqb_neq; congruence). exact IH.
  - destruct (bytes_eqb (e_name e) n'); [reflexivity|exact IH].
Qed.

Lemma idx_find_set_same e i : idx_find (e_name e) (idx_set e i) = Some e.
Proof. unfold idx_set. cbn. now rewrite bytes_eqb_refl. Qed.

Lemma idx_find_set_other e n' i : n' <> e_name e -> idx_find n' (idx_set e i) = idx_find n' i.
Proof.
  intros Hne. unfold idx_set. cbn.
  replace (bytes_eqb (e_name e) n') with false by (symmetry; apply bytes_eqb_neq; congruence).
  now apply idx_find_remove_other.
Qed.

Lemma idx_find_In n i e : idx_find n i = Some e -> In e i /\ e_name e = n.
Proof.
  induction i as [|x i IH]; cbn; [discriminate|].
  destruct (bytes_eqb (e_name x) n) eqn:E.
  - intros [= <-]. apply bytes_eqb_eq in E. auto.
  - intros H. destruct (IH H). auto.
Qed.

Lemma In_idx_find e i : NoDup (map e_name i) -> In e i -> idx_find (e_name e) i = Some e.
Proof.
  induction i as [|x i IH]; cbn; intros Hnd Hin; [contradiction|].
  inversion Hnd as [|? ? Hx Hnd']; subst.
  destruct Hin as [->|Hin]; [now rewrite bytes_eqb_refl|].
  destruct (bytes_eqb (e_name x) (e_name e)) eqn:E; [|now apply IH].
  apply bytes_eqb_eq in E. exfalso. apply Hx. rewrite E. now apply in_map.
Qed.

Lemma In_idx_set e x i : In x (idx_set e i) -> x = e \/ (In x i /\ e_name x <> e_name e).
Proof.
  unfold idx_set, idx_remove. cbn. intros [<-|H]; [now left|]. right.
  apply filter_In in H as [H1 H2]. split; auto. apply negb_true_iff in H2. now apply bytes_eqb_neq in H2.
Qed.

(* ---- every entry of the result carries the flag SkipUnless gave its name ---- *)
Definition flag_ok (dirs : list bytes) (e : entry) : Prop := e_skip e = negb (included dirs (e_name e)).

Lemma skip_unless_flag_ok dirs i e : In e (skip_unless dirs i) -> flag_ok dirs e.
Proof. unfold skip_unless. intros H. apply in_map_iff in H as [x [<- _]]. reflexivity. Qed.

Lemma write_entries_flags t sel dirs : forall todo i w i' w',
  write_entries t sel todo i w = Some (i', w') ->
  (forall e, In e todo -> flag_ok dirs e) -> (forall e, In e i -> flag_ok dirs e) ->
  forall e, In e i' -> flag_ok dirs e.
Proof.
  induction todo as [|x todo IH]; intros i w i' w' Hw Htodo Hi e He; cbn in Hw.
  - injection Hw as <- <-. now apply Hi.
  - destruct (negb (e_skip x) && _ && sel (e_name x))%bool eqn:Ec.
    + destruct (lookup (e_name x) t) as [c|]; [|discriminate].
      eapply IH; [exact Hw| | |exact He].
      * intros e0 H0. apply Htodo. now right.
      * intros e0 H0. apply In_idx_set in H0. destruct H0 as [->|[H0 _]]; [|now apply Hi].
        unfold flag_ok. cbn. apply andb_true_iff in Ec as [Ec _]. apply andb_true_iff in Ec as [Ec _].
        apply negb_true_iff in Ec. rewrite <- Ec. apply Htodo. now left.
    + eapply IH; [exact Hw| |exact Hi|exact He]. intros e0 H0. apply Htodo. now right.
Qed.

Theorem reset_flags prev m t dirs sv s s' :
  dirs <> [] -> reset_core prev m t dirs sv s = (SOk, s') ->
  forall e, In e (s_idx s') -> e_skip e = false <-> Selected dirs (e_name e).
Proof.
  intros Hd Hr e He.
  assert (Hflag : flag_ok dirs e).
  { unfold reset_core in Hr.
    destruct (match m with Merge => unstaged (s_idx s) (s_wt s) | Hard => false end); [discriminate|].
    destruct (match dirs with [] => false | _ :: _ => negb sv && negb (tree_contains_dirs t dirs) end); [discriminate|].
    destruct (reset_index t dirs (s_idx s)) as [i1 removed] eqn:Eri.
    assert (Hi1 : forall x, In x i1 -> flag_ok dirs x).
    { unfold reset_index in Eri. injection Eri as <- _. destruct dirs; [congruence|]. intros x. apply skip_unless_flag_ok. }
    destruct m.
    - unfold reset_worktree_to_tree in Hr.
      destruct (write_entries t (fun _ => true) i1 i1 _) as [[i2 w2]|] eqn:Ew; [|discriminate].
      injection Hr as <-. cbn in He. eapply write_entries_flags; eauto.
    - destruct removed.
      + injection Hr as <-. cbn in He. now apply Hi1.
      + unfold reset_worktree in Hr.
        destruct (write_entries t _ i1 i1 _) as [[i2 w2]|] eqn:Ew; [|discriminate].
        injection Hr as <-. cbn in He. eapply write_entries_flags; eauto. }
  unfold flag_ok in Hflag. rewrite Hflag, negb_false_iff. apply included_iff.
Qed.

(* ---- what write_entries does, entry by entry ---- *)
Definition differs (e : entry) (w : fmap) : bool :=
  match lookup (e_name e) w with Some c => negb (bytes_eqb c (e_data e)) | None => true end.

Lemma write_entries_spec t sel : forall todo i w i' w',
  NoDup (map e_name todo) -> write_entries t sel todo i w = Some (i', w') ->
  (forall n, ~ In n (map e_name todo) -> lookup n w' = lookup n w /\ idx_find n i' = idx_find n i) /\
  (forall e, In e todo ->
     if (negb (e_skip e) && differs e w && sel (e_name e))%bool
     then exists c, lookup (e_name e) t = Some c /\ idx_find (e_name e) i' = Some (mkE (e_name e) c false) /\
                    lookup (e_name e) w' = Some c
     else lookup (e_name e) w' = lookup (e_name e) w /\ idx_find (e_name e) i' = idx_find (e_name e) i).
Proof.
  induction todo as [|x todo IH]; intros i w i' w' Hnd Hw.
  - cbn in Hw. injection Hw as <- <-. split; [auto|intros e []].
  - inversion Hnd as [|? ? Hx Hnd']; subst. cbn [write_entries] in Hw. fold (differs x w) in Hw.
    destruct (negb (e_skip x) && differs x w && sel (e_name x))%bool eqn:Ec.
    + destruct (lookup (e_name x) t) as [c|] eqn:Et; [|discriminate].
      destruct (IH _ _ _ _ Hnd' Hw) as [A B]. split.
      * intros n Hn.
        assert (Hn1 : n <> e_name x) by (intros ->; apply Hn; cbn; now left).
        assert (Hn2 : ~ In n (map e_name todo)) by (intros Hin; apply Hn; cbn; now right).
        destruct (A n Hn2) as [A1 A2]. rewrite A1, A2.
        rewrite lookup_set_other by assumption. rewrite idx_find_set_other by (cbn; assumption). auto.
      * intros e [<-|He].
        -- rewrite Ec. exists c. destruct (A (e_name x) Hx) as [A1 A2]. rewrite A1, A2.
           rewrite lookup_set_same. split; [exact Et|]. split; [|reflexivity].
           exact (idx_find_set_same (mkE (e_name x) c false) i).
        -- assert (Hne : e_name e <> e_name x) by (intros E; apply Hx; rewrite <- E; now apply in_map).
           specialize (B e He). unfold differs in *. rewrite lookup_set_other in B by assumption.
           destruct (negb (e_skip e) && _ && sel (e_name e))%bool.
           ++ destruct B as [c' [B1 [B2 B3]]]. exists c'. auto.
           ++ destruct B as [B1 B2]. rewrite B1, B2.
              rewrite idx_find_set_other by (cbn; assumption). auto.
    + destruct (IH _ _ _ _ Hnd' Hw) as [A B]. split.
      * intros n Hn. apply A. intros Hin; apply Hn; cbn; now right.
      * intros e [<-|He]; [rewrite Ec; now apply A|now apply B].
Qed.

Lemma NoDup_map_filter {A B} (g : A -> B) (p : A -> bool) l : NoDup (map g l) -> NoDup (map g (filter p l)).
Proof.
  induction l as [|x l IH]; cbn; intros Hnd; [constructor|]. inversion Hnd as [|? ? Hx Hnd']; subst.
  destruct (p x); cbn; [|now apply IH]. constructor; [|now apply IH].
  intros Hin. apply Hx. apply in_map_iff in Hin as [y [E Hy]]. apply filter_In in Hy as [Hy _].
  rewrite <- E. now apply in_map.
Qed.

Lemma idx_set_nodup e i : NoDup (map e_name i) -> NoDup (map e_name (idx_set e i)).
Proof.
  intros Hnd. unfold idx_set, idx_remove. cbn. constructor; [|now apply NoDup_map_filter].
  intros Hin. apply in_map_iff in Hin as [y [E Hy]]. apply filter_In in Hy as [_ Hy].
  apply negb_true_iff, bytes_eqb_neq in Hy. congruence.
Qed.

Lemma write_entries_nodup t sel : forall todo i w i' w',
  write_entries t sel todo i w = Some (i', w') -> NoDup (map e_name i) -> NoDup (map e_name i').
Proof.
  induction todo as [|x todo IH]; intros i w i' w' Hw Hnd; cbn in Hw.
  - now injection Hw as <- <-.
  - destruct (negb (e_skip x) && _ && sel (e_name x))%bool.
    + destruct (lookup (e_name x) t); [|discriminate]. eapply IH; [exact Hw|]. now apply idx_set_nodup.
    + eapply IH; eauto.
Qed.

Lemma idx_find_none n i : ~ In n (map e_name i) -> idx_find n i = None.
Proof.
  induction i as [|e i IH]; cbn; intros H; [reflexivity|].
  destruct (bytes_eqb (e_name e) n) eqn:E; [apply bytes_eqb_eq in E; tauto|]. apply IH. tauto.
Qed.

Lemma idx_has_false n i : idx_has n i = false -> ~ In n (map e_name i).
Proof.
  unfold idx_has. intros H Hin. apply in_map_iff in Hin as [e [E He]].
  induction i as [|x i IH]; cbn in *; [contradiction|].
  destruct (bytes_eqb (e_name x) n) eqn:Ex; [discriminate|].
  destruct He as [->|He]; [rewrite E, bytes_eqb_refl in Ex; discriminate|now apply IH].
Qed.

Lemma NoDup_app_disjoint {A} (a b : list A) :
  NoDup a -> NoDup b -> (forall x, In x a -> ~ In x b) -> NoDup (a ++ b).
Proof.
  induction a as [|x a IH]; cbn; intros Ha Hb Hd; [exact Hb|].
  inversion Ha as [|? ? Hx Ha']; subst. constructor.
  - intros Hin. apply in_app_iff in Hin as [Hin|Hin]; [contradiction|]. apply (Hd x); auto.
  - apply IH; auto.
Qed.

(* ---- resetIndex keeps names distinct ---- *)
Lemma reset_index_nodup t dirs i :
  NoDup (map e_name i) -> NoDup (map fst t) -> NoDup (map e_name (fst (reset_index t dirs i))).
Proof.
  intros Hi Ht. unfold reset_index. cbn [fst].
  set (kept := filter (fun e => e_skip e || has (e_name e) t)%bool i).
  set (upd := map (fun e => if e_skip e then e else match lookup (e_name e) t with Some c => mkE (e_name e) c false | None => e end) kept).
  set (ins := filter (fun kv => negb (idx_has (fst kv) i)) t).
  assert (Hupd : map e_name upd = map e_name kept).
  { unfold upd. rewrite map_map. apply map_ext. intros e. destruct (e_skip e); [reflexivity|]. now destruct (lookup (e_name e) t). }
  assert (Hins : map e_name (map (fun kv => mkE (fst kv) (snd kv) false) ins) = map fst ins) by (rewrite map_map; reflexivity).
  assert (Hall : NoDup (map e_name (upd ++ map (fun kv => mkE (fst kv) (snd kv) false) ins))).
  { rewrite map_app, Hupd, Hins. apply NoDup_app_disjoint.
    - unfold kept. now apply NoDup_map_filter.
    - unfold ins. now apply NoDup_map_filter.
    - intros n Hk Hn. unfold kept in Hk. apply in_map_iff in Hk as [e [<- He]]. apply filter_In in He as [He _].
      unfold ins in Hn. apply in_map_iff in Hn as [kv [E Hkv]]. apply filter_In in Hkv as [_ Hkv].
      apply negb_true_iff in Hkv. apply idx_has_false in Hkv. apply Hkv. rewrite E. now apply in_map. }
  destruct dirs; [exact Hall|]. now rewrite skip_unless_names.
Qed.

(* ---- HardReset / forced checkout: the worktree agrees with the index and its flags ---- *)
Lemma In_name_find n i : In n (map e_name i) -> exists e, idx_find n i = Some e.
Proof.
  induction i as [|x i IH]; cbn; intros H; [contradiction|].
  destruct (bytes_eqb (e_name x) n) eqn:E; [now exists x|].
  destruct H as [H|H]; [rewrite H, bytes_eqb_refl in E; discriminate|now apply IH].
Qed.

Theorem hard_materialises prev t dirs sv s s' :
  NoDup (map e_name (s_idx s)) -> NoDup (map fst t) ->
  reset_core prev Hard t dirs sv s = (SOk, s') ->
  NoDup (map e_name (s_idx s')) /\
  (forall e, In e (s_idx s') ->
     has (e_name e) (s_wt s') = negb (e_skip e) /\
     (e_skip e = false -> lookup (e_name e) (s_wt s') = Some (e_data e))) /\
  (forall n, ~ In n (map e_name (s_idx s')) -> (has n prev && negb (has n t))%bool = false ->
     lookup n (s_wt s') = lookup n (s_wt s)).
Proof.
  intros Hi Ht Hr. unfold reset_core in Hr.
  destruct (match dirs with [] => false | _ :: _ => negb sv && negb (tree_contains_dirs t dirs) end); [discriminate|].
  pose proof (reset_index_nodup t dirs (s_idx s) Hi Ht) as Hnd1.
  destruct (reset_index t dirs (s_idx s)) as [i1 removed]. cbn [fst] in Hnd1.
  unfold reset_worktree_to_tree in Hr.
  set (w1 := filter (fun kv => negb (has (fst kv) prev && negb (has (fst kv) t))) (s_wt s)) in *.
  destruct (write_entries t (fun _ => true) i1 i1 w1) as [[i2 w2]|] eqn:Ew; [|discriminate].
  injection Hr as <-. cbn [s_idx s_wt].
  destruct (write_entries_spec t (fun _ => true) i1 i1 w1 i2 w2 Hnd1 Ew) as [A B].
  pose proof (write_entries_nodup _ _ _ _ _ _ _ Ew Hnd1) as Hnd2.
  set (keep := fun n : bytes => negb (match idx_find n i1 with Some e => e_skip e | None => false end)).
  assert (Hw3 : forall n, lookup n (filter (fun kv => negb (match idx_find (fst kv) i1 with Some e => e_skip e | None => false end)) w2)
                          = if keep n then lookup n w2 else None).
  { intros n. exact (lookup_filter keep n w2). }
  split; [exact Hnd2|]. split.
  - intros e' He'. pose proof (In_idx_find _ _ Hnd2 He') as Hf'.
    destruct (in_dec (list_eq_dec N.eq_dec) (e_name e') (map e_name i1)) as [Hin|Hnin].
    + destruct (In_name_find _ _ Hin) as [e Hf]. destruct (idx_find_In _ _ _ Hf) as [He Hname].
      specialize (B e He). rewrite Hname in B. unfold has. rewrite Hw3. unfold keep. rewrite Hf.
      destruct (negb (e_skip e) && differs e w1 && true)%bool eqn:Ec.
      * destruct B as [c [B1 [B2 B3]]]. rewrite Hf' in B2. injection B2 as ->. cbn [e_skip e_data e_name].
        apply andb_true_iff in Ec as [Ec _]. apply andb_true_iff in Ec as [Ec _]. apply negb_true_iff in Ec.
        rewrite Ec. cbn [negb]. rewrite B3. auto.
      * destruct B as [B1 B2]. rewrite Hf' in B2. rewrite Hf in B2. injection B2 as ->.
        destruct (e_skip e) eqn:Es; cbn [negb].
        -- split; [reflexivity|discriminate].
        -- rewrite B1. rewrite andb_true_r in Ec. cbn [negb andb] in Ec. unfold differs in Ec.
           destruct (lookup (e_name e) w1) as [c|]; [|discriminate].
           apply negb_false_iff, bytes_eqb_eq in Ec. subst c. auto.
    + destruct (A _ Hnin) as [_ A2]. rewrite Hf' in A2. rewrite idx_find_none in A2 by assumption. discriminate.
  - intros n Hn Hstep1.
    assert (Hn1 : ~ In n (map e_name i1)).
    { intros Hin. destruct (In_name_find _ _ Hin) as [e Hf]. destruct (idx_find_In _ _ _ Hf) as [He Hname].
      specialize (B e He). rewrite Hname in B. apply Hn.
      destruct (negb (e_skip e) && differs e w1 && true)%bool.
      - destruct B as [c [_ [B2 _]]]. apply idx_find_In in B2 as [B2 _]. apply in_map_iff. eexists; split; [|exact B2]. reflexivity.
      - destruct B as [_ B2]. rewrite Hf in B2. apply idx_find_In in B2 as [B2 B3]. apply in_map_iff. eexists; split; [|exact B2]. exact B3. }
    rewrite Hw3. unfold keep. rewrite (idx_find_none _ _ Hn1). cbn [negb].
    destruct (A _ Hn1) as [A1 _]. rewrite A1. unfold w1.
    rewrite (lookup_filter (fun k => negb (has k prev && negb (has k t))%bool) n (s_wt s)). now rewrite Hstep1.
Qed.

(* ---- when no entry is SkipWorktree beforehand the index becomes the target tree ---- *)
Definition no_skip (i : list entry) : bool := forallb (fun e => negb (e_skip e)) i.

Lemma lookup_In n c (m : fmap) : lookup n m = Some c -> In (n, c) m.
Proof.
  induction m as [|[k v] m IH]; cbn; [discriminate|].
  destruct (bytes_eqb k n) eqn:E; [intros [= <-]; apply bytes_eqb_eq in E; subst; now left|intros H; right; auto].
Qed.

Lemma In_lookup n c (m : fmap) : NoDup (map fst m) -> In (n, c) m -> lookup n m = Some c.
Proof.
  induction m as [|[k v] m IH]; cbn; intros Hnd Hin; [contradiction|]. inversion Hnd as [|? ? Hk Hnd']; subst.
  destruct Hin as [[= -> ->]|Hin]; [now rewrite bytes_eqb_refl|].
  destruct (bytes_eqb k n) eqn:E; [|now apply IH].
  apply bytes_eqb_eq in E. subst k. exfalso. apply Hk. change n with (fst (n, c)). now apply in_map.
Qed.

Lemma idx_has_true n i : idx_has n i = true -> exists e, In e i /\ e_name e = n.
Proof.
  unfold idx_has. destruct (idx_find n i) as [e|] eqn:E; [|discriminate]. intros _. exists e. now apply idx_find_In.
Qed.

Lemma reset_index_target t dirs i :
  NoDup (map fst t) -> no_skip i = true ->
  let i1 := fst (reset_index t dirs i) in
  (forall e, In e i1 -> lookup (e_name e) t = Some (e_data e)) /\
  (forall n c, lookup n t = Some c -> exists e, In e i1 /\ e_name e = n).
Proof.
  intros Ht Hns. unfold reset_index. cbn [fst].
  set (kept := filter (fun e => e_skip e || has (e_name e) t)%bool i).
  set (upd := map (fun e => if e_skip e then e else match lookup (e_name e) t with Some c => mkE (e_name e) c false | None => e end) kept).
  set (ins := filter (fun kv => negb (idx_has (fst kv) i)) t).
  set (i0 := upd ++ map (fun kv => mkE (fst kv) (snd kv) false) ins).
  assert (H0 : (forall e, In e i0 -> lookup (e_name e) t = Some (e_data e)) /\
               (forall n c, lookup n t = Some c -> exists e, In e i0 /\ e_name e = n)).
  { unfold no_skip in Hns. rewrite forallb_forall in Hns. split.
    - intros e He. unfold i0 in He. apply in_app_iff in He as [He|He].
      + unfold upd in He. apply in_map_iff in He as [x [<- Hx]]. unfold kept in Hx. apply filter_In in Hx as [Hx Hk].
        specialize (Hns x Hx). apply negb_true_iff in Hns. rewrite Hns in *. cbn [orb] in Hk. unfold has in Hk.
        destruct (lookup (e_name x) t) as [c|] eqn:El; [|discriminate]. cbn. exact El.
      + apply in_map_iff in He as [[k v] [<- Hkv]]. unfold ins in Hkv. apply filter_In in Hkv as [Hkv _]. cbn.
        now apply In_lookup.
    - intros n c Hl. destruct (idx_has n i) eqn:Eh.
      + destruct (idx_has_true _ _ Eh) as [x [Hx Hname]]. specialize (Hns x Hx). apply negb_true_iff in Hns.
        exists (mkE (e_name x) c false). split; [|exact Hname]. unfold i0. apply in_app_iff. left.
        unfold upd. apply in_map_iff. exists x. split.
        * rewrite Hns, Hname, Hl. reflexivity.
        * unfold kept. apply filter_In. split; [exact Hx|]. unfold has. rewrite Hname, Hl. now rewrite orb_true_r.
      + exists (mkE n c false). split; [|reflexivity]. unfold i0. apply in_app_iff. right.
        apply in_map_iff. exists (n, c). split; [reflexivity|]. unfold ins. apply filter_In. split; [now apply lookup_In|].
        cbn. now rewrite Eh. }
  destruct dirs as [|d dirs]; [exact H0|]. destruct H0 as [A B]. split.
  - intros e He. unfold skip_unless in He. apply in_map_iff in He as [x [<- Hx]]. cbn. now apply A.
  - intros n c Hl. destruct (B n c Hl) as [x [Hx Hname]].
    exists (mkE (e_name x) (e_data x) (negb (included (d :: dirs) (e_name x)))). split; [|exact Hname].
    unfold skip_unless. apply in_map_iff. now exists x.
Qed.

Theorem fresh_exact prev t dirs sv s s' :
  dirs <> [] -> NoDup (map e_name (s_idx s)) -> NoDup (map fst t) -> no_skip (s_idx s) = true ->
  reset_core prev Hard t dirs sv s = (SOk, s') ->
  forall n c, lookup n t = Some c ->
    (Selected dirs n -> lookup n (s_wt s') = Some c) /\ (~ Selected dirs n -> lookup n (s_wt s') = None).
Proof.
  intros Hd Hi Ht Hns Hr n c Hl.
  destruct (hard_materialises prev t dirs sv s s' Hi Ht Hr) as (Hnd' & Hmat & _).
  pose proof (reset_flags prev Hard t dirs sv s s' Hd Hr) as Hflags.
  (* the entry named n in the new index carries the target's blob *)
  assert (He : exists e, In e (s_idx s') /\ e_name e = n /\ e_data e = c).
  { unfold reset_core in Hr.
    destruct (match dirs with [] => false | _ :: _ => negb sv && negb (tree_contains_dirs t dirs) end); [discriminate|].
    pose proof (reset_index_target t dirs (s_idx s) Ht Hns) as [T1 T2].
    pose proof (reset_index_nodup t dirs (s_idx s) Hi Ht) as Hnd1.
    destruct (reset_index t dirs (s_idx s)) as [i1 removed]. cbn [fst] in *.
    unfold reset_worktree_to_tree in Hr.
    destruct (write_entries t (fun _ => true) i1 i1 _) as [[i2 w2]|] eqn:Ew; [|discriminate].
    injection Hr as <-. cbn [s_idx].
    destruct (write_entries_spec _ _ _ _ _ _ _ Hnd1 Ew) as [_ B].
    destruct (T2 n c Hl) as [e [Hin Hname]]. specialize (B e Hin). specialize (T1 e Hin). rewrite Hname in *.
    destruct (negb (e_skip e) && differs e _ && true)%bool.
    - destruct B as [c' [B1 [B2 _]]]. rewrite Hl in B1. injection B1 as <-.
      exists (mkE n c false). apply idx_find_In in B2. tauto.
    - destruct B as [_ B2]. rewrite (In_idx_find _ _ Hnd1 Hin) in B2 || (rewrite <- Hname in B2; rewrite (In_idx_find _ _ Hnd1 Hin) in B2).
      apply idx_find_In in B2 as [B2 _]. exists e. rewrite Hl in T1. injection T1 as T1. auto. }
  destruct He as (e & Hin & Hname & Hdata). destruct (Hmat e Hin) as [M1 M2]. specialize (Hflags e Hin).
  rewrite Hname, Hdata in *. split.
  - intros Hsel. apply M2. now apply Hflags.
  - intros Hnsel. unfold has in M1. destruct (e_skip e) eqn:Es.
    + cbn in M1. destruct (lookup n (s_wt s')); [discriminate|reflexivity].
    + exfalso. apply Hnsel. now apply Hflags.
Qed.

(* ---- the non-forced path does not re-materialise when only the selection changes ---- *)
Definition tA : fmap := [([97;47;88], [1]); ([98;47;90], [2])].      (* a/X, b/Z *)
Definition merge_switch_witness : list op := [OCheckout false tA [[97]]; OCheckout false tA [[98]]].

Lemma merge_switch_refuted :
  let s := fold_left (fun s o => snd (step s o)) merge_switch_witness (mkS tA [] []) in
  exists e, In e (s_idx s) /\ e_skip e = false /\ Selected [[98]] (e_name e) /\ lookup (e_name e) (s_wt s) = None.
Proof.
  cbn zeta. exists (mkE [98;47;90] [2] false). split; [vm_compute; auto|]. split; [reflexivity|]. split.
  - exists [98]. split; [now left|]. right. now exists [90].
  - vm_compute. reflexivity.
Qed.
