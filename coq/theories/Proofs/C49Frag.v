(* Proofs/C49Frag.v — the fragment of pattern lines on which go-git and git
   agree pattern by pattern (coherence), and the resulting theorems. *)
From Coq Require Import List NArith Bool Lia PeanoNat.
From GoGit Require Import Base.Out Model.Gitignore Spec.Glob Spec.PathGlob Spec.GitIgnore
     Proofs.C49Total Proofs.C49Wild Proofs.C49Path Proofs.C49Names Proofs.C49Walk Proofs.C49Segs
     Proofs.C49GoGlob Proofs.C49Lines Proofs.C49Trim Proofs.C49Slash Proofs.C49Wide.
Import ListNotations.
Local Open Scope N_scope.

(* ------------------------------------------------------------------ *)
(* patterns with a slash                                               *)

Definition den_seg (s : bytes) : option pseg :=
  if beq s dstar then Some SDirs
  else if is_nil s then None
  else match glob_of s with Some g => Some (SReg g) | None => None end.

Fixpoint den_segs (l : list bytes) : option (list pseg) :=
  match l with
  | [] => Some []
  | s :: r => match den_seg s, den_segs r with
              | Some x, Some F => Some (x :: F)
              | _, _ => None
              end
  end.

Definition strip_lead (b : bytes) : bytes :=
  match b with c :: r => if c =? cSLASH then r else b | [] => [] end.

(* body of a pattern with a leading or inner slash: every segment
   a non-empty glob of Spec/Glob or "**"; no "**" inside a segment, no escaped
   slash, no "**" at the end (pglob_of); plain segments, then groups of "**"s
   followed by exactly one plain segment (shape) *)
Definition slash_body (b : bytes) : bool :=
  has_slash b &&
  match den_segs (split_slash (strip_lead b) []) with
  | Some F => shape GR F && is_some (pglob_of (strip_lead b))
  | None => false
  end.

Lemma den_segs_F2 : forall l F, den_segs l = Some F -> Forall2 seg_den l F.
Proof.
  induction l as [|s r IH]; intros F H; cbn in H.
  - inversion H. constructor.
  - destruct (den_seg s) as [x|] eqn:Es; [|discriminate].
    destruct (den_segs r) as [F'|]; [|discriminate]. inversion H; subst.
    constructor; [|now apply IH].
    unfold den_seg in Es. destruct (beq s dstar) eqn:Eb.
    + inversion Es; subst. left. split; [reflexivity|]. now apply beq_eq.
    + destruct (is_nil s) eqn:En; [discriminate|].
      destruct (glob_of s) as [g|] eqn:Eg; [|discriminate]. inversion Es; subst.
      right. exists g. repeat split; assumption.
Qed.

Lemma glob_loop_lead b do d rel :
  glob_loop (split_slash b []) do d rel false false =
  glob_loop (split_slash (strip_lead b) []) do d rel false false.
Proof.
  destruct b as [|c r]; [reflexivity|]. unfold strip_lead.
  destruct (c =? cSLASH) eqn:E; [|reflexivity].
  cbn [split_slash]. rewrite E. cbn [rev glob_loop is_nil]. reflexivity.
Qed.

Lemma slash_coh l dir :
  nospace l -> is_bang l = false -> slash_body (body_of_line l) = true ->
  coh (parse_pattern l dir) (gparse l dir) /\ p_dom (parse_pattern l dir) = dir.
Proof.
  intros Hns Hb Hsb. rewrite (parse_gen l dir Hns Hb), (gparse_gen l dir Hb).
  split; [|reflexivity].
  set (b := body_of_line l) in *. set (pattern := strip_lead b) in *.
  unfold slash_body in Hsb. fold pattern in Hsb.
  apply andb_true_iff in Hsb. destruct Hsb as [Hsl H3].
  destruct (den_segs (split_slash pattern [])) as [F|] eqn:EF; [|discriminate].
  apply andb_true_iff in H3. destruct H3 as [Hshape Hpg].
  destruct (pglob_of pattern) as [gp|] eqn:Egp; [|discriminate].
  pose proof (den_segs_F2 _ _ EF) as HF2.
  destruct (split_slash_join pattern []) as (Hjoin & Hsegs & Hsne). cbn [rev app] in Hjoin.
  assert (Hall : forall s, In s (split_slash pattern []) -> has_slash s = false)
    by (intros s Hs; now apply Hsegs).
  unfold pglob_of in Egp. rewrite <- Hjoin in Egp at 2.
  destruct (pparse_join _ _ HF2 Hsne Hall _ _ Egp) as [Hgp Hwf].
  assert (HFne : F <> []) by (destruct F; [discriminate|discriminate]).
  split; [reflexivity|]. split; [reflexivity|].
  intros rel d Hne Hok. cbn [p_dom].
  (* go-git *)
  assert (Hgo : pat_match (mkPat dir (split_slash b []) false (ends_slash l) (has_slash b)) (dir ++ rel) d <> NoMatch <->
                GG (ends_slash l) d F rel).
  { unfold pat_match. cbn [p_dom p_isglob p_segs p_dironly p_incl].
    assert (Hl : Nat.leb (List.length (dir ++ rel)) (List.length dir) = false).
    { apply Nat.leb_gt. rewrite app_length. destruct rel; [congruence|cbn; lia]. }
    rewrite Hl, strip_domain_app, Hsl. unfold glob_match. cbn [p_segs p_dironly].
    rewrite glob_loop_lead. fold pattern.
    destruct (glob_loop_spec (ends_slash l) d F) as (_ & _ & HR).
    rewrite <- (HR Hshape HFne _ rel false HF2).
    destruct (glob_loop _ _ _ _ _ _); split; congruence. }
  rewrite Hgo.
  (* git *)
  assert (Hgit : forall k, (0 < k <= List.length rel)%nat -> forall flag,
            gpat_match (mkG b false (ends_slash l) (negb (has_slash b))
                            (match l with c :: r => (c =? cSTAR) && no_wildcard r | [] => false end)
                            (Nat.min (simple_length l) (List.length b)) dir)
                       (dir ++ firstn k rel) flag = true <->
            negb (ends_slash l && negb flag) = true /\ SMatch F (firstn k rel)).
  { intros k Hk flag. unfold gpat_match. cbn [g_mustdir g_nodir]. rewrite Hsl. cbn [negb].
    assert (Hfk : firstn k rel <> []).
    { destruct rel; [congruence|]. destruct k; [lia|discriminate]. }
    rewrite match_pathname_core; [|reflexivity|exact Hfk|cbn [g_nowild g_pat]; apply nowild_body].
    cbn [g_pat]. change (match b with c :: r => if c =? cSLASH then r else b | [] => [] end) with pattern.
    assert (Hpg' : pglob_of pattern = Some gp) by (unfold pglob_of; rewrite <- Hjoin at 2; exact Egp).
    rewrite <- (flatten_match F (firstn k rel) Hwf (path_ok_firstn _ _ Hok) Hfk), <- Hgp.
    rewrite <- (mp_core_spec pattern _ gp Hpg').
    destruct (ends_slash l && negb flag); cbn [negb]; split; try tauto; try discriminate. }
  split.
  - intros (pr & suf & -> & Hm & Hfin).
    pose proof (SMatch_nonempty _ _ Hm) as Hprne.
    exists (List.length pr). rewrite app_length.
    assert (Hk : (0 < List.length pr <= List.length pr + List.length suf)%nat).
    { destruct pr; [congruence|cbn; lia]. }
    split; [exact Hk|]. rewrite <- app_length. apply Hgit; [rewrite app_length; exact Hk|].
    rewrite firstn_app, firstn_all, Nat.sub_diag. cbn [firstn]. rewrite app_nil_r.
    split; [|exact Hm]. unfold dirflag. rewrite app_length.
    destruct (Nat.eqb (List.length pr) (List.length pr + List.length suf)) eqn:E.
    + apply Nat.eqb_eq in E. apply Hfin. destruct suf; [reflexivity|cbn in E; lia].
    + cbn. now rewrite andb_false_r.
  - intros (k & Hk & Hm). apply (Hgit k Hk) in Hm. destruct Hm as [Hflag Hm].
    exists (firstn k rel), (skipn k rel). split; [symmetry; apply firstn_skipn|]. split; [exact Hm|].
    intros Hsuf. unfold dirflag in Hflag.
    assert (k = List.length rel).
    { assert (List.length (skipn k rel) = O) by now rewrite Hsuf. rewrite skipn_length in H. lia. }
    subst k. rewrite Nat.eqb_refl in Hflag. exact Hflag.
Qed.

(* ------------------------------------------------------------------ *)
(* the fragment of lines                                               *)

(* an optional "!", then a body that is not empty and does not begin with "!":
   a slash-free glob of Spec/Glob (a name pattern), or a slash pattern as
   above; an optional trailing slash (directories only) *)
Definition wide_line (l : bytes) : bool :=
  let l0 := strip_bang l in
  let b := body_of_line l0 in
  negb (is_bang l0) && negb (is_nil b) &&
  ((negb (has_slash b) && is_some (glob_of b)) || slash_body b).

Lemma nobang_line_coh l dir : nospace l -> is_bang l = false ->
  ((negb (has_slash (body_of_line l)) && is_some (glob_of (body_of_line l))) || slash_body (body_of_line l)) = true ->
  coh (parse_pattern l dir) (gparse l dir) /\ p_dom (parse_pattern l dir) = dir.
Proof.
  intros Hns Hb H. apply orb_true_iff in H. destruct H as [H|H].
  - apply andb_true_iff in H. destruct H as [H1 H2]. apply negb_true_iff in H1.
    destruct (glob_of (body_of_line l)) as [g|] eqn:Eg; [|discriminate].
    eapply name_line_coh; eassumption.
  - now apply slash_coh.
Qed.

Lemma wide_line_coh l dir : nospace l -> wide_line l = true -> l <> [] -> is_comment l = false ->
  coh (parse_pattern l dir) (gparse l dir) /\ p_dom (parse_pattern l dir) = dir.
Proof.
  intros Hns Hw _ _. unfold wide_line in Hw.
  apply andb_true_iff in Hw. destruct Hw as [Hw H3]. apply andb_true_iff in Hw. destruct Hw as [H1 H2].
  apply negb_true_iff in H1.
  destruct l as [|c r]; [cbn in H2; discriminate|].
  unfold strip_bang in *. destruct (c =? cBANG) eqn:Ec.
  - apply N.eqb_eq in Ec. subst c.
    assert (Hns' : nospace r) by (intros x Hx; apply Hns; now right).
    destruct (nobang_line_coh r dir Hns' H1 H3) as [Hc Hd].
    rewrite (parse_bang r dir H1), (gparse_bang r dir H1). split; [now apply coh_bang|exact Hd].
  - apply nobang_line_coh; [exact Hns|cbn; exact Ec|exact H3].
Qed.

Definition wide_content : bytes -> bool := content_okw wide_line.
Definition wide_case : option bytes -> files -> bool := wide_casew wide_line.

(* ------------------------------------------------------------------ *)
(* the theorems                                                        *)

Theorem wide_eq_git excl fs path isdir :
  wide_case excl fs = true -> path_ok path = true ->
  no_reincluded_ancestor excl fs path = true ->
  ignored excl fs path isdir = git_ignored excl fs path isdir.
Proof. apply (wide_eq_gitw wide_line wide_line_coh). Qed.

(* without negation the guard on the path's ancestors is void *)
Definition positive_content (c : bytes) : bool := forallb (fun l => negb (is_bang l)) (split_lf c []).
Definition positive_case (excl : option bytes) (fs : files) : bool :=
  match excl with Some c => positive_content c | None => true end &&
  forallb (fun f => positive_content (snd f)) fs.

Lemma read_ignore_positive c dir : wide_content c = true -> positive_content c = true ->
  forall p, In p (read_ignore c dir) -> p_incl p = false.
Proof.
  intros Hc Hpos p Hp. destruct (content_linesw wide_line _ Hc) as (E0 & E1 & _ & _).
  unfold read_ignore in Hp. rewrite E1, E0 in Hp.
  apply in_map_iff in Hp. destruct Hp as (l & <- & Hl). apply filter_In in Hl. destruct Hl as [Hl _].
  unfold positive_content in Hpos. rewrite forallb_forall in Hpos.
  apply parse_nobang_incl. apply negb_true_iff. now apply Hpos.
Qed.

Lemma decision_positive ps path d : (forall p, In p ps -> p_incl p = false) -> decision ps path d <> Include.
Proof.
  intros H. unfold decision.
  assert (H' : forall p, In p (rev ps) -> p_incl p = false) by (intros p Hp; apply H; now apply in_rev).
  induction (rev ps) as [|p r IH]; cbn [mres_rev]; [discriminate|].
  destruct (pat_match_res p path d) as [E|E]; rewrite E.
  - apply IH. intros q Hq. apply H'. now right.
  - rewrite (H' p (or_introl eq_refl)). discriminate.
Qed.

Lemma anc_ok_positive fs : (forall pre p, In p (go_file fs pre) -> p_incl p = false) ->
  forall rest pre ps, (forall p, In p ps -> p_incl p = false) -> anc_ok fs ps pre rest = true.
Proof.
  intros Hf. induction rest as [|e rest IH]; intros pre ps Hps; [reflexivity|].
  cbn [anc_ok]. destruct rest as [|e2 r]; [reflexivity|].
  assert (Hps' : forall p, In p (ps ++ go_file fs pre) -> p_incl p = false).
  { intros p Hp. apply in_app_or in Hp. destruct Hp; [now apply Hps|eapply Hf; eassumption]. }
  pose proof (decision_positive _ (pre ++ [e]) true Hps') as Hd.
  destruct (decision (ps ++ go_file fs pre) (pre ++ [e]) true); [|reflexivity|congruence].
  now apply IH.
Qed.

Theorem positive_eq_git excl fs path isdir :
  wide_case excl fs = true -> positive_case excl fs = true -> path_ok path = true ->
  ignored excl fs path isdir = git_ignored excl fs path isdir.
Proof.
  intros Hw Hp Hok. apply wide_eq_git; try assumption.
  destruct (wide_casew_ok wide_line _ _ Hw) as [Hfok Hex].
  unfold positive_case in Hp. apply andb_true_iff in Hp. destruct Hp as [Hpe Hpf].
  unfold no_reincluded_ancestor. apply anc_ok_positive.
  - intros pre p Hin. unfold go_file in Hin. destruct (file_at fs pre) as [c|] eqn:E; [|destruct Hin].
    eapply read_ignore_positive; [eapply Hfok; eassumption| |exact Hin].
    rewrite forallb_forall in Hpf. clear - E Hpf.
    induction fs as [|[d0 c0] r IH]; [discriminate|]. cbn [file_at] in E.
    destruct (path_eqb d0 pre).
    + inversion E; subst. exact (Hpf (d0, c) (or_introl eq_refl)).
    + apply IH; [|exact E]. intros x Hx. apply Hpf. now right.
  - intros p Hin. unfold excl_pats in Hin. destruct excl as [c|]; [|destruct Hin].
    eapply read_ignore_positive; [now apply Hex|exact Hpe|exact Hin].
Qed.

(* ------------------------------------------------------------------ *)
(* correspondence entry point: the guards of the theorems on a case    *)
From Coq Require Import String.
Definition c49_guard (excl : option String.string)
           (fs : list (list String.string * String.string))
           (qs : list (list String.string * bool)) : out :=
  let fs' := map (fun f => (map unhex (fst f), unhex (snd f))) fs in
  let ex := match excl with Some e => Some (unhex e) | None => None end in
  OList (OBool (wide_case ex fs') :: OBool (positive_case ex fs') ::
         map (fun q => let p := map unhex (fst q) in OBool (path_ok p && no_reincluded_ancestor ex fs' p)) qs).
