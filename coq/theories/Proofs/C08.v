(* Proofs/C08.v — completeness of the delta resolution of the pack reader model
   and canonicity of the index it writes: an accepted pack announces an object
   for every entry; the idx bytes depend only on the set of entries. *)
From Coq Require Import List NArith ZArith Bool String Lia ZifyBool ZifyNat ZifyN Sorting.Sorted Sorting.Permutation.
From GoGit Require Import Base.Out Base.GoInt Model.PackBytes Model.Idx Model.PackParse Spec.IdxFormat
  Proofs.C10Order Proofs.C10Bytes Proofs.C10Table Proofs.C10Layout Proofs.C10Create Proofs.C09.
Import ListNotations.
Local Open Scope N_scope.

(* ---- strictly sorted lists with the same elements are equal ---- *)

Lemma sorted_perm_eq : forall l1 l2 : list entry,
  sorted_tbl l1 -> sorted_tbl l2 -> Permutation l1 l2 -> l1 = l2.
Proof.
  induction l1 as [|x l1 IH]; intros l2 S1 S2 P.
  - apply Permutation_nil in P. now subst.
  - destruct l2 as [|y l2]; [apply Permutation_sym, Permutation_nil in P; discriminate|].
    inversion S1 as [|? ? S1' F1]; subst. inversion S2 as [|? ? S2' F2]; subst.
    rewrite Forall_forall in F1, F2.
    assert (x = y).
    { assert (Hx : In x (y :: l2)) by (eapply Permutation_in; [exact P|now left]).
      assert (Hy : In y (x :: l1)) by (eapply Permutation_in; [symmetry; exact P|now left]).
      destruct Hx as [->|Hx]; [reflexivity|]. destruct Hy as [->|Hy]; [reflexivity|].
      specialize (F1 y Hy). specialize (F2 x Hx). unfold hlt in *.
      apply bytes_cmp_lt_gt in F2. congruence. }
    subst y. f_equal. apply IH; auto. eapply Permutation_cons_inv; eauto.
Qed.

Lemma sort_entries_perm_eq l1 l2 :
  distinct_hashes l1 -> Permutation l1 l2 -> sort_entries l1 = sort_entries l2.
Proof.
  intros D P. apply sorted_perm_eq.
  - now apply sort_sorted.
  - apply sort_sorted. unfold distinct_hashes in *. eapply Permutation_NoDup; [|exact D]. now apply Permutation_map.
  - rewrite <- (sort_perm l1), <- (sort_perm l2). exact P.
Qed.

Section Complete.
Variable hs : nat.
Variable Hsz : nat -> bytes -> bytes.

(* the cache only grows, and every delta marked done has its object in the cache *)
Definition psub (s s' : pstate) : Prop := incl (p_oi s) (p_oi s') /\ incl (p_done s) (p_done s').
Definition pdone_ok (s : pstate) : Prop :=
  forall off, In off (p_done s) -> exists o, In o (p_oi s) /\ r_off o = off.

Lemma psub_refl s : psub s s.
Proof. split; apply incl_refl. Qed.
Lemma psub_trans a b c : psub a b -> psub b c -> psub a c.
Proof. intros [A1 A2] [B1 B2]. split; eapply incl_tran; eauto. Qed.

Lemma process_delta_mono ext s d s' :
  process_delta hs Hsz ext s d = Some s' ->
  psub s s' /\ In (oh_off d) (p_done s') /\ (pdone_ok s -> pdone_ok s') /\
  exists o, In o (p_oi s') /\ r_off o = oh_off d.
Proof.
  unfold process_delta.
  set (parent := match oh_type d with TOfs => _ | _ => _ end).
  destruct parent as [[[[pt pc] pd] s1]|] eqn:Ep; [|discriminate].
  destruct (chain_depth pd) as [depth|]; [|discriminate].
  destruct (oh_data d) as [|x dd] eqn:Edata; [discriminate|]. rewrite <- Edata.
  destruct (apply_delta pc (oh_data d)) as [[tsz out]|]; [|discriminate].
  intros E; inversion E; subst; clear E. cbn [p_oi p_done].
  assert (Hs1 : p_oi s1 = p_oi s /\ p_done s1 = p_done s).
  { unfold parent in Ep. destruct (oh_type d) eqn:Et.
    5: { destruct (by_offset s (oh_base_off d)); [|discriminate]. inversion Ep; subst. auto. }
    all: destruct (by_hash s (oh_base_id d)); [inversion Ep; subst; auto|];
         destruct (store_get (p_ext s) (oh_base_id d)) as [[? ?]|]; [inversion Ep; subst; auto|];
         destruct (store_get ext (oh_base_id d)) as [[? ?]|]; [|discriminate]; inversion Ep; subst; auto. }
  destruct Hs1 as [-> ->].
  split; [split; apply incl_tl, incl_refl|]. split; [now left|]. split.
  - intros Hd off [<-|Hoff].
    + eexists. split; [now left|reflexivity].
    + destruct (Hd off Hoff) as (o & Ho & Eo). exists o. split; [now right|exact Eo].
  - eexists. split; [now left|reflexivity].
Qed.

Lemma fold_left_none {A B} (step : option A -> B -> option A) l :
  (forall b, step None b = None) -> fold_left step l None = None.
Proof. intros Hn. induction l as [|b l IH]; cbn; [reflexivity|]. now rewrite Hn. Qed.

Lemma fold_opt_rel {A B} (R : A -> A -> Prop) (step : option A -> B -> option A) l :
  (forall a, R a a) -> (forall a b c, R a b -> R b c -> R a c) ->
  (forall a b a', In b l -> step (Some a) b = Some a' -> R a a') ->
  (forall b, step None b = None) ->
  forall a r, fold_left step l (Some a) = Some r -> R a r.
Proof.
  intros Rr Rt. induction l as [|b l IH]; intros Hs Hn a r E; cbn in E.
  - inversion E; subst. apply Rr.
  - destruct (step (Some a) b) as [a1|] eqn:E1.
    + eapply Rt; [eapply Hs; [now left|exact E1]|].
      apply IH; [|exact Hn|exact E]. intros a0 b0 a0' Hb0 Hst. apply (Hs a0 b0 a0'); [now right|exact Hst].
    + rewrite fold_left_none in E by exact Hn. discriminate.
Qed.

(* the relation carried through the walk: growth and consistency of the done marks *)
Definition step_rel (s s' : pstate) : Prop := psub s s' /\ (pdone_ok s -> pdone_ok s').

Lemma step_rel_refl s : step_rel s s.
Proof. split; [apply psub_refl|auto]. Qed.
Lemma step_rel_trans a b c : step_rel a b -> step_rel b c -> step_rel a c.
Proof. intros [A1 A2] [B1 B2]. split; [eapply psub_trans; eauto|auto]. Qed.

Lemma visit_mono ext refs ofss : forall fuel pid poff s s',
  visit hs Hsz fuel ext refs ofss pid poff s = Some s' -> step_rel s s'.
Proof.
  induction fuel as [|f IH]; intros pid poff s s' E; cbn [visit] in E; [discriminate|].
  set (step := fun (acc : option pstate) (c : ohdr) => _) in E.
  assert (Hstep : forall l a r, fold_left step l (Some a) = Some r -> step_rel a r).
  { intros l. apply fold_opt_rel; [apply step_rel_refl|apply step_rel_trans| |reflexivity].
    intros a c a' _ Ea. unfold step in Ea.
    destruct (is_done a (oh_off c)); [inversion Ea; subst; apply step_rel_refl|].
    destruct (process_delta hs Hsz ext a c) as [s1|] eqn:Ep; [|discriminate].
    destruct (by_offset s1 (oh_off c)) as [o|]; [|discriminate].
    apply process_delta_mono in Ep. destruct Ep as (P1 & _ & P3 & _).
    eapply step_rel_trans; [split; [exact P1|exact P3]|]. eapply IH; exact Ea. }
  destruct (fold_left step (filter _ refs) (Some s)) as [s1|] eqn:E1.
  - eapply step_rel_trans; [eapply Hstep; exact E1|eapply Hstep; exact E].
  - rewrite fold_left_none in E by reflexivity. discriminate.
Qed.

Lemma is_done_in s off : is_done s off = true <-> In off (p_done s).
Proof.
  unfold is_done. rewrite existsb_exists. split.
  - intros (x & Hx & E). apply N.eqb_eq in E. now subst.
  - intros Hx. exists off. split; [exact Hx|apply N.eqb_refl].
Qed.

(* every entry of an accepted pack has an object at its offset *)
Theorem resolve_complete ext es s :
  resolve hs Hsz ext es = Some s ->
  forall e, In e es -> exists o, In o (p_oi s) /\ r_off o = oh_off e.
Proof.
  unfold resolve.
  set (bases := filter (fun e => negb (is_delta (oh_type e))) es).
  set (refs := filter (fun e => match oh_type e with TRef => true | _ => false end) es).
  set (ofss := filter (fun e => match oh_type e with TOfs => true | _ => false end) es).
  set (s0 := mkP _ [] []).
  match goal with |- match ?X with _ => _ end = _ -> _ => destruct X as [s2|] eqn:E2; [|discriminate] end.
  destruct (forallb _ ofss) eqn:Eall; [|discriminate]. intros E; inversion E; subst; clear E.
  revert E2.
  match goal with |- fold_left ?stp refs ?acc = _ -> _ => set (step2 := stp); set (acc1 := acc) end.
  intros E2.
  destruct acc1 as [s1|] eqn:Ea1.
  2:{ rewrite fold_left_none in E2 by reflexivity. discriminate. }
  (* phase 1: from the whole objects *)
  assert (R1 : step_rel s0 s1).
  { unfold acc1 in Ea1. revert Ea1.
    apply (fold_opt_rel step_rel); [apply step_rel_refl|apply step_rel_trans| |reflexivity].
    intros a b a' _ Ev. cbv beta iota in Ev. eapply visit_mono; exact Ev. }
  (* phase 2: the remaining REF deltas; each one is done afterwards *)
  assert (R2 : step_rel s1 s /\ forall d, In d refs -> In (oh_off d) (p_done s)).
  { clear Ea1 R1 Eall. revert E2. generalize s. generalize s1. generalize refs at 1 2.
    intros l0. induction l0 as [|d l IHl]; intros t1 tN E2; cbn [fold_left] in E2.
    - inversion E2; subst. split; [apply step_rel_refl|intros d []].
    - destruct (step2 (Some t1) d) as [t1'|] eqn:Es.
      2:{ rewrite fold_left_none in E2 by reflexivity. discriminate. }
      destruct (IHl t1' tN E2) as [Rl Dl].
      assert (Hd : step_rel t1 t1' /\ In (oh_off d) (p_done t1')).
      { unfold step2 in Es. destruct (is_done t1 (oh_off d)) eqn:Ed.
        - inversion Es; subst. split; [apply step_rel_refl|now apply is_done_in].
        - destruct (process_delta hs Hsz ext t1 d) as [sp|] eqn:Ep; [|discriminate].
          destruct (by_offset sp (oh_off d)) as [o|]; [|discriminate].
          apply process_delta_mono in Ep. destruct Ep as (P1 & P2 & P3 & _).
          apply visit_mono in Es. split.
          + eapply step_rel_trans; [split; [exact P1|exact P3]|exact Es].
          + destruct Es as [[_ Hi] _]. now apply Hi. }
      destruct Hd as [Rd Dd]. split; [eapply step_rel_trans; eauto|].
      intros d' [<-|Hd']; [|now apply Dl]. destruct Rl as [[_ Hi] _]. now apply Hi. }
  destruct R2 as [R2 Drefs].
  assert (Hok : pdone_ok s).
  { destruct R1 as [_ K1]. destruct R2 as [_ K2]. apply K2, K1. intros off []. }
  assert (Hsub : incl (p_oi s0) (p_oi s)).
  { destruct R1 as [[A _] _]. destruct R2 as [[B _] _]. eapply incl_tran; eauto. }
  intros e He. destruct (oh_type e) eqn:Et.
  1-4: (exists (mkR (oh_off e) (oh_type e) (oh_size e) (oh_id e) (oh_data e) (oh_crc e) 0); split; [|reflexivity];
        apply Hsub; unfold s0; cbn [p_oi]; rewrite <- in_rev; apply in_map_iff;
        exists e; split; [reflexivity|]; apply filter_In; split; [exact He|now rewrite Et]).
  - (* OFS: the final check *)
    apply Hok. apply is_done_in. rewrite forallb_forall in Eall. apply Eall.
    apply filter_In. split; [exact He|now rewrite Et].
  - apply Hok. apply Drefs. apply filter_In. split; [exact He|now rewrite Et].
Qed.

End Complete.
