(* Proofs/C29OpsFault.v — the effect-level view of Model/PorcelainOps.v: the
   store list of an operation replays to the state the operation returns
   (effects_sound); operations with a single observable store are all-or-nothing
   under a fault between stores; Restore / Commit{All} / Pull are not. *)
From Coq Require Import List NArith ZArith Bool Lia.
From GoGit Require Import Base.Out Model.Porcelain Model.PorcelainOps Proofs.PorcelainMaps Proofs.C29Ops.
Import ListNotations.
Local Open Scope N_scope.
Arguments beqb : simpl never.
Local Arguments is_branch : simpl never.

Lemma apply_effs_app : forall a b s, apply_effs (a ++ b) s = apply_effs b (apply_effs a s).
Proof. intros. unfold apply_effs. apply fold_left_app. Qed.

Lemma fold_checkout_err : forall t l e x, fold_left (checkout_change t) l (Some e, x) = (Some e, x).
Proof. intros t. induction l as [|q l IH]; intros e x; cbn [fold_left]; [reflexivity|]. apply IH. Qed.

Lemma remove_idem : forall (w : fmap) p, remove p (remove p w) = remove p w.
Proof.
  intros w p. unfold remove. induction w as [|[q v] r IH]; cbn; [reflexivity|].
  destruct (negb (beqb p q)) eqn:E; cbn; [rewrite E|]; now rewrite IH.
Qed.

(* the file stores of the checkoutChange fold replay to the worktree the fold returns *)
Lemma eff_checkout_sound : forall t l ix w ix' w' s,
  fold_left (checkout_change t) l (None, (ix, w)) = (None, (ix', w')) ->
  r_wt s = w ->
  apply_effs (eff_checkout_fold t l ix w) s = w_wt s w'.
Proof.
  intros t. induction l as [|p l IH]; intros ix w ix' w' s Hf Hw; cbn [fold_left eff_checkout_fold] in *.
  - inversion Hf; subst. cbn. symmetry. apply rstate_eta.
  - unfold checkout_change at 2 in Hf. destruct (lookup p ix) eqn:Ei.
    + destruct (lookup p t) as [e|] eqn:Et.
      * rewrite apply_effs_app.
        assert (Hs : exists s2, apply_effs (if is_some (lookup p w) then [FRemove p] else []) s = s2 /\
                                 remove p (r_wt s2) = remove p w /\ forall x, w_wt s2 x = w_wt s x).
        { destruct (is_some (lookup p w)); cbn.
          - eexists; split; [reflexivity|]. cbn. rewrite Hw. split; [apply remove_idem|reflexivity].
          - eexists; split; [reflexivity|]. rewrite Hw. split; reflexivity. }
        destruct Hs as (s2 & -> & Hr & Hx).
        change (apply_effs (FWrite p e :: ?r) s2) with (apply_effs r (apply_eff s2 (FWrite p e))).
        cbn [apply_eff]. rewrite Hr.
        rewrite (IH _ _ _ _ (w_wt s2 (insert p e (remove p w))) Hf eq_refl). cbn. now rewrite <- (Hx w').
      * rewrite fold_checkout_err in Hf. discriminate.
    + change (apply_effs (FRemove p :: ?r) s) with (apply_effs r (apply_eff s (FRemove p))).
      cbn [apply_eff]. rewrite Hw.
      rewrite (IH _ _ _ _ (w_wt s (remove p w)) Hf eq_refl). reflexivity.
Qed.

Lemma eff_worktree_sound : forall t l ix w ix' w' s,
  fold_left (checkout_change t) l (None, (ix, w)) = (None, (ix', w')) ->
  r_wt s = w ->
  apply_effs (eff_worktree t l ix w) s = w_wt (w_idx s ix') w'.
Proof.
  intros t l ix w ix' w' s Hf Hw. unfold eff_worktree. rewrite apply_effs_app.
  rewrite (eff_checkout_sound _ _ _ _ _ _ _ Hf Hw).
  rewrite Hf. reflexivity.
Qed.

Lemma eff_update_head_sound : forall c s0 s, r_head s0 = r_head s ->
  apply_effs (eff_update_head c s0) s = rupdate_head c s.
Proof.
  intros c s0 s H. unfold eff_update_head, rupdate_head. rewrite H. now destruct (r_head s).
Qed.

Lemma rset_head_commit_ok : forall c s s1, rset_head_commit c s = (None, s1) -> s1 = rupdate_head c s.
Proof.
  intros c s s1. unfold rset_head_commit, rupdate_head.
  destruct (r_head s); [|intro H; now inversion H].
  destruct (lookup b (r_refs s)); [|discriminate].
  destruct (is_branch b); [|discriminate]. intro H; now inversion H.
Qed.

Lemma rupdate_head_frame : forall c s,
  r_idx (rupdate_head c s) = r_idx s /\ r_wt (rupdate_head c s) = r_wt s /\
  r_commits (rupdate_head c s) = r_commits s /\ r_head (rupdate_head c s) = match r_head s with HDet _ => HDet c | h => h end.
Proof. intros c s. unfold rupdate_head. destruct (r_head s) eqn:E; cbn; rewrite ?E; repeat split. Qed.

(* ---------- per operation *)

Lemma eff_restore_sound : forall st wk files s s',
  restore st wk files s = (None, s') -> apply_effs (eff_restore wk files s) s = s'.
Proof.
  intros st wk files s s'. unfold restore, eff_restore.
  destruct files as [|f0 fs]; [discriminate|].
  destruct st; cbn [negb]; [|discriminate].
  destruct (rhead_commit s) as [c|]; [|discriminate].
  destruct (rtree_of s c) as [t|]; [|discriminate].
  destruct (rset_head_commit c s) as [[e1|] s1] eqn:Eh; [discriminate|].
  apply rset_head_commit_ok in Eh. subst s1.
  destruct (rupdate_head_frame c s) as (Hi & Hw & _ & _). rewrite Hi, Hw.
  cbv zeta.
  set (ix := fold_left (reset_index_step t) (filter (in_files (f0 :: fs)) (changed_paths (r_idx s) t)) (r_idx s)).
  rewrite apply_effs_app, (eff_update_head_sound c s s eq_refl).
  change (apply_effs (FSetIndex ix :: ?r) ?x) with (apply_effs r (w_idx x ix)).
  destruct wk.
  - set (wch := filter (fun p => in_files (f0 :: fs) p && is_some (lookup p ix)) (changed_paths (r_wt s) ix)).
    destruct (fold_left (checkout_change t) wch (None, (ix, r_wt s))) as [[e2|] [ix' w']] eqn:Hf; cbn [fst snd option_map]; [discriminate|].
    intro H. inversion H; subst s'.
    rewrite (eff_worktree_sound t wch ix (r_wt s) ix' w' (w_idx (rupdate_head c s) ix) Hf).
    + reflexivity.
    + cbn. exact Hw.
  - intro H. inversion H. reflexivity.
Qed.

Lemma add_names_ok_shape : forall hd s names s',
  add_names hd s names = (None, s') -> s' = w_idx s (r_idx s').
Proof.
  intros hd s names s'. unfold add_names. destruct (existsb _ names); [discriminate|].
  intro H. inversion H. reflexivity.
Qed.

Lemma add_path_ok_shape : forall p s s', add_path p s = (None, s') -> s' = w_idx s (r_idx s').
Proof.
  intros p s s'. unfold add_path.
  destruct (rhead_tree s); try discriminate;
    destruct (is_dir_wt s p && negb (is_some (lookup p (r_wt s)))); apply add_names_ok_shape.
Qed.

Lemma commit_ok_shape : forall o s s',
  commit o s = (None, s') ->
  exists parents,
    let s1 := if cm_all o then w_idx s (auto_add s) else s in
    s' = rupdate_head (Z.of_nat (List.length (r_commits s)))
                      (w_commits s1 (r_commits s ++ [mkCmt (r_idx s1) parents])).
Proof.
  intros o s s'. unfold commit.
  destruct (cm_all o && cm_amend o); [discriminate|].
  destruct (negb (cm_author o) && negb (r_user s)); [discriminate|].
  assert (Hrest : forall s1 : rstate, r_commits s1 = r_commits s ->
    (match (if cm_amend o
            then match rhead_commit s1 with
                 | None => inl XRefNotFound
                 | Some h => match rcommit s1 h with None => inl XObjectNotFound | Some c => inr (c_parents c) end
                 end
            else inr (match rhead_commit s with Some h => [h] | None => [] end)) with
     | inl e0 => (Some e0, s1)
     | inr parents =>
       if is_nil parents && is_nil (r_idx s1) && negb (cm_allow_empty o) then (Some XEmptyCommit, s1)
       else match parents with
            | [] => commit_finish parents s1
            | p0 :: _ =>
              match rtree_of s1 p0 with
              | None => (Some XObjectNotFound, s1)
              | Some pt =>
                if fmap_eqb (r_idx s1) pt && negb (cm_allow_empty o) then (Some XEmptyCommit, s1)
                else commit_finish parents s1
              end
            end
     end) = (None, s') ->
    exists parents, s' = rupdate_head (Z.of_nat (List.length (r_commits s)))
                                      (w_commits s1 (r_commits s ++ [mkCmt (r_idx s1) parents]))).
  { intros s1 Hc.
    destruct (if cm_amend o then _ else _) as [e0|parents]; [discriminate|].
    destruct (is_nil parents && is_nil (r_idx s1) && negb (cm_allow_empty o)); [discriminate|].
    assert (Hfin : commit_finish parents s1 = (None, s') ->
                   s' = rupdate_head (Z.of_nat (List.length (r_commits s)))
                                     (w_commits s1 (r_commits s ++ [mkCmt (r_idx s1) parents]))).
    { unfold commit_finish. rewrite Hc. intro H. now inversion H. }
    destruct parents as [|p0 ps]; [intro H; eexists; apply Hfin; exact H|].
    destruct (rtree_of s1 p0); [|discriminate].
    destruct (fmap_eqb (r_idx s1) f && negb (cm_allow_empty o)); [discriminate|].
    intro H; eexists; apply Hfin; exact H. }
  destruct (cm_all o).
  - destruct (rhead_tree s); try discriminate; intro H; apply (Hrest (w_idx s (auto_add s)) eq_refl) in H; exact H.
  - intro H. apply (Hrest s eq_refl) in H. exact H.
Qed.

Lemma eff_commit_sound : forall o s s',
  commit o s = (None, s') -> apply_effs (eff_commit o s s') s = s'.
Proof.
  intros o s s' H. destruct (commit_ok_shape _ _ _ H) as (parents & Hs). cbv zeta in Hs.
  unfold eff_commit. rewrite apply_effs_app.
  set (s1 := if cm_all o then w_idx s (auto_add s) else s) in *.
  assert (H1 : apply_effs (if cm_all o then [FSetIndex (auto_add s)] else []) s = s1).
  { unfold s1. destruct (cm_all o); reflexivity. }
  rewrite H1.
  assert (Hl : last (r_commits s') (mkCmt [] []) = mkCmt (r_idx s1) parents).
  { rewrite Hs. destruct (rupdate_head_frame (Z.of_nat (List.length (r_commits s)))
                            (w_commits s1 (r_commits s ++ [mkCmt (r_idx s1) parents]))) as (_ & _ & Hc & _).
    rewrite Hc. cbn. apply last_last. }
  rewrite Hl.
  change (apply_effs (FAddCommit ?c :: ?r) ?x) with (apply_effs r (w_commits x (r_commits x ++ [c]))).
  assert (Hc1 : r_commits s1 = r_commits s) by (unfold s1; destruct (cm_all o); reflexivity).
  rewrite Hc1. rewrite Hs. apply eff_update_head_sound.
  unfold s1. destruct (cm_all o); reflexivity.
Qed.

Lemma merge_ok_shape : forall t ff s s', merge t ff s = (None, s') -> s' = rupdate_head t s.
Proof.
  intros t ff s s'. unfold merge.
  destruct ff; cbn [negb]; [|discriminate].
  destruct (rhead_commit s); [|discriminate].
  destruct (rcommit s t); [|discriminate].
  destruct (is_anc (r_commits s) z t); cbn [negb]; [|discriminate]. intro H; now inversion H.
Qed.

(* the reference half of the fetch, store by store *)
Lemma fetch_refs_effs : forall adv s b,
  apply_effs (map (fun nc : bytes * Z => FSetRef (tracking_name (fst nc)) (snd nc)) adv) s =
  w_refs s (fst (fold_left (fun (acc : amap Z * bool) (nc : bytes * Z) =>
               let ln := tracking_name (fst nc) in
               (insert ln (snd nc) (fst acc),
                snd acc || negb (match lookup ln (fst acc) with Some c => (c =? snd nc)%Z | None => false end)))
            adv (r_refs s, b))).
Proof.
  induction adv as [|[n c] adv IH]; intros s b; cbn [map fold_left].
  - cbn. symmetry. apply rstate_eta.
  - change (apply_effs (?f :: ?r) s) with (apply_effs r (apply_eff s f)). cbn [apply_eff fst snd].
    rewrite (IH _ (b || negb (match lookup (tracking_name n) (r_refs s) with Some c0 => (c0 =? c)%Z | None => false end))).
    reflexivity.
Qed.

Lemma pull_pre_ok_state : forall e s rc s1,
  pull_pre e s = (None, (rc, s1)) -> s1 = w_refs s (fst (fetch_refs (pe_refs e) (r_refs s))).
Proof.
  intros e s rc s1. unfold pull_pre.
  destruct (negb (pe_conf e)); [discriminate|].
  destruct (negb (pe_reach e)); [discriminate|].
  destruct (is_nil (pe_refs e)); [discriminate|].
  destruct (resolve_remote e) as [r|]; [|discriminate].
  destruct (rhead_commit _) as [h|]; [|intro H; now inversion H].
  destruct (rcommit _ h); [|discriminate].
  destruct (_ && _); [discriminate|].
  destruct (negb _); [discriminate|]. intro H; now inversion H.
Qed.

Lemma eff_pull_sound : forall e s s', pull e s = (None, s') -> apply_effs (eff_pull e s) s = s'.
Proof.
  intros e s s'. unfold pull, eff_pull.
  destruct (pull_pre e s) as [[x0|] [rc s1]] eqn:Hp; [discriminate|].
  destruct (runstaged s1) eqn:Hu; [discriminate|].
  pose proof (pull_pre_ok_state _ _ _ _ Hp) as Hs1.
  unfold reset_merge.
  assert (Ht : rtree_of (rupdate_head rc s1) rc = rtree_of s1 rc).
  { unfold rupdate_head. destruct (r_head s1); reflexivity. }
  rewrite Ht. destruct (rtree_of s1 rc) as [t|]; [|discriminate].
  assert (Hu' : runstaged (rupdate_head rc s1) = false).
  { rewrite <- Hu. unfold rupdate_head. destruct (r_head s1); reflexivity. }
  rewrite Hu'.
  destruct (rset_head_commit rc (rupdate_head rc s1)) as [[e1|] s2] eqn:Eh; [discriminate|].
  apply rset_head_commit_ok in Eh.
  destruct (rupdate_head_frame rc s1) as (Hi1 & Hw1 & _ & Hh1).
  destruct (rupdate_head_frame rc (rupdate_head rc s1)) as (Hi2 & Hw2 & _ & _).
  assert (Hidx : r_idx s2 = r_idx s1) by (rewrite Eh, Hi2, Hi1; reflexivity).
  assert (Hwt : r_wt s2 = r_wt s1) by (rewrite Eh, Hw2, Hw1; reflexivity).
  rewrite Hidx, Hwt.
  rewrite !apply_effs_app.
  assert (Hf : apply_effs (map (fun nc : bytes * Z => FSetRef (tracking_name (fst nc)) (snd nc)) (pe_refs e)) s = s1).
  { rewrite Hs1. unfold fetch_refs. apply fetch_refs_effs. }
  rewrite Hf.
  rewrite (eff_update_head_sound rc s1 s1 eq_refl).
  assert (Hh : r_head s1 = r_head (rupdate_head rc s1) \/ exists c0, r_head s1 = HDet c0).
  { destruct (r_head s1) eqn:E; [left|right; eauto]. rewrite Hh1. reflexivity. }
  assert (H2 : apply_effs (eff_update_head rc s1) (rupdate_head rc s1) = s2).
  { rewrite Eh. destruct Hh as [Hh|(c0 & Hh)].
    - now apply eff_update_head_sound.
    - unfold eff_update_head, rupdate_head. rewrite Hh. cbn. reflexivity. }
  rewrite H2.
  change (apply_effs (FSetIndex ?i :: ?r) ?x) with (apply_effs r (w_idx x i)).
  destruct (snd (reset_index t (r_idx s1))) as [|q0 l0] eqn:Er.
  - intro H. inversion H. reflexivity.
  - unfold reset_worktree.
    set (wch := filter (fun p => existsb (beqb p) (q0 :: l0)) (changed_paths (r_wt s1) (fst (reset_index t (r_idx s1))))).
    destruct (fold_left (checkout_change t) wch (None, (fst (reset_index t (r_idx s1)), r_wt s1)))
      as [[e2|] [ix' w']] eqn:Hfold; cbn [fst snd option_map]; [discriminate|].
    intro H. inversion H; subst s'.
    rewrite (eff_worktree_sound t wch _ (r_wt s1) ix' w' (w_idx s2 (fst (reset_index t (r_idx s1)))) Hfold).
    + reflexivity.
    + cbn. exact Hwt.
Qed.

(* ---------- the stores of an operation replay to the state it returns *)

Lemma effects_sound : forall o s,
  is_porcelain o = true -> fst (xstep o s) = None -> apply_effs (effects o s) s = snd (xstep o s).
Proof.
  intros o s Hp Hn. unfold effects. rewrite Hn.
  destruct (xstep o s) as [r s'] eqn:Hx. cbn [fst snd] in *. subst r.
  destruct o; cbn [xstep is_porcelain] in *; try discriminate.
  - eapply eff_restore_sound; eauto.
  - cbn. symmetry. eapply add_path_ok_shape; eauto.
  - cbn. symmetry. eapply add_path_ok_shape; eauto.
  - now apply eff_commit_sound.
  - apply merge_ok_shape in Hx. subst s'. now apply eff_update_head_sound.
  - now apply eff_pull_sound.
Qed.

(* a refused operation of the model performs no store at all *)
Lemma effects_refused : forall o s x, fst (xstep o s) = Some x -> effects o s = [].
Proof. intros o s x H. unfold effects. now rewrite H. Qed.

(* ---------- faults between stores *)

(* operations with one observable store: Add, Merge, Commit without All *)
Definition single_store (o : xop) : bool :=
  match o with
  | XAdd _ | XAddAll | XAddBad | XMerge _ _ => true
  | XCommit c => negb (cm_all c)
  | _ => false
  end.

Lemma firstn_all_ge : forall {A} (l : list A) j, (List.length l <= j)%nat -> firstn j l = l.
Proof. intros. now apply firstn_all2. Qed.

Lemma fault_single_store_atomic : forall o s j,
  single_store o = true -> fst (xstep o s) = None ->
  observable (after_fault j o s) = observable s \/ after_fault j o s = snd (xstep o s).
Proof.
  intros o s j Hs Hn. unfold after_fault.
  assert (Hp : is_porcelain o = true) by (destruct o; try discriminate; reflexivity).
  pose proof (effects_sound o s Hp Hn) as Hsound.
  destruct (Nat.le_gt_cases (List.length (effects o s)) j) as [Hge|Hlt].
  - right. rewrite firstn_all2 by assumption. exact Hsound.
  - left. revert Hlt. unfold effects. rewrite Hn.
    destruct o; cbn [single_store] in Hs; try discriminate.
    + (* XAdd *) cbn [List.length]. intro Hlt. assert (j = 0)%nat as -> by lia. reflexivity.
    + (* XAddAll *) cbn [List.length]. intro Hlt. assert (j = 0)%nat as -> by lia. reflexivity.
    + (* XCommit *) unfold eff_commit. apply negb_true_iff in Hs. rewrite Hs. cbn [app].
      unfold eff_update_head. destruct (r_head s); cbn [List.length]; intro Hlt;
        (destruct j as [|[|j]]; [reflexivity | reflexivity | lia]).
    + (* XMerge *) unfold eff_update_head. destruct (r_head s); cbn [List.length]; intro Hlt;
        (assert (j = 0)%nat as -> by lia; reflexivity).
Qed.

(* Restore of two files: after the index store and the first file the
   repository is neither the old nor the new one *)
From Coq Require Import String.
Local Open Scope string_scope.
Definition fr_state : rstate :=
  mkR [mkCmt [(bs "a", (KReg, bs "A0")); (bs "b", (KReg, bs "B0"))] []] [(master, 0%Z)] (HSym master)
      [(bs "a", (KReg, bs "sa")); (bs "b", (KReg, bs "sb"))]
      [(bs "a", (KReg, bs "wa")); (bs "b", (KReg, bs "wb"))] true.
Definition fr_op : xop := XRestore true true [bs "a"; bs "b"].
Local Close Scope string_scope.

Lemma fault_prefix_refuted :
  exists o s j, fst (xstep o s) = None /\
    observable (after_fault j o s) <> observable s /\
    observable (after_fault j o s) <> observable (snd (xstep o s)).
Proof.
  exists fr_op, fr_state, 4%nat. split; [vm_compute; reflexivity|].
  split; vm_compute; intro H; discriminate.
Qed.

(* Commit{All}: the index is stored, the commit is not *)
Lemma fault_commit_all_refuted :
  exists o s j, fst (xstep o s) = None /\
    observable (after_fault j o s) <> observable s /\
    observable (after_fault j o s) <> observable (snd (xstep o s)).
Proof.
  exists (XCommit (mkCO true false true false)), (w_wt ca_state [(bs "a"%string, (KReg, bs "new"%string))]), 1%nat.
  split; [vm_compute; reflexivity|]. split; vm_compute; intro H; discriminate.
Qed.
