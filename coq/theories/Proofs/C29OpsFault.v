(* Proofs/C29OpsFault.v — the effect-level view of Model/PorcelainOps.v: the
   store list of an operation replays to the state the operation returns
   (effects_sound); operations with a single observable store are all-or-nothing
   under a fault between stores; Restore / Commit{All} / Pull are not. *)
From Coq Require Import List NArith ZArith Bool Lia.
From GoGit Require Import Base.Out Model.Porcelain Model.PorcelainOps Proofs.PorcelainMaps Proofs.C29Ops.
Import ListNotations.
Local Open Scope N_scope.
Arguments beqb : simpl never.
Local Arguments is_branch : simpl never.

Lemma apply_effs_app : forall a b s, apply_effs (a ++ b) s = apply_effs b (apply_effs a s).
Proof. intros. unfold apply_effs. apply fold_left_app. Qed.

Lemma fold_checkout_err : forall t l e x, fold_left (checkout_change t) l (Some e, x) = (Some e, x).
Proof. intros t. induction l as [|q l IH]; intros e x; cbn [fold_left]; [reflexivity|]. apply IH. Qed.

Lemma remove_idem : forall (w : fmap) p, remove p (remove p w) = remove p w.
Proof.
  intros w p. unfold remove. induction w as [|[q v] r IH]; cbn; [reflexivity|].
  destruct (negb (beqb p q)) eqn:E; cbn; [rewrite E|]; now rewrite IH.
Qed.

(* the file stores of the checkoutChange fold replay to the worktree the fold returns *)
Lemma eff_checkout_sound : forall t l ix w ix' w' s,
  fold_left (checkout_change t) l (None, (ix, w)) = (None, (ix', w')) ->
  r_wt s = w ->
  apply_effs (eff_checkout_fold t l ix w) s = w_wt s w'.
Proof.
  intros t. induction l as [|p l IH]; intros ix w ix' w' s Hf Hw; cbn [fold_left eff_checkout_fold] in *.
  - inversion Hf; subst. cbn. symmetry. apply rstate_eta.
  - unfold checkout_change at 2 in Hf. destruct (lookup p ix) eqn:Ei.
    + destruct (lookup p t) as [e|] eqn:Et.
      * rewrite apply_effs_app.
        assert (Hs : exists s2, apply_effs (if is_some (lookup p w) then [FRemove p] else []) s = s2 /\
                                 remove p (r_wt s2) = remove p w /\ forall x, w_wt s2 x = w_wt s x).
        { destruct (is_some (lookup p w)); cbn.
          - eexists; split; [reflexivity|]. cbn. rewrite Hw. split; [apply remove_idem|reflexivity].
          - eexists; split; [reflexivity|]. rewrite Hw. split; reflexivity. }
        destruct Hs as (s2 & -> & Hr & Hx).
        change (apply_effs (FWrite p e :: ?r) s2) with (apply_effs r (apply_eff s2 (FWrite p e))).
        cbn [apply_eff]. rewrite Hr.
        rewrite (IH _ _ _ _ (w_wt s2 (insert p e (remove p w))) Hf eq_refl). cbn. now rewrite <- (Hx w').
      * rewrite fold_checkout_err in Hf. discriminate.
    + change (apply_effs (FRemove p :: ?r) s) with (apply_effs r (apply_eff s (FRemove p))).
      cbn [apply_eff]. rewrite Hw.
      rewrite (IH _ _ _ _ (w_wt s (remove p w)) Hf eq_refl). reflexivity.
Qed.

Lemma eff_worktree_sound : forall t l ix w ix' w' s,
  fold_left (checkout_change t) l (None, (ix, w)) = (None, (ix', w')) ->
  r_wt s = w ->
  apply_effs (eff_worktree t l ix w) s = w_wt (w_idx s ix') w'.
Proof.
  intros t l ix w ix' w' s Hf Hw. unfold eff_worktree. rewrite apply_effs_app.
  rewrite (eff_checkout_sound _ _ _ _ _ _ _ Hf Hw).
  rewrite Hf. reflexivity.
Qed.

Lemma eff_update_head_sound : forall c s0 s, r_head s0 = r_head s ->
  apply_effs (eff_update_head c s0) s = rupdate_head c s.
Proof.
  intros c s0 s H. unfold eff_update_head, rupdate_head. rewrite H. now destruct (r_head s).
Qed.

Lemma rset_head_commit_ok : forall c s s1, rset_head_commit c s = (None, s1) -> s1 = rupdate_head c s.
Proof.
  intros c s s1. unfold rset_head_commit, rupdate_head.
  destruct (r_head s); [|intro H; now inversion H].
  destruct (lookup b (r_refs s)); [|discriminate].
  destruct (is_branch b); [|discriminate]. intro H; now inversion H.
Qed.

Lemma rupdate_head_frame : forall c s,
  r_idx (rupdate_head c s) = r_idx s /\ r_wt (rupdate_head c s) = r_wt s /\
  r_commits (rupdate_head c s) = r_commits s /\ r_head (rupdate_head c s) = match r_head s with HDet _ => HDet c | h => h end.
Proof. intros c s. unfold rupdate_head. destruct (r_head s) eqn:E; cbn; rewrite ?E; repeat split. Qed.

(* ---------- per operation *)

Lemma eff_restore_sound : forall st wk files s s',
  restore st wk files s = (None, s') -> apply_effs (eff_restore wk files s) s = s'.
Proof.
  intros st wk files s s'. unfold restore, eff_restore.
  destruct files as [|f0 fs]; [discriminate|].
  destruct st; cbn [negb]; [|discriminate].
  destruct (rhead_commit s) as [c|]; [|discriminate].
  destruct (rtree_of s c) as [t|]; [|discriminate].
  destruct (rset_head_commit c s) as [[e1|] s1] eqn:Eh; [discriminate|].
  apply rset_head_commit_ok in Eh. subst s1.
  destruct (rupdate_head_frame c s) as (Hi & Hw & _ & _). rewrite Hi, Hw.
  cbv zeta.
  set (ix := fold_left (reset_index_step t) (filter (in_files (f0 :: fs)) (changed_paths (r_idx s) t)) (r_idx s)).
  rewrite apply_effs_app, (eff_update_head_sound c s s eq_refl).
  change (apply_effs (FSetIndex ix :: ?r) ?x) with (apply_effs r (w_idx x ix)).
  destruct wk.
  - set (wch := filter (fun p => in_files (f0 :: fs) p && is_some (lookup p ix)) (changed_paths (r_wt s) ix)).
    destruct (fold_left (checkout_change t) wch (None, (ix, r_wt s))) as [[e2|] [ix' w']] eqn:Hf; cbn [fst snd option_map]; [discriminate|].
    intro H. inversion H; subst s'.
    rewrite (eff_worktree_sound t wch ix (r_wt s) ix' w' (w_idx (rupdate_head c s) ix) Hf).
    + reflexivity.
    + cbn. exact Hw.
  - intro H. inversion H. reflexivity.
Qed.

Lemma add_names_ok_shape : forall hd s names s',
  add_names hd s names = (None, s') -> s' = w_idx s (r_idx s').
Proof.
  intros hd s names s'. unfold add_names. destruct (existsb _ names); [discriminate|].
  intro H. inversion H. reflexivity.
Qed.

Lemma add_path_ok_shape : forall p s s', add_path p s = (None, s') -> s' = w_idx s (r_idx s').
Proof.
  intros p s s'. unfold add_path.
  destruct (rhead_tree s); try discriminate;
    destruct (is_dir_wt s p && negb (is_some (lookup p (r_wt s)))); apply add_names_ok_shape.
Qed.

Lemma commit_tail_ok : forall o parents0 s1 s',
  commit_tail o parents0 s1 = (None, s') ->
  exists parents, s' = rupdate_head (Z.of_nat (List.length (r_commits s1)))
                                    (w_commits s1 (r_commits s1 ++ [mkCmt (r_idx s1) parents])).
Proof.
  intros o parents0 s1 s'. unfold commit_tail.
  destruct (if cm_amend o then _ else _) as [e0|parents]; [discriminate|].
  destruct (is_nil parents && is_nil (r_idx s1) && negb (cm_allow_empty o)); [discriminate|].
  assert (Hfin : commit_finish parents s1 = (None, s') ->
                 s' = rupdate_head (Z.of_nat (List.length (r_commits s1)))
                                   (w_commits s1 (r_commits s1 ++ [mkCmt (r_idx s1) parents]))).
  { unfold commit_finish. intro H. now inversion H. }
  destruct parents as [|p0 ps]; [intro H; eexists; apply Hfin; exact H|].
  destruct (rtree_of s1 p0); [|discriminate].
  destruct (fmap_eqb (r_idx s1) f && negb (cm_allow_empty o)); [discriminate|].
  intro H; eexists; apply Hfin; exact H.
Qed.

Lemma commit_ok_shape : forall o s s',
  commit o s = (None, s') ->
  let s1 := if commit_stores_index o s then w_idx s (auto_add s) else s in
  exists parents,
    s' = rupdate_head (Z.of_nat (List.length (r_commits s)))
                      (w_commits s1 (r_commits s ++ [mkCmt (r_idx s1) parents])).
Proof.
  intros o s s'. unfold commit, commit_stores_index.
  destruct (cm_all o && cm_amend o); cbn [negb andb]; [discriminate|].
  destruct (negb (cm_author o) && negb (r_user s)); cbn [negb andb]; [discriminate|].
  destruct (cm_all o); cbn [andb].
  - destruct (rhead_tree s); cbn [negb]; try discriminate; intro H; apply commit_tail_ok in H; exact H.
  - intro H. apply commit_tail_ok in H. exact H.
Qed.

(* the stores of Commit replay to the state it returns, refused or not *)
Lemma eff_commit_sound : forall o s r s',
  commit o s = (r, s') -> apply_effs (eff_commit o s s' (negb (is_some r))) s = s'.
Proof.
  intros o s r s' H. unfold eff_commit. rewrite apply_effs_app.
  set (s1 := if commit_stores_index o s then w_idx s (auto_add s) else s).
  assert (H1 : apply_effs (if commit_stores_index o s then [FSetIndex (auto_add s)] else []) s = s1).
  { unfold s1. destruct (commit_stores_index o s); reflexivity. }
  rewrite H1. destruct r as [e|]; cbn [is_some negb].
  - apply commit_err_state in H. subst s'. reflexivity.
  - destruct (commit_ok_shape _ _ _ H) as (parents & Hs). fold s1 in Hs.
    assert (Hl : last (r_commits s') (mkCmt [] []) = mkCmt (r_idx s1) parents).
    { rewrite Hs. destruct (rupdate_head_frame (Z.of_nat (List.length (r_commits s)))
                              (w_commits s1 (r_commits s ++ [mkCmt (r_idx s1) parents]))) as (_ & _ & Hc & _).
      rewrite Hc. cbn. apply last_last. }
    rewrite Hl.
    change (apply_effs (FAddCommit ?c :: ?r) ?x) with (apply_effs r (w_commits x (r_commits x ++ [c]))).
    assert (Hc1 : r_commits s1 = r_commits s) by (unfold s1; destruct (commit_stores_index o s); reflexivity).
    rewrite Hc1. rewrite Hs. apply eff_update_head_sound.
    unfold s1. destruct (commit_stores_index o s); reflexivity.
Qed.

Lemma merge_ok_shape : forall t ff s s', merge t ff s = (None, s') -> s' = rupdate_head t s.
Proof.
  intros t ff s s'. unfold merge.
  destruct ff; cbn [negb]; [|discriminate].
  destruct (rhead_commit s); [|discriminate].
  destruct (rcommit s t); [|discriminate].
  destruct (is_anc (r_commits s) z t); cbn [negb]; [|discriminate]. intro H; now inversion H.
Qed.

(* the reference half of the fetch, store by store *)
Lemma fetch_refs_effs : forall adv s b,
  apply_effs (map (fun nc : bytes * Z => FSetRef (tracking_name (fst nc)) (snd nc)) adv) s =
  w_refs s (fst (fold_left (fun (acc : amap Z * bool) (nc : bytes * Z) =>
               let ln := tracking_name (fst nc) in
               (insert ln (snd nc) (fst acc),
                snd acc || negb (match lookup ln (fst acc) with Some c => (c =? snd nc)%Z | None => false end)))
            adv (r_refs s, b))).
Proof.
  induction adv as [|[n c] adv IH]; intros s b; cbn [map fold_left].
  - cbn. symmetry. apply rstate_eta.
  - change (apply_effs (?f :: ?r) s) with (apply_effs r (apply_eff s f)). cbn [apply_eff fst snd].
    rewrite (IH _ (b || negb (match lookup (tracking_name n) (r_refs s) with Some c0 => (c0 =? c)%Z | None => false end))).
    reflexivity.
Qed.

Lemma eff_fetch_sound : forall e s x rc s1,
  pull_pre e s = (x, (rc, s1)) -> apply_effs (eff_fetch e) s = s1.
Proof.
  intros e s x rc s1. unfold pull_pre, eff_fetch.
  destruct (negb (pe_conf e)); cbn [orb]; [intro H; now inversion H|].
  destruct (negb (pe_reach e)); cbn [orb]; [intro H; now inversion H|].
  destruct (is_nil (pe_refs e)); [intro H; now inversion H|].
  assert (Hs : apply_effs (map (fun nc : bytes * Z => FSetRef (tracking_name (fst nc)) (snd nc)) (pe_refs e)) s
               = w_refs s (fst (fetch_refs (pe_refs e) (r_refs s)))).
  { unfold fetch_refs. apply fetch_refs_effs. }
  rewrite Hs.
  destruct (resolve_remote e) as [r|]; [|intro H; now inversion H].
  destruct (rhead_commit _) as [h|]; [|intro H; now inversion H].
  destruct (rcommit _ h); [|intro H; now inversion H].
  destruct (_ && _); [intro H; now inversion H|].
  destruct (negb _); intro H; now inversion H.
Qed.

(* the stores of Pull replay to the state it returns, refused or not *)
Lemma eff_pull_sound : forall e s r s', pull e s = (r, s') -> apply_effs (eff_pull e s) s = s'.
Proof.
  intros e s r s'. unfold pull, eff_pull, eff_pull_tail. rewrite apply_effs_app.
  destruct (pull_pre e s) as [[x0|] [rc s1]] eqn:Hp; rewrite (eff_fetch_sound _ _ _ _ _ Hp).
  - intro H. inversion H. reflexivity.
  - destruct (runstaged s1) eqn:Hu; [intro H; inversion H; reflexivity|].
    rewrite apply_effs_app, (eff_update_head_sound rc s1 s1 eq_refl).
    destruct (reset_merge rc (rupdate_head rc s1)) as [[e1|] s2] eqn:Hr.
    + intro H. inversion H; subst. apply reset_merge_err_unchanged in Hr. subst s'. reflexivity.
    + intro H. inversion H; subst s2 r. clear H. revert Hr.
      unfold reset_merge.
      assert (Ht : rtree_of (rupdate_head rc s1) rc = rtree_of s1 rc).
      { unfold rupdate_head. destruct (r_head s1); reflexivity. }
      rewrite Ht. destruct (rtree_of s1 rc) as [t|]; [|discriminate].
      assert (Hu' : runstaged (rupdate_head rc s1) = false).
      { rewrite <- Hu. unfold rupdate_head. destruct (r_head s1); reflexivity. }
      rewrite Hu'.
      destruct (rset_head_commit rc (rupdate_head rc s1)) as [[e1|] s2] eqn:Eh; [discriminate|].
      apply rset_head_commit_ok in Eh.
      destruct (rupdate_head_frame rc s1) as (Hi1 & Hw1 & _ & Hh1).
      destruct (rupdate_head_frame rc (rupdate_head rc s1)) as (Hi2 & Hw2 & _ & _).
      assert (Hidx : r_idx s2 = r_idx s1) by (rewrite Eh, Hi2, Hi1; reflexivity).
      assert (Hwt : r_wt s2 = r_wt s1) by (rewrite Eh, Hw2, Hw1; reflexivity).
      rewrite Hidx, Hwt.
      rewrite apply_effs_app.
      assert (Hh : r_head s1 = r_head (rupdate_head rc s1) \/ exists c0, r_head s1 = HDet c0).
      { destruct (r_head s1) eqn:E; [left|right; eauto]. rewrite Hh1. reflexivity. }
      assert (H2 : apply_effs (eff_update_head rc s1) (rupdate_head rc s1) = s2).
      { rewrite Eh. destruct Hh as [Hh|(c0 & Hh)].
        - now apply eff_update_head_sound.
        - unfold eff_update_head, rupdate_head. rewrite Hh. cbn. reflexivity. }
      rewrite H2.
      change (apply_effs (FSetIndex ?i :: ?r) ?x) with (apply_effs r (w_idx x i)).
      destruct (snd (reset_index t (r_idx s1))) as [|q0 l0] eqn:Er.
      * intro H. inversion H. reflexivity.
      * unfold reset_worktree.
        set (wch := filter (fun p => existsb (beqb p) (q0 :: l0)) (changed_paths (r_wt s1) (fst (reset_index t (r_idx s1))))).
        destruct (fold_left (checkout_change t) wch (None, (fst (reset_index t (r_idx s1)), r_wt s1)))
          as [[e2|] [ix' w']] eqn:Hfold; cbn [fst snd option_map]; [discriminate|].
        intro H. inversion H; subst s'.
        rewrite (eff_worktree_sound t wch _ (r_wt s1) ix' w' (w_idx s2 (fst (reset_index t (r_idx s1)))) Hfold).
        -- reflexivity.
        -- cbn. exact Hwt.
Qed.

(* ---------- the stores of an operation replay to the state it returns *)

Lemma effects_sound : forall o s,
  is_porcelain o = true -> apply_effs (effects o s) s = snd (xstep o s).
Proof.
  intros o s Hp. unfold effects. cbv zeta.
  destruct (xstep o s) as [r s'] eqn:Hx. cbn [fst snd] in *.
  destruct o; cbn [xstep is_porcelain] in *; try discriminate.
  - destruct r as [x|]; [apply restore_err_unchanged in Hx; now subst | eapply eff_restore_sound; eauto].
  - destruct r as [x|]; [apply add_path_err_unchanged in Hx; now subst | cbn; symmetry; eapply add_path_ok_shape; eauto].
  - destruct r as [x|]; [apply add_path_err_unchanged in Hx; now subst | cbn; symmetry; eapply add_path_ok_shape; eauto].
  - unfold add_bad_options in Hx. inversion Hx. reflexivity.
  - eapply eff_commit_sound; eauto.
  - destruct r as [x|]; [apply merge_err_unchanged in Hx; now subst |].
    apply merge_ok_shape in Hx. subst s'. now apply eff_update_head_sound.
  - eapply eff_pull_sound; eauto.
Qed.

(* ---------- faults between stores *)

(* the stores of the fetch half touch remote-tracking references only *)
Lemma fetch_prefix_observable : forall adv j s,
  observable (apply_effs (firstn j (map (fun nc : bytes * Z => FSetRef (tracking_name (fst nc)) (snd nc)) adv)) s)
  = observable s.
Proof.
  induction adv as [|[n c] adv IH]; intros j s; destruct j; cbn [map firstn]; try reflexivity.
  change (apply_effs (?f :: ?r) s) with (apply_effs r (apply_eff s f)). rewrite IH.
  cbn [apply_eff fst snd]. unfold observable, w_refs. cbn [r_head r_refs r_idx r_wt].
  now rewrite (local_refs_insert_remote (r_refs s) (tracking_name n) c (tracking_is_remote n)).
Qed.

(* a refused operation (under the guards of the atomicity theorems) has made no
   observable store: whatever prefix of its stores a fault lets through *)
Lemma fault_refused_atomic : forall o s x j,
  op_guard o s = true -> fst (xstep o s) = Some x -> observable (after_fault j o s) = observable s.
Proof.
  intros o s x j Hg Hn. unfold after_fault, effects. cbv zeta.
  destruct o; cbn [xstep op_guard] in *.
  - (* XRestore *) rewrite Hn. destruct j; reflexivity.
  - (* XAdd *) rewrite Hn. destruct j; reflexivity.
  - (* XAddAll *) rewrite Hn. destruct j; reflexivity.
  - (* XAddBad *) destruct j; reflexivity.
  - (* XCommit *) unfold eff_commit, commit_stores_index. rewrite Hn. cbn [is_some negb].
    apply negb_true_iff in Hg. rewrite Hg, andb_false_r. cbn [andb app]. destruct j; reflexivity.
  - (* XMerge *) rewrite Hn. destruct j; reflexivity.
  - (* XPull *) unfold eff_pull, eff_fetch.
    assert (Hrest : eff_pull_tail e s = []).
    { revert Hn. unfold pull, eff_pull_tail. destruct (pull_pre e s) as [[x0|] [rc s1]] eqn:Hp; [reflexivity|].
      destruct (runstaged s1) eqn:Hu; [reflexivity|].
      destruct (pull_no_late_refusal e s rc s1 Hg Hp Hu) as (s2 & H2). rewrite H2. discriminate. }
    rewrite Hrest, app_nil_r.
    destruct (negb (pe_conf e) || negb (pe_reach e) || is_nil (pe_refs e)); [now destruct j|].
    apply fetch_prefix_observable.
  - (* XWrite *) discriminate.
  - (* XRm *) discriminate.
Qed.

(* operations with one observable store: Add, Merge, Commit without All *)
Definition single_store (o : xop) : bool :=
  match o with
  | XAdd _ | XAddAll | XAddBad | XMerge _ _ => true
  | XCommit c => negb (cm_all c)
  | _ => false
  end.

Lemma fault_single_store_atomic : forall o s j,
  single_store o = true ->
  observable (after_fault j o s) = observable s \/ after_fault j o s = snd (xstep o s).
Proof.
  intros o s j Hs. unfold after_fault.
  assert (Hp : is_porcelain o = true) by (destruct o; try discriminate; reflexivity).
  pose proof (effects_sound o s Hp) as Hsound.
  destruct (Nat.le_gt_cases (List.length (effects o s)) j) as [Hge|Hlt].
  - right. rewrite firstn_all2 by assumption. exact Hsound.
  - left. revert Hlt. unfold effects. cbv zeta.
    destruct o; cbn [single_store] in Hs; try discriminate.
    + (* XAdd *) destruct (fst (xstep _ s)); cbn [List.length]; intro Hlt; [lia|]. assert (j = 0)%nat as -> by lia. reflexivity.
    + (* XAddAll *) destruct (fst (xstep _ s)); cbn [List.length]; intro Hlt; [lia|]. assert (j = 0)%nat as -> by lia. reflexivity.
    + (* XAddBad *) cbn [List.length]. intro Hlt. lia.
    + (* XCommit *) unfold eff_commit, commit_stores_index. apply negb_true_iff in Hs. rewrite Hs, andb_false_r. cbn [andb app].
      destruct (negb (is_some (fst (xstep (XCommit o) s)))); [|cbn [List.length]; intro; lia].
      unfold eff_update_head. destruct (r_head s); cbn [List.length]; intro Hlt;
        (destruct j as [|[|j]]; [reflexivity | reflexivity | lia]).
    + (* XMerge *) destruct (fst (xstep _ s)); [cbn [List.length]; intro; lia|].
      unfold eff_update_head. destruct (r_head s); cbn [List.length]; intro Hlt;
        (assert (j = 0)%nat as -> by lia; reflexivity).
Qed.

(* Restore of two files: after the index store and the first file the
   repository is neither the old nor the new one *)
From Coq Require Import String.
Local Open Scope string_scope.
Definition fr_state : rstate :=
  mkR [mkCmt [(bs "a", (KReg, bs "A0")); (bs "b", (KReg, bs "B0"))] []] [(master, 0%Z)] (HSym master)
      [(bs "a", (KReg, bs "sa")); (bs "b", (KReg, bs "sb"))]
      [(bs "a", (KReg, bs "wa")); (bs "b", (KReg, bs "wb"))] true.
Definition fr_op : xop := XRestore true true [bs "a"; bs "b"].
Local Close Scope string_scope.

Lemma fault_prefix_refuted :
  exists o s j, fst (xstep o s) = None /\
    observable (after_fault j o s) <> observable s /\
    observable (after_fault j o s) <> observable (snd (xstep o s)).
Proof.
  exists fr_op, fr_state, 4%nat. split; [vm_compute; reflexivity|].
  split; vm_compute; intro H; discriminate.
Qed.

(* Commit{All}: the index is stored, the commit is not *)
Lemma fault_commit_all_refuted :
  exists o s j, fst (xstep o s) = None /\
    observable (after_fault j o s) <> observable s /\
    observable (after_fault j o s) <> observable (snd (xstep o s)).
Proof.
  exists (XCommit (mkCO true false true false)), (w_wt ca_state [(bs "a"%string, (KReg, bs "new"%string))]), 1%nat.
  split; [vm_compute; reflexivity|]. split; vm_compute; intro H; discriminate.
Qed.
