(* Proofs/C12Git.v — git (S = Spec/GitIndex.v) reads what go-git's encoder (G = Model/IndexFile.v) writes. *)
From Coq Require Import List NArith ZArith Arith Lia ZifyBool ZifyNat ZifyN Bool.
From GoGit Require Import Base.Out Model.IndexFile Spec.GitIndex Proofs.C12 Proofs.C12Size.
Import ListNotations.
Local Open Scope N_scope.

Ltac Zify.zify_post_hook ::= Z.div_mod_to_equations.

(* ---- varint.c against utils/binary ---- *)
(* wherever go-git's reader succeeds, git's decode_varint returns the same value and position *)
Lemma g_varint_of_read : forall fuel v c b r,
  read_varint_loop fuel v c b = Ok r -> g_varint_loop fuel v c b = GOk r.
Proof.
  induction fuel as [|f IH]; intros v c b r; cbn [read_varint_loop g_varint_loop];
    destruct (c <? 128); try (intros E; injection E as <-; reflexivity);
    destruct (varint_limit <=? v) eqn:El; try discriminate;
    (replace (144115188075855872 <=? v + 1) with false
       by (symmetry; apply N.leb_gt; apply N.leb_gt in El; unfold varint_limit in El; lia));
    destruct b as [|c' b']; try discriminate.
  apply IH.
Qed.

Lemma g_decode_varint_of_read b r : read_varint b = Ok r -> g_decode_varint b = GOk r.
Proof. unfold read_varint, g_decode_varint. destruct b; [discriminate|]. apply g_varint_of_read. Qed.

Lemma g_decode_varint_varint n rest : n < 4294967296 -> g_decode_varint (varint n ++ rest) = GOk (n, rest).
Proof. intros Hn. apply g_decode_varint_of_read. now apply read_varint_varint. Qed.

(* encode_varint writes the bytes WriteVariableWidthInt writes *)
Lemma g_varint_more_eq : forall f value acc, g_varint_more f value acc = varint_more f (value / 128) acc.
Proof.
  induction f as [|f IH]; intros value acc; cbn [g_varint_more varint_more]; [reflexivity|].
  destruct (value / 128 =? 0); [reflexivity|]. apply IH.
Qed.

Lemma g_encode_varint_eq n : g_encode_varint n = varint n.
Proof. unfold g_encode_varint, varint. apply g_varint_more_eq. Qed.

(* ---- strlen ---- *)
Lemma g_strlen_app s r : nonul s = true -> g_strlen (s ++ 0 :: r) = Some (List.length s).
Proof.
  induction s as [|c s IH]; intros Hn; cbn [app g_strlen List.length]; [reflexivity|].
  cbn in Hn. apply andb_true_iff in Hn as [Hc Hs]. apply negb_true_iff in Hc. rewrite Hc, IH by assumption. reflexivity.
Qed.

Lemma g_nonul_eq s : g_nonul s = nonul s.
Proof. reflexivity. Qed.

(* ---- the fixed part of an entry ---- *)
Lemma g_ondisk_enc hs f r :
  f_sec f < 4294967296 -> f_nsec f < 4294967296 -> f_msec f < 4294967296 -> f_mnsec f < 4294967296 ->
  f_dev f < 4294967296 -> f_ino f < 4294967296 -> f_mode f < 4294967296 -> f_uid f < 4294967296 ->
  f_gid f < 4294967296 -> f_size f < 4294967296 -> List.length (f_hash f) = hs -> f_flags f < 65536 ->
  g_ondisk hs (enc_fixed f ++ r) =
  Some (mkGE (f_sec f) (f_nsec f) (f_msec f) (f_mnsec f) (f_dev f) (f_ino f) (f_mode f) (f_uid f) (f_gid f) (f_size f) (f_hash f),
        f_flags f, r).
Proof.
  intros. unfold g_ondisk, enc_fixed. repeat rewrite <- app_assoc.
  do 10 (rewrite get_u32_u32 by assumption).
  rewrite (take_app_n hs) by assumption. rewrite get_u16_u16 by assumption. reflexivity.
Qed.

(* ---- what git holds in memory for an entry go-git encoded ---- *)
Definition time_raw (t : gtime) : N * N := match time_to_u32 t with Ok p => p | Err _ => (0, 0) end.

Definition git_of_entry (e : entry) : gentry :=
  mkGE (fst (time_raw (e_ctime e))) (snd (time_raw (e_ctime e))) (fst (time_raw (e_mtime e))) (snd (time_raw (e_mtime e)))
       (e_dev e) (e_ino e) (e_mode e) (e_uid e) (e_gid e) (e_size e) (e_hash e)
       (e_stage e) (e_ita e || e_skip e) false (e_ita e) (e_skip e) (e_name e).

Lemma ext_word_known (ita skip : bool) :
  N.ldiff ((if ita then intentToAddMask else 0) + (if skip then skipWorkTreeMask else 0)) 24576 = 0.
Proof. destruct ita, skip; reflexivity. Qed.

Lemma flags_bit15 s m : s < 4 -> m < 4096 ->
  N.testbit (s * 4096 + m) 15 = false /\ N.testbit (s * 4096 + m + 16384) 15 = false.
Proof. intros. rewrite !N.testbit_eqb. change (2 ^ 15) with 32768. split; lia. Qed.

Lemma take_zeros_more n m r : (n <= m)%nat -> exists z, take n (zeros m ++ r) = Some (zeros n, z).
Proof.
  intros Hle. replace m with (n + (m - n))%nat by lia. unfold zeros. rewrite repeat_app, <- app_assoc.
  eexists. apply take_app_n. apply repeat_length.
Qed.

Lemma pad_bounds a : (1 <= 8 - a mod 8 <= 8)%nat.
Proof. pose proof (Nat.mod_upper_bound a 8). lia. Qed.

Lemma ce_size_pad hs (ext : bool) nl :
  (g_ondisk_ce_size hs ext nl - (40 + hs + 2 + (if ext then 2 else 0)) =
   nl + (8 - (42 + hs + (if ext then 2 else 0) + nl) mod 8))%nat.
Proof.
  unfold g_ondisk_ce_size. set (x := if ext then 2%nat else 0%nat).
  replace (40 + hs + 2 + x + nl + 8)%nat with (42 + hs + x + nl + 8)%nat by lia.
  set (w := (42 + hs + x + nl)%nat).
  assert (Hw : (40 + hs + 2 + x = w - nl)%nat) by (unfold w; lia).
  assert (Hnl : (nl <= w)%nat) by (unfold w; lia).
  rewrite Hw. clearbody w. clear Hw x.
  pose proof (Nat.div_mod w 8) as Hd. pose proof (Nat.mod_upper_bound w 8) as Hu.
  assert (E : ((w + 8) / 8 = S (w / 8))%nat).
  { replace (w + 8)%nat with (w + 1 * 8)%nat by lia. rewrite Nat.div_add by lia. lia. }
  rewrite E. lia.
Qed.

Definition name_len_field (name : bytes) : N :=
  if N.of_nat (List.length name) <? 4095 then N.of_nat (List.length name) else 4095.

Lemma name_len_field_small name : name_len_field name <> 4095 -> N.to_nat (name_len_field name) = List.length name.
Proof. unfold name_len_field. destruct (N.of_nat (List.length name) <? 4095) eqn:E; [apply N.ltb_lt in E|]; lia. Qed.

Lemma cpl_le_r : forall a b : bytes, (common_prefix_len a b <= List.length b)%nat.
Proof. induction a as [|p a IH]; intros [|q b0]; cbn; try lia. destruct (p =? q); cbn; [specialize (IH b0)|]; lia. Qed.

(* V2/V3: git takes the name by its length field (or strlen) and jumps to ondisk_ce_size *)
Lemma g_name_v23_ok hs (ext : bool) name rest :
  nonul name = true ->
  g_name_v23 hs ext (40 + hs + 2 + (if ext then 2 else 0)) (name_len_field name)
             (name ++ zeros (8 - (42 + hs + (if ext then 2 else 0) + List.length name) mod 8) ++ rest) = GOk (name, rest).
Proof.
  intros Hn. unfold g_name_v23.
  set (nl := List.length name).
  set (pad := (8 - (42 + hs + (if ext then 2 else 0) + nl) mod 8)%nat).
  assert (Hpad : (1 <= pad <= 8)%nat) by apply pad_bounds.
  assert (Hsize : (g_ondisk_ce_size hs ext nl - (40 + hs + 2 + (if ext then 2 else 0)) = nl + pad)%nat) by apply ce_size_pad.
  destruct pad as [|pad'] eqn:Ep; [lia|]. rewrite zeros_S. cbn [app].
  assert (Hnl : (if name_len_field name =? 4095
                 then match g_strlen (name ++ 0 :: zeros pad' ++ rest) with None => GErr GOob | Some l0 => GOk l0 end
                 else GOk (N.to_nat (name_len_field name))) = GOk nl).
  { destruct (name_len_field name =? 4095) eqn:Em4.
    - rewrite g_strlen_app by exact Hn. reflexivity.
    - apply N.eqb_neq in Em4. now rewrite (name_len_field_small _ Em4). }
  rewrite Hnl. unfold nl at 1. rewrite take_app. cbn [N.eqb negb orb].
  rewrite g_nonul_eq, Hn. cbn [negb]. rewrite Hsize.
  replace (name ++ 0 :: zeros pad' ++ rest) with ((name ++ zeros (S pad')) ++ rest)
    by (rewrite zeros_S, <- app_assoc; reflexivity).
  rewrite (take_app_n (nl + S pad')) by (rewrite app_length, zeros_length; reflexivity).
  reflexivity.
Qed.

(* V4: strip length against the previous name, suffix, NUL *)
Lemma g_name_v4_ok last name rest :
  nonul name = true -> last_ok last ->
  let prefix := match last with Some ln => common_prefix_len ln name | None => O end in
  let strip := match last with Some ln => (List.length ln - prefix)%nat | None => O end in
  g_name_v4 last (name_len_field name) (varint (N.of_nat strip) ++ skipn prefix name ++ [0] ++ rest) = GOk (name, rest).
Proof.
  intros Hn Hlast prefix strip. unfold g_name_v4.
  set (nl := List.length name).
  rewrite g_decode_varint_varint.
  2:{ unfold strip. destruct last as [ln|]; [cbn in Hlast|]; lia. }
  assert (Hcopy : (match last with
                   | None => GOk O
                   | Some p => if N.of_nat (List.length p) <? N.of_nat strip then GErr GMalformedName
                               else GOk (List.length p - N.to_nat (N.of_nat strip))%nat
                   end) = GOk prefix /\ (prefix <= nl)%nat /\
                  firstn prefix (match last with Some p => p | None => [] end) = firstn prefix name).
  { unfold strip, prefix. destruct last as [ln|].
    - pose proof (cpl_le ln name) as Hle.
      replace (N.of_nat (List.length ln) <? N.of_nat (List.length ln - common_prefix_len ln name)) with false
        by (symmetry; apply N.ltb_ge; lia).
      rewrite Nat2N.id. split; [f_equal; lia|]. split; [apply cpl_le_r|apply cpl_firstn].
    - split; [reflexivity|]. split; [lia|reflexivity]. }
  destruct Hcopy as (Hcopy & Hple & Hpre). rewrite Hcopy.
  assert (Hsuf : List.length (skipn prefix name) = (nl - prefix)%nat) by apply skipn_length.
  assert (Hnl : (if name_len_field name =? 4095
                 then match g_strlen (skipn prefix name ++ [0] ++ rest) with None => GErr GOob | Some l0 => GOk (l0 + prefix)%nat end
                 else GOk (N.to_nat (name_len_field name))) = GOk nl).
  { destruct (name_len_field name =? 4095) eqn:Em4.
    - cbn [app]. rewrite g_strlen_app by (apply nonul_skipn; exact Hn). rewrite Hsuf. f_equal. lia.
    - apply N.eqb_neq in Em4. now rewrite (name_len_field_small _ Em4). }
  rewrite Hnl.
  replace (nl <? prefix)%nat with false by (symmetry; apply Nat.ltb_ge; lia).
  rewrite <- Hsuf. rewrite take_app. cbn [app N.eqb negb orb].
  rewrite Hpre, firstn_skipn, g_nonul_eq, Hn. reflexivity.
Qed.

Lemma entry_git_reads hs ver last e rest :
  wf_entry hs e = true -> ver = 2 \/ ver = 3 \/ ver = 4 -> last_ok last ->
  exists b, encode_entry hs ver last e = Ok b /\
            g_create_from_disk hs ver last (b ++ rest) = GOk (git_of_entry e, rest).
Proof.
  intros Hw Hver Hlast. unfold wf_entry in Hw.
  repeat (apply andb_true_iff in Hw; let H := fresh "W" in destruct Hw as [Hw H]).
  rename Hw into Wname.
  unfold u32ok in *. apply N.ltb_lt in W, W1, W2, W3, W4, W5, W6, W9. apply Nat.eqb_eq in W0.
  destruct (time_roundtrip _ W8) as (sec & nsec & Ec & Hsec & Hnsec & Mc).
  destruct (time_roundtrip _ W7) as (msec & mnsec & Em & Hmsec & Hmnsec & Mm).
  unfold encode_entry. rewrite Ec, Em.
  assert (Gof : git_of_entry e = mkGE sec nsec msec mnsec (e_dev e) (e_ino e) (e_mode e) (e_uid e) (e_gid e) (e_size e) (e_hash e)
                                  (e_stage e) (e_ita e || e_skip e) false (e_ita e) (e_skip e) (e_name e)).
  { unfold git_of_entry, time_raw. rewrite Ec, Em. reflexivity. }
  rewrite Gof. clear Gof.
  change (if N.of_nat (List.length (e_name e)) <? nameMask then N.of_nat (List.length (e_name e)) else nameMask)
    with (name_len_field (e_name e)).
  set (m := name_len_field (e_name e)).
  assert (Hm : m < 4096) by (unfold m, name_len_field; destruct (N.of_nat (List.length (e_name e)) <? 4095) eqn:E; [apply N.ltb_lt in E|]; lia).
  assert (Hst : e_stage e mod 4 = e_stage e) by (apply N.mod_small; lia).
  rewrite Hst.
  set (flags := e_stage e * 4096 + m).
  set (ext := (e_ita e || e_skip e)%bool).
  set (x := (if e_ita e then intentToAddMask else 0) + (if e_skip e then skipWorkTreeMask else 0)).
  destruct (flags_fields (e_stage e) m W9 Hm) as (F1 & F2 & F3 & F4 & F5 & F6).
  destruct (flags_bit15 (e_stage e) m W9 Hm) as (V1 & V2).
  destruct (ext_bits (e_ita e) (e_skip e)) as (X1 & X2 & X3). fold x in X1, X2, X3.
  pose proof (ext_word_known (e_ita e) (e_skip e)) as X4. fold x in X4.
  set (fw := if ext then flags + entryExtended else flags).
  set (f := mkF sec nsec msec mnsec (e_dev e) (e_ino e) (e_mode e) (e_uid e) (e_gid e) (e_size e) (e_hash e) fw).
  set (extbytes := if ext then u16 x else []).
  assert (Hfixed : forall tail,
    (u32 sec ++ u32 nsec ++ u32 msec ++ u32 mnsec ++ u32 (e_dev e) ++ u32 (e_ino e) ++ u32 (e_mode e) ++ u32 (e_uid e) ++
     u32 (e_gid e) ++ u32 (e_size e) ++ e_hash e ++ (if ext then u16 (flags + entryExtended) ++ u16 x else u16 flags)) ++ tail
    = enc_fixed f ++ extbytes ++ tail).
  { intros tail. unfold enc_fixed, f, fw, extbytes. cbn [f_sec f_nsec f_msec f_mnsec f_dev f_ino f_mode f_uid f_gid f_size f_hash f_flags].
    destruct ext; repeat rewrite <- app_assoc; reflexivity. }
  assert (Hfw : fw < 65536) by (unfold fw, flags, entryExtended; destruct ext; lia).
  assert (Hread : forall tail, g_ondisk hs (enc_fixed f ++ tail) =
     Some (mkGE sec nsec msec mnsec (e_dev e) (e_ino e) (e_mode e) (e_uid e) (e_gid e) (e_size e) (e_hash e), fw, tail)).
  { intros tail. apply (g_ondisk_enc hs f); assumption. }
  assert (Hstage : (fw / 4096) mod 4 = e_stage e) by (unfold fw, flags, entryExtended; destruct ext; assumption).
  assert (Hlen : fw mod 4096 = m) by (unfold fw, flags, entryExtended; destruct ext; assumption).
  assert (Hbit : N.testbit fw 14 = ext) by (unfold fw, flags, entryExtended; destruct ext; assumption).
  assert (Hvalid : N.testbit fw 15 = false) by (unfold fw, flags, entryExtended; destruct ext; assumption).
  assert (Hflagsdec : forall tail,
     (if ext then match get_u16 (extbytes ++ tail) with
                  | None => GErr GOob
                  | Some (x0, b2) => if N.ldiff x0 24576 =? 0 then GOk (N.testbit x0 13, N.testbit x0 14, b2) else GErr GUnknownEntryFormat
                  end
      else GOk (false, false, extbytes ++ tail)) = GOk (e_ita e, e_skip e, tail)).
  { intros tail. unfold extbytes. destruct ext eqn:Eext.
    - rewrite get_u16_u16 by exact X3. rewrite X4, X1, X2. reflexivity.
    - cbn [app]. unfold ext in Eext. apply orb_false_iff in Eext as [-> ->]. reflexivity. }
  clear F1 F2 F3 F4 F5 F6 V1 V2 X1 X2 X3 X4.
  destruct Hver as [-> | [-> | ->]]; cbn [N.eqb Pos.eqb orb]; (eexists; split; [reflexivity|]);
    rewrite <- (app_assoc _ _ rest); rewrite Hfixed; unfold g_create_from_disk; rewrite Hread;
    rewrite Hbit, Hflagsdec, Hstage, Hvalid, Hlen; cbn [N.eqb Pos.eqb]; repeat rewrite <- app_assoc.
  - unfold m. rewrite (g_name_v23_ok hs ext (e_name e)) by exact Wname. reflexivity.
  - unfold m. rewrite (g_name_v23_ok hs ext (e_name e)) by exact Wname. reflexivity.
  - unfold m. rewrite (g_name_v4_ok last (e_name e) rest Wname Hlast). reflexivity.
Qed.

(* ---- all entries ---- *)
Lemma entries_git_reads hs ver : ver = 2 \/ ver = 3 \/ ver = 4 ->
  forall l last rest acc fuel,
  forallb (wf_entry hs) l = true -> last_ok last -> (List.length l < fuel)%nat ->
  exists b, encode_entries hs ver last l = Ok b /\
            g_load_entries hs fuel ver (N.of_nat (List.length l)) last (b ++ rest) acc = GOk (rev acc ++ map git_of_entry l, rest).
Proof.
  intros Hver. induction l as [|e l IH]; intros last rest acc fuel Hw Hlast Hfuel.
  - exists []. cbn [encode_entries List.length app map]. split; [reflexivity|].
    destruct fuel; cbn [g_load_entries N.of_nat N.eqb]; now rewrite app_nil_r.
  - cbn [forallb] in Hw. apply andb_true_iff in Hw as [He Hl].
    destruct fuel as [|fuel]; [cbn in Hfuel; lia|].
    assert (Hlast' : last_ok (Some (e_name e))) by (cbn; now apply wf_entry_name_len with hs).
    destruct (IH (Some (e_name e)) rest (git_of_entry e :: acc) fuel Hl Hlast') as (b' & Eb' & Rb').
    { cbn [List.length] in Hfuel. lia. }
    destruct (entry_git_reads hs ver last e (b' ++ rest) He Hver Hlast) as (b & Eb & Rb).
    exists (b ++ b'). cbn [encode_entries]. rewrite Eb, Eb'. split; [reflexivity|].
    cbn [g_load_entries List.length].
    replace (N.of_nat (S (List.length l)) =? 0) with false by (symmetry; apply N.eqb_neq; lia).
    rewrite <- app_assoc, Rb.
    replace (N.of_nat (S (List.length l)) - 1) with (N.of_nat (List.length l)) by lia.
    change (ge_name (git_of_entry e)) with (e_name e).
    rewrite Rb'. cbn [rev map]. rewrite <- app_assoc. reflexivity.
Qed.

(* ---- the file ---- *)
Definition git_view (ver : N) (entries : list entry) : gindex :=
  mkGI ver (map git_of_entry entries) None None None None false.

(* the bytes before the trailer *)
Lemma encode_shape hs H skip ver entries file :
  encode hs H skip ver entries = Ok file ->
  exists body, encode_body hs ver entries = Ok body /\
               file = body ++ (if skip then zeros hs else fit hs (H body)).
Proof.
  unfold encode. destruct (encode_body hs ver entries) as [body|]; [|discriminate].
  intros E. injection E as <-. exists body. split; reflexivity.
Qed.

Lemma trailer_length hs (H : bytes -> bytes) (skip : bool) body : List.length (if skip then zeros hs else fit hs (H body)) = hs.
Proof. destruct skip; [apply zeros_length|apply fit_length]. Qed.

(* do_read_index with the mapping (sizes, checksum, EOIE) and the parsed stream separated *)
Definition git_decode' (hs : nat) (H : bytes -> bytes) (m : gmode) (all b : bytes) : gres gindex :=
  let n := List.length all in
  if (n <? 12 + hs)%nat then GErr GTooSmall else
  match take 4 b with None => GErr GTooSmall | Some (sig, b1) =>
  if negb (bytes_eqb sig gDIRC) then GErr GBadSignature else
  match get_u32 b1 with None => GErr GTooSmall | Some (ver, b2) =>
  if (ver <? 2) || (4 <? ver) then GErr GBadVersion else
  if gm_verify m && negb (gm_null_ok m && g_is_zero (skipn (n - hs) all)) &&
     negb (bytes_eqb (H (firstn (n - hs) all)) (skipn (n - hs) all)) then GErr GBadChecksum else
  match get_u32 b2 with None => GErr GTooSmall | Some (count, b3) =>
  match g_load_entries hs (S (List.length b3)) ver count None b3 [] with
  | GErr e => GErr e
  | GOk (es, b4) =>
    let off := if gm_threads m then g_read_eoie hs H all else 0 in
    let start := if off =? 0 then b4 else skipn (N.to_nat off) all in
    if negb (off =? 0) && g_has_ieot hs (S n) start then GErr GUnspec else
    match g_load_extensions hs (S (List.length start)) start (mkGI ver es None None None None false) with
    | GErr e => GErr e
    | GOk g =>
      if gm_verify m then match g_check_order es with Some e => GErr e | None => GOk g end else GOk g
    end
  end end end end.

Lemma git_decode_eq hs H m b : git_decode hs H m b = git_decode' hs H m b b.
Proof. reflexivity. Qed.

(* do_read_index on go-git's output, with or without fsck's verifications *)
Lemma git_reads_ours_gen hs H skip v null_ok ver entries :
  ver = 2 \/ ver = 3 \/ ver = 4 ->
  forallb (wf_entry hs) entries = true ->
  N.of_nat (List.length entries) < 4294967296 ->
  (v = true -> ((skip = false /\ forall x, List.length (H x) = hs) \/ (skip = true /\ null_ok = true)) /\
               g_check_order (map git_of_entry (sort_entries entries)) = None) ->
  exists file, encode hs H skip ver entries = Ok file /\
               git_decode hs H (mkGM v null_ok false) file = GOk (git_view ver (sort_entries entries)).
Proof.
  intros Hver Hw Hcount Hv.
  pose proof (sort_entries_forallb _ _ Hw) as Hws.
  destruct (entries_git_reads hs ver Hver (sort_entries entries) None [] [] (S (List.length (sort_entries entries))) Hws I)
    as (b & Eb & _); [lia|].
  remember (DIRC ++ u32 (ver mod 4294967296) ++ u32 (N.of_nat (List.length entries) mod 4294967296) ++ b) as body eqn:Ebody.
  remember (if skip then zeros hs else fit hs (H body)) as trailer eqn:Etr.
  assert (Htl : List.length trailer = hs) by (subst trailer; apply trailer_length).
  destruct (entries_git_reads hs ver Hver (sort_entries entries) None trailer [] (S (List.length (b ++ trailer))) Hws I)
    as (b' & Eb' & Rb).
  { pose proof (entries_roundtrip hs ver Hver (sort_entries entries) None [] [] (S (List.length (sort_entries entries))) Hws I) as X.
    destruct X as (b2 & Eb2 & _ & Lb2); [lia|]. rewrite Eb in Eb2. injection Eb2 as <-. rewrite app_length. lia. }
  rewrite Eb in Eb'. injection Eb' as <-.
  assert (Hvlt : ver < 4294967296) by (destruct Hver as [-> | [-> | ->]]; lia).
  assert (H4 : (4 <? ver) = false) by (destruct Hver as [-> | [-> | ->]]; reflexivity).
  assert (Hrange : ((ver <? 2) || (4 <? ver))%bool = false) by (destruct Hver as [-> | [-> | ->]]; reflexivity).
  exists (body ++ trailer). split.
  - unfold encode, encode_body. rewrite H4, Eb. rewrite <- Ebody. subst trailer. reflexivity.
  - rewrite git_decode_eq.
    remember (body ++ trailer) as all eqn:Eall.
    assert (Hbl : (12 <= List.length body)%nat) by (subst body; rewrite !app_length, !u32_length; cbn; lia).
    assert (Hal : List.length all = (List.length body + hs)%nat) by (subst all; rewrite app_length; lia).
    assert (Estream : all = [68; 73; 82; 67] ++ u32 ver ++ u32 (N.of_nat (List.length entries)) ++ b ++ trailer).
    { subst all body. rewrite (N.mod_small ver) by exact Hvlt. rewrite (N.mod_small _ _ Hcount).
      repeat rewrite <- app_assoc. reflexivity. }
    rewrite Estream at 2. unfold git_decode'.
    replace (List.length all <? 12 + hs)%nat with false by (symmetry; apply Nat.ltb_ge; lia).
    rewrite (take_app_n 4) by reflexivity. change (bytes_eqb [68; 73; 82; 67] gDIRC) with true. cbn [negb].
    rewrite get_u32_u32 by exact Hvlt. rewrite Hrange.
    (* the checksum test *)
    assert (Hsum : (gm_verify (mkGM v null_ok false) &&
                    negb (gm_null_ok (mkGM v null_ok false) && g_is_zero (skipn (List.length all - hs) all)) &&
                    negb (bytes_eqb (H (firstn (List.length all - hs) all)) (skipn (List.length all - hs) all)))%bool = false).
    { cbn [gm_verify gm_null_ok]. destruct v; [|reflexivity].
      replace (List.length all - hs)%nat with (List.length body) by lia. rewrite Eall.
      rewrite skipn_app, Nat.sub_diag, skipn_all. cbn [skipn app].
      rewrite firstn_app, Nat.sub_diag, firstn_all, firstn_O, app_nil_r.
      destruct (Hv eq_refl) as [[[Hs HH] | [Hs Hn]] _].
      - rewrite Etr, Hs.
        assert (Hfit : fit hs (H body) = H body).
        { unfold fit. rewrite firstn_app, HH, Nat.sub_diag, firstn_O, app_nil_r. rewrite <- (HH body) at 1. apply firstn_all. }
        rewrite Hfit, bytes_eqb_refl. cbn [negb]. now rewrite andb_false_r.
      - rewrite Etr, Hs, Hn. change g_is_zero with is_zero. rewrite is_zero_zeros. reflexivity. }
    rewrite Hsum. cbn [gm_threads gm_verify].
    rewrite get_u32_u32 by exact Hcount.
    rewrite sort_entries_length in Rb. rewrite Rb. cbn [rev app N.eqb negb andb].
    cbn [g_load_extensions].
    replace (List.length trailer <? 8 + hs)%nat with true by (symmetry; apply Nat.ltb_lt; lia).
    destruct v; [|reflexivity].
    destruct (Hv eq_refl) as [_ Ho]. unfold git_view. rewrite Ho. reflexivity.
Qed.

(* git's normal read (no checksum verification, extensions in file order) *)
Theorem git_reads_ours hs H skip null_ok ver entries :
  ver = 2 \/ ver = 3 \/ ver = 4 ->
  forallb (wf_entry hs) entries = true ->
  N.of_nat (List.length entries) < 4294967296 ->
  exists file, encode hs H skip ver entries = Ok file /\
               git_decode hs H (mkGM false null_ok false) file = GOk (git_view ver (sort_entries entries)).
Proof. intros Hver Hw Hcount. apply git_reads_ours_gen; try assumption. discriminate. Qed.

(* ---- check_ce_order on sorted entries ---- *)
Lemma bytes_eqb_sym : forall a b, bytes_eqb a b = bytes_eqb b a.
Proof. induction a as [|x a IH]; intros [|y b]; cbn; try reflexivity. now rewrite IH, N.eqb_sym. Qed.

Lemma bytes_eqb_ltb : forall a b, bytes_eqb a b = true -> bytes_ltb a b = false.
Proof.
  induction a as [|x a IH]; intros [|y b]; cbn; try discriminate; try reflexivity.
  intros E. apply andb_true_iff in E as [Exy E]. apply N.eqb_eq in Exy. subst y.
  rewrite N.ltb_irrefl. now apply IH.
Qed.

Lemma bytes_ltb_asym : forall a b, bytes_ltb a b = true -> bytes_ltb b a = false.
Proof.
  induction a as [|x a IH]; intros [|y b]; cbn; try discriminate; try reflexivity.
  destruct (x <? y) eqn:E1; destruct (y <? x) eqn:E2; try reflexivity; try discriminate.
  - apply N.ltb_lt in E1, E2. lia.
  - apply IH.
Qed.

Lemma entry_less_asym x y : entry_less y x = true -> entry_less x y = false.
Proof.
  unfold entry_less. rewrite (bytes_eqb_sym (e_name x) (e_name y)).
  destruct (bytes_eqb (e_name y) (e_name x)).
  - intros E. apply N.ltb_lt in E. apply N.ltb_ge. lia.
  - apply bytes_ltb_asym.
Qed.

(* no entry is smaller than its predecessor *)
Fixpoint adj_ok (l : list entry) : bool :=
  match l with
  | a :: ((b :: _) as r) => negb (entry_less b a) && adj_ok r
  | _ => true
  end.

Lemma insert_adj x : forall l, adj_ok l = true -> adj_ok (insert_entry x l) = true.
Proof.
  induction l as [|y l IH]; intros Hl; [reflexivity|].
  cbn [insert_entry]. destruct (entry_less y x) eqn:E.
  - destruct l as [|z l'].
    + cbn [insert_entry adj_ok]. rewrite (entry_less_asym _ _ E). reflexivity.
    + cbn [adj_ok] in Hl. apply andb_true_iff in Hl as [Hzy Hl].
      specialize (IH Hl). cbn [insert_entry] in *. destruct (entry_less z x) eqn:E'.
      * cbn [adj_ok] in *. now rewrite Hzy, IH.
      * cbn [adj_ok] in *. rewrite (entry_less_asym _ _ E). cbn [negb andb]. exact IH.
  - cbn [adj_ok]. rewrite E. cbn [negb andb]. exact Hl.
Qed.

Lemma sort_adj l : adj_ok (sort_entries l) = true.
Proof. unfold sort_entries. induction l as [|x l IH]; [reflexivity|]. cbn [fold_right]. now apply insert_adj. Qed.

(* a merged entry (stage 0) is the only entry of its name *)
Fixpoint no_merged_dup (l : list entry) : bool :=
  match l with
  | a :: ((b :: _) as r) => negb (bytes_eqb (e_name a) (e_name b) && (e_stage a =? 0)) && no_merged_dup r
  | _ => true
  end.

Lemma check_order_ok : forall l, adj_ok l = true -> no_merged_dup l = true -> g_check_order (map git_of_entry l) = None.
Proof.
  induction l as [|a l IH]; intros Ha Hm; [reflexivity|].
  destruct l as [|b l']; [reflexivity|].
  cbn [adj_ok no_merged_dup] in Ha, Hm.
  apply andb_true_iff in Ha as [Hab Ha]. apply andb_true_iff in Hm as [Hmab Hm].
  apply negb_true_iff in Hab, Hmab.
  change (map git_of_entry (a :: b :: l')) with (git_of_entry a :: git_of_entry b :: map git_of_entry l').
  cbn [g_check_order]. change (ge_name (git_of_entry a)) with (e_name a). change (ge_name (git_of_entry b)) with (e_name b).
  change (ge_stage (git_of_entry a)) with (e_stage a). change (ge_stage (git_of_entry b)) with (e_stage b).
  unfold entry_less in Hab. rewrite (bytes_eqb_sym (e_name b) (e_name a)) in Hab.
  destruct (bytes_eqb (e_name a) (e_name b)) eqn:E.
  - rewrite (bytes_eqb_sym (e_name a) (e_name b)) in E. rewrite (bytes_eqb_ltb _ _ E).
    cbn [andb] in Hmab. rewrite Hmab, Hab. apply (IH Ha Hm).
  - rewrite Hab. apply (IH Ha Hm).
Qed.

(* git fsck's read: the trailer is verified and check_ce_order runs *)
Theorem git_fsck_reads_ours hs H skip null_ok ver entries :
  (forall x, List.length (H x) = hs) ->
  ver = 2 \/ ver = 3 \/ ver = 4 ->
  forallb (wf_entry hs) entries = true ->
  N.of_nat (List.length entries) < 4294967296 ->
  no_merged_dup (sort_entries entries) = true ->
  skip = false \/ null_ok = true ->
  exists file, encode hs H skip ver entries = Ok file /\
               git_decode hs H (mkGM true null_ok false) file = GOk (git_view ver (sort_entries entries)).
Proof.
  intros HH Hver Hw Hcount Hm Hs. apply git_reads_ours_gen; try assumption.
  intros _. split.
  - destruct skip; [right|left]; split; auto. destruct Hs; [discriminate|assumption].
  - apply check_order_ok; [apply sort_adj|exact Hm].
Qed.
