(* Proofs/C10Bytes.v — byte-level facts used by the C10 proofs: big-endian
   integers round-trip, sequential reads and ReadAt on concatenations, and
   access to the i-th fixed-width record of a table. *)
From Coq Require Import List NArith ZArith Bool Lia ZifyBool ZifyNat ZifyN.
From GoGit Require Import Base.Out Model.PackBytes.
Import ListNotations.
Local Open Scope N_scope.

Ltac Zify.zify_post_hook ::= Z.div_mod_to_equations.

Lemma blen_app a b : blen (a ++ b) = blen a + blen b.
Proof. unfold blen. rewrite app_length. lia. Qed.

Lemma blen_nil : blen [] = 0.
Proof. reflexivity. Qed.

Lemma blen_be32 n : blen (be32 n) = 4.
Proof. reflexivity. Qed.

Lemma blen_be64 n : blen (be64 n) = 8.
Proof. reflexivity. Qed.

Lemma blen_flat_map {A} (f : A -> bytes) k (l : list A) :
  (forall x, In x l -> blen (f x) = k) -> blen (flat_map f l) = N.of_nat (List.length l) * k.
Proof.
  induction l as [|x l IH]; intros Hk; cbn [flat_map List.length].
  - reflexivity.
  - rewrite blen_app, IH, (Hk x) by (intros; apply Hk; now right) || now left. lia.
Qed.

(* ------------------------------------------------------------ integers *)

Lemma get32_be32 n r : n < 4294967296 -> get32 (be32 n ++ r) = n.
Proof. intros Hn. unfold be32, get32. cbn [app]. lia. Qed.

Lemma get32_be32' n : n < 4294967296 -> get32 (be32 n) = n.
Proof. intros Hn. rewrite <- (app_nil_r (be32 n)). now apply get32_be32. Qed.

Lemma get64_be64 n r : n < 18446744073709551616 -> get64 (be64 n ++ r) = n.
Proof.
  intros Hn. unfold get64, be64. rewrite <- app_assoc.
  rewrite get32_be32 by lia.
  replace (skipn 4 (be32 (n / 4294967296) ++ be32 n ++ r)) with (be32 n ++ r) by reflexivity.
  unfold be32, get32. cbn [app]. lia.
Qed.

Lemma be32_bytes n : forall b, In b (be32 n) -> b < 256.
Proof. unfold be32. intros b [<-|[<-|[<-|[<-|[]]]]]; lia. Qed.

(* --------------------------------------------------- sequential reading *)

Lemma take_app a r : take (blen a) (a ++ r) = Some (a, r).
Proof.
  unfold take. rewrite blen_app. replace (blen a <=? blen a + blen r) with true by lia.
  unfold blen. rewrite Nat2N.id, firstn_app, Nat.sub_diag, firstn_all, skipn_app, Nat.sub_diag, skipn_all. cbn.
  now rewrite app_nil_r.
Qed.

Lemma take_app_n n a r : blen a = n -> take n (a ++ r) = Some (a, r).
Proof. intros <-. apply take_app. Qed.

Lemma take_some n r a b : take n r = Some (a, b) -> r = a ++ b /\ blen a = n.
Proof.
  unfold take. destruct (n <=? blen r) eqn:E; [|discriminate]. intros H. inversion H; subst.
  split; [symmetry; apply firstn_skipn|]. unfold blen in *. rewrite firstn_length. lia.
Qed.

Lemma take_inv n r a b : take n r = Some (a, b) ->
  a = firstn (N.to_nat n) r /\ b = skipn (N.to_nat n) r /\ n <= blen r.
Proof.
  unfold take. destruct (n <=? blen r) eqn:E; [|discriminate]. intros H. inversion H; subst.
  repeat split. lia.
Qed.

(* ------------------------------------------------------------- slices *)

Lemma slice_app_mid pre x post : slice (pre ++ x ++ post) (blen pre) (blen x) = x.
Proof.
  unfold slice, blen. rewrite !Nat2N.id, skipn_app, Nat.sub_diag, skipn_all. cbn [app skipn].
  rewrite firstn_app, Nat.sub_diag, firstn_all. cbn. now rewrite app_nil_r.
Qed.

Lemma slice_app_mid_n pre x post off len :
  off = blen pre -> len = blen x -> slice (pre ++ x ++ post) off len = x.
Proof. intros -> ->. apply slice_app_mid. Qed.

Lemma read_at_app_mid pre x post off len :
  off = blen pre -> len = blen x -> read_at (pre ++ x ++ post) off len = Some x.
Proof.
  intros -> ->. unfold read_at. rewrite !blen_app.
  replace (blen pre + blen x <=? blen pre + (blen x + blen post)) with true by lia.
  now rewrite slice_app_mid.
Qed.

Lemma read_at_some f off len b : read_at f off len = Some b -> off + len <= blen f /\ b = slice f off len.
Proof. unfold read_at. destruct (off + len <=? blen f) eqn:E; [|discriminate]. intros H; inversion H. split; [lia|reflexivity]. Qed.

(* the i-th fixed-width record of a table laid out by flat_map *)
Lemma flat_map_split {A} (f : A -> bytes) (l : list A) (i : nat) d :
  (i < List.length l)%nat ->
  flat_map f l = flat_map f (firstn i l) ++ f (nth i l d) ++ flat_map f (skipn (S i) l).
Proof.
  revert i. induction l as [|x l IH]; intros i Hi; cbn in Hi; [lia|].
  destruct i as [|i]; cbn [firstn skipn nth flat_map app].
  - reflexivity.
  - rewrite (IH i) at 1 by lia. now rewrite <- app_assoc.
Qed.

Lemma firstn_length_le' {A} (l : list A) i : (i <= List.length l)%nat -> List.length (firstn i l) = i.
Proof. intros. rewrite firstn_length. lia. Qed.

Lemma record_at {A} (f : A -> bytes) k (l : list A) pre post (i : N) d :
  (forall x, blen (f x) = k) -> i < N.of_nat (List.length l) ->
  slice (pre ++ flat_map f l ++ post) (blen pre + i * k) k = f (nth (N.to_nat i) l d).
Proof.
  intros Hk Hi.
  rewrite (flat_map_split f l (N.to_nat i) d) by lia.
  rewrite <- !app_assoc.
  rewrite (app_assoc pre).
  apply slice_app_mid_n.
  - rewrite blen_app, (blen_flat_map f k) by (intros; apply Hk).
    rewrite firstn_length_le' by lia. lia.
  - now rewrite Hk.
Qed.

Lemma record_read_at {A} (f : A -> bytes) k (l : list A) pre post (i : N) d :
  (forall x, blen (f x) = k) -> i < N.of_nat (List.length l) ->
  read_at (pre ++ flat_map f l ++ post) (blen pre + i * k) k = Some (f (nth (N.to_nat i) l d)).
Proof.
  intros Hk Hi. unfold read_at.
  rewrite !blen_app, (blen_flat_map f k) by (intros; apply Hk).
  replace (blen pre + i * k + k <=? blen pre + (N.of_nat (List.length l) * k + blen post)) with true by nia.
  f_equal. now apply record_at.
Qed.

Lemma nth_map_N {A B} (f : A -> B) (l : list A) i d d' :
  (i < List.length l)%nat -> nth i (map f l) d' = f (nth i l d).
Proof. intros Hi. rewrite (nth_indep _ d' (f d)) by (rewrite map_length; lia). apply map_nth. Qed.

Lemma skipn_nth_cons {A} (l : list A) : forall i d, (i < List.length l)%nat -> skipn i l = nth i l d :: skipn (S i) l.
Proof.
  induction l as [|x l IH]; intros i d Hi; cbn in Hi; [lia|].
  destruct i as [|i]; [reflexivity|]. cbn [skipn nth]. apply IH. lia.
Qed.
