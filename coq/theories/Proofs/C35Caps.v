(* Proofs/C35Caps.v — capability.List: DecodeList (String l) = l. *)
From Coq Require Import List NArith ZArith Bool Lia Arith.
From GoGit Require Import Base.Out Model.PktLine Model.C35Utf8 Model.Packp Proofs.C34Pkt Proofs.C35Base Proofs.C35Utf8 Proofs.C35Msgs.
Import ListNotations.

Definition EQ : N := 61.
(* graphic, non-blank ASCII *)
Definition tokc (c : N) : bool := N.leb 33 c && N.leb c 126.
Definition key_ok (k : bytes) : bool :=
  match k with [] => false | _ => forallb (fun c => tokc c && negb (N.eqb c EQ)) k end.
Definition val_ok (v : bytes) : bool := forallb tokc v.

Fixpoint keys_distinct (l : caps) : bool :=
  match l with
  | [] => true
  | (k, _) :: r => negb (existsb (fun e => beq (fst e) k) r) && keys_distinct r
  end.

Definition caps_ok (l : caps) : bool :=
  forallb (fun e => key_ok (fst e) && forallb val_ok (snd e)) l && keys_distinct l.

Lemma tokc_facts c : tokc c = true -> is_space c = false /\ N.eqb c SP = false.
Proof.
  unfold tokc. intros H. apply andb_prop in H. destruct H as [H1 H2]. apply N.leb_le in H1, H2.
  unfold is_space, SP.
  destruct (N.eqb_spec c 9); [lia|]. destruct (N.eqb_spec c 10); [lia|]. destruct (N.eqb_spec c 11); [lia|].
  destruct (N.eqb_spec c 12); [lia|]. destruct (N.eqb_spec c 13); [lia|]. destruct (N.eqb_spec c 32); [lia|].
  split; reflexivity.
Qed.

Lemma tokc_asciins c : tokc c = true -> asciins c = true.
Proof.
  intros H. destruct (tokc_facts c H) as [Hs _]. unfold asciins, ascii. rewrite Hs.
  unfold tokc in H. apply andb_prop in H. destruct H as [_ H2]. apply N.leb_le in H2.
  destruct (N.ltb_spec c 128); [reflexivity|lia].
Qed.

(* ---------- cap_add ---------- *)
Definition absent (k : bytes) (l : caps) : bool := negb (existsb (fun e => beq (fst e) k) l).

Lemma beq_sym a b : beq a b = beq b a.
Proof.
  revert b. induction a as [|x a IH]; intros [|y b]; try reflexivity. cbn. now rewrite N.eqb_sym, IH.
Qed.

Lemma cap_add_absent l k vals : absent k l = true -> cap_add l k vals = l ++ [(k, vals)].
Proof.
  unfold absent. induction l as [|[k0 vs] l IH]; intros H; [reflexivity|].
  cbn in H. apply negb_true_iff in H. apply orb_false_elim in H. destruct H as [H1 H2].
  cbn. rewrite H1. f_equal. apply IH. now rewrite H2.
Qed.

Lemma cap_add_last l k vs vals : absent k l = true -> cap_add (l ++ [(k, vs)]) k vals = l ++ [(k, vs ++ vals)].
Proof.
  unfold absent. induction l as [|[k0 vs0] l IH]; intros H.
  - cbn. now rewrite beq_refl.
  - cbn in H. apply negb_true_iff in H. apply orb_false_elim in H. destruct H as [H1 H2].
    cbn. rewrite H1. f_equal. apply IH. now rewrite H2.
Qed.

(* ---------- the fold over tokens ---------- *)
Definition cap_step (acc : caps) (chunk : bytes) : caps :=
  match chunk with
  | [] => acc
  | _ => match cut EQ chunk with
         | Some (k, v) => cap_add acc k [v]
         | None => cap_add acc chunk []
         end
  end.

Lemma cap_decode_fold raw l : cap_decode raw l =
  match trim_space_u raw with [] => l | r => fold_left cap_step (split_on SP r) l end.
Proof. unfold cap_decode. destruct (trim_space_u raw); reflexivity. Qed.

Lemma key_noeq k : key_ok k = true -> no_byte EQ k = true /\ k <> [].
Proof.
  unfold key_ok. destruct k as [|c k]; [discriminate|]. intros H. split; [|discriminate].
  unfold no_byte. rewrite forallb_forall in *. intros x Hx. specialize (H x Hx). apply andb_prop in H. apply H.
Qed.

Lemma fold_values k : key_ok k = true -> forall vs acc v0s, absent k acc = true ->
  fold_left cap_step (map (fun v => k ++ [EQ] ++ v) vs) (acc ++ [(k, v0s)]) = acc ++ [(k, v0s ++ vs)].
Proof.
  intros Hk. destruct (key_noeq k Hk) as [Hne Hnn].
  induction vs as [|v vs IH]; intros acc v0s Ha; [cbn; now rewrite app_nil_r|].
  cbn [map fold_left]. unfold cap_step at 2.
  destruct (k ++ [EQ] ++ v) as [|c0 t0] eqn:E; [destruct k; discriminate|]. rewrite <- E.
  change (k ++ [EQ] ++ v) with (k ++ EQ :: v). rewrite (cut_app EQ k v Hne).
  etransitivity; [apply f_equal; apply (cap_add_last acc k v0s [v] Ha)|].
  etransitivity; [apply (IH acc (v0s ++ [v]) Ha)|]. do 3 f_equal. now rewrite <- app_assoc.
Qed.

Lemma fold_entry k vs acc : key_ok k = true -> absent k acc = true ->
  fold_left cap_step (match vs with [] => [k] | _ => map (fun v => k ++ [EQ] ++ v) vs end) acc = acc ++ [(k, vs)].
Proof.
  intros Hk Ha. destruct (key_noeq k Hk) as [Hne Hnn]. destruct vs as [|v vs].
  - cbn [fold_left]. unfold cap_step. destruct k as [|c k]; [contradiction|].
    rewrite (cut_none EQ _ Hne). now apply cap_add_absent.
  - cbn [map fold_left]. unfold cap_step at 2.
    destruct (k ++ [EQ] ++ v) as [|c0 t0] eqn:E; [destruct k; discriminate|]. rewrite <- E.
    change (k ++ [EQ] ++ v) with (k ++ EQ :: v). rewrite (cut_app EQ k v Hne).
    etransitivity; [apply f_equal; apply (cap_add_absent acc k [v] Ha)|]. apply (fold_values k Hk vs acc [v] Ha).
Qed.

Lemma absent_app k a b : absent k (a ++ b) = absent k a && absent k b.
Proof. unfold absent. rewrite existsb_app, negb_orb. reflexivity. Qed.

Lemma fold_tokens : forall l acc,
  forallb (fun e => key_ok (fst e)) l = true -> keys_distinct l = true ->
  forallb (fun e => absent (fst e) acc) l = true ->
  fold_left cap_step (cap_tokens l) acc = acc ++ l.
Proof.
  induction l as [|[k vs] l IH]; intros acc Hk Hd Ha; [cbn; now rewrite app_nil_r|].
  cbn [forallb fst] in Hk, Ha. apply andb_prop in Hk, Ha. destruct Hk as [Hk1 Hk2], Ha as [Ha1 Ha2].
  cbn [keys_distinct] in Hd. apply andb_prop in Hd. destruct Hd as [Hd1 Hd2].
  assert (fold_left cap_step (cap_tokens ((k, vs) :: l)) acc = fold_left cap_step (cap_tokens l) (acc ++ [(k, vs)])) as ->.
  { unfold cap_tokens. cbn [flat_map fst snd]. fold (cap_tokens l). rewrite fold_left_app. f_equal.
    pose proof (fold_entry k vs acc Hk1 Ha1) as Fe. destruct vs; exact Fe. }
  rewrite IH; [now rewrite <- app_assoc|assumption|assumption|].
  apply forallb_forall. intros [k2 vs2] Hin. cbn [fst]. rewrite absent_app.
  rewrite forallb_forall in Ha2. pose proof (Ha2 _ Hin) as Hab2. cbn [fst] in Hab2. rewrite Hab2. cbn [andb].
  unfold absent. cbn [existsb fst]. rewrite orb_false_r.
  (* k2 differs from k because k does not occur in l *)
  apply negb_true_iff in Hd1. destruct (beq k k2) eqn:E; [|reflexivity].
  exfalso. rewrite <- not_true_iff_false in Hd1. apply Hd1. apply existsb_exists. exists (k2, vs2). split; [assumption|].
  cbn [fst]. now rewrite beq_sym.
Qed.

(* ---------- the encoding has no outer white space and its tokens have no blank ---------- *)
Lemma token_props e : key_ok (fst e) = true -> forallb val_ok (snd e) = true ->
  Forall (fun t => t <> [] /\ forallb tokc t = true) (match snd e with [] => [fst e] | vs => map (fun v => fst e ++ [EQ] ++ v) vs end).
Proof.
  destruct e as [k vs]. cbn [fst snd]. intros Hk Hv.
  assert (k <> [] /\ forallb tokc k = true) as [Hne Hkt].
  { unfold key_ok in Hk. destruct k; [discriminate|]. split; [discriminate|].
    rewrite forallb_forall in *. intros x Hx. specialize (Hk x Hx). apply andb_prop in Hk. apply Hk. }
  destruct vs as [|v vs]; [repeat constructor; assumption|].
  apply Forall_forall. intros t Ht. apply in_map_iff in Ht. destruct Ht as (v' & <- & Hin).
  split; [destruct k; [contradiction|discriminate]|].
  rewrite !forallb_app, Hkt. cbn [forallb andb]. change (tokc EQ) with true. cbn [andb].
  rewrite forallb_forall in Hv. apply (Hv v' Hin).
Qed.

Lemma tokens_props l : forallb (fun e => key_ok (fst e) && forallb val_ok (snd e)) l = true ->
  Forall (fun t => t <> [] /\ forallb tokc t = true) (cap_tokens l).
Proof.
  induction l as [|e l IH]; intros H; [constructor|].
  cbn [forallb] in H. apply andb_prop in H. destruct H as [H1 H2]. apply andb_prop in H1. destruct H1 as [Hk Hv].
  unfold cap_tokens. cbn [flat_map]. apply Forall_app. split; [now apply token_props|now apply IH].
Qed.

Lemma join_tokc toks : Forall (fun t => t <> [] /\ forallb tokc t = true) toks -> toks <> [] ->
  match join [SP] toks with [] => False | c :: _ => tokc c = true /\ tokc (last (join [SP] toks) 0%N) = true end.
Proof.
  induction 1 as [|t toks [Hne Ht] Hf IH]; intros Hnn; [contradiction|].
  destruct toks as [|t2 toks].
  - cbn [join]. destruct t as [|c t]; [contradiction|]. split.
    + cbn [forallb] in Ht. apply andb_prop in Ht. apply Ht.
    + rewrite forallb_forall in Ht. apply Ht. clear. revert c. induction t as [|y t IHt]; intros c; [now left|right; apply IHt].
  - change (join [SP] (t :: t2 :: toks)) with (t ++ [SP] ++ join [SP] (t2 :: toks)).
    specialize (IH ltac:(discriminate)). destruct (join [SP] (t2 :: toks)) as [|c2 j] eqn:E; [contradiction|].
    destruct t as [|c t]; [contradiction|]. cbn [app]. split.
    + cbn [forallb] in Ht. apply andb_prop in Ht. apply Ht.
    + assert (c :: t ++ SP :: c2 :: j = (c :: t ++ [SP]) ++ c2 :: j) as -> by (cbn [app]; now rewrite <- app_assoc).
      rewrite last_app_ne by discriminate. apply IH.
Qed.

Theorem caps_roundtrip l : caps_ok l = true -> cap_decode (cap_encode l) [] = l.
Proof.
  unfold caps_ok. intros H. apply andb_prop in H. destruct H as [H1 H2].
  pose proof (tokens_props l H1) as Ht. rewrite cap_decode_fold. unfold cap_encode.
  destruct (cap_tokens l) as [|t0 toks] eqn:E.
  { cbn. destruct l as [|[k vs] l]; [reflexivity|]. unfold cap_tokens in E. cbn [flat_map fst snd] in E.
    destruct vs; discriminate. }
  rewrite <- E in *.
  pose proof (join_tokc (cap_tokens l) Ht ltac:(rewrite E; discriminate)) as J.
  destruct (join [SP] (cap_tokens l)) as [|c j] eqn:EJ; [contradiction|]. destruct J as [J1 J2].
  rewrite trim_u_id.
  2:{ unfold clean_u. now rewrite (tokc_asciins _ J1), (tokc_asciins _ J2). }
  rewrite <- EJ. rewrite split_join.
  - rewrite fold_tokens; [reflexivity| |assumption|].
    + rewrite forallb_forall in *. intros e He. specialize (H1 e He). apply andb_prop in H1. apply H1.
    + apply forallb_forall. intros e _. reflexivity.
  - rewrite E. discriminate.
  - apply forallb_forall. intros t Hin. rewrite Forall_forall in Ht. destruct (Ht t Hin) as [_ Htt].
    unfold no_byte. rewrite forallb_forall in *. intros x Hx. destruct (tokc_facts _ (Htt x Hx)) as [_ ->]. reflexivity.
Qed.

(* the encoded list has no NUL, no NL, and is trim-stable: used by the first
   line of AdvRefs / UpdateRequests / UploadRequest *)
Lemma cap_encode_tokc l : caps_ok l = true -> forallb (fun c => tokc c || N.eqb c SP) (cap_encode l) = true.
Proof.
  unfold caps_ok. intros H. apply andb_prop in H. destruct H as [H1 _].
  pose proof (tokens_props l H1) as Ht. unfold cap_encode. induction Ht as [|t toks [_ Htt] Hf IH]; [reflexivity|].
  destruct toks as [|t2 toks].
  - cbn [join]. rewrite forallb_forall in *. intros x Hx. now rewrite (Htt x Hx).
  - change (join [SP] (t :: t2 :: toks)) with (t ++ [SP] ++ join [SP] (t2 :: toks)).
    rewrite !forallb_app, IH. cbn [forallb]. change (tokc SP || (SP =? SP)%N) with true. rewrite !andb_true_r.
    rewrite forallb_forall in *. intros x Hx. now rewrite (Htt x Hx).
Qed.
