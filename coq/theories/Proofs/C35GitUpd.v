(* Proofs/C35GitUpd.v — go-git's update-request is in git's documented grammar
   (Spec/GitProto.v git_updreq) and means the request. *)
From Coq Require Import List Arith NArith ZArith Bool Lia String.
From GoGit Require Import Base.Out Base.GoInt Gen.C34 Model.PktLine Model.C35Utf8 Model.Packp Spec.GitProto
  Proofs.C34Pkt Proofs.C35Base Proofs.C35Utf8 Proofs.C35U Proofs.C35Msgs Proofs.C35Caps Proofs.C35Dec Proofs.C35Adv Proofs.C35Upd
  Proofs.C35Git Proofs.C35GitV0.
Import ListNotations.

Definition cmd_sized (hexsz : nat) (c : bytes * hash * hash) : bool := let '(_, o, n) := c in sized hexsz o && sized hexsz n.

Lemma last_tokc_nonl s : s <> [] -> forallb tokc s = true -> N.eqb NL (last s 0%N) = false.
Proof.
  intros Hne H. pose proof (forallb_last tokc s Hne H) as Hl. unfold tokc in Hl. apply andb_prop in Hl. destruct Hl as [Hl _].
  apply N.leb_le in Hl. unfold NL. destruct (N.eqb_spec 10 (last s 0%N)); [lia|reflexivity].
Qed.

Lemma git_command_fmt hexsz c : cmd_ok c = true -> cmd_sized hexsz c = true -> git_command hexsz (fmt_cmd c) = Some c /\ chomp (fmt_cmd c) = fmt_cmd c.
Proof.
  destruct c as [[n o] nw]. unfold cmd_ok, cmd_sized. intros H Hs.
  apply andb_prop in H. destruct H as [H _]. apply andb_prop in H. destruct H as [H Hnw]. apply andb_prop in H. destruct H as [Hn Ho].
  apply andb_prop in Hs. destruct Hs as [So Sn]. destruct (name_props n Hn) as (Hne & _ & _ & _).
  unfold fmt_cmd. split.
  - unfold git_command. change (hash_str o ++ [SP] ++ hash_str nw ++ [SP] ++ n) with (hash_str o ++ SP :: (hash_str nw ++ SP :: n)).
    rewrite (oid_sp_str hexsz o _ So), (oid_sp_str hexsz nw n Sn). destruct n; [contradiction|reflexivity].
  - unfold chomp. fold (trim_eol (hash_str o ++ [SP] ++ hash_str nw ++ [SP] ++ n)). apply trim_eol_id.
    rewrite !app_assoc. rewrite (last_app_ne' _ n _ Hne). apply last_tokc_nonl; [exact Hne|].
    unfold cmd_name_ok in Hn. destruct n; [contradiction|exact Hn].
Qed.

Lemma git_cmds_lines hexsz : forall cs acc, forallb cmd_ok cs = true -> forallb (cmd_sized hexsz) cs = true ->
  git_cmds hexsz (map (fun c => PData (fmt_cmd c)) cs ++ [PFlush]) acc = Some (acc ++ cs).
Proof.
  induction cs as [|c cs IH]; intros acc H Hs; [cbn; now rewrite app_nil_r|].
  cbn [forallb] in H, Hs. apply andb_prop in H, Hs. destruct H as [H1 H2], Hs as [S1 S2]. cbn [map app].
  assert (forall p r0, r0 <> [] -> git_cmds hexsz (PData p :: r0) acc =
            match git_command hexsz (chomp p) with Some c0 => git_cmds hexsz r0 (acc ++ [c0]) | None => None end) as K
    by (intros p [|x r0] Hne; [contradiction|reflexivity]).
  rewrite K by (destruct cs; discriminate). destruct (git_command_fmt hexsz c H1 S1) as [Hg Hc]. rewrite Hc, Hg.
  rewrite (IH _ H2 S2). now rewrite <- app_assoc.
Qed.

Lemma cap_words_sp s : cap_words (SP :: s) = cap_words s.
Proof. unfold cap_words. cbn [split_on]. rewrite N.eqb_refl. reflexivity. Qed.

Lemma kw_shallow_cmd hexsz c x : cmd_ok c = true -> kw_oid hexsz "shallow" (fmt_cmd c ++ x) = None.
Proof.
  intros H. destruct (fmt_cmd_props c H) as (_ & _ & n & t & -> & Hn). unfold kw_oid.
  change (B "shallow" ++ [SP]) with (115%N :: skipn 1 (B "shallow" ++ [SP])). cbn [app has_prefix].
  now rewrite (hexdig_not n 115 Hn (or_introl eq_refl)).
Qed.

Lemma git_updreq_shallows hexsz : forall shs rest acc, rest <> [] -> forallb (sized hexsz) shs = true ->
  git_updreq_go hexsz (map (fun h => PData (B "shallow " ++ hash_str h)) shs ++ rest) acc = git_updreq_go hexsz rest (acc ++ shs).
Proof.
  induction shs as [|h shs IH]; intros rest acc Hr H; [cbn [map app]; now rewrite app_nil_r|].
  cbn [forallb] in H. apply andb_prop in H. destruct H as [H1 H2]. cbn [map app git_updreq_go].
  destruct (sized_spec hexsz h H1) as [Hok _].
  assert (chomp (B "shallow " ++ hash_str h) = (B "shallow" ++ [SP]) ++ hash_str h) as ->.
  { unfold chomp. fold (trim_eol (B "shallow " ++ hash_str h)). apply trim_eol_id.
    rewrite (last_app_ne' _ (hash_str h) _ (hash_str_ne h Hok)). now destruct (hash_str_nospace h Hok). }
  rewrite (kw_oid_str hexsz "shallow" h H1), (IH rest _ Hr H2). now rewrite <- app_assoc.
Qed.

Definition ur_abs (u : updreq) : gupdreq := mkgupdreq (cap_tokens (ur_caps u)) (ur_cmds u) (ur_shallows u).
Definition ur_git_ok (hexsz : nat) (u : updreq) : bool := forallb (cmd_sized hexsz) (ur_cmds u) && forallb (sized hexsz) (ur_shallows u).

Theorem git_updreq_enc hexsz u ps : ur_ok u = true -> ur_git_ok hexsz u = true -> ur_encode u = Some ps ->
  git_updreq hexsz ps = Some (ur_abs u).
Proof.
  unfold ur_ok, ur_git_ok. intros H G He.
  apply andb_prop in H. destruct H as [H _]. apply andb_prop in H. destruct H as [H Hsh]. apply andb_prop in H. destruct H as [Hcaps Hcmds].
  apply andb_prop in G. destruct G as [Gc Gs].
  unfold ur_encode in He. destruct (ur_cmds u) as [|c0 cs] eqn:Ec; [discriminate|].
  destruct (existsb cmd_invalid (c0 :: cs)); [discriminate|].
  apply (f_equal (fun o => match o with Some x => x | None => [] end)) in He. cbv beta iota in He. subst ps.
  cbn [forallb] in Hcmds, Gc. apply andb_prop in Hcmds, Gc. destruct Hcmds as [Hc0 Hcs], Gc as [Gc0 Gcs].
  unfold git_updreq. rewrite git_updreq_shallows; [|discriminate|exact Gs]. cbn [app git_updreq_go].
  set (capstr := match cap_encode (ur_caps u) with [] => [] | _ :: _ => SP :: cap_encode (ur_caps u) end).
  assert (chomp (fmt_cmd c0 ++ [NUL] ++ capstr) = fmt_cmd c0 ++ [NUL] ++ capstr \/ True) as _ by now right.
  (* the first command line is not a shallow line *)
  assert (forall x, kw_oid hexsz "shallow" (chomp (fmt_cmd c0 ++ x)) = None) as Kns.
  { intros x. unfold chomp, trim_suffix. destruct (has_suffix [NL] (fmt_cmd c0 ++ x)).
    - destruct (fmt_cmd_props c0 Hc0) as (_ & Hlen & n & t & E & Hn). rewrite E. cbn [app List.length].
      rewrite app_length. cbn [List.length].
      replace (S (List.length t + List.length x) - 1)%nat with (S (List.length t + List.length x - 1)).
      2:{ rewrite E in Hlen. cbn [List.length] in Hlen. lia. }
      cbn [firstn]. unfold kw_oid. change (B "shallow" ++ [SP]) with (115%N :: skipn 1 (B "shallow" ++ [SP])). cbn [has_prefix].
      now rewrite (hexdig_not n 115 Hn (or_introl eq_refl)).
    - now apply kw_shallow_cmd. }
  rewrite Kns. destruct (fmt_cmd_props c0 Hc0) as (Hnul & _ & _).
  change (fmt_cmd c0 ++ [NUL] ++ capstr) with (fmt_cmd c0 ++ NUL :: capstr). rewrite (cut_app NUL _ capstr Hnul).
  destruct (git_command_fmt hexsz c0 Hc0 Gc0) as [Hg _]. rewrite Hg, (git_cmds_lines hexsz cs [] Hcs Gcs). cbn [app].
  unfold ur_abs. rewrite Ec. f_equal. f_equal.
  (* the capability words *)
  unfold capstr. rewrite <- (cap_words_encode _ Hcaps). destruct (cap_encode (ur_caps u)) as [|n l] eqn:Ece.
  - reflexivity.
  - 
    assert (chomp (SP :: n :: l) = SP :: n :: l) as ->.
    { unfold chomp. fold (trim_eol (SP :: n :: l)). apply trim_eol_id.
      pose proof (cap_encode_tokc _ Hcaps) as Ht. rewrite Ece in Ht.
      change (SP :: n :: l) with ([SP] ++ n :: l). rewrite (last_app_ne' _ (n :: l) _ ltac:(discriminate)).
      pose proof (forallb_last _ (n :: l) ltac:(discriminate) Ht) as Hl. cbv beta in Hl.
      apply orb_prop in Hl. destruct Hl as [Hl|Hl].
      - unfold tokc in Hl. apply andb_prop in Hl. destruct Hl as [Hl _]. apply N.leb_le in Hl. unfold NL.
        destruct (N.eqb_spec 10 (last (n :: l) 0%N)); [lia|reflexivity].
      - apply N.eqb_eq in Hl. rewrite Hl. reflexivity. }
    apply cap_words_sp.
Qed.
