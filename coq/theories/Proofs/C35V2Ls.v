(* Proofs/C35V2Ls.v — protocol v2: the ls-refs output round-trips: references in
   order, a symbolic reference as (name, target), a peeled "^{}" entry folded
   into the peeled: attribute of its base line and unfolded again. *)
From Coq Require Import List Arith NArith ZArith Bool Lia String.
From GoGit Require Import Base.Out Base.GoInt Gen.C34 Model.PktLine Model.C35Utf8 Model.Packp Model.PackpV2
  Proofs.C34Pkt Proofs.C35Base Proofs.C35Utf8 Proofs.C35U Proofs.C35Msgs Proofs.C35Caps Proofs.C35Adv
  Proofs.C35V2Base Proofs.C35V2Caps Proofs.C35V2Fetch.
Import ListNotations.

Definition lsref_ok (x : lsref) : bool :=
  word_ok (fst x) && match snd x with RHash h => hash_ok h | RSym t => word_ok t end.

Definition lsout_canon_of (refs : list lsref) (x : lsref) : list lsref :=
  let (name, v) := x in
  if is_peeled name then []
  else match v with
  | RSym t => [(name, RSym t)]
  | RHash h => (name, RHash h) ::
               match hash_by_name refs (name ++ peeled_suffix) None with
               | Some ph => [(name ++ peeled_suffix, RHash ph)]
               | None => []
               end
  end.
Definition lsout_canon (refs : list lsref) : list lsref := flat_map (lsout_canon_of refs) refs.

(* ---------- small facts ---------- *)
Lemma hexdig_not2 n c : (n < 16)%N -> (c = 69 \/ c = 117)%N -> N.eqb c (hexdig n) = false.
Proof.
  intros H Hc.
  assert (n = 0 \/ n = 1 \/ n = 2 \/ n = 3 \/ n = 4 \/ n = 5 \/ n = 6 \/ n = 7 \/ n = 8 \/ n = 9 \/
          n = 10 \/ n = 11 \/ n = 12 \/ n = 13 \/ n = 14 \/ n = 15)%N as C by lia.
  destruct Hc as [-> | ->]; repeat (destruct C as [-> | C]; [reflexivity|]); subst; reflexivity.
Qed.

Lemma hash_line_noerr h x : hash_ok h = true -> has_prefix errPrefix (hash_str h ++ x) = false.
Proof.
  intros Hok. destruct (hash_str_head h Hok) as (n & t & -> & Hn). change errPrefix with [69; 82; 82; 32]%N.
  cbn [app has_prefix]. now rewrite (hexdig_not2 n 69 Hn (or_introl eq_refl)).
Qed.

Lemma hash_not_unborn h : hash_ok h = true -> beq (hash_str h) UNBORN = false.
Proof.
  intros Hok. destruct (hash_str_head h Hok) as (n & t & -> & Hn). change UNBORN with (117%N :: skipn 1 UNBORN).
  cbn [beq]. rewrite N.eqb_sym. now rewrite (hexdig_not2 n 117 Hn (or_intror eq_refl)).
Qed.

Lemma word_tok_u w : word_ok w = true -> C35Utf8.tok_u w = true.
Proof.
  intros H. destruct (word_asciins w H) as [Hne Ha]. unfold C35Utf8.tok_u. rewrite Ha.
  destruct w; [contradiction|reflexivity].
Qed.

Lemma hash_tok_u h : hash_ok h = true -> C35Utf8.tok_u (hash_str h) = true.
Proof.
  intros H. unfold C35Utf8.tok_u. rewrite (hash_str_asciins h H).
  pose proof (hash_str_ne h H). destruct (hash_str h); [contradiction|reflexivity].
Qed.

Lemma app_tok_u (p : string) w : forallb C35Utf8.asciins (B p) = true -> B p <> [] -> forallb C35Utf8.asciins w = true ->
  C35Utf8.tok_u (B p ++ w) = true.
Proof.
  intros Hp Hne Hw. unfold C35Utf8.tok_u. rewrite forallb_app, Hp, Hw.
  destruct (B p ++ w) eqn:E; [destruct (B p); [contradiction|discriminate]|reflexivity].
Qed.

Lemma hash_by_name_ok : forall refs name found h, forallb lsref_ok refs = true ->
  (forall h0, found = Some h0 -> hash_ok h0 = true) ->
  hash_by_name refs name found = Some h -> hash_ok h = true.
Proof.
  induction refs as [|[n v] refs IH]; intros name found h Hr Hf E; [cbn in E; now apply Hf|].
  cbn [forallb] in Hr. apply andb_prop in Hr. destruct Hr as [H1 H2].
  cbn [hash_by_name] in E. destruct v as [h1|t].
  - destruct (beq n name).
    + apply (IH name (Some h1) h H2); [|exact E]. intros h0 [= <-]. unfold lsref_ok in H1. cbn [fst snd] in H1. now apply andb_prop in H1.
    + now apply (IH name found h H2).
  - now apply (IH name found h H2).
Qed.

Lemma hash_app_ne h x : hash_ok h = true -> hash_str h ++ x <> [].
Proof. intros H. pose proof (hash_str_ne h H). destruct (hash_str h); [contradiction|discriminate]. Qed.

(* ---------- one line ---------- *)
Lemma lsout_step L rest acc rs : L <> [] -> parse_lsrefs_line L = Some rs ->
  lsout_decode (rdp (PData (L ++ [NL])) :: rest) acc = lsout_decode rest (acc ++ rs).
Proof.
  intros Hne Hp. rewrite rdp_line. cbn [lsout_decode rd_err rd_len rd_payload].
  rewrite len_data_nz by lia. rewrite trim_eol_app. destruct L as [|c t]; [contradiction|]. now rewrite Hp.
Qed.

Lemma parse_sym_line oid name t : C35Utf8.tok_u oid = true -> word_ok name = true -> word_ok t = true ->
  (beq oid UNBORN = true \/ exists h, parse_full_hash oid = Some h /\ beq oid UNBORN = false) ->
  parse_lsrefs_line (oid ++ [SP] ++ name ++ [SP] ++ B "symref-target:" ++ t) = Some [(name, RSym t)].
Proof.
  intros Ho Hn Ht Hoid. unfold parse_lsrefs_line.
  change (oid ++ [SP] ++ name ++ [SP] ++ B "symref-target:" ++ t) with (C35Utf8.join_sp [oid; name; B "symref-target:" ++ t]).
  destruct (word_asciins t Ht) as [Htn Hta].
  rewrite C35Utf8.fields_join; [|discriminate|].
  2:{ cbn [forallb]. rewrite Ho, (word_tok_u name Hn), (app_tok_u "symref-target:" t eq_refl ltac:(discriminate) Hta). reflexivity. }
  cbn [lsout_attrs]. rewrite has_prefix_app, (skipn_app_exact (B "symref-target:") t 14 eq_refl). cbn [lsout_attrs].
  destruct t as [|c t']; [contradiction|].
  destruct Hoid as [-> | (h & -> & ->)]; reflexivity.
Qed.

Lemma parse_hash_line h name : hash_ok h = true -> word_ok name = true ->
  parse_lsrefs_line (hash_str h ++ [SP] ++ name) = Some [(name, RHash h)].
Proof.
  intros Hh Hn. unfold parse_lsrefs_line.
  change (hash_str h ++ [SP] ++ name) with (C35Utf8.join_sp [hash_str h; name]).
  rewrite C35Utf8.fields_join; [|discriminate|].
  2:{ cbn [forallb]. rewrite (hash_tok_u h Hh), (word_tok_u name Hn). reflexivity. }
  cbn [lsout_attrs]. now rewrite (hash_not_unborn h Hh), (pfh_str h Hh).
Qed.

Lemma parse_peeled_line h name ph : hash_ok h = true -> word_ok name = true -> hash_ok ph = true ->
  parse_lsrefs_line (hash_str h ++ [SP] ++ name ++ [SP] ++ B "peeled:" ++ hash_str ph)
  = Some [(name, RHash h); (name ++ peeled_suffix, RHash ph)].
Proof.
  intros Hh Hn Hp. unfold parse_lsrefs_line.
  change (hash_str h ++ [SP] ++ name ++ [SP] ++ B "peeled:" ++ hash_str ph) with (C35Utf8.join_sp [hash_str h; name; B "peeled:" ++ hash_str ph]).
  rewrite C35Utf8.fields_join; [|discriminate|].
  2:{ cbn [forallb]. rewrite (hash_tok_u h Hh), (word_tok_u name Hn), (app_tok_u "peeled:" _ eq_refl ltac:(discriminate) (hash_str_asciins ph Hp)). reflexivity. }
  cbn [lsout_attrs]. change (has_prefix (B "symref-target:") (B "peeled:" ++ hash_str ph)) with false. cbv iota.
  rewrite has_prefix_app, (skipn_app_exact (B "peeled:") (hash_str ph) 7 eq_refl), (pfh_str ph Hp). cbn [lsout_attrs].
  now rewrite (hash_not_unborn h Hh), (pfh_str h Hh).
Qed.

(* ---------- all the lines ---------- *)
Lemma lsout_lines refs : forallb lsref_ok refs = true -> forall l rest acc, forallb lsref_ok l = true ->
  forallb no_errline (flat_map (lsout_line refs) l) = true /\
  lsout_decode (map rdp (flat_map (lsout_line refs) l) ++ rest) acc = lsout_decode rest (acc ++ flat_map (lsout_canon_of refs) l).
Proof.
  intros Hrefs. induction l as [|[name v] l IH]; intros rest acc Hl; [split; [reflexivity|cbn; now rewrite app_nil_r]|].
  cbn [forallb] in Hl. apply andb_prop in Hl. destruct Hl as [Hx Hl]. unfold lsref_ok in Hx. cbn [fst snd] in Hx.
  apply andb_prop in Hx. destruct Hx as [Hn Hv].
  cbn [flat_map]. unfold lsout_line at 1 3, lsout_canon_of at 1. destruct (is_peeled name).
  { cbn [app]. apply IH; assumption. }
  destruct (word_asciins name Hn) as [Hnn _].
  destruct v as [h|t].
  - (* a hash reference, with or without a peeled entry *)
    destruct (hash_by_name refs (name ++ peeled_suffix) None) as [ph|] eqn:Ep.
    + assert (hash_ok ph = true) as Hp by (apply (hash_by_name_ok refs (name ++ peeled_suffix) None ph Hrefs); [discriminate|exact Ep]).
      cbn [app map forallb]. destruct (IH rest (acc ++ [(name, RHash h); (name ++ peeled_suffix, RHash ph)]) Hl) as [In Id].
      split.
      * rewrite In, andb_true_r. cbn [no_errline]. rewrite <- !app_assoc. now rewrite (hash_line_noerr h _ Hv).
      * change ((hash_str h ++ SP :: name) ++ SP :: B "peeled:" ++ hash_str ph ++ [NL])
          with ((hash_str h ++ [SP] ++ name) ++ [SP] ++ B "peeled:" ++ hash_str ph ++ [NL]).
        assert ((hash_str h ++ [SP] ++ name) ++ [SP] ++ B "peeled:" ++ hash_str ph ++ [NL]
                = (hash_str h ++ [SP] ++ name ++ [SP] ++ B "peeled:" ++ hash_str ph) ++ [NL]) as -> by (now rewrite <- !app_assoc).
        rewrite (lsout_step _ _ acc _ (hash_app_ne h _ Hv) (parse_peeled_line h name ph Hv Hn Hp)).
        rewrite Id. now rewrite <- app_assoc.
    + cbn [app map forallb]. destruct (IH rest (acc ++ [(name, RHash h)]) Hl) as [In Id]. split.
      * rewrite In, andb_true_r. cbn [no_errline]. rewrite <- !app_assoc. now rewrite (hash_line_noerr h _ Hv).
      * change (hash_str h ++ SP :: name) with (hash_str h ++ [SP] ++ name).
        rewrite (lsout_step _ _ acc _ (hash_app_ne h _ Hv) (parse_hash_line h name Hv Hn)).
        rewrite Id. now rewrite <- app_assoc.
  - (* a symbolic reference: the oid of its target, or "unborn" *)
    set (oid := match hash_by_name refs t None with
                | Some h => if hash_is_zero h then UNBORN else hash_str h
                | None => UNBORN
                end).
    assert (C35Utf8.tok_u oid = true /\ has_prefix errPrefix (oid ++ [SP] ++ name ++ [SP] ++ B "symref-target:" ++ t ++ [NL]) = false /\ oid <> [] /\
            (beq oid UNBORN = true \/ exists h, parse_full_hash oid = Some h /\ beq oid UNBORN = false)) as (Ho & Hne & Hon & Hoid).
    { unfold oid. destruct (hash_by_name refs t None) as [h|] eqn:Eh.
      - assert (hash_ok h = true) as Hh by (apply (hash_by_name_ok refs t None h Hrefs); [discriminate|exact Eh]).
        destruct (hash_is_zero h).
        + repeat split; try reflexivity; [discriminate|now left].
        + repeat split; [now apply hash_tok_u|now apply hash_line_noerr|now apply hash_str_ne|].
          right. exists h. split; [now apply pfh_str|now apply hash_not_unborn].
      - repeat split; try reflexivity; [discriminate|now left]. }
    cbn [app map forallb]. destruct (IH rest (acc ++ [(name, RSym t)]) Hl) as [In Id]. split.
    * rewrite In, andb_true_r. cbn [no_errline].
      change (oid ++ SP :: name ++ SP :: B "symref-target:" ++ t ++ [NL]) with (oid ++ [SP] ++ name ++ [SP] ++ B "symref-target:" ++ t ++ [NL]).
      now rewrite Hne.
    * change (oid ++ SP :: name ++ SP :: B "symref-target:" ++ t ++ [NL]) with (oid ++ [SP] ++ name ++ [SP] ++ B "symref-target:" ++ t ++ [NL]).
      assert (oid ++ [SP] ++ name ++ [SP] ++ B "symref-target:" ++ t ++ [NL]
              = (oid ++ [SP] ++ name ++ [SP] ++ B "symref-target:" ++ t) ++ [NL]) as -> by (now rewrite <- !app_assoc).
      assert (oid ++ [SP] ++ name ++ [SP] ++ B "symref-target:" ++ t <> []) as Hln by (destruct oid; [contradiction|discriminate]).
      rewrite (lsout_step _ _ acc _ Hln (parse_sym_line oid name t Ho Hn Hv Hoid)).
      rewrite Id. now rewrite <- app_assoc.
Qed.

Theorem lsout_roundtrip refs tail : forallb lsref_ok refs = true ->
  forallb no_errline (lsout_encode refs) = true /\
  lsout_decode (map rdp (lsout_encode refs ++ [PFlush]) ++ tail) [] = inl (lsout_canon refs, tail).
Proof.
  intros H. unfold lsout_encode, lsout_canon. destruct (lsout_lines refs H refs (rdp PFlush :: tail) [] H) as [Hn Hd]. split; [exact Hn|].
  rewrite map_app, <- app_assoc. cbn [map app]. rewrite Hd. reflexivity.
Qed.
