(* Proofs/C22Fuel.v — the fuel given to the walker suffices: it never reports
   exhaustion.  The walker marks an object before descending, so along any call
   chain the number of unmarked objects of the (finite) universe strictly
   decreases. *)
From Coq Require Import List NArith ZArith Arith Lia Bool.
From GoGit Require Import Base.Out Gen.C22 Model.Gc Proofs.C22.
Import ListNotations.
Local Open Scope N_scope.

Section Fuel.
  Variable r : repo.
  Let U := universe r.

  Lemma U_nodup : NoDup U.
  Proof. apply NoDup_nodup. Qed.

  Lemma root_in_U h : In h r.(roots) -> In h U.
  Proof. intro H. apply nodup_In. apply in_or_app. now left. Qed.

  Lemma child_in_U h o c : get r h = Some o -> In c (children o) -> In c U.
  Proof.
    intros Hg Hc. apply get_assoc, assoc_In in Hg. apply nodup_In. apply in_or_app. right.
    apply in_flat_map. exists (h, o). split; [assumption|]. right. exact Hc.
  Qed.

  Definition unseen (st : wst) : nat := List.length (filter (fun x => negb (mem x st.(seen))) U).

  Lemma filter_len_le {A} (p q : A -> bool) l :
    (forall x, q x = true -> p x = true) -> (List.length (filter q l) <= List.length (filter p l))%nat.
  Proof.
    intro H. induction l as [|a l IH]; cbn; [lia|].
    destruct (q a) eqn:Eq; [rewrite (H a Eq); cbn; lia|destruct (p a); cbn; lia].
  Qed.

  Lemma filter_len_lt {A} (p q : A -> bool) l a :
    (forall x, q x = true -> p x = true) -> In a l -> p a = true -> q a = false ->
    (List.length (filter q l) < List.length (filter p l))%nat.
  Proof.
    intros H Hin Hp Hq. induction l as [|b l IH]; [destruct Hin|]. cbn.
    destruct Hin as [->|Hin].
    - rewrite Hp, Hq. cbn. pose proof (filter_len_le p q l H). lia.
    - specialize (IH Hin). destruct (q b) eqn:Eq; [rewrite (H b Eq); cbn; lia|destruct (p b); cbn; lia].
  Qed.

  Lemma unseen_mono st st' : incl st.(seen) st'.(seen) -> (unseen st' <= unseen st)%nat.
  Proof.
    intro I. unfold unseen. apply filter_len_le. intros x Hx.
    apply negb_true_iff in Hx. apply negb_true_iff. apply mem_nIn in Hx. apply mem_nIn. auto.
  Qed.

  Lemma unseen_add h st : In h U -> mem h st.(seen) = false -> (unseen (add_seen h st) < unseen st)%nat.
  Proof.
    intros Hu Hm. unfold unseen. apply filter_len_lt with (a := h); try assumption.
    - intros x Hx. apply negb_true_iff in Hx. apply negb_true_iff. apply mem_nIn in Hx. apply mem_nIn.
      intro Hi. apply Hx. apply add_seen_seen. now right.
    - now rewrite Hm.
    - apply negb_false_iff. apply mem_In. apply add_seen_seen. now left.
  Qed.

  (* seen only grows *)
  Lemma fold_res_incl {A} (f : wst -> A -> res wst) :
    (forall st a st', f st a = Ok st' -> incl st.(seen) st'.(seen)) ->
    forall l st st', fold_res f l st = Ok st' -> incl st.(seen) st'.(seen).
  Proof.
    intros Hf l. induction l as [|a l IH]; intros st st' H; cbn in H.
    - inversion H; subst. apply incl_refl.
    - destruct (f st a) as [s1|e] eqn:E; [|discriminate].
      eapply incl_tran; [eapply Hf; eassumption|eapply IH; eassumption].
  Qed.

  Lemma incl_add_seen h st : incl st.(seen) (add_seen h st).(seen).
  Proof. intros x Hx. apply add_seen_seen. now right. Qed.

  Lemma walk_incl fuel : forall st h st', walk fuel r st h = Ok st' -> incl st.(seen) st'.(seen).
  Proof.
    induction fuel as [|f IH]; intros st h st' H; cbn [walk] in H;
      destruct (mem h st.(seen)) eqn:Es; try (inversion H; subst; apply incl_refl); try discriminate.
    assert (I1 := incl_add_seen h st).
    destruct (get r h) as [[|es|t ps|t]|] eqn:Eg.
    - discriminate.
    - eapply incl_tran; [exact I1|]. revert H. apply fold_res_incl.
      intros s0 e s1 He. cbn beta in He. destruct (is_file_mode (fst e)); [|eapply IH; eassumption].
      inversion He; subst. destruct (promisor r && negb (has r (snd e))); [rewrite add_missing_seen|]; apply incl_add_seen.
    - destruct (walk f r (add_seen h st) t) as [s2|e] eqn:Et; [|discriminate].
      eapply incl_tran; [exact I1|]. eapply incl_tran; [eapply IH; eassumption|].
      destruct (mem h r.(shallow)); [inversion H; subst; apply incl_refl|].
      revert H. apply fold_res_incl. intros; eapply IH; eassumption.
    - eapply incl_tran; [exact I1|eapply IH; eassumption].
    - destruct (promisor r); [|discriminate]. inversion H; subst. rewrite add_missing_seen. exact I1.
  Qed.

  (* folding a step that never runs out of fuel on states with few unseen objects *)
  Lemma fold_res_fuel {A} (f : wst -> A -> res wst) (ok : A -> Prop) (n : nat) :
    (forall st a, ok a -> (unseen st < n)%nat -> f st a <> Err EFuel) ->
    (forall st a st', f st a = Ok st' -> incl st.(seen) st'.(seen)) ->
    forall l st, Forall ok l -> (unseen st < n)%nat -> fold_res f l st <> Err EFuel.
  Proof.
    intros Hf Hi l. induction l as [|a l IH]; intros st Hl Hn; cbn; [discriminate|].
    inversion Hl; subst. destruct (f st a) as [s1|e] eqn:E.
    - apply IH; [assumption|]. pose proof (unseen_mono _ _ (Hi _ _ _ E)). lia.
    - intro H. inversion H; subst. now apply (Hf st a).
  Qed.

  Lemma walk_fuel fuel : forall st h, In h U -> (unseen st < fuel)%nat -> walk fuel r st h <> Err EFuel.
  Proof.
    induction fuel as [|f IH]; intros st h Hu Hn; [lia|]. cbn [walk].
    destruct (mem h st.(seen)) eqn:Es; [discriminate|].
    pose proof (unseen_add h st Hu Es) as Hlt.
    assert (Hn1 : (unseen (add_seen h st) < f)%nat) by lia.
    destruct (get r h) as [[|es|t ps|t]|] eqn:Eg.
    - discriminate.
    - apply (fold_res_fuel _ (fun e => In (snd e) U) f); try assumption.
      + intros s0 e He Hs. cbn beta. destruct (is_file_mode (fst e)); [discriminate|now apply IH].
      + intros s0 e s1 He. cbn beta in He. destruct (is_file_mode (fst e)); [|eapply walk_incl; eassumption].
        inversion He; subst. destruct (promisor r && negb (has r (snd e))); [rewrite add_missing_seen|]; apply incl_add_seen.
      + apply Forall_forall. intros e He. eapply child_in_U; [eassumption|]. cbn. now apply in_map.
    - assert (Ht : In t U) by (eapply child_in_U; [eassumption|now left]).
      destruct (walk f r (add_seen h st) t) as [s2|e] eqn:Et.
      + destruct (mem h r.(shallow)); [discriminate|].
        apply (fold_res_fuel _ (fun c => In c U) f).
        * intros; now apply IH.
        * intros; eapply walk_incl; eassumption.
        * apply Forall_forall. intros c Hc. eapply child_in_U; [eassumption|now right].
        * pose proof (unseen_mono _ _ (walk_incl _ _ _ _ Et)). lia.
      + intro H. inversion H; subst. now apply (IH (add_seen h st) t).
    - apply IH; [|assumption]. eapply child_in_U; [eassumption|now left].
    - destruct (promisor r); discriminate.
  Qed.

  Lemma unseen_le_U st : (unseen st <= List.length U)%nat.
  Proof.
    unfold unseen. induction U as [|a l IH]; cbn; [lia|].
    destruct (negb (mem a (seen st))); cbn; lia.
  Qed.

  Lemma walk_all_fuel : walk_all (gc_fuel r) r <> Err EFuel.
  Proof.
    unfold walk_all, gc_fuel. fold U.
    destruct (fold_res (walk (S (List.length U)) r) r.(roots) {| seen := []; missing := [] |}) as [st|e] eqn:E; [discriminate|].
    intro H. inversion H; subst.
    apply (fold_res_fuel (walk (S (List.length U)) r) (fun c => In c U) (S (List.length U))) in E; try assumption.
    - intros; now apply walk_fuel.
    - intros; eapply walk_incl; eassumption.
    - apply Forall_forall. intros c Hc. now apply root_in_U.
    - pose proof (unseen_le_U {| seen := []; missing := [] |}). lia.
  Qed.
End Fuel.
