(* Proofs/C50.v — go-git's archive entry list against git archive's. *)
From Coq Require Import List NArith ZArith Bool Lia.
From GoGit Require Import Base.Out Gen.C50 Model.Archive Spec.GitArchive.
Import ListNotations.
Local Open Scope N_scope.

Scheme node_mut := Induction for node Sort Prop
with forest_mut := Induction for forest Sort Prop.

(* ---------------------------------------------------------------- modes: the regenerated leaves give git's numbers *)
Lemma tar_modes :
  archive_ApplyUmaskDir (perm filemode_Dir) = 509%Z /\
  archive_ApplyUmaskDir (perm filemode_Submodule) = 509%Z /\
  archive_ApplyUmask (perm filemode_Executable) true = 509%Z /\
  archive_ApplyUmask (perm filemode_Regular) false = 436%Z /\
  archive_ApplyUmaskDir 0 = 509%Z.
Proof. vm_compute. repeat split; reflexivity. Qed.

Lemma tar_entry_git prefix p n :
  tar_entry prefix (p, n) = git_entry git_tar_mode (prefix ++ p) n.
Proof.
  destruct tar_modes as (M1 & M2 & M3 & M4 & _).
  destruct n as [[|] d|t| |sub]; cbn [tar_entry git_entry git_tar_mode]; rewrite ?M1, ?M2, ?M3, ?M4; reflexivity.
Qed.

(* ---------------------------------------------------------------- guards *)
(* some file, link or gitlink at any depth *)
Fixpoint has_leaf (f : forest) : bool :=
  match f with
  | FNil => false
  | FCons _ n rest => (match n with NDir sub => has_leaf sub | _ => true end) || has_leaf rest
  end.
(* every sub-tree holds one (what git itself can produce from an index) *)
Fixpoint dirs_ok (f : forest) : bool :=
  match f with
  | FNil => true
  | FCons _ n rest => (match n with NDir sub => has_leaf sub && dirs_ok sub | _ => true end) && dirs_ok rest
  end.

Definition links_ok (f : forest) : bool := negb (existsb link_too_long (walk [] f)).
Definition prefix_ok (prefix : bytes) : bool :=
  negb (has_invalid_prefix prefix) && (negb (ends_with_slash prefix) || bytes_eq (prefix_dir prefix) prefix).

Lemma bytes_eq_eq a b : bytes_eq a b = true -> a = b.
Proof.
  revert b; induction a as [|x a IH]; intros [|y b]; cbn; try easy.
  intros H. apply andb_true_iff in H as [H1 H2]. apply N.eqb_eq in H1. f_equal; auto.
Qed.

(* ---------------------------------------------------------------- no filters: eager = lazy on trees without empty sub-trees *)
Lemma git_walk_nonempty mode prefix base f :
  has_leaf f = true -> git_walk mode prefix [] base f <> [].
Proof.
  revert base.
  induction f as [e d|t| |sub IHs| |name n IHn rest IH] using forest_mut
    with (P := fun n => match n with
                        | NDir sub => forall base, has_leaf sub = true -> git_walk mode prefix [] base sub <> []
                        | _ => True end);
    try exact I.
  - exact IHs.
  - intros base H. discriminate H.
  - intros base H. cbn [has_leaf] in H. cbn [git_walk].
    destruct n as [e d|t| |sub]; cbn [git_sel]; try (intros E; discriminate E).
    apply orb_true_iff in H as [H|H].
    + specialize (IHn (join base name) H).
      destruct (git_walk mode prefix [] (join base name) sub); [easy|]. intros E; discriminate E.
    + intros E. apply app_eq_nil in E as [_ E]. now apply (IH base H).
Qed.

Lemma walk_lazy prefix base f :
  dirs_ok f = true ->
  map (tar_entry prefix) (walk base f) = git_walk git_tar_mode prefix [] base f.
Proof.
  revert base.
  induction f as [e d|t| |sub IHs| |name n IHn rest IH] using forest_mut
    with (P := fun n => match n with
                        | NDir sub => forall base, dirs_ok sub = true ->
                                      map (tar_entry prefix) (walk base sub) = git_walk git_tar_mode prefix [] base sub
                        | _ => True end);
    try exact I.
  - exact IHs.
  - reflexivity.
  - intros base H. cbn [dirs_ok] in H. apply andb_true_iff in H as [Hn Hrest].
    cbn [walk git_walk]. rewrite map_cons, map_app, (IH base Hrest), tar_entry_git.
    destruct n as [e d|t| |sub]; cbn [git_sel app map]; try reflexivity.
    apply andb_true_iff in Hn as [Hl Hd].
    rewrite (IHn (join base name) Hd).
    pose proof (git_walk_nonempty git_tar_mode prefix (join base name) sub Hl) as NE.
    destruct (git_walk git_tar_mode prefix [] (join base name) sub); [easy|]. reflexivity.
Qed.

Lemma tar_nofilter_eq commit prefix f :
  dirs_ok f = true -> links_ok f = true -> prefix_ok prefix = true ->
  tar_entries commit prefix [] f = git_archive_entries false commit prefix [] f.
Proof.
  intros Hd Hl Hp. unfold tar_entries, git_archive_entries, selected.
  unfold links_ok in Hl. apply negb_true_iff in Hl. rewrite Hl.
  cbn [existsb forallb negb]. rewrite (walk_lazy prefix [] f Hd).
  unfold prefix_ok in Hp. apply andb_true_iff in Hp as [_ Hp].
  destruct (walk [] f) eqn:W; f_equal; f_equal.
  all: destruct prefix as [|c r]; [reflexivity|].
  all: cbn [negb andb]; destruct (ends_with_slash (c :: r)); [|reflexivity].
  all: cbn [negb orb] in Hp; apply bytes_eq_eq in Hp; rewrite Hp; now rewrite (proj2 (proj2 (proj2 (proj2 tar_modes)))).
Qed.

(* the whole request, tree-ish resolution included *)
Lemma archive_tar_eq t commit prefix f :
  match t with TSub (_ :: _) => false | _ => true end = true ->
  dirs_ok f = true -> links_ok f = true -> prefix_ok prefix = true ->
  archive t FTar commit prefix [] f = git_archive t FTar commit prefix [] f.
Proof.
  intros Ht Hd Hl Hp. unfold archive, git_archive.
  pose proof Hp as Hp'. unfold prefix_ok in Hp'. apply andb_true_iff in Hp' as [Hinv _].
  apply negb_true_iff in Hinv. rewrite Hinv.
  destruct t as [| |[|c path]]; try discriminate Ht; now rewrite tar_nofilter_eq.
Qed.

Definition no_empty_part (path : bytes) : bool :=
  negb (existsb (fun p => match p with [] => true | _ => false end) (split_slash path [])).

Lemma archive_tar_eq_sub path commit prefix f sub :
  path <> [] -> no_empty_part path = true ->
  find_dir f (split_slash path []) = inr sub ->
  dirs_ok sub = true -> links_ok sub = true -> prefix_ok prefix = true ->
  archive (TSub path) FTar commit prefix [] f = git_archive (TSub path) FTar commit prefix [] f.
Proof.
  intros Hne Hparts Hfind Hd Hl Hp. unfold archive, git_archive.
  pose proof Hp as Hp'. unfold prefix_ok in Hp'. apply andb_true_iff in Hp' as [Hinv _].
  apply negb_true_iff in Hinv. rewrite Hinv.
  destruct path as [|c path]; [easy|].
  unfold no_empty_part in Hparts. apply negb_true_iff in Hparts. rewrite Hparts, Hfind.
  now rewrite tar_nofilter_eq.
Qed.

(* ---------------------------------------------------------------- literal filters on files *)
(* a filter without trailing slash and not lying strictly below the file p
   selects p for go-git exactly when it does for git *)
Lemma strip_slash_id f : ends_with_slash f = false -> strip_slash f = f.
Proof.
  unfold ends_with_slash, strip_slash. destruct (rev f) as [|c r]; [easy|]. now intros ->.
Qed.

Lemma match_file_agree n p fs :
  match n with NDir _ => false | _ => true end = true ->
  forallb (fun f => negb (ends_with_slash f) && negb (has_prefix f (p ++ [SLASH]))) fs = true ->
  fs <> [] ->
  matches p fs = git_sel n fs p.
Proof.
  intros Hn H Hne. unfold matches, git_sel. destruct fs as [|f0 fs0]; [easy|]. clear Hne.
  induction (f0 :: fs0) as [|f fs IH]; [reflexivity|].
  cbn [forallb] in H. apply andb_true_iff in H as [Hf Hfs]. apply andb_true_iff in Hf as [H1 H2].
  apply negb_true_iff in H1, H2. cbn [existsb]. rewrite (IH Hfs). f_equal.
  unfold matches1, git_match_entry, git_match_file, git_match_dir.
  destruct n; try discriminate Hn; now rewrite H2, orb_false_r, (strip_slash_id _ H1).
Qed.

(* ---------------------------------------------------------------- zip: same files, different layout *)
(* what a zip reader extracts as file contents: names and bytes (a link's
   target is its content), plus the commit-id comment *)
Definition payload (e : aent) : list (option bytes * bytes) :=
  match e with
  | APax id => [(None, id)]
  | ADir _ _ => []
  | ALink n _ t => [(Some n, t)]
  | AFile n _ d => [(Some n, d)]
  end.

Lemma zip_payload prefix base f :
  flat_map payload (flat_map (zip_entry prefix) (walk base f)) =
  flat_map payload (git_walk git_zip_mode prefix [] base f).
Proof.
  revert base.
  induction f as [e d|t| |sub IHs| |name n IHn rest IH] using forest_mut
    with (P := fun n => match n with
                        | NDir sub => forall base, flat_map payload (flat_map (zip_entry prefix) (walk base sub)) =
                                                   flat_map payload (git_walk git_zip_mode prefix [] base sub)
                        | _ => True end);
    try exact I.
  - exact IHs.
  - reflexivity.
  - intros base. cbn [walk git_walk flat_map]. rewrite !flat_map_app, (IH base).
    destruct n as [[|] d|t| |sub]; cbn [zip_entry git_sel git_entry flat_map payload app]; try reflexivity.
    rewrite (IHn (join base name)).
    destruct (git_walk git_zip_mode prefix [] (join base name) sub); reflexivity.
Qed.

Lemma zip_nofilter_payload commit prefix f :
  match zip_entries commit prefix [] f, git_archive_entries true commit prefix [] f with
  | inr a, inr b => flat_map payload a = flat_map payload b
  | _, _ => False
  end.
Proof.
  change (zip_entries commit prefix [] f)
    with (inr (A := aerr) ((match commit with Some id => [APax id] | None => [] end) ++ flat_map (zip_entry prefix) (walk [] f))).
  change (git_archive_entries true commit prefix [] f)
    with (inr (A := aerr) ((match commit with Some id => [APax id] | None => [] end) ++
                           (if ends_with_slash prefix then [ADir (prefix_dir prefix) 0%Z] else []) ++
                           git_walk git_zip_mode prefix [] [] f)).
  cbv beta iota. rewrite !flat_map_app, zip_payload.
  destruct (ends_with_slash prefix); reflexivity.
Qed.

(* ---------------------------------------------------------------- literal path filters: eager selection = lazy selection *)
Lemma bytes_eq_refl a : bytes_eq a a = true.
Proof. induction a as [|x a IH]; cbn; [reflexivity|]. now rewrite N.eqb_refl. Qed.

Lemma has_prefix_app s a b : has_prefix s (a ++ b) = true -> has_prefix s a = true.
Proof.
  revert s; induction a as [|x a IH]; intros s H; [destruct s; reflexivity|].
  destruct s as [|y s]; cbn [app has_prefix] in *; [discriminate|].
  apply andb_true_iff in H as [H1 H2]. rewrite H1. cbn [andb]. now apply IH.
Qed.

Lemma has_prefix_self a b : has_prefix (a ++ b) a = true.
Proof. induction a as [|x a IH]; cbn [app has_prefix]; [destruct b; reflexivity|]. now rewrite N.eqb_refl. Qed.

Lemma has_prefix_inv s p : has_prefix s p = true -> exists r, s = p ++ r.
Proof.
  revert s; induction p as [|y p IH]; intros s H; [exists s; reflexivity|].
  destruct s as [|x s]; cbn [has_prefix] in H; [discriminate|].
  apply andb_true_iff in H as [H1 H2]. apply N.eqb_eq in H1. subst. destruct (IH s H2) as [r ->]. now exists r.
Qed.

Definition under (p q : bytes) : bool := has_prefix q (p ++ [SLASH]).

Lemma under_trans a b c : under a b = true -> under b c = true -> under a c = true.
Proof.
  unfold under. intros H1 H2. apply has_prefix_inv in H1 as [r1 ->]. apply has_prefix_inv in H2 as [r2 ->].
  rewrite <- !app_assoc. rewrite (app_assoc a [SLASH]). apply has_prefix_self.
Qed.

(* two "directory prefixes" of the same path are comparable *)
Lemma under_comparable q : forall a b,
  under a q = true -> under b q = true -> a = b \/ under a b = true \/ under b a = true.
Proof.
  unfold under. induction q as [|x q IH]; intros a b Ha Hb.
  - destruct a; discriminate.
  - destruct a as [|y a], b as [|z b]; cbn [app has_prefix] in *.
    + now left.
    + right. left. apply andb_true_iff in Ha as [A _]. apply andb_true_iff in Hb as [B _].
      apply N.eqb_eq in A, B. subst. rewrite N.eqb_refl. destruct b; reflexivity.
    + right. right. apply andb_true_iff in Ha as [A _]. apply andb_true_iff in Hb as [B _].
      apply N.eqb_eq in A, B. subst. rewrite N.eqb_refl. destruct a; reflexivity.
    + apply andb_true_iff in Ha as [A1 A2]. apply andb_true_iff in Hb as [B1 B2].
      apply N.eqb_eq in A1, B1. subst. rewrite N.eqb_refl. cbn [andb].
      destruct (IH a b A2 B2) as [->|[H|H]]; auto.
Qed.

Definition paths (base : bytes) (f : forest) : list bytes := map fst (walk base f).
Definition is_nil {A} (b : list A) : bool := match b with [] => true | _ => false end.

Fixpoint names_ok (f : forest) : bool :=
  match f with
  | FNil => true
  | FCons name n rest => negb (is_nil name) && (match n with NDir sub => names_ok sub | _ => true end) && names_ok rest
  end.

(* every filter lying below a directory names something inside it; none lies below a file *)
Fixpoint fits (fs : list bytes) (base : bytes) (f : forest) : bool :=
  match f with
  | FNil => true
  | FCons name n rest =>
    let p := join base name in
    (match n with
     | NDir sub => forallb (fun flt => negb (under p flt) || existsb (bytes_eq flt) (paths p sub)) fs && fits fs p sub
     | _ => forallb (fun flt => negb (under p flt)) fs
     end) && fits fs base rest
  end.

Lemma join_nonempty base name : name <> [] -> join base name <> [].
Proof. unfold join. destruct base; [auto|discriminate]. Qed.

Lemma join_under base name : base <> [] -> under base (join base name) = true.
Proof.
  intros H. unfold under, join. destruct base as [|c b]; [easy|].
  replace ((c :: b) ++ SLASH :: name) with (((c :: b) ++ [SLASH]) ++ name) by now rewrite <- app_assoc.
  apply has_prefix_self.
Qed.

Lemma walk_under f : forall base q, base <> [] -> names_ok f = true -> In q (paths base f) -> under base q = true.
Proof.
  induction f as [e d|t| |sub IHs| |name n IHn rest IH] using forest_mut
    with (P := fun n => match n with
                        | NDir sub => forall base q, base <> [] -> names_ok sub = true -> In q (paths base sub) -> under base q = true
                        | _ => True end);
    try exact I.
  - exact IHs.
  - intros base q _ _ [].
  - intros base q Hb Hn Hq. cbn [names_ok] in Hn. apply andb_true_iff in Hn as [Hn Hrest]. apply andb_true_iff in Hn as [Hname Hsub].
    unfold paths in Hq. cbn [walk map] in Hq. rewrite map_app in Hq. destruct Hq as [<-|Hq].
    + now apply join_under.
    + apply in_app_or in Hq as [Hq|Hq].
      * destruct n as [e d|t| |sub]; try (destruct Hq).
        assert (Hp : join base name <> []) by (apply join_nonempty; destruct name; [discriminate|discriminate]).
        apply (under_trans base (join base name)); [now apply join_under|]. now apply (IHn (join base name) q Hp Hsub).
      * now apply (IH base q Hb Hrest).
Qed.

Lemma has_leaf_walk f : forall base, has_leaf f = true -> walk base f <> [].
Proof. intros base H. destruct f; [discriminate|]. cbn [walk]. discriminate. Qed.

Lemma filter_all {A} (p : A -> bool) l : (forall x, In x l -> p x = true) -> filter p l = l.
Proof.
  induction l as [|x l IH]; intros H; [reflexivity|]. cbn [filter]. rewrite (H x (or_introl eq_refl)).
  f_equal. apply IH. intros y Hy. apply H. now right.
Qed.

Lemma filter_nonempty {A} (p : A -> bool) l x : In x l -> p x = true -> filter p l <> [].
Proof.
  intros Hi Hp E. assert (In x (filter p l)) by (apply filter_In; auto). rewrite E in H. destruct H.
Qed.

Lemma filter_empty_none {A} (p : A -> bool) l : filter p l <> [] -> exists x, In x l /\ p x = true.
Proof.
  induction l as [|x l IH]; [easy|]. cbn [filter]. destruct (p x) eqn:E.
  - intros _. exists x. split; [now left|exact E].
  - intros H. destruct (IH H) as (y & Hy & Py). exists y. split; [now right|exact Py].
Qed.

(* the directory p is selected by go-git exactly when something below it is *)
Lemma dir_selected fs p sub :
  p <> [] -> names_ok sub = true -> has_leaf sub = true ->
  forallb (fun flt => negb (under p flt) || existsb (bytes_eq flt) (paths p sub)) fs = true ->
  (matches p fs = true <-> filter (fun pn => matches (fst pn) fs) (walk p sub) <> []).
Proof.
  intros Hp Hn Hl Hfit. split.
  - unfold matches at 1. intros H. apply existsb_exists in H as (flt & Hin & Hm).
    unfold matches1 in Hm. apply orb_true_iff in Hm as [Hm|Hm3]; [apply orb_true_iff in Hm as [Hm1|Hm2]|].
    + (* p == flt *)
      apply bytes_eq_eq in Hm1. subst flt. rewrite filter_all; [now apply has_leaf_walk|].
      intros [q n] Hq. cbn [fst]. unfold matches. apply existsb_exists. exists p. split; [exact Hin|].
      unfold matches1. assert (U : under p q = true) by (apply (walk_under sub p q Hp Hn); unfold paths; now apply (in_map fst) in Hq).
      unfold under in U. now rewrite U, orb_true_r.
    + rewrite filter_all; [now apply has_leaf_walk|].
      intros [q n] Hq. cbn [fst]. unfold matches. apply existsb_exists. exists flt. split; [exact Hin|].
      unfold matches1. assert (U : under p q = true) by (apply (walk_under sub p q Hp Hn); unfold paths; now apply (in_map fst) in Hq).
      assert (U2 : under flt q = true) by (apply (under_trans flt p q); [exact Hm2|exact U]).
      unfold under in U2. now rewrite U2, orb_true_r.
    + (* the filter lies below p: it names an entry of the sub-tree *)
      rewrite forallb_forall in Hfit. specialize (Hfit flt Hin). unfold under in Hfit. rewrite Hm3 in Hfit. cbn [negb orb] in Hfit.
      apply existsb_exists in Hfit as (q & Hq & Hb). apply bytes_eq_eq in Hb. subst q.
      unfold paths in Hq. apply in_map_iff in Hq as ([q n] & E & Hq). cbn [fst] in E. subst q.
      apply (filter_nonempty _ _ (flt, n) Hq). cbn [fst]. unfold matches. apply existsb_exists. exists flt. split; [exact Hin|].
      unfold matches1. now rewrite bytes_eq_refl.
  - intros H. apply filter_empty_none in H as ([q n] & Hq & Hm). cbn [fst] in Hm.
    assert (U : under p q = true) by (apply (walk_under sub p q Hp Hn); unfold paths; now apply (in_map fst) in Hq).
    unfold matches in Hm. apply existsb_exists in Hm as (flt & Hin & Hm).
    unfold matches. apply existsb_exists. exists flt. split; [exact Hin|]. unfold matches1 in *.
    apply orb_true_iff in Hm as [Hm|Hm3]; [apply orb_true_iff in Hm as [Hm1|Hm2]|].
    + apply bytes_eq_eq in Hm1. subst flt. unfold under in U. now rewrite U, orb_true_r.
    + destruct (under_comparable q p flt U Hm2) as [->|[H1|H2]].
      * now rewrite bytes_eq_refl.
      * unfold under in H1. now rewrite H1, orb_true_r.
      * unfold under in H2. now rewrite H2, orb_true_r.
    + assert (U3 : under p flt = true) by (apply (under_trans p q flt); [exact U|exact Hm3]).
      unfold under in U3. now rewrite U3, orb_true_r.
Qed.

Lemma filtered_lazy prefix fs f : forall base,
  fs <> [] -> forallb (fun flt => negb (ends_with_slash flt)) fs = true ->
  names_ok f = true -> dirs_ok f = true -> fits fs base f = true -> (base = [] \/ base <> []) ->
  map (tar_entry prefix) (filter (fun pn => matches (fst pn) fs) (walk base f)) = git_walk git_tar_mode prefix fs base f.
Proof.
  induction f as [e d|t| |sub IHs| |name n IHn rest IH] using forest_mut
    with (P := fun n => match n with
                        | NDir sub => forall base, fs <> [] -> forallb (fun flt => negb (ends_with_slash flt)) fs = true ->
                            names_ok sub = true -> dirs_ok sub = true -> fits fs base sub = true -> (base = [] \/ base <> []) ->
                            map (tar_entry prefix) (filter (fun pn => matches (fst pn) fs) (walk base sub)) = git_walk git_tar_mode prefix fs base sub
                        | _ => True end);
    try exact I.
  - exact IHs.
  - reflexivity.
  - intros base Hfs Hsl Hn Hd Hfit Hb.
    cbn [names_ok] in Hn. apply andb_true_iff in Hn as [Hn Hnrest]. apply andb_true_iff in Hn as [Hname Hnsub].
    cbn [dirs_ok] in Hd. apply andb_true_iff in Hd as [Hdn Hdrest].
    cbn [fits] in Hfit. apply andb_true_iff in Hfit as [Hfn Hfrest].
    assert (Hp : join base name <> []) by (apply join_nonempty; destruct name; [discriminate|discriminate]).
    cbn [walk git_walk]. cbn [filter fst]. rewrite filter_app.
    rewrite <- (IH base Hfs Hsl Hnrest Hdrest Hfrest Hb).
    destruct n as [e d|t| |sub].
    1-3: (match goal with |- context [git_sel ?nd ?ff ?pp] =>
            assert (M : matches pp ff = git_sel nd ff pp);
            [apply match_file_agree; [reflexivity| |exact Hfs];
             rewrite forallb_forall in Hsl, Hfn |- *; intros flt Hin; rewrite (Hsl flt Hin); cbn [andb]; exact (Hfn flt Hin)|];
            rewrite M; cbn [filter app]; destruct (git_sel nd ff pp); cbn [map app]; [now rewrite tar_entry_git|reflexivity]
          end).
    apply andb_true_iff in Hdn as [Hleaf Hdsub]. apply andb_true_iff in Hfn as [Hfdir Hfsub].
    pose proof (dir_selected fs (join base name) sub Hp Hnsub Hleaf Hfdir) as DS.
    rewrite <- (IHn (join base name) Hfs Hsl Hnsub Hdsub Hfsub (or_intror Hp)).
    destruct (matches (join base name) fs) eqn:M.
    + assert (NE : filter (fun pn => matches (fst pn) fs) (walk (join base name) sub) <> []) by now apply DS.
      rewrite map_cons, map_app, tar_entry_git.
      destruct (filter (fun pn => matches (fst pn) fs) (walk (join base name) sub)) eqn:F; [easy|]. reflexivity.
    + assert (E : filter (fun pn => matches (fst pn) fs) (walk (join base name) sub) = []).
      { destruct (filter (fun pn => matches (fst pn) fs) (walk (join base name) sub)) eqn:F; [reflexivity|].
        destruct DS as [_ DS2]. assert (X : false = true) by (apply DS2; discriminate). discriminate X. }
      rewrite E. reflexivity.
Qed.

Definition filters_ok (fs : list bytes) (f : forest) : bool :=
  negb (is_nil fs) && forallb (fun flt => negb (is_nil flt) && negb (ends_with_slash flt)) fs &&
  forallb (fun flt => existsb (bytes_eq flt) (paths [] f)) fs && fits fs [] f.

Lemma strip_slash_noop flt : ends_with_slash flt = false -> strip_slash flt = flt.
Proof. apply strip_slash_id. Qed.

Lemma tar_filtered_eq commit prefix fs f :
  names_ok f = true -> dirs_ok f = true -> links_ok f = true -> prefix_ok prefix = true -> filters_ok fs f = true ->
  tar_entries commit prefix fs f = git_archive_entries false commit prefix fs f.
Proof.
  intros Hn Hd Hl Hp Hf. unfold filters_ok in Hf.
  apply andb_true_iff in Hf as [Hf Hfit]. apply andb_true_iff in Hf as [Hf Hex]. apply andb_true_iff in Hf as [Hne Hshape].
  assert (Hfs : fs <> []) by (destruct fs; [discriminate|discriminate]).
  assert (Hsl : forallb (fun flt => negb (ends_with_slash flt)) fs = true).
  { rewrite forallb_forall in Hshape |- *. intros x Hx. specialize (Hshape x Hx). now apply andb_true_iff in Hshape as [_ ?]. }
  unfold tar_entries, git_archive_entries, selected.
  destruct fs as [|f0 fs0]; [easy|]. set (fs := f0 :: fs0) in *.
  (* links *)
  assert (LK : existsb link_too_long (filter (fun pn => matches (fst pn) fs) (walk [] f)) = false).
  { unfold links_ok in Hl. apply negb_true_iff in Hl.
    destruct (existsb link_too_long (filter (fun pn => matches (fst pn) fs) (walk [] f))) eqn:X; [|reflexivity].
    apply existsb_exists in X as (x & Hx & Lx). apply filter_In in Hx as [Hx _].
    assert (existsb link_too_long (walk [] f) = true) by (apply existsb_exists; eauto). congruence. }
  rewrite LK.
  (* every filter names an entry: something is selected, and git's path_exists holds *)
  assert (SEL : filter (fun pn => matches (fst pn) fs) (walk [] f) <> []).
  { rewrite forallb_forall in Hex. specialize (Hex f0 (or_introl eq_refl)).
    apply existsb_exists in Hex as (q & Hq & Hb). apply bytes_eq_eq in Hb. subst q.
    unfold paths in Hq. apply in_map_iff in Hq as ([q n] & E & Hq). cbn [fst] in E. subst q.
    apply (filter_nonempty _ _ (f0, n) Hq). cbn [fst]. unfold matches. apply existsb_exists. exists f0. split; [now left|].
    unfold matches1. now rewrite bytes_eq_refl. }
  assert (EMP : existsb (fun flt => match flt with [] => true | _ => false end) fs = false).
  { destruct (existsb (fun flt => match flt with [] => true | _ => false end) fs) eqn:X; [|reflexivity].
    apply existsb_exists in X as (x & Hx & Ex). rewrite forallb_forall in Hshape. specialize (Hshape x Hx).
    apply andb_true_iff in Hshape as [A _]. destruct x; [discriminate A|discriminate Ex]. }
  rewrite EMP.
  assert (PE : forallb (git_path_exists f) fs = true).
  { rewrite forallb_forall. intros flt Hin. rewrite forallb_forall in Hex, Hsl. specialize (Hex flt Hin). specialize (Hsl flt Hin).
    apply negb_true_iff in Hsl. apply existsb_exists in Hex as (q & Hq & Hb). apply bytes_eq_eq in Hb. subst q.
    unfold paths in Hq. apply in_map_iff in Hq as ([q n] & E & Hq). cbn [fst] in E. subst q.
    unfold git_path_exists. apply existsb_exists. exists (flt, n). split; [exact Hq|]. cbn [fst snd].
    destruct n; unfold git_match_entry, git_match_file, git_match_dir; rewrite ?(strip_slash_id _ Hsl), bytes_eq_refl; reflexivity. }
  rewrite PE. cbn [negb].
  rewrite <- (filtered_lazy prefix fs f [] Hfs Hsl Hn Hd Hfit (or_introl eq_refl)).
  unfold prefix_ok in Hp. apply andb_true_iff in Hp as [_ Hp].
  destruct (filter (fun pn => matches (fst pn) fs) (walk [] f)) eqn:W; [easy|]. f_equal. f_equal.
  destruct prefix as [|c r]; [reflexivity|].
  cbn [negb andb]; destruct (ends_with_slash (c :: r)); [|reflexivity].
  cbn [negb orb] in Hp; apply bytes_eq_eq in Hp; rewrite Hp; now rewrite (proj2 (proj2 (proj2 (proj2 tar_modes)))).
Qed.
