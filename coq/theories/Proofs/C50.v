(* Proofs/C50.v — go-git's archive entry list against git archive's. *)
From Coq Require Import List NArith ZArith Bool Lia.
From GoGit Require Import Base.Out Gen.C50 Model.Archive Spec.GitArchive.
Import ListNotations.
Local Open Scope N_scope.

Scheme node_mut := Induction for node Sort Prop
with forest_mut := Induction for forest Sort Prop.

(* ---------------------------------------------------------------- modes: the regenerated leaves give git's numbers *)
Lemma tar_modes :
  archive_ApplyUmaskDir (perm filemode_Dir) = 509%Z /\
  archive_ApplyUmaskDir (perm filemode_Submodule) = 509%Z /\
  archive_ApplyUmask (perm filemode_Executable) true = 509%Z /\
  archive_ApplyUmask (perm filemode_Regular) false = 436%Z /\
  archive_ApplyUmaskDir 0 = 509%Z.
Proof. vm_compute. repeat split; reflexivity. Qed.

Lemma tar_entry_git prefix p n :
  tar_entry prefix (p, n) = git_entry git_tar_mode (prefix ++ p) n.
Proof.
  destruct tar_modes as (M1 & M2 & M3 & M4 & _).
  destruct n as [[|] d|t| |sub]; cbn [tar_entry git_entry git_tar_mode]; rewrite ?M1, ?M2, ?M3, ?M4; reflexivity.
Qed.

(* ---------------------------------------------------------------- guards *)
(* some file, link or gitlink at any depth *)
Fixpoint has_leaf (f : forest) : bool :=
  match f with
  | FNil => false
  | FCons _ n rest => (match n with NDir sub => has_leaf sub | _ => true end) || has_leaf rest
  end.
(* every sub-tree holds one (what git itself can produce from an index) *)
Fixpoint dirs_ok (f : forest) : bool :=
  match f with
  | FNil => true
  | FCons _ n rest => (match n with NDir sub => has_leaf sub && dirs_ok sub | _ => true end) && dirs_ok rest
  end.

Definition links_ok (f : forest) : bool := negb (existsb link_too_long (walk [] f)).
Definition prefix_ok (prefix : bytes) : bool :=
  negb (has_invalid_prefix prefix) && (negb (ends_with_slash prefix) || bytes_eq (prefix_dir prefix) prefix).

Lemma bytes_eq_eq a b : bytes_eq a b = true -> a = b.
Proof.
  revert b; induction a as [|x a IH]; intros [|y b]; cbn; try easy.
  intros H. apply andb_true_iff in H as [H1 H2]. apply N.eqb_eq in H1. f_equal; auto.
Qed.

(* ---------------------------------------------------------------- no filters: eager = lazy on trees without empty sub-trees *)
Lemma git_walk_nonempty mode prefix base f :
  has_leaf f = true -> git_walk mode prefix [] base f <> [].
Proof.
  revert base.
  induction f as [e d|t| |sub IHs| |name n IHn rest IH] using forest_mut
    with (P := fun n => match n with
                        | NDir sub => forall base, has_leaf sub = true -> git_walk mode prefix [] base sub <> []
                        | _ => True end);
    try exact I.
  - exact IHs.
  - intros base H. discriminate H.
  - intros base H. cbn [has_leaf] in H. cbn [git_walk].
    destruct n as [e d|t| |sub]; cbn [git_sel]; try (intros E; discriminate E).
    apply orb_true_iff in H as [H|H].
    + specialize (IHn (join base name) H).
      destruct (git_walk mode prefix [] (join base name) sub); [easy|]. intros E; discriminate E.
    + intros E. apply app_eq_nil in E as [_ E]. now apply (IH base H).
Qed.

Lemma walk_lazy prefix base f :
  dirs_ok f = true ->
  map (tar_entry prefix) (walk base f) = git_walk git_tar_mode prefix [] base f.
Proof.
  revert base.
  induction f as [e d|t| |sub IHs| |name n IHn rest IH] using forest_mut
    with (P := fun n => match n with
                        | NDir sub => forall base, dirs_ok sub = true ->
                                      map (tar_entry prefix) (walk base sub) = git_walk git_tar_mode prefix [] base sub
                        | _ => True end);
    try exact I.
  - exact IHs.
  - reflexivity.
  - intros base H. cbn [dirs_ok] in H. apply andb_true_iff in H as [Hn Hrest].
    cbn [walk git_walk]. rewrite map_cons, map_app, (IH base Hrest), tar_entry_git.
    destruct n as [e d|t| |sub]; cbn [git_sel app map]; try reflexivity.
    apply andb_true_iff in Hn as [Hl Hd].
    rewrite (IHn (join base name) Hd).
    pose proof (git_walk_nonempty git_tar_mode prefix (join base name) sub Hl) as NE.
    destruct (git_walk git_tar_mode prefix [] (join base name) sub); [easy|]. reflexivity.
Qed.

Lemma tar_nofilter_eq commit prefix f :
  dirs_ok f = true -> links_ok f = true -> prefix_ok prefix = true ->
  tar_entries commit prefix [] f = git_archive_entries false commit prefix [] f.
Proof.
  intros Hd Hl Hp. unfold tar_entries, git_archive_entries, selected.
  unfold links_ok in Hl. apply negb_true_iff in Hl. rewrite Hl.
  cbn [existsb forallb negb]. rewrite (walk_lazy prefix [] f Hd).
  unfold prefix_ok in Hp. apply andb_true_iff in Hp as [_ Hp].
  destruct (walk [] f) eqn:W; f_equal; f_equal.
  all: destruct prefix as [|c r]; [reflexivity|].
  all: cbn [negb andb]; destruct (ends_with_slash (c :: r)); [|reflexivity].
  all: cbn [negb orb] in Hp; apply bytes_eq_eq in Hp; rewrite Hp; now rewrite (proj2 (proj2 (proj2 (proj2 tar_modes)))).
Qed.

(* the whole request, tree-ish resolution included *)
Lemma archive_tar_eq t commit prefix f :
  match t with TSub (_ :: _) => false | _ => true end = true ->
  dirs_ok f = true -> links_ok f = true -> prefix_ok prefix = true ->
  archive t FTar commit prefix [] f = git_archive t FTar commit prefix [] f.
Proof.
  intros Ht Hd Hl Hp. unfold archive, git_archive.
  pose proof Hp as Hp'. unfold prefix_ok in Hp'. apply andb_true_iff in Hp' as [Hinv _].
  apply negb_true_iff in Hinv. rewrite Hinv.
  destruct t as [| |[|c path]]; try discriminate Ht; now rewrite tar_nofilter_eq.
Qed.

Definition no_empty_part (path : bytes) : bool :=
  negb (existsb (fun p => match p with [] => true | _ => false end) (split_slash path [])).

Lemma archive_tar_eq_sub path commit prefix f sub :
  path <> [] -> no_empty_part path = true ->
  find_dir f (split_slash path []) = inr sub ->
  dirs_ok sub = true -> links_ok sub = true -> prefix_ok prefix = true ->
  archive (TSub path) FTar commit prefix [] f = git_archive (TSub path) FTar commit prefix [] f.
Proof.
  intros Hne Hparts Hfind Hd Hl Hp. unfold archive, git_archive.
  pose proof Hp as Hp'. unfold prefix_ok in Hp'. apply andb_true_iff in Hp' as [Hinv _].
  apply negb_true_iff in Hinv. rewrite Hinv.
  destruct path as [|c path]; [easy|].
  unfold no_empty_part in Hparts. apply negb_true_iff in Hparts. rewrite Hparts, Hfind.
  now rewrite tar_nofilter_eq.
Qed.

(* ---------------------------------------------------------------- literal filters on files *)
(* a filter without trailing slash and not lying strictly below the file p
   selects p for go-git exactly when it does for git *)
Lemma strip_slash_id f : ends_with_slash f = false -> strip_slash f = f.
Proof.
  unfold ends_with_slash, strip_slash. destruct (rev f) as [|c r]; [easy|]. now intros ->.
Qed.

Lemma match_file_agree p fs :
  forallb (fun f => negb (ends_with_slash f) && negb (has_prefix f (p ++ [SLASH]))) fs = true ->
  fs <> [] ->
  matches p fs = git_sel fs p.
Proof.
  intros H Hne. unfold matches, git_sel. destruct fs as [|f0 fs0]; [easy|]. clear Hne.
  induction (f0 :: fs0) as [|f fs IH]; [reflexivity|].
  cbn [forallb] in H. apply andb_true_iff in H as [Hf Hfs]. apply andb_true_iff in Hf as [H1 H2].
  apply negb_true_iff in H1, H2. cbn [existsb]. rewrite (IH Hfs). f_equal.
  unfold matches1, git_match_file. now rewrite H2, orb_false_r, (strip_slash_id _ H1).
Qed.

(* ---------------------------------------------------------------- zip: same files, different layout *)
(* what a zip reader extracts as file contents: names and bytes (a link's
   target is its content), plus the commit-id comment *)
Definition payload (e : aent) : list (option bytes * bytes) :=
  match e with
  | APax id => [(None, id)]
  | ADir _ _ => []
  | ALink n _ t => [(Some n, t)]
  | AFile n _ d => [(Some n, d)]
  end.

Lemma zip_payload prefix base f :
  flat_map payload (flat_map (zip_entry prefix) (walk base f)) =
  flat_map payload (git_walk git_zip_mode prefix [] base f).
Proof.
  revert base.
  induction f as [e d|t| |sub IHs| |name n IHn rest IH] using forest_mut
    with (P := fun n => match n with
                        | NDir sub => forall base, flat_map payload (flat_map (zip_entry prefix) (walk base sub)) =
                                                   flat_map payload (git_walk git_zip_mode prefix [] base sub)
                        | _ => True end);
    try exact I.
  - exact IHs.
  - reflexivity.
  - intros base. cbn [walk git_walk flat_map]. rewrite !flat_map_app, (IH base).
    destruct n as [[|] d|t| |sub]; cbn [zip_entry git_sel git_entry flat_map payload app]; try reflexivity.
    rewrite (IHn (join base name)).
    destruct (git_walk git_zip_mode prefix [] (join base name) sub); reflexivity.
Qed.

Lemma zip_nofilter_payload commit prefix f :
  match zip_entries commit prefix [] f, git_archive_entries true commit prefix [] f with
  | inr a, inr b => flat_map payload a = flat_map payload b
  | _, _ => False
  end.
Proof.
  change (zip_entries commit prefix [] f)
    with (inr (A := aerr) ((match commit with Some id => [APax id] | None => [] end) ++ flat_map (zip_entry prefix) (walk [] f))).
  change (git_archive_entries true commit prefix [] f)
    with (inr (A := aerr) ((match commit with Some id => [APax id] | None => [] end) ++
                           (if ends_with_slash prefix then [ADir (prefix_dir prefix) 0%Z] else []) ++
                           git_walk git_zip_mode prefix [] [] f)).
  cbv beta iota. rewrite !flat_map_app, zip_payload.
  destruct (ends_with_slash prefix); reflexivity.
Qed.
