(* Proofs/C51Bytes.v — reading fixed-width records out of a byte string laid out as
   prefix ++ payload ++ rest (used by the commit-graph read-back theorems). *)
From Coq Require Import List NArith ZArith Bool Lia ZifyBool ZifyN ZifyNat.
From GoGit Require Import Base.Out Gen.C51 Model.CommitGraph Proofs.C51 Proofs.C51Reader.
Import ListNotations.
Local Open Scope N_scope.

Lemma slice_at : forall (file pre body rest : bytes) off len,
  file = pre ++ body ++ rest -> off = Z.of_nat (List.length pre) -> len = List.length body ->
  slice file off len = Some body.
Proof. intros file pre body rest off len -> -> ->. apply slice_app. Qed.

Lemma rd32_at : forall (file pre rest : bytes) off x,
  file = pre ++ be32 x ++ rest -> off = Z.of_nat (List.length pre) -> x < two32 -> rd file off 4 = Ok x.
Proof. intros file pre rest off x -> -> H. now apply rd32_app. Qed.

Lemma rd64_at : forall (file pre rest : bytes) off x,
  file = pre ++ be64 x ++ rest -> off = Z.of_nat (List.length pre) -> x < two64 -> rd file off 8 = Ok x.
Proof. intros file pre rest off x -> -> H. now apply rd64_app. Qed.

(* ---- records of equal width *)
Lemma concat_split : forall (recs : list bytes) i, (i < List.length recs)%nat ->
  List.concat recs = List.concat (firstn i recs) ++ nth i recs [] ++ List.concat (skipn (S i) recs).
Proof.
  induction recs as [|r rs IH]; intros i H; [simpl in H; lia|].
  destruct i as [|i]; [reflexivity|]. cbn [firstn skipn nth List.concat]. rewrite <- app_assoc. f_equal.
  apply IH. simpl in H. lia.
Qed.

Lemma concat_firstn_length : forall (recs : list bytes) w i,
  (forall r, In r recs -> List.length r = w) -> (i <= List.length recs)%nat ->
  List.length (List.concat (firstn i recs)) = (w * i)%nat.
Proof.
  induction recs as [|r rs IH]; intros w i Hw Hi.
  - simpl in Hi. assert (i = O) by lia. subst i. simpl. lia.
  - destruct i as [|i]; [simpl; lia|]. cbn [firstn List.concat]. rewrite app_length, (Hw r (or_introl eq_refl)).
    rewrite (IH w i); [lia | intros r0 Hr0; apply Hw; now right | simpl in Hi; lia].
Qed.

(* the i-th record of a payload of w-byte records *)
Lemma slice_record : forall (pre rest : bytes) (recs : list bytes) w i,
  (forall r, In r recs -> List.length r = w) -> (i < List.length recs)%nat ->
  slice (pre ++ List.concat recs ++ rest) (Z.of_nat (List.length pre) + Z.of_nat (w * i)) w = Some (nth i recs []).
Proof.
  intros pre rest recs w i Hw Hi.
  apply (slice_at _ (pre ++ List.concat (firstn i recs)) (nth i recs []) (List.concat (skipn (S i) recs) ++ rest)).
  - rewrite (concat_split recs i Hi) at 1. now rewrite <- !app_assoc.
  - rewrite app_length, (concat_firstn_length recs w i Hw) by lia. lia.
  - symmetry. apply Hw. apply nth_In. exact Hi.
Qed.

Lemma flat_map_concat : forall (A : Type) (f : A -> bytes) l, flat_map f l = List.concat (map f l).
Proof. intros A f l. induction l as [|x r IH]; [reflexivity|]. simpl. now rewrite IH. Qed.

Lemma rd32_word : forall (pre rest : bytes) (l : list N) i,
  (i < List.length l)%nat -> nth i l 0 < two32 ->
  rd (pre ++ flat_map be32 l ++ rest) (Z.of_nat (List.length pre) + Z.of_nat (4 * i)) 4 = Ok (nth i l 0).
Proof.
  intros pre rest l i Hi Hx.
  apply (rd32_at _ (pre ++ flat_map be32 (firstn i l)) (flat_map be32 (skipn (S i) l) ++ rest)).
  - rewrite (flat_map_be32_split l i Hi) at 1. now rewrite <- !app_assoc.
  - rewrite app_length, flat_map_be32_length, firstn_length. lia.
  - exact Hx.
Qed.

Lemma flat_map_be64_split : forall l k, (k < List.length l)%nat ->
  flat_map be64 l = flat_map be64 (firstn k l) ++ be64 (nth k l 0) ++ flat_map be64 (skipn (S k) l).
Proof.
  induction l as [|x r IH]; intros k H; [simpl in H; lia|].
  destruct k as [|k]; [reflexivity|]. cbn [firstn skipn nth flat_map]. rewrite <- app_assoc. f_equal.
  apply IH. simpl in H. lia.
Qed.

Lemma rd64_word : forall (pre rest : bytes) (l : list N) i,
  (i < List.length l)%nat -> nth i l 0 < two64 ->
  rd (pre ++ flat_map be64 l ++ rest) (Z.of_nat (List.length pre) + Z.of_nat (8 * i)) 8 = Ok (nth i l 0).
Proof.
  intros pre rest l i Hi Hx.
  apply (rd64_at _ (pre ++ flat_map be64 (firstn i l)) (flat_map be64 (skipn (S i) l) ++ rest)).
  - rewrite (flat_map_be64_split l i Hi) at 1. now rewrite <- !app_assoc.
  - rewrite app_length, flat_map_be64_length, firstn_length. lia.
  - exact Hx.
Qed.

(* ---- the four fields of a commit-data record *)
Lemma record_read : forall (file pre rest tree : bytes) p1 p2 t off,
  file = pre ++ (tree ++ be32 p1 ++ be32 p2 ++ be64 t) ++ rest ->
  off = Z.of_nat (List.length pre) -> List.length tree = 20%nat ->
  p1 < two32 -> p2 < two32 -> t < two64 ->
  slice file off 20 = Some tree /\ rd file (off + 20) 4 = Ok p1 /\
  rd file (off + 24) 4 = Ok p2 /\ rd file (off + 28) 8 = Ok t.
Proof.
  intros file pre rest tree p1 p2 t off Hf Ho Ht H1 H2 H3. repeat split.
  - apply (slice_at _ pre tree (be32 p1 ++ be32 p2 ++ be64 t ++ rest)); [|exact Ho|now rewrite Ht].
    rewrite Hf. now rewrite <- !app_assoc.
  - apply (rd32_at _ (pre ++ tree) (be32 p2 ++ be64 t ++ rest)); [| |exact H1].
    + rewrite Hf. now rewrite <- !app_assoc.
    + rewrite app_length, Ht. lia.
  - apply (rd32_at _ (pre ++ tree ++ be32 p1) (be64 t ++ rest)); [| |exact H2].
    + rewrite Hf. now rewrite <- !app_assoc.
    + rewrite !app_length, Ht, be32_length. lia.
  - apply (rd64_at _ (pre ++ tree ++ be32 p1 ++ be32 p2) rest); [| |exact H3].
    + rewrite Hf. now rewrite <- !app_assoc.
    + rewrite !app_length, Ht, !be32_length. lia.
Qed.

(* ---- positions in the sorted hash list *)
Lemma index_of_hash_in : forall h l i0, In h l ->
  exists k, index_of_hash h l i0 = Some (i0 + N.of_nat k) /\ (k < List.length l)%nat /\ nth k l [] = h.
Proof.
  intros h l. induction l as [|x r IH]; intros i0 Hin; [contradiction|].
  cbn [index_of_hash]. destruct (bytes_eqb h x) eqn:E.
  - apply bytes_eqb_eq in E. subst x. exists O. split; [f_equal; lia|]. split; [simpl; lia | reflexivity].
  - destruct Hin as [Hin|Hin]; [subst x; rewrite bytes_eqb_refl in E; discriminate|].
    destruct (IH (i0 + 1) Hin) as [k [A [B C]]]. exists (S k). split; [rewrite A; f_equal; lia|].
    split; [simpl; lia | exact C].
Qed.

Lemma hash_to_index_in : forall h l, In h l ->
  exists k, hash_to_index l h = N.of_nat k /\ (k < List.length l)%nat /\ nth k l [] = h.
Proof.
  intros h l Hin. destruct (index_of_hash_in h l 0 Hin) as [k [A [B C]]]. exists k.
  unfold hash_to_index. rewrite A. split; [lia|]. split; assumption.
Qed.

(* the position of the i-th element of a duplicate-free list *)
Lemma index_of_hash_nth : forall l i i0, NoDup l -> (i < List.length l)%nat ->
  index_of_hash (nth i l []) l i0 = Some (i0 + N.of_nat i).
Proof.
  induction l as [|x r IH]; intros i i0 Hnd Hi; [simpl in Hi; lia|].
  inversion Hnd as [|? ? Hn Hr]; subst. destruct i as [|i].
  - cbn [nth index_of_hash]. rewrite bytes_eqb_refl. f_equal. lia.
  - cbn [nth index_of_hash].
    assert (E : bytes_eqb (nth i r []) x = false).
    { destruct (bytes_eqb (nth i r []) x) eqn:E; [|reflexivity]. apply bytes_eqb_eq in E. exfalso. apply Hn.
      rewrite <- E. apply nth_In. simpl in Hi. lia. }
    rewrite E, IH by (auto; simpl in Hi; lia). f_equal. lia.
Qed.
