(* Proofs/C42Top.v — Independents and MergeBase agree with the specification
   (maximal elements / maximal common ancestors) for all timestamps. *)
From Coq Require Import List Arith ZArith Bool Lia Permutation.
From GoGit Require Import Spec.Dag Model.CommitWalk Model.MergeBase
  Proofs.Worklist Proofs.C43 Proofs.C42 Proofs.C42Indep.
Import ListNotations.

(* ------------------------------------------------- sortByCommitDateDesc etc. *)
Lemma insert_desc_in : forall g x l y, In y (insert_desc g x l) <-> y = x \/ In y l.
Proof.
  intros g x l y. induction l as [|z r IH]; simpl; [intuition congruence|].
  destruct ((ctime g z <? ctime g x)%Z && forallb (fun z0 => (ctime g z0 <? ctime g x)%Z) r); simpl.
  - intuition congruence.
  - rewrite IH. intuition congruence.
Qed.

Lemma sort_desc_in_acc : forall g l acc y,
  In y (fold_left (fun a x => insert_desc g x a) l acc) <-> In y l \/ In y acc.
Proof.
  intros g l. induction l as [|x r IH]; intros acc y; simpl; [tauto|].
  rewrite IH, insert_desc_in. intuition congruence.
Qed.

Lemma sort_desc_in : forall g l y, In y (sort_desc g l) <-> In y l.
Proof. intros. unfold sort_desc. rewrite sort_desc_in_acc. simpl. tauto. Qed.

Lemma dedup_spec : forall l seen,
  NoDup (dedup seen l) /\ forall y, In y (dedup seen l) <-> In y l /\ ~ In y seen.
Proof.
  induction l as [|c r IH]; intros seen; simpl.
  - split; [constructor | tauto].
  - destruct (mem c seen) eqn:E.
    + apply mem_In in E. destruct (IH seen) as [H1 H2]. split; [exact H1|].
      intros y. rewrite H2. split; [tauto|]. intros [[Hy|Hy] Hn]; [subst; contradiction | tauto].
    + apply mem_false_In in E. destruct (IH (c :: seen)) as [H1 H2]. split.
      * constructor; [|exact H1]. rewrite H2. simpl. tauto.
      * intros y. simpl. rewrite H2. simpl. split.
        -- intros [Hy|[Hy Hn]]; [subst; tauto | tauto].
        -- intros [[Hy|Hy] Hn]; [now left|]. destruct (Nat.eq_dec c y); [now left | right; tauto].
Qed.

(* ------------------------------------------------------------ Independents *)
Definition undominated (g : dag) (X : list node) (x : node) : Prop :=
  In x X /\ ~ exists y, In y X /\ y <> x /\ reach g y x.

Theorem independents_correct : forall g X,
  dag_ok g = true -> dag_closed g = true -> (forall x, In x X -> x < nnodes g) ->
  exists l, independents g X = MOk l /\ NoDup l /\ forall x, In x l <-> undominated g X x.
Proof.
  intros g X Hok Hc HX. unfold independents.
  destruct (dedup_spec (sort_desc g X) []) as [Knd Kin].
  set (K := dedup [] (sort_desc g X)) in *.
  assert (KX : forall y, In y K <-> In y X).
  { intros y. rewrite Kin, sort_desc_in. simpl. tauto. }
  assert (Klt : forall x, In x K -> x < nnodes g) by (intros x Hx; apply HX; now apply KX).
  assert (Fin : forall l, final g K l -> NoDup l /\ forall x, In x l <-> undominated g X x).
  { intros l [H1 H2]. split; [exact H1|]. intros x. rewrite H2. unfold undominated, dom. rewrite KX.
    split.
    - intros [Hx Hn]. split; [exact Hx|]. intros [y [Hy R]]. apply Hn. exists y. split; [now apply KX | exact R].
    - intros [Hx Hn]. split; [exact Hx|]. intros [y [Hy R]]. apply Hn. exists y. split; [now apply KX | exact R]. }
  destruct (length K <? 2) eqn:El.
  - apply Nat.ltb_lt in El. exists K. split; [reflexivity|]. apply Fin. split; [exact Knd|].
    intros x. split.
    + intros Hx. split; [exact Hx|]. intros [y [Hy [Hne _]]].
      destruct K as [|a [|b r]]; simpl in *; try lia; try contradiction.
    + tauto.
  - apply Nat.ltb_ge in El.
    assert (HO : OI g K 0 K [] []).
    { constructor.
      - exists (fun _ => true). symmetry. apply filter_true.
      - intros x [].
      - intros x [].
      - intros x. split; [intros [] | intros [f [[] _]]].
      - intros f z [].
      - intros z Hz Hn. contradiction. }
    destruct (outer_post g Hok Hc K Knd Klt (S (length K)) 0 K [] [] HO) as [l [E F]]; [lia | lia |].
    exists l. split; [exact E|]. now apply Fin.
Qed.

(* the specification function [independent] lists exactly the undominated elements *)
Lemma independent_spec : forall g X x, dag_ok g = true -> (forall y, In y X -> y < nnodes g) ->
  (In x (independent g X) <-> undominated g X x).
Proof.
  intros g X x Hok HX. unfold independent, maximal, undominated.
  rewrite filter_In, filter_In. unfold nodes. rewrite in_seq, mem_In.
  rewrite negb_true_iff. split.
  - intros [[_ Hx] Hn]. split; [exact Hx|]. intros [y [Hy [Hne Hr]]].
    assert (E : existsb (fun y0 => negb (x =? y0) && is_anc g x y0)
                  (filter (fun x0 => mem x0 X) (seq 0 (nnodes g))) = true).
    { apply existsb_exists. exists y. split.
      - apply filter_In. split; [apply in_seq; pose proof (HX y Hy); lia | now apply mem_In].
      - apply andb_true_iff. split.
        + apply negb_true_iff. apply Nat.eqb_neq. congruence.
        + now apply (is_anc_spec g x y Hok). }
    congruence.
  - intros [Hx Hn]. split; [split; [pose proof (HX x Hx); lia | exact Hx]|].
    destruct (existsb _ _) eqn:E; [|reflexivity]. exfalso. apply Hn.
    apply existsb_exists in E. destruct E as [y [Hy H]]. apply filter_In in Hy.
    destruct Hy as [_ Hy]. apply mem_In in Hy. apply andb_true_iff in H. destruct H as [H1 H2].
    exists y. split; [exact Hy|]. split.
    + apply negb_true_iff in H1. apply Nat.eqb_neq in H1. congruence.
    + now apply (is_anc_spec g x y Hok).
Qed.

Lemma independent_NoDup : forall g X, NoDup (independent g X).
Proof. intros. unfold independent, maximal, nodes. apply NoDup_filter, NoDup_filter, seq_NoDup. Qed.

Theorem independents_perm : forall g X,
  dag_ok g = true -> dag_closed g = true -> (forall x, In x X -> x < nnodes g) ->
  exists l, independents g X = MOk l /\ Permutation l (independent g X).
Proof.
  intros g X Hok Hc HX. destruct (independents_correct g X Hok Hc HX) as [l [E [N H]]].
  exists l. split; [exact E|]. apply NoDup_Permutation; [exact N | apply independent_NoDup|].
  intros x. rewrite H. symmetry. now apply independent_spec.
Qed.

(* ------------------------------------------- the filtered BFS of MergeBase *)
Section FBfs.
  Variable g : dag.
  Hypothesis Hclosed : dag_closed g = true.
  Variable inset : node -> bool.
  Variable o : node.
  Hypothesis Ho : o < nnodes g.

  Let n := nnodes g.
  Let w := fun c : node => length (parents g c).

  (* reachable from o through commits outside the set (the end point may be inside) *)
  Inductive rbi : node -> Prop :=
  | rbi_start : rbi o
  | rbi_step : forall y z, rbi y -> inset y = false -> In z (parents g y) -> rbi z.

  Lemma rbi_reach : forall z, rbi z -> reach g o z.
  Proof.
    intros z H. induction H as [|y z Hy IH Hn Hp]; [constructor|].
    eapply reach_trans; [exact IH|]. eapply reach_step; [exact Hp | constructor].
  Qed.

  Record FI (q visited acc : list node) : Prop := mkFI {
    f_nd : NoDup visited;
    f_rbi : forall x, In x visited -> rbi x;
    f_lt : forall x, In x visited -> x < n;
    f_acc : forall x, In x acc <-> In x visited /\ inset x = true;
    f_accnd : NoDup acc;
    f_q_lt : forall x, In x q -> x < n;
    f_q : forall x, In x q -> x = o \/ exists y, In y visited /\ inset y = false /\ In x (parents g y);
    f_closed : forall y p, In y visited -> inset y = false -> In p (parents g y) -> In p visited \/ In p q;
    f_start : In o visited \/ In o q
  }.

  Lemma fbfs_post : forall fuel q visited acc,
    FI q visited acc -> length q + budget n w visited < fuel ->
    exists res, fbfs_loop g inset fuel q visited acc = (res, WEof) /\ NoDup res /\
                forall x, In x res <-> rbi x /\ inset x = true.
  Proof.
    induction fuel as [|fu IH]; intros q visited acc HI Hfu; [lia|].
    simpl. destruct q as [|c q'].
    - exists (rev acc). split; [reflexivity|]. destruct HI as [h1 h2 h3 h4 h5 h6 h7 h8 h9].
      split; [now apply NoDup_rev|].
      assert (Hcomp : forall x, rbi x -> In x visited).
      { intros x Hr. induction Hr as [|y z Hy IHr Hn Hp].
        - destruct h9 as [H|[]]. exact H.
        - destruct (h8 y z IHr Hn Hp) as [H|[]]. exact H. }
      intros x. rewrite <- in_rev, h4. split.
      + intros [Hv Hi]. split; [now apply h2 | exact Hi].
      + intros [Hr Hi]. split; [now apply Hcomp | exact Hi].
    - destruct (mem c visited) eqn:Ev.
      + apply IH; [|simpl in Hfu; lia].
        apply mem_In in Ev. destruct HI as [h1 h2 h3 h4 h5 h6 h7 h8 h9].
        constructor; try assumption.
        * intros x Hx. apply h6. now right.
        * intros x Hx. apply h7. now right.
        * intros y p Hy Hn Hp. destruct (h8 y p Hy Hn Hp) as [H|[H|H]]; auto. subst p. now left.
        * destruct h9 as [H|[H|H]]; auto. subst c. now left.
      + apply mem_false_In in Ev.
        destruct HI as [h1 h2 h3 h4 h5 h6 h7 h8 h9].
        assert (Hclt : c < n) by (apply h6; now left).
        assert (Hcrb : rbi c).
        { destruct (h7 c (or_introl eq_refl)) as [H|[y [Hy [Hn Hp]]]]; [subst c; constructor|].
          eapply rbi_step; eauto. }
        assert (Hrb' : forall x, In x (c :: visited) -> rbi x).
        { intros x [Hx|Hx]; [now subst x | now apply h2]. }
        pose proof (budget_cons n w c visited Hclt Ev) as Hb.
        destruct (inset c) eqn:Ei.
        * (* in the set: emitted, not expanded *)
          apply IH; [|simpl in Hfu; lia].
          constructor.
          -- constructor; assumption.
          -- exact Hrb'.
          -- intros x [Hx|Hx]; [now subst x | now apply h3].
          -- intros x. simpl. rewrite h4. split.
             ++ intros [Hx|[Hx Hi]]; [subst x; split; [now left | exact Ei] | split; [now right | exact Hi]].
             ++ intros [[Hx|Hx] Hi]; [now left | right; now split].
          -- constructor; [|exact h5]. rewrite h4. tauto.
          -- intros x Hx. apply h6. now right.
          -- intros x Hx. destruct (h7 x (or_intror Hx)) as [H|[y [Hy [Hn Hp]]]]; [now left|].
             right. exists y. split; [now right | split; assumption].
          -- intros y p [Hy|Hy] Hn Hp; [subst y; congruence|].
             destruct (h8 y p Hy Hn Hp) as [H|[H|H]].
             ++ left. now right.
             ++ subst p. left. now left.
             ++ now right.
          -- destruct h9 as [H|[H|H]]; [left; now right | subst c; left; now left | now right].
        * set (add := unseen_parents g (c :: visited) c).
          assert (Hadd_lt : forall x : node, In x add -> x < n).
          { intros x Hx. eapply unseen_lt; eauto. }
          rewrite (forallb_present g add Hadd_lt). simpl.
          apply IH.
          -- constructor.
             ++ constructor; assumption.
             ++ exact Hrb'.
             ++ intros x [Hx|Hx]; [now subst x | now apply h3].
             ++ intros x. simpl. rewrite h4. split.
                ** intros [Hx Hi]. split; [now right | exact Hi].
                ** intros [[Hx|Hx] Hi]; [subst x; congruence | now split].
             ++ exact h5.
             ++ intros x Hx. apply in_app_or in Hx. destruct Hx as [Hx|Hx]; [apply h6; now right | now apply Hadd_lt].
             ++ intros x Hx. apply in_app_or in Hx. destruct Hx as [Hx|Hx].
                ** destruct (h7 x (or_intror Hx)) as [H|[y [Hy [Hn Hp]]]]; [now left|].
                   right. exists y. split; [now right | split; assumption].
                ** right. exists c. split; [now left|]. split; [exact Ei|].
                   unfold add, unseen_parents in Hx. apply filter_In in Hx. tauto.
             ++ intros y p [Hy|Hy] Hn Hp.
                ** subst y. destruct (in_dec Nat.eq_dec p (c :: visited)) as [Hpv|Hpv]; [now left|].
                   right. apply in_or_app. right. unfold add, unseen_parents. apply filter_In.
                   split; [exact Hp|]. apply negb_true_iff. now apply mem_false_In.
                ** destruct (h8 y p Hy Hn Hp) as [H|[H|H]].
                   --- left. now right.
                   --- subst p. left. now left.
                   --- right. apply in_or_app. now left.
             ++ destruct h9 as [H|[H|H]]; [left; now right | subst c; left; now left | right; apply in_or_app; now left].
          -- rewrite app_length.
             assert (Hal : length add <= w c) by (unfold add, unseen_parents, w; apply filter_length_le').
             simpl in Hfu. lia.
  Qed.
End FBfs.

(* ---------------------------------------------------------------- MergeBase *)
Definition common_anc (g : dag) (a b x : node) : Prop := reach g a x /\ reach g b x.
Definition is_merge_base (g : dag) (a b x : node) : Prop :=
  common_anc g a b x /\ ~ exists y, common_anc g a b y /\ y <> x /\ reach g y x.

Lemma is_merge_base_sym : forall g a b x, is_merge_base g a b x <-> is_merge_base g b a x.
Proof.
  intros g a b x. unfold is_merge_base, common_anc. split; intros [[H1 H2] Hn]; (split; [tauto|]);
    intros [y [[Hy1 Hy2] R]]; apply Hn; exists y; tauto.
Qed.

(* when a is an ancestor of b, a is the only merge base *)
Lemma merge_base_of_ancestor : forall g a b x,
  dag_ok g = true -> dag_closed g = true -> reach g b a ->
  (is_merge_base g a b x <-> x = a).
Proof.
  intros g a b x Hok Hc Hba. unfold is_merge_base, common_anc. split.
  - intros [[Hax Hbx] Hn]. destruct (Nat.eq_dec x a) as [E|E]; [exact E|].
    exfalso. apply Hn. exists a. repeat split; auto; constructor.
  - intros ->. split; [split; [constructor | exact Hba]|].
    intros [y [[Hay _] [Hne Hya]]]. apply Hne. eapply reach_antisym; eauto.
Qed.

Lemma common_list_spec : forall g (a b x : node), dag_ok g = true -> dag_closed g = true ->
  a < nnodes g -> (In x (common g a b) <-> common_anc g a b x).
Proof.
  intros g a b x Hok Hc Ha. unfold common, common_anc, nodes. rewrite filter_In, in_seq, andb_true_iff.
  rewrite !(is_anc_spec g) by exact Hok. split; [tauto|].
  intros [H1 H2]. split; [|tauto]. pose proof (reach_present g a x Hc Ha H1). lia.
Qed.

(* a commit all of whose proper descendants below o are outside the set is reached by the filtered walk *)
Lemma rbi_of_clear_path : forall g inset o, dag_ok g = true -> dag_closed g = true ->
  forall c x, reach g c x -> rbi g inset o c ->
  (forall p, reach g c p -> reach g p x -> p <> x -> inset p = false) -> rbi g inset o x.
Proof.
  intros g inset o Hok Hc c x H. induction H as [c | c p a Hp Hr IH]; intros Hrb Hclear; [exact Hrb|].
  assert (Hca : c <> a).
  { intros E. subst a. pose proof (dag_ok_closed_parent g c p Hok Hc Hp).
    pose proof (reach_le g p c Hok Hc Hr). lia. }
  apply IH.
  - eapply rbi_step; [exact Hrb | | exact Hp].
    apply Hclear; [constructor | eapply reach_step; eauto | exact Hca].
  - intros q Hpq Hqa Hne. apply Hclear; auto. eapply reach_step; eauto.
Qed.

Theorem merge_base_ordered : forall g (newer older : node),
  dag_ok g = true -> dag_closed g = true -> newer < nnodes g -> older < nnodes g ->
  exists l,
    (if older =? newer then MOk [older]
     else match bfs_walk g (Nat.eqb older) (walk_fuel g) newer [] with
          | (_, WStop) => MOk [older]
          | (_, WFail) => MFail
          | (_, WFuel) => MFuel
          | (hist, WEof) =>
            match fbfs_loop g (fun c => mem c hist) (walk_fuel g) [older] [] [] with
            | (res, WEof) => independents g res
            | (res, WFail) => independents g res
            | (_, WFuel) => MFuel
            | (_, WStop) => MFail
            end
          end) = MOk l /\ NoDup l /\ forall x, In x l <-> is_merge_base g newer older x.
Proof.
  intros g newer older Hok Hc Hn Ho.
  assert (Single : forall x, reach g newer older -> (In x [older] <-> is_merge_base g newer older x)).
  { intros x Hr. rewrite is_merge_base_sym, (merge_base_of_ancestor g older newer x Hok Hc Hr).
    simpl. intuition congruence. }
  assert (Nd1 : NoDup [older]) by (constructor; [intros [] | constructor]).
  destruct (older =? newer) eqn:E.
  - apply Nat.eqb_eq in E. subst older. exists [newer]. split; [reflexivity|]. split; [exact Nd1|].
    intros x. apply Single. constructor.
  - pose proof (bfs_walk_post g Hc (Nat.eqb older) [] newer Hn) as P.
    destruct (bfs_walk g (Nat.eqb older) (walk_fuel g) newer []) as [hist e].
    unfold Post in P.
    destruct P as [[He [_ [Hin [Hst _]]]] | [He [l' [c' [_ [Hs [Hra _]]]]]]]; subst e.
    + (* older is not an ancestor of newer: the general case *)
      assert (Hhist : forall x, mem x hist = true <-> reach g newer x).
      { intros x. rewrite mem_In, Hin. apply ra_reach. }
      set (inset := fun c => mem c hist).
      assert (HFI : FI g inset older [older] [] []).
      { constructor.
        - constructor.
        - intros x [].
        - intros x [].
        - intros x. simpl. tauto.
        - constructor.
        - intros x [Hx|[]]. now subst.
        - intros x [Hx|[]]. now left.
        - intros y p [].
        - right. now left. }
      destruct (fbfs_post g Hc inset older Ho (walk_fuel g) [older] [] [] HFI) as [res [Er [Nr Hr]]].
      { rewrite (budget_nil g). unfold walk_fuel. simpl. lia. }
      fold inset. rewrite Er.
      assert (Hres_lt : forall x, In x res -> x < nnodes g).
      { intros x Hx. apply Hr in Hx. destruct Hx as [Hx _]. apply rbi_reach in Hx.
        eapply reach_present; eauto. }
      destruct (independents_correct g res Hok Hc Hres_lt) as [l [El [Nl Hl]]].
      exists l. split; [exact El|]. split; [exact Nl|].
      (* res lies between the merge bases and the common ancestors *)
      assert (ResCommon : forall x, In x res -> common_anc g newer older x).
      { intros x Hx. apply Hr in Hx. destruct Hx as [H1 H2]. split; [now apply Hhist | now apply rbi_reach in H1]. }
      assert (MbRes : forall x, is_merge_base g newer older x -> In x res).
      { intros x [[H1 H2] Hno]. apply Hr. split; [|now apply Hhist].
        apply (rbi_of_clear_path g inset older Hok Hc older x H2 (rbi_start g inset older)).
        intros p Hop Hpx Hne. unfold inset. destruct (mem p hist) eqn:Em; [|reflexivity].
        exfalso. apply Hno. exists p. split; [split; [now apply Hhist | exact Hop]|]. split; assumption. }
      intros x. rewrite Hl. unfold undominated. split.
      * intros [Hx Hnd]. split; [now apply ResCommon|].
        intros [y [Hy [Hne Hyx]]].
        (* climb to a dominator that is a merge base: it is in res *)
        set (K := common g newer older).
        assert (Klt : forall z, In z K -> z < nnodes g).
        { intros z Hz. unfold K, common, nodes in Hz. apply filter_In in Hz. destruct Hz as [Hz _]. apply in_seq in Hz. lia. }
        assert (HyK : In y K) by (apply common_list_spec; assumption).
        destruct (max_dom g Hok Hc K Klt (nnodes g - y) y x (le_n _) HyK Hne Hyx) as [y' [Hy' [Hne' [Hr' Hnd']]]].
        apply Hnd. exists y'. split; [|split; assumption].
        apply MbRes. split; [now apply common_list_spec in Hy'|].
        intros [z [Hz [Hnz Hzy]]]. apply Hnd'. exists z. split; [now apply common_list_spec | split; assumption].
      * intros [Hx Hno]. split; [apply MbRes; now split|].
        intros [y [Hy [Hne Hyx]]]. apply Hno. exists y. split; [now apply ResCommon | split; assumption].
    + (* older is an ancestor of newer *)
      apply Nat.eqb_eq in Hs. subst c'. apply ra_reach in Hra.
      exists [older]. split; [reflexivity|]. split; [exact Nd1|]. intros x. now apply Single.
Qed.

Theorem merge_base_correct : forall g (a b : node),
  dag_ok g = true -> dag_closed g = true -> a < nnodes g -> b < nnodes g ->
  exists l, merge_base g a b = MOk l /\ NoDup l /\ forall x, In x l <-> is_merge_base g a b x.
Proof.
  intros g a b Hok Hc Ha Hb. unfold merge_base.
  assert (S2 : sort_desc g [a; b] = [a; b] \/ sort_desc g [a; b] = [b; a]).
  { unfold sort_desc. simpl. destruct ((ctime g a <? ctime g b)%Z && true); [now right | now left]. }
  destruct S2 as [E|E]; rewrite E.
  - apply merge_base_ordered; assumption.
  - destruct (merge_base_ordered g b a Hok Hc Hb Ha) as [l [E1 [N H]]].
    exists l. split; [exact E1|]. split; [exact N|]. intros x. rewrite H. apply is_merge_base_sym.
Qed.

Lemma merge_bases_spec : forall g (a b x : node), dag_ok g = true -> dag_closed g = true -> a < nnodes g ->
  (In x (merge_bases g a b) <-> is_merge_base g a b x).
Proof.
  intros g a b x Hok Hc Ha. unfold merge_bases, maximal, is_merge_base.
  rewrite filter_In, negb_true_iff, (common_list_spec g a b x Hok Hc Ha). split.
  - intros [Hx Hn]. split; [exact Hx|]. intros [y [Hy [Hne Hr]]].
    assert (E : existsb (fun y0 => negb (x =? y0) && is_anc g x y0) (common g a b) = true).
    { apply existsb_exists. exists y. split; [now apply common_list_spec|].
      apply andb_true_iff. split; [apply negb_true_iff, Nat.eqb_neq; congruence | now apply (is_anc_spec g x y Hok)]. }
    congruence.
  - intros [Hx Hn]. split; [exact Hx|].
    destruct (existsb _ _) eqn:E; [|reflexivity]. exfalso. apply Hn.
    apply existsb_exists in E. destruct E as [y [Hy H]]. apply andb_true_iff in H. destruct H as [H1 H2].
    exists y. split; [now apply common_list_spec in Hy|]. split.
    + apply negb_true_iff, Nat.eqb_neq in H1. congruence.
    + now apply (is_anc_spec g x y Hok).
Qed.

Theorem merge_base_perm : forall g (a b : node),
  dag_ok g = true -> dag_closed g = true -> a < nnodes g -> b < nnodes g ->
  exists l, merge_base g a b = MOk l /\ Permutation l (merge_bases g a b).
Proof.
  intros g a b Hok Hc Ha Hb. destruct (merge_base_correct g a b Hok Hc Ha Hb) as [l [E [N H]]].
  exists l. split; [exact E|]. apply NoDup_Permutation; [exact N | |].
  - unfold merge_bases, maximal, common, nodes. apply NoDup_filter, NoDup_filter, seq_NoDup.
  - intros x. rewrite H. symmetry. now apply merge_bases_spec.
Qed.
