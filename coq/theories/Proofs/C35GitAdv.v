(* Proofs/C35GitAdv.v — go-git's reference advertisement (v0 / v1) is in git's
   documented grammar (Spec/GitProto.v git_advrefs) and means the message:
   the capability words, the references in wire order, the shallows. *)
From Coq Require Import List Arith NArith ZArith Bool Lia String.
From GoGit Require Import Base.Out Base.GoInt Gen.C34 Model.PktLine Model.C35Utf8 Model.Packp Spec.GitProto
  Proofs.C34Pkt Proofs.C35Base Proofs.C35Utf8 Proofs.C35U Proofs.C35Msgs Proofs.C35Caps Proofs.C35Dec Proofs.C35Adv Proofs.C35Ul
  Proofs.C35Git Proofs.C35GitV0.
Import ListNotations.

Definition CAPSREF : bytes := B "capabilities^{}".

(* what git's grammar asks of an advertised reference *)
Definition gref_ok (hexsz : nat) (r : bytes * hash) : bool :=
  sized hexsz (snd r) && negb (Nat.eqb (List.length (fst r)) 0) && negb (beq (fst r) CAPSREF).

(* ---------- reference lines ---------- *)
Lemma git_adv_refs_lines hexsz : forall R rest acc, rest <> [] -> forallb (gref_ok hexsz) R = true ->
  git_adv_refs hexsz (ref_lines R ++ rest) acc = git_adv_refs hexsz rest (acc ++ R).
Proof.
  induction R as [|[n h] R IH]; intros rest acc Hr H; [cbn [ref_lines map app]; now rewrite app_nil_r|].
  cbn [forallb] in H. apply andb_prop in H. destruct H as [H1 H2]. unfold gref_ok in H1. cbn [fst snd] in H1.
  apply andb_prop in H1. destruct H1 as [H1 Hc]. apply andb_prop in H1. destruct H1 as [Hs Hn].
  apply negb_true_iff in Hc, Hn. apply Nat.eqb_neq in Hn.
  unfold ref_lines. cbn [map app fst snd]. fold (ref_lines R). rewrite ref_line_eq.
  assert (forall p r0, r0 <> [] -> git_adv_refs hexsz (PData p :: r0) acc =
            match oid_sp hexsz (chomp p) with
            | Some (h0, name) =>
              match name with
              | [] => None
              | _ => if beq name CAPSREF then None else git_adv_refs hexsz r0 (acc ++ [(name, h0)])
              end
            | None => match git_adv_shallows hexsz (PData p :: r0) [] with Some sh => Some (acc, sh) | None => None end
            end) as K by (intros p [|x r0] Hne; [contradiction|reflexivity]).
  rewrite K by (destruct R; [exact Hr|discriminate]).
  rewrite chomp_app, (oid_sp_str hexsz h n Hs). destruct n as [|c n']; [cbn in Hn; contradiction|]. rewrite Hc.
  rewrite (IH rest _ Hr H2). now rewrite <- app_assoc.
Qed.

(* ---------- shallow lines ---------- *)
Definition is_sized_str (hexsz : nat) (s : bytes) : Prop := exists h, sized hexsz h = true /\ s = hash_str h.

Lemma git_adv_shallow_lines hexsz : forall ss acc, Forall (is_sized_str hexsz) ss ->
  git_adv_shallows hexsz (map (fun s => PData (B "shallow " ++ s ++ [NL])) ss ++ [PFlush]) acc = Some (acc ++ map new_hash ss).
Proof.
  induction ss as [|s ss IH]; intros acc H; [cbn; now rewrite app_nil_r|].
  inversion H as [|? ? (h & Hs & ->) Hss]; subst. cbn [map app].
  assert (forall p r0, r0 <> [] -> git_adv_shallows hexsz (PData p :: r0) acc =
            match kw_oid hexsz "shallow" (chomp p) with
            | Some h0 => git_adv_shallows hexsz r0 (acc ++ [h0])
            | None => None
            end) as K by (intros p [|x r0] Hne; [contradiction|reflexivity]).
  rewrite K by (destruct ss; discriminate).
  change (B "shallow " ++ hash_str h ++ [NL]) with (((B "shallow" ++ [SP]) ++ hash_str h) ++ [NL]).
  rewrite chomp_app, (kw_oid_str hexsz "shallow" h Hs), (IH _ Hss).
  destruct (sized_spec hexsz h Hs) as [Hok _]. rewrite (new_hash_str h Hok). now rewrite <- app_assoc.
Qed.

Lemma oid_sp_shallow hexsz x : (0 < hexsz)%nat -> oid_sp hexsz (B "shallow " ++ x) = None.
Proof.
  intros H. destruct hexsz as [|k]; [lia|]. unfold oid_sp.
  change (B "shallow " ++ x) with (115%N :: skipn 1 (B "shallow ") ++ x). cbn [firstn]. unfold git_oid. cbn [forallb].
  change (ishex 115) with false. cbn [andb]. now rewrite andb_false_r.
Qed.

Lemma sized_sorted_strs hexsz shs : forallb (sized hexsz) shs = true ->
  Forall (is_sized_str hexsz) (sort_by bytes_ltb (map hash_str shs)).
Proof.
  intros H. apply sort_by_Forall. apply Forall_forall. intros s Hin. apply in_map_iff in Hin. destruct Hin as (h & <- & Hh).
  rewrite forallb_forall in H. exists h. split; [now apply H|reflexivity].
Qed.

(* references, then shallows, then the flush *)
Lemma git_adv_tail hexsz R shs acc : (0 < hexsz)%nat -> forallb (gref_ok hexsz) R = true -> forallb (sized hexsz) shs = true ->
  git_adv_refs hexsz (ref_lines R ++ shallow_lines shs ++ [PFlush]) acc
  = Some (acc ++ R, map new_hash (sort_by bytes_ltb (map hash_str shs))).
Proof.
  intros Hz HR Hs. rewrite (git_adv_refs_lines hexsz R (shallow_lines shs ++ [PFlush]) acc ltac:(apply app_ne_r; discriminate) HR).
  unfold shallow_lines. pose proof (sized_sorted_strs hexsz shs Hs) as Hf.
  destruct (sort_by bytes_ltb (map hash_str shs)) as [|s ss] eqn:E; [reflexivity|].
  cbn [map app].
  assert (forall p r0 a, r0 <> [] -> git_adv_refs hexsz (PData p :: r0) a =
            match oid_sp hexsz (chomp p) with
            | Some (h0, name) =>
              match name with
              | [] => None
              | _ => if beq name CAPSREF then None else git_adv_refs hexsz r0 (a ++ [(name, h0)])
              end
            | None => match git_adv_shallows hexsz (PData p :: r0) [] with Some sh => Some (a, sh) | None => None end
            end) as K by (intros p [|x r0] a Hne; [contradiction|reflexivity]).
  rewrite K by (destruct ss; discriminate).
  change (B "shallow " ++ s ++ [NL]) with ((B "shallow " ++ s) ++ [NL]). rewrite chomp_app, (oid_sp_shallow hexsz s Hz).
  change (PData ((B "shallow " ++ s) ++ [NL]) :: map (fun s0 => PData (B "shallow " ++ s0 ++ [NL])) ss ++ [PFlush])
    with (map (fun s0 => PData (B "shallow " ++ s0 ++ [NL])) (s :: ss) ++ [PFlush]).
  now rewrite (git_adv_shallow_lines hexsz (s :: ss) [] Hf).
Qed.

(* ---------- the first line ---------- *)
Lemma nonul_first fh fname : hash_ok fh = true -> no_byte NUL fname = true -> no_byte NUL (hash_str fh ++ SP :: fname) = true.
Proof.
  intros Hh Hn. unfold no_byte. rewrite forallb_app. cbn [forallb]. apply andb_true_intro. split.
  - pose proof (hash_str_chars fh Hh) as Hc. rewrite forallb_forall in *. intros x Hx.
    destruct (hexchar_nonspace _ (Hc x Hx)) as (_ & _ & _ & ->). reflexivity.
  - exact Hn.
Qed.

Lemma first_not_version h x : hash_ok h = true -> beq (hash_str h ++ x) (B "version 1") = false.
Proof.
  intros Hok. destruct (hash_str_head h Hok) as (n & t & -> & Hn). change (B "version 1") with (118%N :: skipn 1 (B "version 1")).
  cbn [app beq]. rewrite N.eqb_sym. now rewrite (hexdig_not n 118 Hn (or_intror eq_refl)).
Qed.

Definition adv_abs (a : advrefs) : gadv :=
  mkgadv (cap_tokens (ar_caps a)) (ar_refs (adv_canon a)) (ar_shallows (adv_canon a)).

(* beyond adv_ok: one object format (with references; without, the zero id is written with 40 digits), no reference
   called capabilities^{} *)
Definition adv_git_ok (hexsz : nat) (a : advrefs) : bool :=
  Nat.ltb 0 hexsz && forallb (gref_ok hexsz) (adv_wire (ar_refs a)) && forallb (sized hexsz) (ar_shallows a) &&
  match first_ref (ar_refs a) with Some _ => true | None => Nat.eqb hexsz 40 end.

Lemma git_advrefs_first hexsz v fh fname caps rest : ((v =? 0)%Z || (v =? 1)%Z) = true ->
  sized hexsz fh = true -> name_ok fname = true -> caps_ok caps = true ->
  git_advrefs hexsz (version_line v ++ PData ((hash_str fh ++ [SP] ++ fname ++ [NUL] ++ cap_encode caps) ++ [NL]) :: rest) =
  (if beq fname CAPSREF then
     (if hash_is_zero fh then match git_adv_refs hexsz rest [] with Some ([], sh) => Some (mkgadv (cap_tokens caps) [] sh) | _ => None end else None)
   else match git_adv_refs hexsz rest [(fname, fh)] with
        | Some (refs, sh) => Some (mkgadv (cap_tokens caps) refs sh)
        | None => None
        end).
Proof.
  intros Hv Hs Hn Hc. destruct (sized_spec hexsz fh Hs) as [Hok _].
  unfold name_ok in Hn. destruct fname as [|c0 fn] eqn:Ef; [discriminate|]. rewrite <- Ef in *. apply andb_prop in Hn. destruct Hn as [_ Hnn].
  assert (git_advrefs hexsz (version_line v ++ PData ((hash_str fh ++ [SP] ++ fname ++ [NUL] ++ cap_encode caps) ++ [NL]) :: rest)
          = git_advrefs hexsz (PData ((hash_str fh ++ [SP] ++ fname ++ [NUL] ++ cap_encode caps) ++ [NL]) :: rest)) as ->.
  { unfold version_line. destruct (v =? 0)%Z; [reflexivity|]. destruct (v =? 1)%Z; [|discriminate]. cbn [app].
    unfold git_advrefs at 1. change (chomp (B "version 1" ++ [NL])) with (B "version 1").
    change (beq (B "version 1") (B "version 1")) with true. cbv iota. unfold git_advrefs.
    rewrite chomp_app. rewrite <- !app_assoc. now rewrite (first_not_version fh _ Hok). }
  unfold git_advrefs. rewrite chomp_app. rewrite <- !app_assoc. rewrite (first_not_version fh _ Hok).
  assert ((hash_str fh ++ [SP] ++ fname ++ [NUL] ++ cap_encode caps ++ [NL]) = (hash_str fh ++ SP :: fname) ++ NUL :: (cap_encode caps ++ [NL])) as ->
    by (cbn [app]; now rewrite <- !app_assoc).
  rewrite (cut_app NUL _ _ (nonul_first fh fname Hok Hnn)), (oid_sp_str hexsz fh fname Hs).
  rewrite chomp_app, (cap_words_encode caps Hc). rewrite Ef. rewrite <- Ef. reflexivity.
Qed.

Theorem git_advrefs_enc hexsz a ps : adv_ok a = true -> adv_git_ok hexsz a = true -> adv_encode a = Some ps ->
  git_advrefs hexsz ps = Some (adv_abs a).
Proof.
  unfold adv_ok, adv_git_ok. intros H G He.
  apply andb_prop in H. destruct H as [H Hz]. apply andb_prop in H. destruct H as [H Hsh].
  apply andb_prop in H. destruct H as [H Hrefs]. apply andb_prop in H. destruct H as [Hv Hcaps].
  apply andb_prop in G. destruct G as [G Gf]. apply andb_prop in G. destruct G as [G Gs]. apply andb_prop in G. destruct G as [Gz Gw].
  apply Nat.ltb_lt in Gz. unfold adv_abs, adv_canon. cbn [ar_caps ar_refs ar_shallows].
  destruct (first_ref (ar_refs a)) as [[fname fh]|] eqn:Ef.
  - pose proof (first_ref_In _ _ Ef) as Hin. pose proof Hrefs as Hall. rewrite forallb_forall in Hall. pose proof (Hall _ Hin) as Hrf.
    unfold ref_ok in Hrf. cbn [fst snd] in Hrf. apply andb_prop in Hrf. destruct Hrf as [Hn Hh].
    assert (fname <> []) as Hfn by (unfold name_ok in Hn; destruct fname; discriminate).
    rewrite (adv_encode_some a fname fh Hv Ef Hfn) in He.
    apply (f_equal (fun o => match o with Some x => x | None => [] end)) in He. cbv beta iota in He. subst ps.
    unfold adv_wire in Gw |- *. rewrite Ef in Gw |- *. unfold wire_of at 1 in Gw. cbn [fst] in Gw.
    rewrite forallb_app in Gw. apply andb_prop in Gw. destruct Gw as [Gw1 Gw2].
    cbn [forallb] in Gw1. apply andb_prop in Gw1. destruct Gw1 as [Gf1 Gtl].
    unfold gref_ok in Gf1. cbn [fst snd] in Gf1. apply andb_prop in Gf1. destruct Gf1 as [Gf1 Gcap]. apply andb_prop in Gf1. destruct Gf1 as [Gsz _].
    apply negb_true_iff in Gcap.
    rewrite (git_advrefs_first hexsz _ fh fname (ar_caps a) _ Hv Gsz Hn Hcaps). rewrite Gcap.
    rewrite git_adv_tail; [|exact Gz| |exact Gs].
    + unfold wire_of at 2. cbn [fst tl app]. reflexivity.
    + unfold wire_of at 1. cbn [fst tl]. rewrite forallb_app, Gw2, andb_true_r.
      destruct (peeled_lookup (ar_refs a) fname None); [exact Gtl|reflexivity].
  - rewrite (adv_encode_none a Hv Ef) in He.
    apply (f_equal (fun o => match o with Some x => x | None => [] end)) in He. cbv beta iota in He. subst ps.
    apply Nat.eqb_eq in Gf. subst hexsz.
    unfold adv_wire in Gw |- *. rewrite Ef in Gw |- *. rewrite (adv_sorted_none _ Ef). cbn [flat_map ref_lines map app].
    rewrite (git_advrefs_first 40 _ zero_hash CAPSREF (ar_caps a) _ Hv eq_refl eq_refl Hcaps).
    change (beq CAPSREF CAPSREF) with true. change (hash_is_zero zero_hash) with true. cbv iota.
    pose proof (git_adv_tail 40 [] (ar_shallows a) [] Gz eq_refl Gs) as K. cbn [ref_lines map app] in K. rewrite K. reflexivity.
Qed.
