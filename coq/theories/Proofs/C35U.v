(* Proofs/C35U.v — the hexadecimal strings and fixed keywords of the packp
   messages are non-blank ASCII, so the Unicode-aware TrimSpace (Model/C35Utf8.v)
   leaves the lines of the round-trip proofs alone. *)
From Coq Require Import List Arith NArith Bool Lia.
From GoGit Require Import Base.Out Model.PktLine Model.C35Utf8 Model.Packp Proofs.C35Base Proofs.C35Utf8.
Import ListNotations.

Lemma hexdig_asciins n : (n < 16)%N -> asciins (hexdig n) = true.
Proof.
  intros H.
  assert (n = 0 \/ n = 1 \/ n = 2 \/ n = 3 \/ n = 4 \/ n = 5 \/ n = 6 \/ n = 7 \/ n = 8 \/ n = 9 \/
          n = 10 \/ n = 11 \/ n = 12 \/ n = 13 \/ n = 14 \/ n = 15)%N as C by lia.
  repeat (destruct C as [-> | C]; [reflexivity|]). subst. reflexivity.
Qed.

Lemma to_hex_asciins b : forallb byte_ok b = true -> forallb asciins (to_hex b) = true.
Proof.
  induction b as [|c b IH]; intros H; [reflexivity|].
  cbn in H. apply andb_prop in H. destruct H as [H1 H2]. apply N.ltb_lt in H1.
  destruct (nib_hi c H1) as (Ha & Hb & _).
  cbn [to_hex forallb]. now rewrite (IH H2), (hexdig_asciins _ Ha), (hexdig_asciins _ Hb).
Qed.

Lemma hash_str_asciins h : hash_ok h = true -> forallb asciins (hash_str h) = true.
Proof. intros H. apply to_hex_asciins. now destruct (hash_bytes_ok h H). Qed.

Lemma forallb_last (f : N -> bool) l : l <> [] -> forallb f l = true -> f (last l 0%N) = true.
Proof.
  intros Hne H. rewrite forallb_forall in H. apply H.
  destruct l as [|x l]; [contradiction|]. clear. revert x. induction l as [|y l IH]; intros x; [now left|].
  right. apply IH.
Qed.

Lemma last_app_ne' {A} (a b : list A) d : b <> [] -> last (a ++ b) d = last b d.
Proof.
  intros H. induction a as [|x a IH]; [reflexivity|].
  cbn [app]. assert (a ++ b <> []) as Hab by (destruct a; [assumption|discriminate]).
  destruct (a ++ b) as [|y l] eqn:E; [contradiction|].
  change (last (x :: y :: l) d) with (last (y :: l) d). exact IH.
Qed.

(* a line "<c><pre><hex>" begins and ends with a non-blank ASCII byte *)
Lemma clean_u_prefix_hex c pre hx : asciins c = true -> hx <> [] -> forallb asciins hx = true ->
  clean_u (c :: pre ++ hx) = true.
Proof.
  intros Hc Hne Hh. unfold clean_u. rewrite Hc. cbn [andb].
  change (c :: pre ++ hx) with ((c :: pre) ++ hx). rewrite (last_app_ne' _ hx _ Hne).
  now apply forallb_last.
Qed.

Lemma clean_u_hex hx : forallb asciins hx = true -> clean_u hx = true.
Proof.
  destruct hx as [|c t]; [reflexivity|]. intros H. unfold clean_u.
  rewrite (forallb_last asciins (c :: t) ltac:(discriminate) H). cbn [forallb] in H. apply andb_prop in H. now destruct H as [-> _].
Qed.
