(* Proofs/C02CommitGit.v — commits: for every stored commit that go-git decodes
   and git parses, the decoded tree is git's; and under the boolean clauses of
   Spec/ObjWf.commit_agree_of the decoded parents, author, committer and
   encoding are the ones git reports (commit.c parse_commit_buffer, pretty.c
   parse_commit_header, commit.c find_commit_header). *)
From Coq Require Import List NArith ZArith Bool Lia ZifyBool ZifyNat ZifyN String.
From GoGit Require Import Base.Out Model.ObjLines Model.Ident Model.Commit Spec.GitFields Spec.ObjWf
     Proofs.ObjLinesFacts Proofs.C02Dec Proofs.C02Ident Proofs.C03Commit Proofs.C03CommitSig Proofs.C02Lines
     Proofs.C02IdentGit Proofs.C02Message.
Import ListNotations.
Local Open Scope N_scope.

Definition enc_agrees (e g : bytes) : Prop := e = g \/ (e = utf8 /\ g = []).

(* ---------------------------------------------------------------- lists *)
Lemma skipn_len {A} n (x y : list A) : List.length x = n -> skipn n (x ++ y) = y.
Proof. intros <-. apply skipn_app_exact. Qed.
Lemma firstn_len {A} n (x y : list A) : List.length x = n -> firstn n (x ++ y) = x.
Proof. intros <-. apply firstn_app_exact. Qed.
Lemma nth_len {A} n (x : list A) c y d : List.length x = n -> nth n (x ++ c :: y) d = c.
Proof. intros <-. rewrite app_nth2 by lia. now rewrite Nat.sub_diag. Qed.

Lemma nth_split_eq {A} (d : A) : forall n l, (n < List.length l)%nat -> l = firstn n l ++ nth n l d :: skipn (S n) l.
Proof.
  induction n as [|n IH]; intros [|x l] H; cbn [List.length] in H; try lia; [reflexivity|].
  cbn [firstn nth skipn app]. f_equal. apply IH. lia.
Qed.

Lemma firstn_add {A} a b : forall l : list A, firstn (a + b) l = firstn a l ++ firstn b (skipn a l).
Proof. induction a as [|a IH]; intros [|x l]; cbn [Nat.add firstn skipn app]; try reflexivity; [now rewrite firstn_nil|]. now rewrite IH. Qed.

Lemma starts_with_firstn p : forall b, starts_with p b = true -> firstn (List.length p) b = p.
Proof. intros b H. apply starts_with_spec in H as [r ->]. apply firstn_app_exact. Qed.

(* ---------------------------------------------------------------- valid line lists *)
Lemma abl_tail l r : all_but_last_nl (l :: r) = true -> all_but_last_nl r = true /\ (r <> [] -> ends_nl l = true).
Proof.
  destruct r as [|l2 r]; [intros _; split; [reflexivity|intros H; contradiction]|].
  change (all_but_last_nl (l :: l2 :: r)) with (ends_nl l && all_but_last_nl (l2 :: r)). intros H. apply andb_true_iff in H as [H1 H2].
  split; [exact H2|intros _; exact H1].
Qed.

Lemma abl_eof l r : all_but_last_nl (l :: r) = true -> ends_nl l = false -> r = [].
Proof.
  intros H E. destruct r as [|l2 r]; [reflexivity|]. destruct (abl_tail _ _ H) as [_ H2].
  rewrite H2 in E by discriminate. discriminate.
Qed.

(* chomp and TrimRight "\n" coincide on a line *)
Lemma line_cases l : line_ok l -> exists p, no_lf p = true /\ chomp l = p /\ trim_right LF l = p /\ (l = p ++ [LF] \/ l = p).
Proof.
  intros [Hne [p [Hp [-> | ->]]]]; exists p; (split; [exact Hp|]).
  - unfold chomp. rewrite ends_nl_app_lf, removelast_last, (trim_right_app_lf _ Hp). repeat split. now left.
  - unfold chomp. rewrite (ends_nl_no_lf _ Hp), (trim_right_nolf _ Hp). repeat split. now right.
Qed.

Lemma prefix_nolf pat : no_lf pat = true -> forall p rest, starts_with pat (p ++ LF :: rest) = true -> starts_with pat p = true.
Proof.
  induction pat as [|x pat IH]; intros Hn p rest H; [reflexivity|]. rewrite no_lf_cons in Hn. apply andb_true_iff in Hn as [H1 H2].
  destruct p as [|y p]; cbn [app starts_with] in *.
  - apply andb_true_iff in H as [H _]. rewrite H in H1. discriminate.
  - apply andb_true_iff in H as [Ha Hb]. rewrite Ha. cbn [andb]. exact (IH H2 _ _ Hb).
Qed.

Lemma starts_with_more p b x : starts_with p b = true -> starts_with p (b ++ x) = true.
Proof. intros H. apply starts_with_spec in H as [r ->]. rewrite <- app_assoc. apply starts_with_app. Qed.

(* a pattern without LF at the start of the remaining bytes is at the start of the next line *)
Lemma concat_prefix pat l r : line_ok l -> all_but_last_nl (l :: r) = true -> no_lf pat = true ->
  starts_with pat (List.concat (l :: r)) = true -> starts_with pat l = true.
Proof.
  intros Hl Ha Hp H. cbn [List.concat] in H. destruct (line_cases _ Hl) as [p [Hnp [_ [_ [-> | ->]]]]].
  - rewrite <- app_assoc in H. cbn [app] in H. apply starts_with_more. exact (prefix_nolf _ Hp _ _ H).
  - rewrite (abl_eof _ _ Ha (ends_nl_no_lf _ Hnp)) in H. cbn [List.concat] in H. now rewrite app_nil_r in H.
Qed.

(* ---------------------------------------------------------------- header lines: key and value *)
Lemma cut_at_nf c b : forall k v, cut_at c b = (k, v, false) -> v = [].
Proof.
  induction b as [|x b IH]; intros k v H; cbn [cut_at] in H; [now inversion H|].
  destruct (x =? c); [discriminate|]. destruct (cut_at c b) as [[k0 v0] f0]. inversion H; subst. now apply (IH k0).
Qed.

Lemma hdr_line k l : line_ok l -> no_lf k = true -> has_byte SPC k = false -> starts_with (k ++ [SPC]) l = true ->
  exists v, chomp l = (k ++ [SPC]) ++ v /\ no_lf v = true /\ split_header l = (k, v).
Proof.
  intros Hl Hk Hs H. destruct (line_cases _ Hl) as [p [Hp [Hc [Ht Hd]]]].
  assert (Hkp : no_lf (k ++ [SPC]) = true) by (rewrite no_lf_app, Hk; reflexivity).
  assert (Hpp : starts_with (k ++ [SPC]) p = true).
  { destruct Hd as [-> | ->]; [|exact H]. exact (prefix_nolf _ Hkp _ _ H). }
  apply starts_with_spec in Hpp as [v Hv]. exists v. rewrite Hc. split; [exact Hv|].
  assert (Hnv : no_lf v = true) by (rewrite Hv, no_lf_app in Hp; now apply andb_true_iff in Hp).
  split; [exact Hnv|]. unfold split_header. rewrite Ht, Hv, <- app_assoc. cbn [app]. now rewrite (cut_at_first _ _ _ Hs).
Qed.

Lemma pre_key k l : line_ok l -> no_lf k = true -> has_byte SPC k = false -> starts_with (k ++ [SPC]) l = true ->
  key_is k l = true /\ value_of l = skipn (List.length k + 1) (chomp l) /\ no_lf (value_of l) = true.
Proof.
  intros Hl Hk Hs H. destruct (hdr_line _ _ Hl Hk Hs H) as [v [Hc [Hv Hsp]]].
  unfold key_is, value_of. rewrite Hsp, Hc. cbn [fst snd]. split; [apply beqb_refl|]. split; [|exact Hv].
  symmetry. apply skipn_len. rewrite app_length. reflexivity.
Qed.

Lemma key_split k l : line_ok l -> key_is k l = true ->
  (value_of l = [] /\ trim_right LF l = k) \/ starts_with (k ++ [SPC]) l = true.
Proof.
  intros Hl. destruct (line_cases _ Hl) as [p [Hp [Hc [Ht Hd]]]].
  unfold key_is, value_of, split_header. rewrite Ht. destruct (cut_at SPC p) as [[k0 v0] f] eqn:Ec. cbn [fst snd].
  intros Hk. apply beqb_eq in Hk. subst k0. destruct (cut_at_spec _ _ _ _ _ Ec) as [Hpk _]. destruct f.
  - right. apply starts_with_spec. destruct Hd as [-> | ->]; rewrite Hpk.
    + exists (v0 ++ [LF]). now rewrite <- !app_assoc.
    + exists v0. now rewrite <- !app_assoc.
  - left. rewrite (cut_at_nf _ _ _ _ Ec). split; [reflexivity|]. now rewrite Hpk, app_nil_r.
Qed.

Lemma key_val k l : line_ok l -> no_lf k = true -> has_byte SPC k = false -> key_is k l = true -> value_of l <> [] ->
  starts_with (k ++ [SPC]) l = true /\ value_of l = skipn (List.length k + 1) (chomp l) /\ no_lf (value_of l) = true.
Proof.
  intros Hl Hk Hs Hkey Hv. destruct (key_split _ _ Hl Hkey) as [[H _]|H]; [contradiction|].
  split; [exact H|]. now destruct (pre_key _ _ Hl Hk Hs H) as [_ P].
Qed.

Lemma key_excl k1 k2 l : line_ok l -> no_lf k2 = true -> has_byte SPC k2 = false ->
  key_is k1 l = true -> k1 <> k2 -> starts_with (k2 ++ [SPC]) l = false.
Proof.
  intros Hl Hk Hs H1 Hne. destruct (starts_with (k2 ++ [SPC]) l) eqn:E; [|reflexivity].
  destruct (pre_key _ _ Hl Hk Hs E) as [H2 _]. unfold key_is in *. apply beqb_eq in H1, H2. congruence.
Qed.

Lemma nokey_nopre k l : line_ok l -> no_lf k = true -> has_byte SPC k = false ->
  key_is k l = false -> starts_with (k ++ [SPC]) l = false.
Proof.
  intros Hl Hk Hs H. destruct (starts_with (k ++ [SPC]) l) eqn:E; [|reflexivity].
  destruct (pre_key _ _ Hl Hk Hs E) as [H2 _]. congruence.
Qed.

Lemma key_nonblank k l : key_is k l = true -> k <> [] -> is_blank l = false.
Proof.
  intros H Hk. destruct (is_blank l) eqn:Hb; [|reflexivity]. destruct l as [|x [|y l']]; try discriminate.
  cbn in Hb. apply N.eqb_eq in Hb. subst x. unfold key_is in H. change (split_header [LF]) with (@nil N, @nil N) in H.
  cbn [fst] in H. destruct k; [contradiction|discriminate].
Qed.

(* ---------------------------------------------------------------- hex ids *)
Lemma hexv_lower x v : hexv x = Some v ->
  v < 16 /\ hexdig v = (if (65 <=? x) && (x <=? 70) then x + 32 else x).
Proof.
  unfold hexv, hexdig. destruct ((48 <=? x) && (x <=? 57)) eqn:E1.
  - intros H. injection H as <-. split; [lia|]. replace (x - 48 <? 10) with true by lia.
    replace ((65 <=? x) && (x <=? 70)) with false by lia. lia.
  - destruct ((97 <=? x) && (x <=? 102)) eqn:E2.
    + intros H. injection H as <-. split; [lia|]. replace (x - 87 <? 10) with false by lia.
      replace ((65 <=? x) && (x <=? 70)) with false by lia. lia.
    + destruct ((65 <=? x) && (x <=? 70)) eqn:E3; [|discriminate].
      intros H. injection H as <-. split; [lia|]. replace (x - 55 <? 10) with false by lia. lia.
Qed.

Lemma hex_decode_lower : forall h d, hex_decode d = Some h -> hex_encode h = lower_hex d /\ all_hex d = true.
Proof.
  induction h as [|b t IH]; intros d H.
  - destruct d as [|x [|y r]]; [now split|discriminate|]. cbn [hex_decode] in H.
    destruct (hexv x), (hexv y), (hex_decode r); discriminate.
  - destruct d as [|x [|y r]]; [discriminate|discriminate|]. cbn [hex_decode] in H.
    destruct (hexv x) as [hi|] eqn:Ex; [|discriminate]. destruct (hexv y) as [lo|] eqn:Ey; [|discriminate].
    destruct (hex_decode r) as [t'|] eqn:Er; [|discriminate].
    assert (Hb : 16 * hi + lo = b) by (now injection H). assert (Ht : t' = t) by (now injection H). subst t'. clear H.
    destruct (IH _ Er) as [I1 I2]. destruct (hexv_lower _ _ Ex) as [Bx Lx]. destruct (hexv_lower _ _ Ey) as [By Ly].
    split.
    + change (hex_encode (b :: t)) with (hexdig (b / 16) :: hexdig (b mod 16) :: hex_encode t).
      assert (Q : b / 16 = hi) by (symmetry; apply (N.div_unique b 16 hi lo); lia).
      assert (R : b mod 16 = lo) by (symmetry; apply (N.mod_unique b 16 hi lo); lia).
      rewrite Q, R, Lx, Ly, I1. reflexivity.
    + unfold all_hex in *. cbn [forallb]. now rewrite Ex, Ey, I2.
Qed.

Lemma all_hex_no_lf d : all_hex d = true -> no_lf d = true.
Proof.
  unfold all_hex. induction d as [|x d IH]; [reflexivity|]. cbn [forallb]. intros H. apply andb_true_iff in H as [H1 H2].
  rewrite no_lf_cons, (IH H2), andb_true_r. destruct (x =? LF) eqn:E; [|reflexivity].
  apply N.eqb_eq in E. subst x. discriminate H1.
Qed.

(* ---------------------------------------------------------------- the scanner: what a state may still change *)
Definition rank (st : cstate) : nat :=
  match st with SParents => 0 | SAuthor => 1 | SCommitter => 2 | _ => 3 end.

Lemma on_headers_keep c se l c' se' st' : on_headers c se l = (c', se', st') ->
  c_tree c' = c_tree c /\ c_parents c' = c_parents c /\ c_author c' = c_author c /\ c_committer c' = c_committer c /\
  rank st' = 3%nat.
Proof.
  unfold on_headers. destruct (is_blank l); [intros H; inversion H; subst; repeat split|].
  destruct (split_header l) as [key data].
  destruct (beqb key k_tree || beqb key k_parent || beqb key k_author || beqb key k_committer);
    [intros H; inversion H; subst; repeat split|].
  destruct (beqb key k_encoding); [intros H; inversion H; subst; destruct se; repeat split|].
  destruct (beqb key k_gpgsig); [intros H; inversion H; subst; repeat split|].
  destruct (beqb key k_gpgsig256); [intros H; inversion H; subst; repeat split|].
  destruct (parse_extra_header l) as [[k v] m]. destruct m; intros H; inversion H; subst; repeat split.
Qed.

Lemma on_committer_keep c se l c' se' st' : on_committer c se l = (c', se', st') ->
  c_tree c' = c_tree c /\ c_parents c' = c_parents c /\ c_author c' = c_author c /\ rank st' = 3%nat.
Proof.
  unfold on_committer. destruct (is_blank l); [intros H; inversion H; subst; repeat split|].
  destruct (split_header l) as [key data].
  destruct (beqb key k_committer); [intros H; inversion H; subst; repeat split|].
  intros H. destruct (on_headers_keep _ _ _ _ _ _ H) as (A & B & C & _ & E). repeat split; assumption.
Qed.

Lemma on_author_keep c se l c' se' st' : on_author c se l = (c', se', st') ->
  c_tree c' = c_tree c /\ c_parents c' = c_parents c /\ (2 <= rank st')%nat.
Proof.
  unfold on_author. destruct (is_blank l); [intros H; inversion H; subst; repeat split; cbn; lia|].
  destruct (split_header l) as [key data].
  destruct (beqb key k_author); [intros H; inversion H; subst; repeat split; cbn; lia|].
  intros H. destruct (on_committer_keep _ _ _ _ _ _ H) as (A & B & _ & E). repeat split; try assumption. lia.
Qed.

Definition keeps (st : cstate) (c c' : commit) : Prop :=
  c_tree c' = c_tree c /\ ((1 <= rank st)%nat -> c_parents c' = c_parents c) /\
  ((2 <= rank st)%nat -> c_author c' = c_author c) /\ ((3 <= rank st)%nat -> c_committer c' = c_committer c).

Lemma cstep_keep st c se eof l c' se' st' : cstep st c se eof l = Ok (c', se', st') ->
  keeps st c c' /\ (rank st <= rank st')%nat.
Proof.
  unfold keeps. destruct st; cbn [cstep rank].
  - destruct (is_blank l); [intros H; inversion H; subst; cbn [rank]; repeat split; intros; lia|].
    destruct (split_header l) as [key data]. destruct (beqb key k_parent).
    + destruct (parse_oid data); intros H; inversion H; subst. cbn [rank]. repeat split; intros; lia.
    + intros H. inversion H as [H']. destruct (on_author_keep _ _ _ _ _ _ H') as (A & B & E). repeat split; intros; try assumption; lia.
  - intros H. inversion H as [H']. destruct (on_author_keep _ _ _ _ _ _ H') as (A & B & E). repeat split; intros; try assumption; lia.
  - intros H. inversion H as [H']. destruct (on_committer_keep _ _ _ _ _ _ H') as (A & B & C & E). repeat split; intros; try assumption; lia.
  - intros H. inversion H as [H']. destruct (on_headers_keep _ _ _ _ _ _ H') as (A & B & C & D & E). repeat split; intros; try assumption; lia.
  - destruct (first_is SPC l); intros H; inversion H as [H']; [subst; cbn [rank]; repeat split; intros; lia|].
    destruct (on_headers_keep _ _ _ _ _ _ H') as (A & B & C & D & E). repeat split; intros; try assumption; lia.
  - destruct (first_is SPC l); intros H; inversion H as [H']; [subst; cbn [rank]; repeat split; intros; lia|].
    destruct (on_headers_keep _ _ _ _ _ _ H') as (A & B & C & D & E). repeat split; intros; try assumption; lia.
  - destruct (first_is SPC l).
    + destruct eof; intros H; inversion H; subst; cbn [rank]; repeat split; intros; lia.
    + intros H. inversion H as [H']. destruct (on_headers_keep _ _ _ _ _ _ H') as (A & B & C & D & E).
      repeat split; intros; try assumption; lia.
  - intros H. inversion H; subst. cbn [rank]. repeat split; intros; lia.
Qed.

Lemma crun_cons st c0 se l r : crun st c0 se (l :: r) =
  match cstep st c0 se (negb (ends_nl l)) l with
  | Err e => Err e
  | Ok (c', se', st') => if negb (ends_nl l) then Ok c' else crun st' c' se' r
  end.
Proof. reflexivity. Qed.

Lemma crun_keep : forall ls st c0 se c, crun st c0 se ls = Ok c -> keeps st c0 c.
Proof.
  induction ls as [|l r IH]; intros st c0 se c H.
  - cbn [crun] in H. inversion H. unfold keeps. destruct st; cbn [cfinish]; repeat split.
  - rewrite crun_cons in H. destruct (cstep st c0 se (negb (ends_nl l)) l) as [[[c1 se1] st1]|e] eqn:Es; [|discriminate].
    destruct (cstep_keep _ _ _ _ _ _ _ _ Es) as [(A & B & C & D) Hr].
    destruct (negb (ends_nl l)).
    + inversion H; subst. unfold keeps. repeat split; assumption.
    + destruct (IH _ _ _ _ H) as (A' & B' & C' & D'). unfold keeps.
      split; [now rewrite A'|]. split; [intros; rewrite B', B; [reflexivity|assumption|lia]|].
      split; [intros; rewrite C', C; [reflexivity|assumption|lia]|]. intros; rewrite D', D; [reflexivity|assumption|lia].
Qed.

(* ---------------------------------------------------------------- lines that are not for the current state *)
Lemma parents_step_other c se eof l : key_is k_parent l = false -> cstep SParents c se eof l = cstep SAuthor c se eof l.
Proof.
  intros H. cbn [cstep]. destruct (is_blank l) eqn:Hb; [unfold on_author; now rewrite Hb|].
  unfold key_is in H. destruct (split_header l) as [key data]. cbn [fst] in H. now rewrite H.
Qed.

Lemma author_step_other c se eof l : key_is k_author l = false -> cstep SAuthor c se eof l = cstep SCommitter c se eof l.
Proof.
  intros H. cbn [cstep]. f_equal. unfold on_author. destruct (is_blank l) eqn:Hb; [unfold on_committer; now rewrite Hb|].
  unfold key_is in H. destruct (split_header l) as [key data]. cbn [fst] in H. now rewrite H.
Qed.

Lemma committer_step_other c se eof l : key_is k_committer l = false -> cstep SCommitter c se eof l = cstep SHeaders c se eof l.
Proof.
  intros H. cbn [cstep]. f_equal. unfold on_committer. destruct (is_blank l) eqn:Hb; [unfold on_headers; now rewrite Hb|].
  unfold key_is in H. destruct (split_header l) as [key data]. cbn [fst] in H. now rewrite H.
Qed.

Lemma parent_key_step c se eof l c' se' st' : key_is k_parent l = true ->
  cstep SParents c se eof l = Ok (c', se', st') ->
  exists hh, parse_oid (value_of l) = Some hh /\ c' = set_parents c (c_parents c ++ [hh]) /\ se' = se /\ st' = SParents.
Proof.
  intros Hk. assert (Hb : is_blank l = false) by (apply (key_nonblank _ _ Hk); discriminate).
  cbn [cstep]. rewrite Hb. unfold key_is, value_of in *. destruct (split_header l) as [key data]. cbn [fst snd] in *. rewrite Hk.
  destruct (parse_oid data) as [hh|]; [|discriminate]. intros H. inversion H; subst. now exists hh.
Qed.

Lemma author_key_step c se eof l : key_is k_author l = true ->
  cstep SAuthor c se eof l = Ok (set_author c (decode_ident (value_of l)), se, SCommitter).
Proof.
  intros Hk. assert (Hb : is_blank l = false) by (apply (key_nonblank _ _ Hk); discriminate).
  cbn [cstep]. unfold on_author. rewrite Hb. unfold key_is, value_of in *. destruct (split_header l) as [key data].
  cbn [fst snd] in *. now rewrite Hk.
Qed.

Lemma committer_key_step c se eof l : key_is k_committer l = true ->
  cstep SCommitter c se eof l = Ok (set_committer c (decode_ident (value_of l)), se, SHeaders).
Proof.
  intros Hk. assert (Hb : is_blank l = false) by (apply (key_nonblank _ _ Hk); discriminate).
  cbn [cstep]. unfold on_committer. rewrite Hb. unfold key_is, value_of in *. destruct (split_header l) as [key data].
  cbn [fst snd] in *. now rewrite Hk.
Qed.

(* a step that does not come with EOF is followed by the rest; with EOF nothing is left *)
Lemma crun_after st c0 se l r c1 se1 st1 c :
  all_but_last_nl (l :: r) = true -> (match st1 with SExtra _ _ => False | _ => True end) ->
  cstep st c0 se (negb (ends_nl l)) l = Ok (c1, se1, st1) -> crun st c0 se (l :: r) = Ok c -> crun st1 c1 se1 r = Ok c.
Proof.
  intros Ha Hst Hs H. rewrite crun_cons, Hs in H. destruct (ends_nl l) eqn:E; cbn [negb] in H; [exact H|].
  rewrite (abl_eof _ _ Ha E). inversion H; subst. destruct st1; try reflexivity. contradiction.
Qed.

(* ---------------------------------------------------------------- encoding: the first "encoding" header wins *)
Fixpoint first_enc (ls : list bytes) : option bytes :=
  match ls with
  | [] => None
  | l :: r => if first_is LF l then None else if key_is k_encoding l then Some (value_of l) else first_enc r
  end.

Definition enc_step (c : commit) (se : bool) (l : bytes) (c' : commit) (se' : bool) : Prop :=
  if key_is k_encoding l then se' = true /\ c_enc c' = (if se then c_enc c else value_of l)
  else se' = se /\ c_enc c' = c_enc c.

Lemma on_headers_enc c se l c' se' st' : is_blank l = false -> on_headers c se l = (c', se', st') ->
  st' <> SMessage /\ enc_step c se l c' se'.
Proof.
  intros Hb. unfold on_headers, enc_step, key_is, value_of. rewrite Hb. destruct (split_header l) as [key data]. cbn [fst snd].
  destruct (beqb key k_encoding) eqn:Ee.
  - apply beqb_eq in Ee. subst key.
    replace (beqb k_encoding k_tree || beqb k_encoding k_parent || beqb k_encoding k_author || beqb k_encoding k_committer)
      with false by reflexivity.
    intros H. inversion H; subst. split; [discriminate|]. destruct se; split; reflexivity.
  - destruct (beqb key k_tree || beqb key k_parent || beqb key k_author || beqb key k_committer);
      [intros H; inversion H; subst; split; [discriminate|split; reflexivity]|].
    destruct (beqb key k_gpgsig); [intros H; inversion H; subst; split; [discriminate|split; reflexivity]|].
    destruct (beqb key k_gpgsig256); [intros H; inversion H; subst; split; [discriminate|split; reflexivity]|].
    destruct (parse_extra_header l) as [[k v] m]. destruct m; intros H; inversion H; subst; (split; [discriminate|split; reflexivity]).
Qed.

Lemma on_committer_enc c se l c' se' st' : is_blank l = false -> on_committer c se l = (c', se', st') ->
  st' <> SMessage /\ enc_step c se l c' se'.
Proof.
  intros Hb. unfold on_committer. rewrite Hb. destruct (split_header l) as [key data] eqn:Es.
  destruct (beqb key k_committer) eqn:Ek; [|apply (on_headers_enc _ _ _ _ _ _ Hb)].
  apply beqb_eq in Ek. subst key. intros H. inversion H; subst. split; [discriminate|].
  unfold enc_step, key_is. rewrite Es. cbn [fst]. replace (beqb k_committer k_encoding) with false by reflexivity. now split.
Qed.

Lemma on_author_enc c se l c' se' st' : is_blank l = false -> on_author c se l = (c', se', st') ->
  st' <> SMessage /\ enc_step c se l c' se'.
Proof.
  intros Hb. unfold on_author. rewrite Hb. destruct (split_header l) as [key data] eqn:Es.
  destruct (beqb key k_author) eqn:Ek; [|apply (on_committer_enc _ _ _ _ _ _ Hb)].
  apply beqb_eq in Ek. subst key. intros H. inversion H; subst. split; [discriminate|].
  unfold enc_step, key_is. rewrite Es. cbn [fst]. replace (beqb k_author k_encoding) with false by reflexivity. now split.
Qed.

Lemma sp_not_enc l : first_is SPC l = true -> key_is k_encoding l = false.
Proof. intros H. unfold key_is. now rewrite (key_of_sp _ H). Qed.

Lemma cstep_enc st c se eof l c' se' st' : st <> SMessage -> is_blank l = false ->
  cstep st c se eof l = Ok (c', se', st') -> st' <> SMessage /\ enc_step c se l c' se'.
Proof.
  intros Hst Hb. destruct st; cbn [cstep]; try contradiction.
  - rewrite Hb. destruct (split_header l) as [key data] eqn:Es. destruct (beqb key k_parent) eqn:Ek.
    + apply beqb_eq in Ek. subst key. destruct (parse_oid data); [|discriminate]. intros H. inversion H; subst.
      split; [discriminate|]. unfold enc_step, key_is. rewrite Es. cbn [fst].
      replace (beqb k_parent k_encoding) with false by reflexivity. now split.
    + intros H. inversion H as [H']. exact (on_author_enc _ _ _ _ _ _ Hb H').
  - intros H. inversion H as [H']. exact (on_author_enc _ _ _ _ _ _ Hb H').
  - intros H. inversion H as [H']. exact (on_committer_enc _ _ _ _ _ _ Hb H').
  - intros H. inversion H as [H']. exact (on_headers_enc _ _ _ _ _ _ Hb H').
  - destruct (first_is SPC l) eqn:Esp; intros H; inversion H as [H'].
    + subst. split; [discriminate|]. unfold enc_step. rewrite (sp_not_enc _ Esp). now split.
    + exact (on_headers_enc _ _ _ _ _ _ Hb H').
  - destruct (first_is SPC l) eqn:Esp; intros H; inversion H as [H'].
    + subst. split; [discriminate|]. unfold enc_step. rewrite (sp_not_enc _ Esp). now split.
    + exact (on_headers_enc _ _ _ _ _ _ Hb H').
  - destruct (first_is SPC l) eqn:Esp.
    + destruct eof; intros H; inversion H; subst; (split; [discriminate|]); unfold enc_step; rewrite (sp_not_enc _ Esp); now split.
    + intros H. inversion H as [H']. exact (on_headers_enc (finalise_extra c k v) _ _ _ _ _ Hb H').
Qed.

Lemma cstep_blank_enc st c se eof l c' se' st' : st <> SMessage -> is_blank l = true ->
  cstep st c se eof l = Ok (c', se', st') -> st' = SMessage /\ c_enc c' = c_enc c.
Proof.
  intros Hst Hb.
  assert (Hsp : first_is SPC l = false).
  { destruct l as [|x [|y l]]; try discriminate. cbn in Hb. apply N.eqb_eq in Hb. now subst. }
  destruct st; cbn [cstep]; try rewrite Hsp; try rewrite Hb;
    unfold on_author, on_committer, on_headers; try rewrite Hb;
    try (intros H; inversion H; subst; split; reflexivity).
Qed.

Lemma crun_message_enc ls : forall c0 se c, crun SMessage c0 se ls = Ok c -> c_enc c = c_enc c0.
Proof.
  induction ls as [|l r IH]; intros c0 se c; cbn [crun cfinish].
  - intros H; now inversion H.
  - cbn [cstep]. destruct (negb (ends_nl l)).
    + intros H; now inversion H.
    + intros H. now rewrite (IH _ _ _ H).
Qed.

Lemma crun_enc : forall ls st c0 se c,
  st <> SMessage -> Forall line_ok ls -> all_but_last_nl ls = true -> crun st c0 se ls = Ok c ->
  c_enc c = if se then c_enc c0 else match first_enc ls with Some v => v | None => c_enc c0 end.
Proof.
  induction ls as [|l r IH]; intros st c0 se c Hst Hok Ha H.
  - cbn [crun] in H. inversion H. cbn [first_enc]. destruct st, se; reflexivity.
  - inversion Hok as [|x0 y0 Hl Hr]. subst x0 y0. destruct (abl_tail _ _ Ha) as [Har _].
    rewrite crun_cons in H. destruct (cstep st c0 se (negb (ends_nl l)) l) as [[[c1 se1] st1]|e] eqn:Es; [|discriminate].
    cbn [first_enc]. rewrite (first_is_lf_blank _ Hl). destruct (is_blank l) eqn:Hb.
    + destruct (cstep_blank_enc _ _ _ _ _ _ _ _ Hst Hb Es) as [-> E1].
      assert (E : c_enc c = c_enc c1).
      { destruct (negb (ends_nl l)); [now inversion H|exact (crun_message_enc _ _ _ _ H)]. }
      rewrite E, E1. now destruct se.
    + destruct (cstep_enc _ _ _ _ _ _ _ _ Hst Hb Es) as [Hst1 P]. unfold enc_step in P.
      destruct (ends_nl l) eqn:Een; cbn [negb] in H.
      * rewrite (IH _ _ _ _ Hst1 Hr Har H). destruct (key_is k_encoding l).
        -- destruct P as [-> ->]. reflexivity.
        -- destruct P as [-> ->]. reflexivity.
      * rewrite (abl_eof _ _ Ha Een). cbn [first_enc]. inversion H; subst c1.
        destruct (key_is k_encoding l); destruct P as [_ ->]; now destruct se.
Qed.

(* git's find_commit_header sees the same line, unless a bare "encoding" line exists *)
Lemma find_enc ls : Forall line_ok ls ->
  existsb (fun l => beqb (trim_right LF l) k_encoding) (header_of ls) = false ->
  git_find_header k_encoding ls = first_enc ls.
Proof.
  induction ls as [|l r IH]; intros Hok Hg; [reflexivity|]. inversion Hok as [|x0 y0 Hl Hr]. subst x0 y0.
  cbn [git_find_header first_enc header_of] in *. destruct (first_is LF l); [reflexivity|].
  cbn [existsb] in Hg. apply orb_false_iff in Hg as [G1 G2].
  destruct (starts_with (k_encoding ++ [SPC]) l) eqn:E9.
  - destruct (pre_key k_encoding l Hl eq_refl eq_refl E9) as [K [V _]]. now rewrite K, V.
  - destruct (key_is k_encoding l) eqn:K; [|exact (IH Hr G2)].
    destruct (key_split _ _ Hl K) as [[_ T]|T]; [|congruence].
    rewrite T in G1. discriminate G1.
Qed.

(* ---------------------------------------------------------------- parents *)
Lemma git_parents_stop fuel b : starts_with (str "parent "%string) b = false -> git_parents fuel b = Some [].
Proof. intros H. destruct fuel; [reflexivity|]. cbn [git_parents]. now rewrite H, andb_false_r. Qed.

Lemma git_parents_step f v R : List.length v = 40%nat -> all_hex v = true -> R <> [] ->
  git_parents (S f) (str "parent "%string ++ v ++ LF :: R) =
  match git_parents f R with Some ps => Some (lower_hex v :: ps) | None => None end.
Proof.
  intros Hv Hh HR. set (P := str "parent "%string). set (b := P ++ v ++ LF :: R).
  assert (HP : List.length P = 7%nat) by reflexivity.
  assert (Hlen : List.length b = (48 + List.length R)%nat).
  { unfold b. rewrite !app_length. cbn [List.length]. rewrite HP, Hv. lia. }
  assert (HRl : (0 < List.length R)%nat) by (destruct R; [contradiction|cbn [List.length]; lia]).
  cbn [git_parents]. fold P.
  replace (Nat.ltb 47 (List.length b)) with true by (symmetry; apply Nat.ltb_lt; lia).
  replace (starts_with P b) with true by (symmetry; apply starts_with_app).
  replace (Nat.leb (List.length b) 48) with false by (symmetry; apply Nat.leb_gt; lia).
  cbn [andb].
  replace (skipn 7 b) with (v ++ LF :: R) by (symmetry; apply skipn_len; exact HP).
  rewrite (firstn_len 40 v (LF :: R) Hv), Hh.
  replace (nth 47 b 0) with LF.
  2:{ unfold b. rewrite app_assoc. symmetry. apply nth_len. rewrite app_length, HP, Hv. reflexivity. }
  replace (LF =? LF) with true by reflexivity. cbn [andb].
  replace (skipn 48 b) with R; [reflexivity|].
  unfold b. replace (P ++ v ++ LF :: R) with ((P ++ v ++ [LF]) ++ R) by (now rewrite <- !app_assoc).
  symmetry. apply skipn_len. rewrite !app_length, HP, Hv. reflexivity.
Qed.

Lemma concat_nonnil (ls : list bytes) : Forall line_ok ls -> ls <> [] -> List.concat ls <> [].
Proof.
  intros Hok Hne. destruct ls as [|l r]; [contradiction|]. inversion Hok as [|x0 y0 [Hl _] _]. subst.
  cbn [List.concat]. destruct l; [contradiction|discriminate].
Qed.

(* a line go-git reads as a parent, of git's shape *)
Lemma parent_line_form l hh : line_ok l -> key_is k_parent l = true -> parse_oid (value_of l) = Some hh ->
  List.length l = 48%nat -> ends_nl l = true ->
  exists v, l = str "parent "%string ++ v ++ [LF] /\ List.length v = 40%nat /\ hex_decode v = Some hh.
Proof.
  intros Hl Hk Hp Hlen Hen.
  assert (Hv : value_of l <> []) by (intros E; rewrite E in Hp; discriminate Hp).
  destruct (key_val k_parent l Hl eq_refl eq_refl Hk Hv) as [Hsw _].
  destruct (hdr_line k_parent l Hl eq_refl eq_refl Hsw) as [v [Hc [Hnv Hsp]]].
  destruct (line_lf_form _ Hl Hen) as [p [Hp' ->]].
  unfold chomp in Hc. rewrite ends_nl_app_lf, removelast_last in Hc. subst p.
  unfold value_of in Hp. rewrite Hsp in Hp. cbn [snd] in Hp.
  change (k_parent ++ [SPC]) with (str "parent "%string) in *.
  assert (Hvl : List.length v = 40%nat).
  { rewrite !app_length in Hlen. change (List.length (str "parent "%string)) with 7%nat in Hlen. cbn [List.length] in Hlen. lia. }
  exists v. split; [now rewrite <- app_assoc|]. split; [exact Hvl|].
  unfold parse_oid in Hp. rewrite Hvl in Hp. exact Hp.
Qed.

Lemma crun_parents_git : forall ls c0 se c fuel ps,
  Forall line_ok ls -> all_but_last_nl ls = true ->
  crun SParents c0 se ls = Ok c ->
  pblock_ok (header_of ls) (List.length (List.concat ls)) = true ->
  (List.length (List.concat ls) <= fuel)%nat ->
  git_parents fuel (List.concat ls) = Some ps ->
  map hex_encode (c_parents c) = map hex_encode (c_parents c0) ++ ps.
Proof.
  induction ls as [|l r IH]; intros c0 se c fuel ps Hok Ha Hrun Hpb Hfuel Hg.
  - cbn [crun cfinish] in Hrun. inversion Hrun; subst c. cbn [List.concat] in Hg.
    rewrite git_parents_stop in Hg by reflexivity. inversion Hg. now rewrite app_nil_r.
  - inversion Hok as [|x0 y0 Hl Hr]. subst x0 y0. destruct (abl_tail _ _ Ha) as [Har Hen].
    destruct (key_is k_parent l) eqn:Hk.
    + (* a parent line *)
      assert (Hb : is_blank l = false) by (apply (key_nonblank _ _ Hk); discriminate).
      cbn [header_of] in Hpb. rewrite (first_is_lf_blank _ Hl), Hb in Hpb. cbn [pblock_ok] in Hpb. rewrite Hk in Hpb.
      apply andb_true_iff in Hpb as [Hpb Hrest]. apply andb_true_iff in Hpb as [Hpb Hrem].
      apply andb_true_iff in Hpb as [Hlen Hsw]. apply Nat.eqb_eq in Hlen. apply Nat.ltb_lt in Hrem.
      cbn [List.concat] in Hrem, Hrest, Hfuel, Hg. rewrite app_length in Hrem, Hrest, Hfuel.
      assert (HR : List.concat r <> []) by (intros E; rewrite E in Hrem; cbn [List.length] in Hrem; lia).
      assert (Hrne : r <> []) by (intros E; apply HR; now rewrite E).
      specialize (Hen Hrne).
      rewrite crun_cons, Hen in Hrun. cbn [negb] in Hrun.
      destruct (cstep SParents c0 se false l) as [[[c1 se1] st1]|e] eqn:Es; [|discriminate].
      destruct (parent_key_step _ _ _ _ _ _ _ Hk Es) as [hh [Hp [-> [-> ->]]]].
      destruct (parent_line_form _ _ Hl Hk Hp Hlen Hen) as [v [El [Hvl Hhd]]].
      destruct (hex_decode_lower _ _ Hhd) as [Hhe Hah].
      destruct fuel as [|f]; [lia|].
      rewrite El in Hg. rewrite <- !app_assoc in Hg. cbn [app] in Hg.
      rewrite (git_parents_step f v _ Hvl Hah HR) in Hg.
      destruct (git_parents f (List.concat r)) as [ps'|] eqn:Eg; [|discriminate]. inversion Hg; subst ps.
      replace (List.length l + List.length (List.concat r) - List.length l)%nat with (List.length (List.concat r)) in Hrest by lia.
      assert (Hf : (List.length (List.concat r) <= f)%nat) by lia.
      rewrite (IH _ _ _ _ _ Hr Har Hrun Hrest Hf Eg). cbn [set_parents c_parents].
      rewrite map_app. cbn [map]. rewrite Hhe, <- app_assoc. reflexivity.
    + (* the block is over for go-git: it is over for git *)
      rewrite crun_cons, (parents_step_other _ _ _ _ Hk), <- crun_cons in Hrun.
      destruct (crun_keep _ _ _ _ _ Hrun) as (_ & Kp & _). rewrite Kp by (cbn; lia).
      rewrite git_parents_stop in Hg.
      * inversion Hg. now rewrite app_nil_r.
      * destruct (starts_with (str "parent "%string) (List.concat (l :: r))) eqn:E; [|reflexivity].
        pose proof (concat_prefix (str "parent "%string) _ _ Hl Ha eq_refl E) as E'.
        destruct (pre_key k_parent l Hl eq_refl eq_refl E') as [K _]. congruence.
Qed.

Definition stray (l : bytes) : bool := starts_with (str "author "%string) l || starts_with (str "committer "%string) l.

Lemma scan_none ls : forall a c, existsb stray (header_of ls) = false -> fst (git_scan_header ls a c) = (a, c).
Proof.
  induction ls as [|l r IH]; intros a c H; [reflexivity|]. cbn [git_scan_header header_of] in *.
  destruct (first_is LF l); [reflexivity|]. cbn [existsb] in H. apply orb_false_iff in H as [H1 H2].
  unfold stray in H1. apply orb_false_iff in H1 as [Ha Hc]. rewrite Ha, Hc. now apply IH.
Qed.

(* the lines go-git consumes as parents are the leading "parent " lines *)
Lemma parents_block : forall ls c0 se c, Forall line_ok ls -> all_but_last_nl ls = true -> crun SParents c0 se ls = Ok c ->
  exists rs c1, Forall line_ok rs /\ all_but_last_nl rs = true /\ crun SAuthor c1 se rs = Ok c /\
    c_author c1 = c_author c0 /\ c_committer c1 = c_committer c0 /\
    drop_parents (header_of ls) = header_of rs /\
    (forall a cm, git_scan_header ls a cm = git_scan_header rs a cm).
Proof.
  induction ls as [|l r IH]; intros c0 se c Hok Ha Hrun.
  - exists [], c0. repeat split; try assumption.
  - inversion Hok as [|x0 y0 Hl Hr]. subst x0 y0. destruct (abl_tail _ _ Ha) as [Har Hen].
    destruct (key_is k_parent l) eqn:Hk.
    + assert (Hb : is_blank l = false) by (apply (key_nonblank _ _ Hk); discriminate).
      destruct (cstep SParents c0 se (negb (ends_nl l)) l) as [[[c1 se1] st1]|e] eqn:Es; [|rewrite crun_cons, Es in Hrun; discriminate].
      destruct (parent_key_step _ _ _ _ _ _ _ Hk Es) as [hh [Hp [E1 [E2 E3]]]]. subst se1 st1.
      pose proof (crun_after SParents c0 se l r c1 se SParents c Ha I Es Hrun) as Hrun'.
      destruct (IH _ _ _ Hr Har Hrun') as [rs [c2 (R1 & R2 & R3 & R4 & R5 & R6 & R7)]].
      assert (Hv : value_of l <> []) by (intros E; rewrite E in Hp; discriminate Hp).
      destruct (key_val k_parent l Hl eq_refl eq_refl Hk Hv) as [Hsw _].
      change (k_parent ++ [SPC]) with (str "parent "%string) in Hsw.
      exists rs, c2. repeat split; try assumption.
      * rewrite R4, E1. reflexivity.
      * rewrite R5, E1. reflexivity.
      * cbn [header_of]. rewrite (first_is_lf_blank _ Hl), Hb. cbn [drop_parents]. now rewrite Hsw.
      * intros a cm. cbn [git_scan_header]. rewrite (first_is_lf_blank _ Hl), Hb.
        rewrite (key_excl k_parent k_author l Hl eq_refl eq_refl Hk ltac:(discriminate) : starts_with (str "author "%string) l = false).
        rewrite (key_excl k_parent k_committer l Hl eq_refl eq_refl Hk ltac:(discriminate) : starts_with (str "committer "%string) l = false).
        apply R7.
    + exists (l :: r), c0. repeat split; try assumption.
      * now rewrite crun_cons, (parents_step_other _ _ _ _ Hk), <- crun_cons in Hrun.
      * cbn [header_of]. destruct (first_is LF l); [reflexivity|]. cbn [drop_parents].
        now rewrite (nokey_nopre k_parent l Hl eq_refl eq_refl Hk : starts_with (str "parent "%string) l = false).
Qed.

(* ---------------------------------------------------------------- author / committer *)
Definition pick (k : bytes) (rest : list bytes) : option bytes * list bytes :=
  match rest with
  | l :: r => if key_is k l then (Some l, r) else (None, rest)
  | [] => (None, [])
  end.

(* what go-git decoded from an optional header line, and what git's scan kept *)
Definition person_rel (o : option bytes) (go : ident) (go0 : ident) (gv : option bytes) : Prop :=
  match o with
  | Some l => go = decode_ident (value_of l) /\
              (value_of l <> [] -> gv = Some (value_of l) /\ no_lf (value_of l) = true)
  | None => go = go0 /\ gv = None
  end.

Lemma committer_stage rs c2 se c ga : Forall line_ok rs -> all_but_last_nl rs = true ->
  crun SCommitter c2 se rs = Ok c ->
  existsb stray (snd (pick k_committer (header_of rs))) = false ->
  c_author c = c_author c2 /\
  exists gc, fst (git_scan_header rs ga None) = (ga, gc) /\
    person_rel (fst (pick k_committer (header_of rs))) (c_committer c) (c_committer c2) gc.
Proof.
  intros Hok Ha Hrun Hst.
  split; [destruct (crun_keep _ _ _ _ _ Hrun) as (_ & _ & K & _); apply K; cbn; lia|].
  destruct rs as [|l r].
  - cbn [crun cfinish] in Hrun. inversion Hrun; subst c. exists None. now split.
  - inversion Hok as [|x0 y0 Hl Hr]. subst x0 y0. destruct (abl_tail _ _ Ha) as [Har _].
    destruct (key_is k_committer l) eqn:Hk.
    + assert (Hb : is_blank l = false) by (apply (key_nonblank _ _ Hk); discriminate).
      cbn [header_of] in *. rewrite (first_is_lf_blank _ Hl), Hb in *. cbn [pick] in *. rewrite Hk in *. cbn [fst snd] in *.
      pose proof (crun_after SCommitter c2 se l r _ se SHeaders c Ha I (committer_key_step c2 se _ l Hk) Hrun) as Hrun'.
      destruct (crun_keep _ _ _ _ _ Hrun') as (_ & _ & _ & K). rewrite K by (cbn; lia). cbn [set_committer c_committer].
      exists (if starts_with (str "committer "%string) l then Some (value_of l) else None).
      split.
      * cbn [git_scan_header]. rewrite (first_is_lf_blank _ Hl), Hb.
        rewrite (key_excl k_committer k_author l Hl eq_refl eq_refl Hk ltac:(discriminate) : starts_with (str "author "%string) l = false).
        destruct (starts_with (str "committer "%string) l) eqn:Esw.
        -- destruct (pre_key k_committer l Hl eq_refl eq_refl Esw) as [_ [V _]].
           change (List.length k_committer + 1)%nat with 10%nat in V. rewrite <- V. now apply scan_none.
        -- now apply scan_none.
      * unfold person_rel. split; [reflexivity|]. intros Hv.
        destruct (key_val k_committer l Hl eq_refl eq_refl Hk Hv) as [Hsw [_ Hn]].
        change (k_committer ++ [SPC]) with (str "committer "%string) in Hsw. rewrite Hsw. now split.
    + assert (Hpk : pick k_committer (header_of (l :: r)) = (None, header_of (l :: r))).
      { cbn [header_of]. destruct (first_is LF l); [reflexivity|]. cbn [pick]. now rewrite Hk. }
      rewrite Hpk in *. cbn [fst snd] in *.
      rewrite crun_cons, (committer_step_other _ _ _ _ Hk), <- crun_cons in Hrun.
      destruct (crun_keep _ _ _ _ _ Hrun) as (_ & _ & _ & K).
      exists None. split; [now apply scan_none|]. split; [apply K; cbn; lia|reflexivity].
Qed.

Lemma author_stage rs c1 se c : Forall line_ok rs -> all_but_last_nl rs = true ->
  crun SAuthor c1 se rs = Ok c ->
  let pa := pick k_author (header_of rs) in
  let pc := pick k_committer (snd pa) in
  existsb stray (snd pc) = false ->
  exists ga gc, fst (git_scan_header rs None None) = (ga, gc) /\
    person_rel (fst pa) (c_author c) (c_author c1) ga /\
    person_rel (fst pc) (c_committer c) (c_committer c1) gc.
Proof.
  intros Hok Ha Hrun pa pc Hst.
  assert (Other : pa = (None, header_of rs) -> crun SCommitter c1 se rs = Ok c ->
    exists ga gc, fst (git_scan_header rs None None) = (ga, gc) /\
      person_rel (fst pa) (c_author c) (c_author c1) ga /\ person_rel (fst pc) (c_committer c) (c_committer c1) gc).
  { intros Epa Hrun'. unfold pc in *. rewrite Epa in *. cbn [fst snd] in *.
    destruct (committer_stage _ _ _ _ None Hok Ha Hrun' Hst) as [A [gc [G P]]].
    exists None, gc. split; [exact G|]. split; [now split|exact P]. }
  destruct rs as [|l r]; [apply Other; [reflexivity|exact Hrun]|].
  inversion Hok as [|x0 y0 Hl Hr]. subst x0 y0. destruct (abl_tail _ _ Ha) as [Har _].
  destruct (key_is k_author l) eqn:Hk.
  - clear Other.
    assert (Hb : is_blank l = false) by (apply (key_nonblank _ _ Hk); discriminate).
    assert (Epa : pa = (Some l, header_of r)).
    { unfold pa. cbn [header_of]. rewrite (first_is_lf_blank _ Hl), Hb. cbn [pick]. now rewrite Hk. }
    unfold pc in *. rewrite Epa in *. cbn [fst snd] in *.
    pose proof (crun_after SAuthor c1 se l r _ se SCommitter c Ha I (author_key_step c1 se _ l Hk) Hrun) as Hrun'.
    set (ga := if starts_with (str "author "%string) l then Some (value_of l) else None).
    destruct (committer_stage _ _ _ _ ga Hr Har Hrun' Hst) as [A [gc [G P]]].
    exists ga, gc. split; [|split].
    + cbn [git_scan_header]. rewrite (first_is_lf_blank _ Hl), Hb. unfold ga in *.
      destruct (starts_with (str "author "%string) l) eqn:Esw.
      * destruct (pre_key k_author l Hl eq_refl eq_refl Esw) as [_ [V _]].
        change (List.length k_author + 1)%nat with 7%nat in V. rewrite <- V. exact G.
      * rewrite (key_excl k_author k_committer l Hl eq_refl eq_refl Hk ltac:(discriminate) : starts_with (str "committer "%string) l = false).
        exact G.
    + unfold person_rel. rewrite A. split; [reflexivity|]. intros Hv.
      destruct (key_val k_author l Hl eq_refl eq_refl Hk Hv) as [Hsw [_ Hn]].
      change (k_author ++ [SPC]) with (str "author "%string) in Hsw. unfold ga. rewrite Hsw. now split.
    + exact P.
  - apply Other.
    + unfold pa. cbn [header_of]. destruct (first_is LF l); [reflexivity|]. cbn [pick]. now rewrite Hk.
    + now rewrite crun_cons, (author_step_other _ _ _ _ Hk), <- crun_cons in Hrun.
Qed.

(* the clauses of ObjWf.commit_agree_of, read off the header lines *)
Definition pok (o : option bytes) : bool := match o with Some l => person_ok (value_of l) | None => true end.
Definition dok (o : option bytes) : bool := match o with Some l => date_ok (value_of l) | None => true end.

Lemma agree_unfold raw :
  commit_agree_of raw =
  let hdr := header_of (split_lines raw) in
  let pa := pick k_author (drop_parents (tl hdr)) in
  let pc := pick k_committer (snd pa) in
  mk_cagree (pblock_ok (tl hdr) (List.length raw - 46)%nat) (negb (existsb stray (snd pc)))
            (pok (fst pa)) (dok (fst pa)) (pok (fst pc)) (dok (fst pc))
            (negb (existsb (fun l => beqb (trim_right LF l) k_encoding) hdr)).
Proof.
  unfold commit_agree_of. cbv zeta. unfold pick.
  destruct (drop_parents (tl (header_of (split_lines raw)))) as [|l r]; [reflexivity|].
  destruct (key_is k_author l).
  - cbn [fst snd]. destruct r as [|l2 r2]; [reflexivity|]. destruct (key_is k_committer l2); reflexivity.
  - cbn [fst snd]. destruct (key_is k_committer l); reflexivity.
Qed.

(* go-git's fields of an ident against git's, given the clauses *)
Lemma person_final o go gv : person_rel o go ident_zero gv -> pok o = true -> dok o = true ->
  (id_name go, id_email go, go_date go) = git_person gv.
Proof.
  unfold person_rel, pok, dok. destruct o as [l|].
  - intros [-> Hv] Hp Hd.
    assert (Hne : value_of l <> []) by (intros E; rewrite E in Hp; discriminate Hp).
    destruct (Hv Hne) as [-> Hn]. symmetry. exact (ident_matches_git _ Hn Hp Hd).
  - intros [-> ->] _ _. reflexivity.
Qed.

(* ---------------------------------------------------------------- what git_log_fields = GOk says *)
Lemma GOk_inj {A} (x y : A) : GOk x = GOk y -> x = y.
Proof. intros H. now injection H. Qed.

Lemma git_log_fields_inv raw g : git_log_fields raw = GOk g ->
  (46 < List.length raw)%nat /\ starts_with (str "tree "%string) raw = true /\ nth 45 raw 0 = LF /\
  all_hex (firstn 40 (skipn 5 raw)) = true /\
  gl_tree g = lower_hex (firstn 40 (skipn 5 raw)) /\
  git_parents (List.length raw) (skipn 46 raw) = Some (gl_parents g) /\
  (gl_an g, gl_ae g, gl_ad g) = git_person (fst (fst (git_scan_header (split_lines raw) None None))) /\
  (gl_cn g, gl_ce g, gl_cd g) = git_person (snd (fst (git_scan_header (split_lines raw) None None))) /\
  gl_enc g = match git_find_header k_encoding (split_lines raw) with Some e => e | None => [] end.
Proof.
  unfold git_log_fields. intros Hg.
  destruct (has_nul raw); [discriminate|].
  destruct (Nat.ltb 46 (List.length raw)) eqn:E1; [|discriminate]. cbn [negb] in Hg.
  destruct (starts_with (str "tree "%string) raw) eqn:E2; [|discriminate]. cbn [negb] in Hg.
  destruct (nth 45 raw 0 =? LF) eqn:E3; [|discriminate]. cbn [negb] in Hg.
  destruct (all_hex (firstn 40 (skipn 5 raw))) eqn:E4; [|discriminate]. cbn [negb] in Hg.
  destruct (git_parents (List.length raw) (skipn 46 raw)) as [ps|]; [|discriminate].
  destruct (git_scan_header (split_lines raw) None None) as [[a0 c0] body]. cbn [fst snd].
  destruct (git_person a0) as [[an ae] ad]. destruct (git_person c0) as [[cn ce] cd].
  apply GOk_inj in Hg. subst g. cbn [gl_tree gl_parents gl_an gl_ae gl_ad gl_cn gl_ce gl_cd gl_enc fst snd].
  apply Nat.ltb_lt in E1. apply N.eqb_eq in E3. repeat split; try assumption; reflexivity.
Qed.

Lemma raw_lines raw : (46 < List.length raw)%nat -> starts_with (str "tree "%string) raw = true -> nth 45 raw 0 = LF ->
  raw = (str "tree "%string ++ firstn 40 (skipn 5 raw)) ++ LF :: skipn 46 raw /\
  List.length (firstn 40 (skipn 5 raw)) = 40%nat.
Proof.
  intros Hlen Hsw H45. split.
  - pose proof (nth_split_eq 0 45 raw ltac:(lia)) as E. rewrite H45 in E.
    change 45%nat with (5 + 40)%nat in E at 1. rewrite firstn_add in E.
    rewrite (starts_with_firstn _ _ Hsw : firstn 5 raw = str "tree "%string) in E. exact E.
  - rewrite firstn_length, skipn_length. lia.
Qed.

Theorem commit_fields_match_git : forall raw c g,
  decode_commit raw = Ok c -> git_log_fields raw = GOk g ->
  let a := commit_agree_of raw in
  hex_encode (c_tree c) = gl_tree g /\
  (ca_parents a = true -> map hex_encode (c_parents c) = gl_parents g) /\
  (ca_position a = true -> ca_aperson a = true -> ca_adate a = true ->
     (id_name (c_author c), id_email (c_author c), go_date (c_author c)) = (gl_an g, gl_ae g, gl_ad g)) /\
  (ca_position a = true -> ca_cperson a = true -> ca_cdate a = true ->
     (id_name (c_committer c), id_email (c_committer c), go_date (c_committer c)) = (gl_cn g, gl_ce g, gl_cd g)) /\
  (ca_encoding a = true -> enc_agrees (c_enc c) (gl_enc g)) /\
  (forall m, gl_body g = Some m -> c_msg c = m).
Proof.
  intros raw c g Hd Hg a.
  destruct (git_log_fields_inv _ _ Hg) as (Hlen & Hsw & H45 & Hhex & Gt & Gp & Ga & Gc & Ge).
  destruct (raw_lines _ Hlen Hsw H45) as [Hraw Hthl].
  set (th := firstn 40 (skipn 5 raw)) in *. set (rest := skipn 46 raw) in *.
  assert (Hnth : no_lf (str "tree "%string ++ th) = true) by (rewrite no_lf_app, (all_hex_no_lf _ Hhex); reflexivity).
  set (l0 := (str "tree "%string ++ th) ++ [LF]).
  assert (Hsl : split_lines raw = l0 :: split_lines rest) by (rewrite Hraw at 1; exact (split_lines_line _ _ Hnth)).
  pose proof (split_lines_ok rest) as Hok. pose proof (split_lines_abl rest) as Habl.
  pose proof (concat_split_lines rest) as Hcat.
  assert (Hrl : List.length rest = (List.length raw - 46)%nat) by (unfold rest; apply skipn_length).
  set (ls := split_lines rest) in *.
  (* go-git: the tree line, then the scanner on the remaining lines *)
  assert (Hgo : exists h, hex_decode th = Some h /\ crun SParents (commit_init h) false ls = Ok c).
  { unfold decode_commit in Hd. rewrite Hsl in Hd. cbn [decode_commit_lines] in Hd.
    change (is_blank l0) with false in Hd.
    assert (Esh : split_header l0 = (k_tree, th)).
    { change l0 with (k_tree ++ SPC :: th ++ [LF]). apply split_header_kv; [reflexivity|reflexivity|exact (all_hex_no_lf _ Hhex)]. }
    rewrite Esh in Hd. change (negb (beqb k_tree k_tree)) with false in Hd.
    destruct (parse_oid th) as [h|] eqn:Ep; [|discriminate]. exists h.
    unfold parse_oid in Ep. rewrite Hthl in Ep. split; [exact Ep|].
    unfold l0 in Hd. now rewrite ends_nl_app_lf in Hd. }
  destruct Hgo as [h [Hh Hrun]].
  destruct (hex_decode_lower _ _ Hh) as [Hhe _].
  (* the clauses *)
  assert (Hhdr : header_of (split_lines raw) = l0 :: header_of ls) by (rewrite Hsl; reflexivity).
  subst a. rewrite agree_unfold. cbv zeta. rewrite Hhdr. cbn [tl ca_parents ca_position ca_aperson ca_adate ca_cperson ca_cdate ca_encoding].
  (* the parent block and what follows *)
  destruct (parents_block _ _ _ _ Hok Habl Hrun) as [rs [c1 (R1 & R2 & R3 & R4 & R5 & R6 & R7)]].
  assert (Hscan : fst (git_scan_header (split_lines raw) None None) = fst (git_scan_header rs None None)).
  { rewrite Hsl. change (git_scan_header (l0 :: ls) None None) with (git_scan_header ls None None). now rewrite R7. }
  rewrite R6.
  split; [|split; [|split; [|split; [|split]]]].
  - destruct (crun_keep _ _ _ _ _ Hrun) as (K & _). rewrite K, Gt. exact Hhe.
  - intros Hpb. rewrite <- Hrl, <- Hcat in Hpb. rewrite <- Hcat in Gp.
    assert (Hf : (List.length (List.concat ls) <= List.length raw)%nat) by (rewrite Hcat, Hrl; lia).
    exact (crun_parents_git _ _ _ _ _ _ Hok Habl Hrun Hpb Hf Gp).
  - intros Hpos Hp Hdt. apply negb_true_iff in Hpos.
    destruct (author_stage _ _ _ _ R1 R2 R3 Hpos) as [ga [gc [G [PA PC]]]].
    rewrite Ga, Hscan, G. cbn [fst]. rewrite R4 in PA. exact (person_final _ _ _ PA Hp Hdt).
  - intros Hpos Hp Hdt. apply negb_true_iff in Hpos.
    destruct (author_stage _ _ _ _ R1 R2 R3 Hpos) as [ga [gc [G [PA PC]]]].
    rewrite Gc, Hscan, G. cbn [fst snd]. rewrite R5 in PC. exact (person_final _ _ _ PC Hp Hdt).
  - intros He. apply negb_true_iff in He. cbn [existsb] in He. apply orb_false_iff in He as [_ He].
    assert (Hne : SParents <> SMessage) by discriminate.
    rewrite (crun_enc _ _ _ _ _ Hne Hok Habl Hrun), Ge, Hsl.
    change (git_find_header k_encoding (l0 :: ls)) with (git_find_header k_encoding ls).
    rewrite (find_enc _ Hok He). unfold enc_agrees. destruct (first_enc ls); [now left|right; now split].
  - intros m Hm. exact (message_matches_git _ _ _ _ Hd Hg Hm).
Qed.
