(* Proofs/C02CommitGit.v — commits: for every stored commit that go-git decodes
   and git parses, the decoded tree is git's; and under the boolean clauses of
   Spec/ObjWf.commit_agree_of the decoded parents, author, committer and
   encoding are the ones git reports (commit.c parse_commit_buffer, pretty.c
   parse_commit_header, commit.c find_commit_header). *)
From Coq Require Import List NArith ZArith Bool Lia ZifyBool ZifyNat ZifyN String.
From GoGit Require Import Base.Out Model.ObjLines Model.Ident Model.Commit Spec.GitFields Spec.ObjWf
     Proofs.ObjLinesFacts Proofs.C02Dec Proofs.C02Ident Proofs.C03Commit Proofs.C03CommitSig Proofs.C02Lines
     Proofs.C02IdentGit Proofs.C02Message.
Import ListNotations.
Local Open Scope N_scope.

Definition enc_agrees (e g : bytes) : Prop := e = g \/ (e = utf8 /\ g = []).

(* ---------------------------------------------------------------- lists *)
Lemma skipn_len {A} n (x y : list A) : List.length x = n -> skipn n (x ++ y) = y.
Proof. intros <-. apply skipn_app_exact. Qed.
Lemma firstn_len {A} n (x y : list A) : List.length x = n -> firstn n (x ++ y) = x.
Proof. intros <-. apply firstn_app_exact. Qed.
Lemma nth_len {A} n (x : list A) c y d : List.length x = n -> nth n (x ++ c :: y) d = c.
Proof. intros <-. rewrite app_nth2 by lia. now rewrite Nat.sub_diag. Qed.

Lemma nth_split_eq {A} (d : A) : forall n l, (n < List.length l)%nat -> l = firstn n l ++ nth n l d :: skipn (S n) l.
Proof.
  induction n as [|n IH]; intros [|x l] H; cbn [List.length] in H; try lia; [reflexivity|].
  cbn [firstn nth skipn app]. f_equal. apply IH. lia.
Qed.

Lemma firstn_add {A} a b : forall l : list A, firstn (a + b) l = firstn a l ++ firstn b (skipn a l).
Proof. induction a as [|a IH]; intros [|x l]; cbn [Nat.add firstn skipn app]; try reflexivity; [now rewrite firstn_nil|]. now rewrite IH. Qed.

Lemma starts_with_firstn p : forall b, starts_with p b = true -> firstn (List.length p) b = p.
Proof. intros b H. apply starts_with_spec in H as [r ->]. apply firstn_app_exact. Qed.

(* ---------------------------------------------------------------- valid line lists *)
Lemma abl_tail l r : all_but_last_nl (l :: r) = true -> all_but_last_nl r = true /\ (r <> [] -> ends_nl l = true).
Proof.
  destruct r as [|l2 r]; [intros _; split; [reflexivity|intros H; contradiction]|].
  change (all_but_last_nl (l :: l2 :: r)) with (ends_nl l && all_but_last_nl (l2 :: r)). intros H. apply andb_true_iff in H as [H1 H2].
  split; [exact H2|intros _; exact H1].
Qed.

Lemma abl_eof l r : all_but_last_nl (l :: r) = true -> ends_nl l = false -> r = [].
Proof.
  intros H E. destruct r as [|l2 r]; [reflexivity|]. destruct (abl_tail _ _ H) as [_ H2].
  rewrite H2 in E by discriminate. discriminate.
Qed.

(* chomp and TrimRight "\n" coincide on a line *)
Lemma line_cases l : line_ok l -> exists p, no_lf p = true /\ chomp l = p /\ trim_right LF l = p /\ (l = p ++ [LF] \/ l = p).
Proof.
  intros [Hne [p [Hp [-> | ->]]]]; exists p; (split; [exact Hp|]).
  - unfold chomp. rewrite ends_nl_app_lf, removelast_last, (trim_right_app_lf _ Hp). repeat split. now left.
  - unfold chomp. rewrite (ends_nl_no_lf _ Hp), (trim_right_nolf _ Hp). repeat split. now right.
Qed.

Lemma prefix_nolf pat : no_lf pat = true -> forall p rest, starts_with pat (p ++ LF :: rest) = true -> starts_with pat p = true.
Proof.
  induction pat as [|x pat IH]; intros Hn p rest H; [reflexivity|]. rewrite no_lf_cons in Hn. apply andb_true_iff in Hn as [H1 H2].
  destruct p as [|y p]; cbn [app starts_with] in *.
  - apply andb_true_iff in H as [H _]. rewrite H in H1. discriminate.
  - apply andb_true_iff in H as [Ha Hb]. rewrite Ha. cbn [andb]. exact (IH H2 _ _ Hb).
Qed.

Lemma starts_with_more p b x : starts_with p b = true -> starts_with p (b ++ x) = true.
Proof. intros H. apply starts_with_spec in H as [r ->]. rewrite <- app_assoc. apply starts_with_app. Qed.

(* a pattern without LF at the start of the remaining bytes is at the start of the next line *)
Lemma concat_prefix pat l r : line_ok l -> all_but_last_nl (l :: r) = true -> no_lf pat = true ->
  starts_with pat (List.concat (l :: r)) = true -> starts_with pat l = true.
Proof.
  intros Hl Ha Hp H. cbn [List.concat] in H. destruct (line_cases _ Hl) as [p [Hnp [_ [_ [-> | ->]]]]].
  - rewrite <- app_assoc in H. cbn [app] in H. apply starts_with_more. exact (prefix_nolf _ Hp _ _ H).
  - rewrite (abl_eof _ _ Ha (ends_nl_no_lf _ Hnp)) in H. cbn [List.concat] in H. now rewrite app_nil_r in H.
Qed.

(* ---------------------------------------------------------------- header lines: key and value *)
Lemma cut_at_nf c b : forall k v, cut_at c b = (k, v, false) -> v = [].
Proof.
  induction b as [|x b IH]; intros k v H; cbn [cut_at] in H; [now inversion H|].
  destruct (x =? c); [discriminate|]. destruct (cut_at c b) as [[k0 v0] f0]. inversion H; subst. now apply (IH k0).
Qed.

Lemma hdr_line k l : line_ok l -> no_lf k = true -> has_byte SPC k = false -> starts_with (k ++ [SPC]) l = true ->
  exists v, chomp l = (k ++ [SPC]) ++ v /\ no_lf v = true /\ split_header l = (k, v).
Proof.
  intros Hl Hk Hs H. destruct (line_cases _ Hl) as [p [Hp [Hc [Ht Hd]]]].
  assert (Hkp : no_lf (k ++ [SPC]) = true) by (rewrite no_lf_app, Hk; reflexivity).
  assert (Hpp : starts_with (k ++ [SPC]) p = true).
  { destruct Hd as [-> | ->]; [|exact H]. exact (prefix_nolf _ Hkp _ _ H). }
  apply starts_with_spec in Hpp as [v Hv]. exists v. rewrite Hc. split; [exact Hv|].
  assert (Hnv : no_lf v = true) by (rewrite Hv, no_lf_app in Hp; now apply andb_true_iff in Hp).
  split; [exact Hnv|]. unfold split_header. rewrite Ht, Hv, <- app_assoc. cbn [app]. now rewrite (cut_at_first _ _ _ Hs).
Qed.

Lemma pre_key k l : line_ok l -> no_lf k = true -> has_byte SPC k = false -> starts_with (k ++ [SPC]) l = true ->
  key_is k l = true /\ value_of l = skipn (List.length k + 1) (chomp l) /\ no_lf (value_of l) = true.
Proof.
  intros Hl Hk Hs H. destruct (hdr_line _ _ Hl Hk Hs H) as [v [Hc [Hv Hsp]]].
  unfold key_is, value_of. rewrite Hsp, Hc. cbn [fst snd]. split; [apply beqb_refl|]. split; [|exact Hv].
  symmetry. apply skipn_len. rewrite app_length. reflexivity.
Qed.

Lemma key_split k l : line_ok l -> key_is k l = true ->
  (value_of l = [] /\ trim_right LF l = k) \/ starts_with (k ++ [SPC]) l = true.
Proof.
  intros Hl. destruct (line_cases _ Hl) as [p [Hp [Hc [Ht Hd]]]].
  unfold key_is, value_of, split_header. rewrite Ht. destruct (cut_at SPC p) as [[k0 v0] f] eqn:Ec. cbn [fst snd].
  intros Hk. apply beqb_eq in Hk. subst k0. destruct (cut_at_spec _ _ _ _ _ Ec) as [Hpk _]. destruct f.
  - right. apply starts_with_spec. destruct Hd as [-> | ->]; rewrite Hpk.
    + exists (v0 ++ [LF]). now rewrite <- !app_assoc.
    + exists v0. now rewrite <- !app_assoc.
  - left. rewrite (cut_at_nf _ _ _ _ Ec). split; [reflexivity|]. now rewrite Hpk, app_nil_r.
Qed.

Lemma key_val k l : line_ok l -> no_lf k = true -> has_byte SPC k = false -> key_is k l = true -> value_of l <> [] ->
  starts_with (k ++ [SPC]) l = true /\ value_of l = skipn (List.length k + 1) (chomp l) /\ no_lf (value_of l) = true.
Proof.
  intros Hl Hk Hs Hkey Hv. destruct (key_split _ _ Hl Hkey) as [[H _]|H]; [contradiction|].
  split; [exact H|]. now destruct (pre_key _ _ Hl Hk Hs H) as [_ P].
Qed.

Lemma key_excl k1 k2 l : line_ok l -> no_lf k2 = true -> has_byte SPC k2 = false ->
  key_is k1 l = true -> k1 <> k2 -> starts_with (k2 ++ [SPC]) l = false.
Proof.
  intros Hl Hk Hs H1 Hne. destruct (starts_with (k2 ++ [SPC]) l) eqn:E; [|reflexivity].
  destruct (pre_key _ _ Hl Hk Hs E) as [H2 _]. unfold key_is in *. apply beqb_eq in H1, H2. congruence.
Qed.

Lemma nokey_nopre k l : line_ok l -> no_lf k = true -> has_byte SPC k = false ->
  key_is k l = false -> starts_with (k ++ [SPC]) l = false.
Proof.
  intros Hl Hk Hs H. destruct (starts_with (k ++ [SPC]) l) eqn:E; [|reflexivity].
  destruct (pre_key _ _ Hl Hk Hs E) as [H2 _]. congruence.
Qed.

Lemma key_nonblank k l : key_is k l = true -> k <> [] -> is_blank l = false.
Proof.
  intros H Hk. destruct (is_blank l) eqn:Hb; [|reflexivity]. destruct l as [|x [|y l']]; try discriminate.
  cbn in Hb. apply N.eqb_eq in Hb. subst x. unfold key_is in H. change (split_header [LF]) with (@nil N, @nil N) in H.
  cbn [fst] in H. destruct k; [contradiction|discriminate].
Qed.

(* ---------------------------------------------------------------- hex ids *)
Lemma hexv_lower x v : hexv x = Some v ->
  v < 16 /\ hexdig v = (if (65 <=? x) && (x <=? 70) then x + 32 else x).
Proof.
  unfold hexv, hexdig. destruct ((48 <=? x) && (x <=? 57)) eqn:E1.
  - intros H. injection H as <-. split; [lia|]. replace (x - 48 <? 10) with true by lia.
    replace ((65 <=? x) && (x <=? 70)) with false by lia. lia.
  - destruct ((97 <=? x) && (x <=? 102)) eqn:E2.
    + intros H. injection H as <-. split; [lia|]. replace (x - 87 <? 10) with false by lia.
      replace ((65 <=? x) && (x <=? 70)) with false by lia. lia.
    + destruct ((65 <=? x) && (x <=? 70)) eqn:E3; [|discriminate].
      intros H. injection H as <-. split; [lia|]. replace (x - 55 <? 10) with false by lia. lia.
Qed.

Lemma hex_decode_lower : forall h d, hex_decode d = Some h -> hex_encode h = lower_hex d /\ all_hex d = true.
Proof.
  induction h as [|b t IH]; intros d H.
  - destruct d as [|x [|y r]]; [now split|discriminate|]. cbn [hex_decode] in H.
    destruct (hexv x), (hexv y), (hex_decode r); discriminate.
  - destruct d as [|x [|y r]]; [discriminate|discriminate|]. cbn [hex_decode] in H.
    destruct (hexv x) as [hi|] eqn:Ex; [|discriminate]. destruct (hexv y) as [lo|] eqn:Ey; [|discriminate].
    destruct (hex_decode r) as [t'|] eqn:Er; [|discriminate].
    assert (Hb : 16 * hi + lo = b) by (now injection H). assert (Ht : t' = t) by (now injection H). subst t'. clear H.
    destruct (IH _ Er) as [I1 I2]. destruct (hexv_lower _ _ Ex) as [Bx Lx]. destruct (hexv_lower _ _ Ey) as [By Ly].
    split.
    + change (hex_encode (b :: t)) with (hexdig (b / 16) :: hexdig (b mod 16) :: hex_encode t).
      assert (Q : b / 16 = hi) by (symmetry; apply (N.div_unique b 16 hi lo); lia).
      assert (R : b mod 16 = lo) by (symmetry; apply (N.mod_unique b 16 hi lo); lia).
      rewrite Q, R, Lx, Ly, I1. reflexivity.
    + unfold all_hex in *. cbn [forallb]. now rewrite Ex, Ey, I2.
Qed.

Lemma all_hex_no_lf d : all_hex d = true -> no_lf d = true.
Proof.
  unfold all_hex. induction d as [|x d IH]; [reflexivity|]. cbn [forallb]. intros H. apply andb_true_iff in H as [H1 H2].
  rewrite no_lf_cons, (IH H2), andb_true_r. destruct (x =? LF) eqn:E; [|reflexivity].
  apply N.eqb_eq in E. subst x. discriminate H1.
Qed.

(* ---------------------------------------------------------------- the scanner: what a state may still change *)
Definition rank (st : cstate) : nat :=
  match st with SParents => 0 | SAuthor => 1 | SCommitter => 2 | _ => 3 end.

Lemma on_headers_keep c se l c' se' st' : on_headers c se l = (c', se', st') ->
  c_tree c' = c_tree c /\ c_parents c' = c_parents c /\ c_author c' = c_author c /\ c_committer c' = c_committer c /\
  rank st' = 3%nat.
Proof.
  unfold on_headers. destruct (is_blank l); [intros H; inversion H; subst; repeat split|].
  destruct (split_header l) as [key data].
  destruct (beqb key k_tree || beqb key k_parent || beqb key k_author || beqb key k_committer);
    [intros H; inversion H; subst; repeat split|].
  destruct (beqb key k_encoding); [intros H; inversion H; subst; destruct se; repeat split|].
  destruct (beqb key k_gpgsig); [intros H; inversion H; subst; repeat split|].
  destruct (beqb key k_gpgsig256); [intros H; inversion H; subst; repeat split|].
  destruct (parse_extra_header l) as [[k v] m]. destruct m; intros H; inversion H; subst; repeat split.
Qed.

Lemma on_committer_keep c se l c' se' st' : on_committer c se l = (c', se', st') ->
  c_tree c' = c_tree c /\ c_parents c' = c_parents c /\ c_author c' = c_author c /\ rank st' = 3%nat.
Proof.
  unfold on_committer. destruct (is_blank l); [intros H; inversion H; subst; repeat split|].
  destruct (split_header l) as [key data].
  destruct (beqb key k_committer); [intros H; inversion H; subst; repeat split|].
  intros H. destruct (on_headers_keep _ _ _ _ _ _ H) as (A & B & C & _ & E). repeat split; assumption.
Qed.

Lemma on_author_keep c se l c' se' st' : on_author c se l = (c', se', st') ->
  c_tree c' = c_tree c /\ c_parents c' = c_parents c /\ (2 <= rank st')%nat.
Proof.
  unfold on_author. destruct (is_blank l); [intros H; inversion H; subst; repeat split; cbn; lia|].
  destruct (split_header l) as [key data].
  destruct (beqb key k_author); [intros H; inversion H; subst; repeat split; cbn; lia|].
  intros H. destruct (on_committer_keep _ _ _ _ _ _ H) as (A & B & _ & E). repeat split; try assumption. lia.
Qed.

Definition keeps (st : cstate) (c c' : commit) : Prop :=
  c_tree c' = c_tree c /\ ((1 <= rank st)%nat -> c_parents c' = c_parents c) /\
  ((2 <= rank st)%nat -> c_author c' = c_author c) /\ ((3 <= rank st)%nat -> c_committer c' = c_committer c).

Lemma cstep_keep st c se eof l c' se' st' : cstep st c se eof l = Ok (c', se', st') ->
  keeps st c c' /\ (rank st <= rank st')%nat.
Proof.
  unfold keeps. destruct st; cbn [cstep rank].
  - destruct (is_blank l); [intros H; inversion H; subst; cbn [rank]; repeat split; intros; lia|].
    destruct (split_header l) as [key data]. destruct (beqb key k_parent).
    + destruct (parse_oid data); intros H; inversion H; subst. cbn [rank]. repeat split; intros; lia.
    + intros H. inversion H as [H']. destruct (on_author_keep _ _ _ _ _ _ H') as (A & B & E). repeat split; intros; try assumption; lia.
  - intros H. inversion H as [H']. destruct (on_author_keep _ _ _ _ _ _ H') as (A & B & E). repeat split; intros; try assumption; lia.
  - intros H. inversion H as [H']. destruct (on_committer_keep _ _ _ _ _ _ H') as (A & B & C & E). repeat split; intros; try assumption; lia.
  - intros H. inversion H as [H']. destruct (on_headers_keep _ _ _ _ _ _ H') as (A & B & C & D & E). repeat split; intros; try assumption; lia.
  - destruct (first_is SPC l); intros H; inversion H as [H']; [subst; cbn [rank]; repeat split; intros; lia|].
    destruct (on_headers_keep _ _ _ _ _ _ H') as (A & B & C & D & E). repeat split; intros; try assumption; lia.
  - destruct (first_is SPC l); intros H; inversion H as [H']; [subst; cbn [rank]; repeat split; intros; lia|].
    destruct (on_headers_keep _ _ _ _ _ _ H') as (A & B & C & D & E). repeat split; intros; try assumption; lia.
  - destruct (first_is SPC l).
    + destruct eof; intros H; inversion H; subst; cbn [rank]; repeat split; intros; lia.
    + intros H. inversion H as [H']. destruct (on_headers_keep _ _ _ _ _ _ H') as (A & B & C & D & E).
      repeat split; intros; try assumption; lia.
  - intros H. inversion H; subst. cbn [rank]. repeat split; intros; lia.
Qed.

Lemma crun_cons st c0 se l r : crun st c0 se (l :: r) =
  match cstep st c0 se (negb (ends_nl l)) l with
  | Err e => Err e
  | Ok (c', se', st') => if negb (ends_nl l) then Ok c' else crun st' c' se' r
  end.
Proof. reflexivity. Qed.

Lemma crun_keep : forall ls st c0 se c, crun st c0 se ls = Ok c -> keeps st c0 c.
Proof.
  induction ls as [|l r IH]; intros st c0 se c H.
  - cbn [crun] in H. inversion H. unfold keeps. destruct st; cbn [cfinish]; repeat split.
  - rewrite crun_cons in H. destruct (cstep st c0 se (negb (ends_nl l)) l) as [[[c1 se1] st1]|e] eqn:Es; [|discriminate].
    destruct (cstep_keep _ _ _ _ _ _ _ _ Es) as [(A & B & C & D) Hr].
    destruct (negb (ends_nl l)).
    + inversion H; subst. unfold keeps. repeat split; assumption.
    + destruct (IH _ _ _ _ H) as (A' & B' & C' & D'). unfold keeps.
      split; [now rewrite A'|]. split; [intros; rewrite B', B; [reflexivity|assumption|lia]|].
      split; [intros; rewrite C', C; [reflexivity|assumption|lia]|]. intros; rewrite D', D; [reflexivity|assumption|lia].
Qed.

(* ---------------------------------------------------------------- lines that are not for the current state *)
Lemma parents_step_other c se eof l : key_is k_parent l = false -> cstep SParents c se eof l = cstep SAuthor c se eof l.
Proof.
  intros H. cbn [cstep]. destruct (is_blank l) eqn:Hb; [unfold on_author; now rewrite Hb|].
  unfold key_is in H. destruct (split_header l) as [key data]. cbn [fst] in H. now rewrite H.
Qed.

Lemma author_step_other c se eof l : key_is k_author l = false -> cstep SAuthor c se eof l = cstep SCommitter c se eof l.
Proof.
  intros H. cbn [cstep]. f_equal. unfold on_author. destruct (is_blank l) eqn:Hb; [unfold on_committer; now rewrite Hb|].
  unfold key_is in H. destruct (split_header l) as [key data]. cbn [fst] in H. now rewrite H.
Qed.

Lemma committer_step_other c se eof l : key_is k_committer l = false -> cstep SCommitter c se eof l = cstep SHeaders c se eof l.
Proof.
  intros H. cbn [cstep]. f_equal. unfold on_committer. destruct (is_blank l) eqn:Hb; [unfold on_headers; now rewrite Hb|].
  unfold key_is in H. destruct (split_header l) as [key data]. cbn [fst] in H. now rewrite H.
Qed.

Lemma parent_key_step c se eof l c' se' st' : key_is k_parent l = true ->
  cstep SParents c se eof l = Ok (c', se', st') ->
  exists hh, parse_oid (value_of l) = Some hh /\ c' = set_parents c (c_parents c ++ [hh]) /\ se' = se /\ st' = SParents.
Proof.
  intros Hk. assert (Hb : is_blank l = false) by (apply (key_nonblank _ _ Hk); discriminate).
  cbn [cstep]. rewrite Hb. unfold key_is, value_of in *. destruct (split_header l) as [key data]. cbn [fst snd] in *. rewrite Hk.
  destruct (parse_oid data) as [hh|]; [|discriminate]. intros H. inversion H; subst. now exists hh.
Qed.

Lemma author_key_step c se eof l : key_is k_author l = true ->
  cstep SAuthor c se eof l = Ok (set_author c (decode_ident (value_of l)), se, SCommitter).
Proof.
  intros Hk. assert (Hb : is_blank l = false) by (apply (key_nonblank _ _ Hk); discriminate).
  cbn [cstep]. unfold on_author. rewrite Hb. unfold key_is, value_of in *. destruct (split_header l) as [key data].
  cbn [fst snd] in *. now rewrite Hk.
Qed.

Lemma committer_key_step c se eof l : key_is k_committer l = true ->
  cstep SCommitter c se eof l = Ok (set_committer c (decode_ident (value_of l)), se, SHeaders).
Proof.
  intros Hk. assert (Hb : is_blank l = false) by (apply (key_nonblank _ _ Hk); discriminate).
  cbn [cstep]. unfold on_committer. rewrite Hb. unfold key_is, value_of in *. destruct (split_header l) as [key data].
  cbn [fst snd] in *. now rewrite Hk.
Qed.

(* a step that does not come with EOF is followed by the rest; with EOF nothing is left *)
Lemma crun_after st c0 se l r c1 se1 st1 c :
  all_but_last_nl (l :: r) = true -> (match st1 with SExtra _ _ => False | _ => True end) ->
  cstep st c0 se (negb (ends_nl l)) l = Ok (c1, se1, st1) -> crun st c0 se (l :: r) = Ok c -> crun st1 c1 se1 r = Ok c.
Proof.
  intros Ha Hst Hs H. rewrite crun_cons, Hs in H. destruct (ends_nl l) eqn:E; cbn [negb] in H; [exact H|].
  rewrite (abl_eof _ _ Ha E). inversion H; subst. destruct st1; try reflexivity. contradiction.
Qed.
