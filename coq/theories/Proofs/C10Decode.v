(* Proofs/C10Decode.v — C10_roundtrip, decode half: Decoder.Decode accepts git's
   idx layout of a well-formed table (whose 64-bit table respects git's size
   bound) and builds the bucketed MemoryIndex [spec_index]: fanout, mapping,
   per-bucket chunks of the three tables, the 64-bit table and both checksums. *)
From Coq Require Import List NArith ZArith Bool Lia ZifyBool ZifyNat ZifyN Sorting.Sorted.
From GoGit Require Import Base.Out Base.GoInt Model.PackBytes Model.Idx Gen.C10 Spec.IdxFormat
  Proofs.C10Search Proofs.C10Order Proofs.C10Bytes Proofs.C10Table Proofs.C10Layout Proofs.C10Lazy Proofs.C10Splits.
Import ListNotations.
Local Open Scope N_scope.
Ltac Zify.zify_post_hook ::= Z.div_mod_to_equations.

(* ---- the overflow-checked size formula (regenerated leaves) on realistic values ---- *)

Lemma wraps64_small z : (0 <= z < 9223372036854775808)%Z -> wraps 64 z = z.
Proof.
  intros Hz. unfold wraps. change (2 ^ 64)%Z with 18446744073709551616%Z.
  change (2 ^ (64 - 1))%Z with 9223372036854775808%Z.
  rewrite Z.mod_small by lia. replace (z <? 9223372036854775808)%Z with true by lia. reflexivity.
Qed.

Lemma mulInt64_ok a b : (0 <= a)%Z -> (0 <= b)%Z -> (a * b < 9223372036854775808)%Z ->
  idxfile_mulInt64 a b = ((a * b)%Z, true).
Proof.
  intros Ha Hb Hab. unfold idxfile_mulInt64.
  replace ((a <? 0)%Z || (b <? 0)%Z) with false by lia.
  destruct ((a =? 0)%Z || (b =? 0)%Z) eqn:E0.
  - f_equal. apply orb_true_iff in E0. destruct E0 as [E|E]; apply Z.eqb_eq in E; subst; [reflexivity|now rewrite Z.mul_0_r].
  - assert (Hnn : (0 <= a * b)%Z) by (apply Z.mul_nonneg_nonneg; lia).
    apply orb_false_iff in E0. destruct E0 as [Ea Eb]. apply Z.eqb_neq in Ea, Eb.
    cbv zeta. rewrite (wraps64_small (a * b)) by lia.
    assert (Hq : Z.quot (a * b) b = a) by (apply Z.quot_mul; lia).
    rewrite Hq, (wraps64_small a).
    + replace (a =? a)%Z with true by lia. reflexivity.
    + split; [lia|]. assert (a <= a * b)%Z by nia. lia.
Qed.

Lemma addInt64_ok a b : (0 <= a)%Z -> (0 <= b)%Z -> (a + b < 9223372036854775808)%Z ->
  idxfile_addInt64 a b = ((a + b)%Z, true).
Proof.
  intros Ha Hb Hab. unfold idxfile_addInt64.
  replace ((a <? 0)%Z || (b <? 0)%Z) with false by lia.
  cbv zeta. rewrite wraps64_small by lia. replace (a + b <? a)%Z with false by lia. reflexivity.
Qed.

Lemma size_ok_layout hs nr nbig :
  (hs <= 64)%nat -> nr < 2147483648 -> (nr = 0 /\ nbig = 0 \/ 0 < nr /\ nbig <= nr - 1) ->
  size_ok hs nr (1032 + nr * N.of_nat hs + nr * 4 + nr * 4 + nbig * 8 + N.of_nat hs + N.of_nat hs) = true.
Proof.
  intros Hh Hn Hb. unfold size_ok, max_idx_size, min_idx_size.
  change idxfile_crc32Len with 4%Z. change idxfile_offset32Len with 4%Z. change idxfile_headerLen with 8%Z.
  change idxfile_fanoutLen with 1024%Z. change idxfile_trailerHashes with 2%Z. change idxfile_offset64Len with 8%Z.
  rewrite mulInt64_ok by nia. cbn [negb].
  rewrite addInt64_ok by nia. cbn [negb].
  match goal with |- context [(?m <? 0)%Z] => replace (m <? 0)%Z with false by nia end.
  destruct (Z.of_N nr =? 0)%Z eqn:E0.
  - cbn [orb]. match goal with |- context [(?m <? 0)%Z] => replace (m <? 0)%Z with false by nia end.
    apply negb_true_iff, orb_false_iff. split; nia.
  - rewrite mulInt64_ok by nia. cbn [negb]. rewrite addInt64_ok by nia. cbn [negb orb].
    match goal with |- context [(?m <? 0)%Z] => replace (m <? 0)%Z with false by nia end.
    apply negb_true_iff, orb_false_iff. split; nia.
Qed.

(* ---- sequential reading of the fanout table ---- *)

Lemma read_fanout_flat : forall l rest prev acc,
  nondec prev l -> (forall x, In x l -> x < 4294967296) ->
  read_fanout (List.length l) (flat_map be32 l ++ rest) prev acc = Some (rev acc ++ l, rest).
Proof.
  induction l as [|x l IH]; intros rest prev acc Hn Hb; cbn [List.length read_fanout flat_map].
  - now rewrite app_nil_r.
  - destruct Hn as [Hp Hn]. rewrite <- app_assoc.
    rewrite (take_app_n 4 (be32 x)) by reflexivity.
    rewrite get32_be32' by (apply Hb; now left).
    replace (x <? prev) with false by lia.
    rewrite IH by (try assumption; intros; apply Hb; now right).
    cbn [rev]. now rewrite <- app_assoc.
Qed.

Lemma nondec_N prev l : nondec prev l -> nondecN prev l.
Proof. revert prev. induction l as [|x l IH]; intros prev Hn; [exact I|]. destruct Hn. split; auto. Qed.

(* number of top-bit codes in the chunks = in the whole table *)
Lemma count_msb_flat : forall codes,
  (forall c, In c codes -> c < 4294967296) ->
  count_msb (List.length codes) (flat_map be32 codes)
  = N.of_nat (List.length (filter (fun c => P31 <=? c) codes)).
Proof.
  induction codes as [|c l IH]; intros Hb; [reflexivity|].
  cbn [List.length count_msb flat_map filter].
  replace (skipn 4 (be32 c ++ flat_map be32 l)) with (flat_map be32 l) by reflexivity.
  rewrite IH by (intros; apply Hb; now right).
  assert (Hc : c < 4294967296) by (apply Hb; now left).
  replace (hd 0 (be32 c ++ flat_map be32 l)) with (c / 16777216 mod 256) by reflexivity.
  destruct (P31 <=? c) eqn:E; unfold P31 in E.
  - replace (128 <=? c / 16777216 mod 256) with true by lia. cbn [List.length]. lia.
  - replace (128 <=? c / 16777216 mod 256) with false by lia. lia.
Qed.

Lemma filter_splits_count {A} (p : A -> bool) : forall sizes (l : list A),
  nsum sizes = List.length l ->
  fold_right N.add 0 (map (fun g => N.of_nat (List.length (filter p g))) (splits sizes l))
  = N.of_nat (List.length (filter p l)).
Proof.
  induction sizes as [|s r IH]; intros l Hs; cbn [splits map fold_right nsum] in *.
  - destruct l; [reflexivity|discriminate].
  - rewrite IH by (rewrite skipn_length; lia).
    rewrite <- (firstn_skipn s l) at 3. rewrite filter_app, app_length. lia.
Qed.

Section Decode.
Variable hs : nat.
Variable Hsz : nat -> bytes -> bytes.
Variable tbl : list entry.
Variable pack : bytes.
Hypothesis WF : wf_tbl hs tbl.
Hypothesis Hpack : List.length pack = hs.
Hypothesis Hhs : (hs <= 64)%nat.
Hypothesis Hdigest : forall b, List.length (Hsz hs b) = hs.
(* git's bound on the 64-bit table: the first object of a pack is at offset 12 *)
Hypothesis Hbig : N.of_nat (List.length tbl) = 0 \/ n_big tbl + 1 <= N.of_nat (List.length tbl).

Let H := Hsz hs.
Let n : N := N.of_nat (List.length tbl).
Let HS : N := N.of_nat hs.
Let file := idx_file H tbl pack.
Set Default Proof Using "hs Hsz tbl pack WF Hpack Hhs Hdigest Hbig".

Let FileEq := file_eq hs H tbl pack WF Hpack.
Let BFan := blen_FAN hs H tbl pack WF Hpack.
Let BNames := blen_NAMES hs H tbl pack WF Hpack.
Let BCrc := blen_CRC hs H tbl pack WF Hpack.
Let BO32 := blen_O32 hs H tbl pack WF Hpack.
Let BO64 := blen_O64 hs H tbl pack WF Hpack.
Let BPack := blen_pack hs H tbl pack WF Hpack.
Let CountAll := count_all hs H tbl pack WF Hpack.

(* the per-bucket object counts and chunk sizes *)
Definition counts : list N := bucket_counts (fanout_of tbl) 0.
Definition sizes : list nat := nz_sizes counts.
Definition codes : list N := off32_codes tbl 0.

(* the MemoryIndex git's layout decodes to *)
Definition spec_index (sum : bytes) : memidx :=
  mkM (fanout_of tbl) (fmap_of_counts counts 0)
      (zip_buckets (map (flat_map e_hash) (splits sizes tbl))
                   (map (flat_map (fun e => be32 (e_crc e))) (splits sizes tbl))
                   (map (flat_map be32) (splits sizes codes)))
      (S_O64 tbl) pack sum.

Lemma fan_nondec : nondec 0 (fanout_of tbl).
Proof. unfold fanout_of. apply nondec_map_seq; [lia|]. intros i. apply count_le_mono. lia. Qed.

Lemma fan_bound x : In x (fanout_of tbl) -> x < 4294967296.
Proof.
  unfold fanout_of. rewrite in_map_iff. intros (k & <- & _).
  pose proof (count_le_le tbl (N.of_nat k)). pose proof (wf_count _ _ WF). lia.
Qed.

Lemma fan_last : last (fanout_of tbl) 0 = n.
Proof.
  unfold fanout_of. change 256%nat with (255 + 1)%nat. rewrite seq_app, map_app. cbn [seq map plus].
  rewrite last_last. change (N.of_nat 255) with 255. exact CountAll.
Qed.

Lemma sizes_sum : nsum sizes = List.length tbl.
Proof.
  pose proof (nz_sizes_sum counts) as E. unfold sizes. unfold counts in E at 2.
  rewrite bucket_counts_sum in E by (apply nondec_N, fan_nondec). rewrite fan_last in E. unfold n in E. lia.
Qed.

Lemma codes_len : List.length codes = List.length tbl.
Proof. apply off32_codes_length. Qed.

Lemma n_big_le' : n_big tbl <= n.
Proof.
  unfold n_big, n. assert (List.length (filter is_big tbl) <= List.length tbl)%nat.
  { clear. induction tbl as [|e l IH]; cbn; [lia|]. destruct (is_big e); cbn; lia. }
  lia.
Qed.

Lemma codes_bound c : In c codes -> c < 4294967296.
Proof.
  apply (off32_codes_bound tbl 0).
  - pose proof n_big_le'. pose proof (wf_count _ _ WF). unfold n in *. lia.
  - intros e He Hb. unfold is_big in Hb. lia.
Qed.

Lemma nz_map : map (fun c => c * HS) (filter (fun c => negb (c =? 0)) counts)
             = map (fun s => N.of_nat s * HS) sizes.
Proof. unfold sizes, nz_sizes. rewrite map_map. apply map_ext. intros c. now rewrite N2Nat.id. Qed.

Lemma nz_map4 : map (fun c => c * 4) (filter (fun c => negb (c =? 0)) counts)
              = map (fun s => N.of_nat s * 4) sizes.
Proof. unfold sizes, nz_sizes. rewrite map_map. apply map_ext. intros c. now rewrite N2Nat.id. Qed.

Theorem decode_layout : decode hs Hsz file = Ok (spec_index (S_SUM H tbl pack)).
Proof.
  unfold decode.
  assert (Hlen : blen file = 1032 + n * HS + n * 4 + n * 4 + n_big tbl * 8 + HS + HS).
  { unfold file. rewrite FileEq, !blen_app, BFan, BNames, BCrc, BO32, BO64, BPack.
    change (blen S_HDRB) with 8. unfold S_SUM, blen at 1. fold H. unfold H. rewrite Hdigest. unfold n, HS. lia. }
  cbv zeta. rewrite Hlen. unfold file at 1. rewrite FileEq. unfold S_HDRB. rewrite <- !app_assoc.
  rewrite (take_app_n 4 [255; 116; 79; 99]) by reflexivity.
  replace (bytes_eqb [255; 116; 79; 99] IDX_MAGIC) with true by reflexivity. cbn [negb].
  rewrite (take_app_n 4 (be32 2)) by reflexivity.
  replace (get32 (be32 2) =? IDX_VERSION) with true by reflexivity. cbn [negb].
  unfold S_FAN at 1. change NFANOUT with 256%nat.
  replace 256%nat with (List.length (fanout_of tbl)) at 1 by apply (fanout_length hs H tbl pack WF Hpack).
  rewrite read_fanout_flat by (apply fan_nondec || apply fan_bound). cbn [rev app].
  rewrite fan_last.
  rewrite size_ok_layout; [|exact Hhs|apply (wf_count _ _ WF)|].
  2:{ pose proof n_big_le'. destruct Hbig as [B|B]; fold n in B; [left; lia|right; lia]. }
  cbn [negb]. fold counts.
  (* the three tables, chunk by chunk *)
  fold HS. rewrite nz_map, nz_map4.
  rewrite (names_as_rec hs H tbl pack WF Hpack).
  rewrite (read_seq_splits (hash_rec hs) HS sizes tbl);
    [|apply (hash_rec_len hs H tbl pack WF Hpack)|exact sizes_sum].
  unfold S_CRC at 1.
  rewrite (read_seq_splits (fun e => be32 (e_crc e)) 4 sizes tbl); [|intros; apply blen_be32|exact sizes_sum].
  unfold S_O32 at 1. fold codes.
  rewrite (read_seq_splits be32 4 sizes codes); [|apply blen_be32|rewrite codes_len; exact sizes_sum].
  (* the number of 64-bit entries announced by the 32-bit table *)
  assert (Hcnt : fold_right N.add 0
            (map (fun o : bytes => count_msb (N.to_nat (blen o / 4)) o) (map (flat_map be32) (splits sizes codes)))
            = n_big tbl).
  { rewrite map_map.
    rewrite (map_ext_in _ (fun g => N.of_nat (List.length (filter (fun c => P31 <=? c) g)))).
    - rewrite filter_splits_count by (rewrite codes_len; exact sizes_sum).
      unfold codes, n_big. f_equal. apply big_codes_count; [|apply (wf_off _ _ WF)].
      pose proof n_big_le'. pose proof (wf_count _ _ WF). unfold n in *. lia.
    - intros g Hg.
      rewrite (blen_flat_map be32 4) by (intros; apply blen_be32).
      replace (N.to_nat (N.of_nat (List.length g) * 4 / 4)) with (List.length g) by lia.
      apply count_msb_flat. intros c Hc. apply codes_bound. eapply splits_incl; eauto. }
  rewrite Hcnt.
  rewrite (take_app_n (n_big tbl * 8) (S_O64 tbl)) by exact BO64.
  rewrite (take_app_n HS pack) by exact BPack.
  assert (Hs : blen (S_SUM H tbl pack) = HS).
  { unfold S_SUM, blen, HS. fold H. unfold H. now rewrite Hdigest. }
  rewrite <- (app_nil_r (S_SUM H tbl pack)) at 1. rewrite (take_app_n HS (S_SUM H tbl pack)) by exact Hs.
  (* the digest of everything read so far *)
  assert (Hbody : firstn (List.length file - List.length (S_SUM H tbl pack)) file = idx_body tbl pack).
  { unfold file, idx_file. cbv zeta. fold (S_SUM H tbl pack).
    rewrite app_length, Nat.add_sub, firstn_app, Nat.sub_diag, firstn_all. cbn [firstn]. now rewrite app_nil_r. }
  rewrite Hbody.
  replace (bytes_eqb (S_SUM H tbl pack) (Hsz hs (idx_body tbl pack))) with true
    by (symmetry; apply bytes_eqb_eq; reflexivity).
  cbn [negb]. unfold spec_index. do 3 f_equal.
  apply map_ext_in. intros g Hg. apply flat_map_ext_in'. intros e He.
  apply (hash_rec_in hs H tbl pack WF Hpack e). eapply splits_incl; eauto.
Qed.

End Decode.
