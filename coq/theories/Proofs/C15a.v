(* Proofs/C15a.v — values of the reference store: hex and text round trips
   (what is written to a loose file or a packed-refs line reads back as the
   same value). *)
From Coq Require Import List Arith NArith ZArith Bool String Lia ZifyBool ZifyNat ZifyN.
From GoGit Require Import Base.Out Model.RefStrings Model.RefName Model.RefGuard Model.RefStore Gen.C14 Proofs.C13.
Import ListNotations.
Local Open Scope N_scope.

Lemma symrefPrefix_val : symrefPrefix = [114;101;102;58;32].
Proof. reflexivity. Qed.

(* ---- hex ---- *)
Definition hexchar (c : N) : bool := ((48 <=? c) && (c <=? 57)) || ((97 <=? c) && (c <=? 102)).

Lemma hexv_hexc n : n < 16 -> hexv (hexc n) = Some n.
Proof.
  intros H. unfold hexv, hexc.
  destruct (n <? 10) eqn:E.
  - replace ((48 <=? 48 + n) && (48 + n <=? 57)) with true by lia. f_equal. lia.
  - replace ((48 <=? 87 + n) && (87 + n <=? 57)) with false by lia.
    replace ((97 <=? 87 + n) && (87 + n <=? 102)) with true by lia. f_equal. lia.
Qed.

Lemma hexchar_hexc n : n < 16 -> hexchar (hexc n) = true.
Proof. intros H. unfold hexchar, hexc. destruct (n <? 10) eqn:E; lia. Qed.

Definition bytes_ok (b : bytes) : bool := forallb (fun c => c <? 256) b.

Lemma decode_encode b : bytes_ok b = true -> decode_hex (encode_hex b) = Some b.
Proof.
  induction b as [|c b IH]; intros H; [reflexivity|].
  cbn [bytes_ok forallb] in H. apply andb_true_iff in H as [Hc H].
  cbn [encode_hex decode_hex].
  assert (H1 : c / 16 < 16) by (apply N.div_lt_upper_bound; lia).
  assert (H2 : c mod 16 < 16) by (apply N.mod_lt; lia).
  rewrite (hexv_hexc _ H1), (hexv_hexc _ H2), (IH H). f_equal. f_equal.
  rewrite (N.div_mod c 16) at 3 by lia. reflexivity.
Qed.

Lemma encode_len b : List.length (encode_hex b) = (2 * List.length b)%nat.
Proof. induction b as [|c b IH]; [reflexivity|]. cbn [encode_hex List.length]. lia. Qed.

Lemma encode_hexchars b : bytes_ok b = true -> forallb hexchar (encode_hex b) = true.
Proof.
  induction b as [|c b IH]; intros H; [reflexivity|].
  cbn [bytes_ok forallb] in H. apply andb_true_iff in H as [Hc H].
  cbn [encode_hex forallb].
  rewrite hexchar_hexc by (apply N.div_lt_upper_bound; lia).
  rewrite hexchar_hexc by (apply N.mod_lt; lia). cbn [andb]. auto.
Qed.

(* ---- canonical values ---- *)
(* an ObjectID as NewHash produces it from 40 or 64 hex digits *)
Definition hash_okb (h : bytes) (f : bool) : bool :=
  Nat.eqb (List.length h) 32 && bytes_ok h && (f || beqb (skipn 20 h) (repeat 0 12)).

Definition val_okb (v : refval) : bool :=
  match v with
  | VHash h f => hash_okb h f
  | VSym t => negb (beqb t []) && negb (is_space (last t 0))
  end.

Lemma bytes_ok_firstn k b : bytes_ok b = true -> bytes_ok (firstn k b) = true.
Proof.
  intros H. apply forallb_forall. intros x Hx. apply (proj1 (forallb_forall _ _) H).
  revert Hx. clear. revert k. induction b as [|y b IH]; intros [|k] Hx; cbn in *; try contradiction. destruct Hx as [->|Hx]; [now left|right; eauto].
Qed.

Lemma firstn_app_exact {A} (l r : list A) k : List.length l = k -> firstn k (l ++ r) = l.
Proof. intros <-. rewrite firstn_app, Nat.sub_diag, firstn_all. cbn. now rewrite app_nil_r. Qed.

Lemma hash_string_len h f : hash_okb h f = true ->
  List.length (hash_string h f) = if f then 64%nat else 40%nat.
Proof.
  unfold hash_okb, hash_string. intros H. apply andb_true_iff in H as [H _].
  apply andb_true_iff in H as [Hl _]. apply Nat.eqb_eq in Hl.
  rewrite encode_len, firstn_length, Hl. destruct f; reflexivity.
Qed.

Lemma new_hash_string h f : hash_okb h f = true -> new_hash (hash_string h f) = VHash h f.
Proof.
  intros H. pose proof (hash_string_len h f H) as HL.
  unfold hash_okb in H. apply andb_true_iff in H as [H Hz]. apply andb_true_iff in H as [Hl Hb].
  apply Nat.eqb_eq in Hl. unfold new_hash. rewrite HL. unfold hash_string.
  rewrite decode_encode by now apply bytes_ok_firstn.
  destruct f.
  - assert (E : firstn 32 h = h) by (rewrite <- Hl; apply firstn_all).
    rewrite E, firstn_app_exact by assumption. reflexivity.
  - cbn [orb] in Hz. apply beqb_eq in Hz.
    change (Nat.eqb 40 64) with false. f_equal.
    assert (E : firstn 20 h ++ zeros32 = h ++ repeat 0 20).
    { rewrite <- (firstn_skipn 20 h) at 2. rewrite Hz, <- app_assoc. reflexivity. }
    rewrite E. now apply firstn_app_exact.
Qed.

(* the hex text never looks like "ref: …", has no blanks and no '#' / '^' in front *)
Lemma hexchar_not c : hexchar c = true ->
  is_space c = false /\ (c =? 114) = false /\ (c =? 35) = false /\ (c =? 94) = false /\ (c =? 32) = false
  /\ (c =? 10) = false /\ (c =? 13) = false.
Proof. unfold hexchar, is_space. lia. Qed.

(* ---- TrimSpace ---- *)
Lemma trim_left_id s : is_space (hd 0 s) = false -> trim_left s = s.
Proof. destruct s as [|c r]; [reflexivity|]. cbn. now intros ->. Qed.

Lemma trim_space_lf s :
  s <> [] -> is_space (hd 0 s) = false -> is_space (last s 0) = false ->
  trim_space (s ++ [10]) = s.
Proof.
  intros Hne Hh Hl. unfold trim_space.
  assert (E1 : trim_left (s ++ [10]) = s ++ [10]).
  { apply trim_left_id. destruct s; [contradiction|exact Hh]. }
  rewrite E1, rev_app_distr. cbn [rev app trim_left]. change (is_space 10) with true. cbv iota.
  rewrite trim_left_id; [apply rev_involutive|].
  rewrite <- (last_hd_rev s 0). exact Hl.
Qed.

Lemma hd_app_ne (s t : bytes) d : s <> [] -> hd d (s ++ t) = hd d s.
Proof. destruct s; [contradiction|reflexivity]. Qed.

Lemma last_app_ne (s t : bytes) d : t <> [] -> last (s ++ t) d = last t d.
Proof.
  intros H. induction s as [|c s IH]; [reflexivity|]. cbn [app].
  destruct (s ++ t) as [|n l] eqn:E.
  - destruct s; [cbn in E; contradiction|discriminate].
  - change (last (c :: n :: l) d) with (last (n :: l) d). exact IH.
Qed.

Lemma forallb_hd (f : N -> bool) s d : s <> [] -> forallb f s = true -> f (hd d s) = true.
Proof. destruct s; [contradiction|]. cbn. intros _ H. now apply andb_true_iff in H as [H _]. Qed.

Lemma forallb_last (f : N -> bool) s d : s <> [] -> forallb f s = true -> f (last s d) = true.
Proof.
  intros Hne H. apply (proj1 (forallb_forall _ _) H). clear H.
  induction s as [|c s IH]; [contradiction|]. destruct s as [|c2 s]; [now left|].
  right. apply IH. discriminate.
Qed.

(* what SetRef writes is what readReferenceFrom reads *)
Lemma read_written v : val_okb v = true -> read_ref_content (ref_content v) = Ok v.
Proof.
  destruct v as [h f|t]; cbn [val_okb ref_content]; intros H.
  - pose proof (hash_string_len h f H) as HL.
    assert (Hb : bytes_ok (firstn (if f then 32 else 20)%nat h) = true).
    { unfold hash_okb in H. apply andb_true_iff in H as [H _]. apply andb_true_iff in H as [_ H].
      now apply bytes_ok_firstn. }
    pose proof (encode_hexchars _ Hb) as Hx. fold (hash_string h f) in Hx.
    assert (Hne : hash_string h f <> []) by (intros E; rewrite E in HL; destruct f; discriminate).
    unfold read_ref_content. destruct (hash_string h f ++ [10]) eqn:E; [destruct (hash_string h f); discriminate|].
    rewrite <- E. f_equal.
    rewrite trim_space_lf; try assumption.
    + unfold ref_from_strings. rewrite symrefPrefix_val.
      destruct (hash_string h f) as [|c r] eqn:EH; [contradiction|].
      cbn [has_prefix]. cbn [forallb] in Hx. apply andb_true_iff in Hx as [Hc _].
      destruct (hexchar_not c Hc) as [_ [Hr _]]. rewrite N.eqb_sym in Hr. rewrite Hr. cbn [andb].
      rewrite <- EH. now apply new_hash_string.
    + pose proof (forallb_hd hexchar _ 0 Hne Hx) as Hc. now destruct (hexchar_not _ Hc) as [Hs _].
    + pose proof (forallb_last hexchar _ 0 Hne Hx) as Hc. now destruct (hexchar_not _ Hc) as [Hs _].
  - apply andb_true_iff in H as [Hne Hl]. apply negb_true_iff in Hne, Hl. apply beqb_false in Hne.
    unfold read_ref_content. rewrite symrefPrefix_val.
    change (([114;101;102;58;32] ++ t ++ [10])) with (114 :: 101 :: 102 :: 58 :: 32 :: (t ++ [10])).
    cbv iota. f_equal.
    change (114 :: 101 :: 102 :: 58 :: 32 :: (t ++ [10])) with (([114;101;102;58;32] ++ t) ++ [10]).
    rewrite <- app_assoc. rewrite app_assoc.
    rewrite trim_space_lf.
    + unfold ref_from_strings. rewrite symrefPrefix_val. reflexivity.
    + discriminate.
    + reflexivity.
    + rewrite last_app_ne by assumption. exact Hl.
Qed.

(* ---- packed-refs lines ---- *)
Lemma split_none sep a : mem sep a = false -> split_on sep a = [a].
Proof.
  induction a as [|c a IH]; intros H; [reflexivity|].
  cbn [mem existsb] in H. apply orb_false_iff in H as [Hc H]. rewrite N.eqb_sym in Hc.
  cbn [split_on]. rewrite Hc. change (existsb (N.eqb sep) a) with (mem sep a) in H. now rewrite IH.
Qed.

Lemma split_nosep sep a b : mem sep a = false -> split_on sep (a ++ sep :: b) = a :: split_on sep b.
Proof.
  induction a as [|c a IH]; intros H.
  - cbn [app split_on]. now rewrite N.eqb_refl.
  - cbn [mem existsb] in H. apply orb_false_iff in H as [Hc H]. rewrite N.eqb_sym in Hc.
    change (existsb (N.eqb sep) a) with (mem sep a) in H.
    cbn [app split_on]. rewrite Hc, IH by assumption. reflexivity.
Qed.

Lemma mem_forallb_false (f : N -> bool) c s : forallb f s = true -> f c = false -> mem c s = false.
Proof.
  intros H Hc. unfold mem. destruct (existsb (N.eqb c) s) eqn:E; [|reflexivity].
  apply existsb_exists in E as [x [Hx Ex]]. apply N.eqb_eq in Ex. subst x.
  assert (f c = true) by (eapply forallb_forall in H; eauto). congruence.
Qed.

Lemma hash_string_hexchars h f : hash_okb h f = true -> forallb hexchar (hash_string h f) = true.
Proof.
  intros H. unfold hash_okb in H. apply andb_true_iff in H as [H _]. apply andb_true_iff in H as [_ H].
  apply encode_hexchars. now apply bytes_ok_firstn.
Qed.

Lemma hash_string_ne h f : hash_okb h f = true -> hash_string h f <> [].
Proof. intros H E. pose proof (hash_string_len h f H) as HL. rewrite E in HL. destruct f; discriminate. Qed.

Lemma ref_from_hash_string h f : hash_okb h f = true -> ref_from_strings (hash_string h f) = VHash h f.
Proof.
  intros H. unfold ref_from_strings. rewrite symrefPrefix_val.
  pose proof (hash_string_hexchars h f H) as Hx. pose proof (hash_string_ne h f H) as Hne.
  destruct (hash_string h f) as [|c r] eqn:EH; [contradiction|].
  cbn [has_prefix]. cbn [forallb] in Hx. apply andb_true_iff in Hx as [Hc _].
  destruct (hexchar_not c Hc) as [_ [Hr _]]. rewrite N.eqb_sym in Hr. rewrite Hr. cbn [andb].
  rewrite <- EH. now apply new_hash_string.
Qed.

(* what PackRefs writes for a hash reference is what processLine reads *)
Lemma process_line_render h f name :
  hash_okb h f = true -> mem 32 name = false ->
  process_line (hash_string h f ++ [32] ++ name) = Some (Some (name, VHash h f)).
Proof.
  intros H Hn. pose proof (hash_string_hexchars h f H) as Hx. pose proof (hash_string_ne h f H) as Hne.
  assert (H32 : mem 32 (hash_string h f) = false).
  { apply (mem_forallb_false hexchar); [assumption|reflexivity]. }
  unfold process_line.
  change (hash_string h f ++ [32] ++ name) with (hash_string h f ++ 32 :: name).
  rewrite split_nosep, split_none by assumption.
  destruct (hash_string h f) as [|c r] eqn:EH; [contradiction|]. cbn [app].
  cbn [forallb] in Hx. apply andb_true_iff in Hx as [Hc _].
  destruct (hexchar_not c Hc) as [_ [_ [H35 [H94 _]]]]. rewrite H35, H94. cbn [orb].
  rewrite <- EH. now rewrite ref_from_hash_string.
Qed.

(* Fprintln + bufio.ScanLines round trip for lines without CR / LF *)
Definition line_clean (l : bytes) : bool := negb (mem 10 l) && negb (mem 13 l).

Lemma strip_cr_id l : mem 13 l = false -> strip_cr l = l.
Proof.
  intros H. unfold strip_cr. destruct (rev l) as [|c r] eqn:E; [reflexivity|].
  destruct (c =? 13) eqn:Ec; [|reflexivity]. apply N.eqb_eq in Ec. subst c.
  assert (Hin : In 13 l) by (apply in_rev; rewrite E; now left).
  unfold mem in H. assert (existsb (N.eqb 13) l = true); [|congruence].
  apply existsb_exists. exists 13. split; [assumption|reflexivity].
Qed.

Lemma split_unlines ls : forallb line_clean ls = true -> split_on 10 (unlines ls) = ls ++ [[]].
Proof.
  induction ls as [|l r IH]; intros H; [reflexivity|].
  cbn [forallb] in H. apply andb_true_iff in H as [Hl H]. unfold line_clean in Hl.
  apply andb_true_iff in Hl as [H10 _]. apply negb_true_iff in H10.
  unfold unlines. cbn [flat_map]. rewrite <- app_assoc. cbn [app].
  rewrite split_nosep by assumption. fold (unlines r). now rewrite IH.
Qed.

Lemma scan_unlines ls : forallb line_clean ls = true -> scan_lines (unlines ls) = ls.
Proof.
  intros H. unfold scan_lines. rewrite split_unlines by assumption.
  rewrite rev_app_distr. cbn [rev app]. rewrite rev_involutive.
  rewrite <- (map_id ls) at 2. apply map_ext_in. intros l Hl. apply strip_cr_id.
  assert (line_clean l = true) by (eapply forallb_forall in H; eauto).
  unfold line_clean in *. apply andb_true_iff in H0 as [_ H0]. now apply negb_true_iff in H0.
Qed.
