(* Proofs/C14.v — a name accepted by validReferenceName is a path that resolves
   lexically to itself inside the reference slots, on POSIX, NTFS and HFS+;
   every path of the footprint model inherits that. *)
From Coq Require Import List Arith NArith ZArith Bool String Lia ZifyBool ZifyNat ZifyN.
From GoGit Require Import Base.Out Model.RefStrings Model.RefName Model.RefGuard Model.RefStore Model.RefPaths
  Spec.PathRes Gen.C14 Proofs.C13.
Import ListNotations.
Local Open Scope N_scope.

(* ---- interface lemmas for the regenerated constants and the leaf ---- *)
Lemma is_path_sep_spec c : is_path_sep c = (c =? 47) || (c =? 92).
Proof. unfold is_path_sep, dotgit_isPathSep. lia. Qed.
Lemma refPrefix_val : RefName.refPrefix = [114;101;102;115;47].
Proof. reflexivity. Qed.
Lemma refsDir_val : refsDir = [114;101;102;115].
Proof. reflexivity. Qed.
Lemma HEADp_val : HEADp = [72;69;65;68].
Proof. reflexivity. Qed.
Lemma packed_val : packedRefsPath = [112;97;99;107;101;100;45;114;101;102;115].
Proof. reflexivity. Qed.
Lemma logs_val : logsPath = [108;111;103;115].
Proof. reflexivity. Qed.

(* ---- HFS+ folding ---- *)
Lemma skip_ignored_len s : (List.length (skip_ignored s) <= List.length s)%nat.
Proof.
  remember (List.length s) as n eqn:E. revert s E.
  induction n as [n IH] using lt_wf_ind. intros s E.
  destruct s as [|a [|b [|c r]]]; cbn [skip_ignored]; try lia.
  destruct (hfs_ignored a b c); [|lia].
  specialize (IH (List.length r)). cbn [List.length] in E.
  assert (H : (List.length r < n)%nat) by lia. specialize (IH H r eq_refl). cbn [List.length]. lia.
Qed.

Lemma hfs_fold_skip s : hfs_fold s = hfs_fold (skip_ignored s).
Proof.
  remember (List.length s) as n eqn:E. revert s E.
  induction n as [n IH] using lt_wf_ind. intros s E.
  destruct s as [|a [|b [|c r]]]; try reflexivity.
  cbn [skip_ignored hfs_fold]. destruct (hfs_ignored a b c) eqn:EI.
  - apply (IH (List.length r)); [cbn [List.length] in E; lia|reflexivity].
  - cbn [hfs_fold]. rewrite EI. reflexivity.
Qed.

(* after skipping, the head (if any) is kept by the fold *)
Lemma hfs_fold_after_skip s :
  hfs_fold (skip_ignored s) =
  match skip_ignored s with [] => [] | a :: t => a :: hfs_fold t end.
Proof.
  remember (List.length s) as n eqn:E. revert s E.
  induction n as [n IH] using lt_wf_ind. intros s E.
  destruct s as [|a [|b [|c r]]]; try reflexivity.
  cbn [skip_ignored]. destruct (hfs_ignored a b c) eqn:EI.
  - apply (IH (List.length r)); [cbn [List.length] in E; lia|reflexivity].
  - cbn [hfs_fold]. rewrite EI. reflexivity.
Qed.

Lemma hfs_fold_nil s : beqb (hfs_fold s) [] = beqb (skip_ignored s) [].
Proof.
  rewrite hfs_fold_skip, hfs_fold_after_skip. destruct (skip_ignored s); reflexivity.
Qed.

Lemma is_hfs_dot_fold p : is_hfs_dot p = dotdot_on_hfs p.
Proof.
  unfold is_hfs_dot, dotdot_on_hfs. rewrite hfs_fold_skip, hfs_fold_after_skip.
  destruct (skip_ignored p) as [|c1 s2]; [reflexivity|].
  rewrite (hfs_fold_skip s2), hfs_fold_after_skip.
  cbn [beqb]. destruct (c1 =? 46) eqn:E1; [|reflexivity]. cbn [andb].
  destruct (skip_ignored s2) as [|c2 s4]; [reflexivity|].
  cbn [beqb]. destruct (c2 =? 46) eqn:E2; [|reflexivity]. cbn [andb].
  symmetry. apply hfs_fold_nil.
Qed.

(* ---- NTFS folding ---- *)
Lemma only_sp_dot_take r : only_sp_dot r = forallb sp_or_dot (take_colon r).
Proof.
  induction r as [|c r IH]; [reflexivity|]. cbn [only_sp_dot take_colon].
  destruct (c =? 58); [reflexivity|]. cbn [forallb]. unfold sp_or_dot at 1.
  destruct ((c =? 32) || (c =? 46)); [exact IH|reflexivity].
Qed.

Lemma drop_while_nil f s : beqb (drop_while f s) [] = forallb f s.
Proof.
  induction s as [|c s IH]; [reflexivity|]. cbn. destruct (f c); [exact IH|reflexivity].
Qed.

Lemma forallb_rev {A} (f : A -> bool) l : forallb f (rev l) = forallb f l.
Proof.
  destruct (forallb f l) eqn:E.
  - apply forallb_forall. intros x Hx. apply in_rev in Hx. eapply forallb_forall in E; eauto.
  - destruct (forallb f (rev l)) eqn:E'; [|reflexivity].
    assert (forallb f l = true); [|congruence].
    apply forallb_forall. intros x Hx. apply in_rev in Hx. eapply forallb_forall in E'; eauto.
Qed.

Lemma beqb_rev_nil (l : bytes) : beqb (rev l) [] = beqb l [].
Proof. destruct l as [|x l]; [reflexivity|]. cbn. destruct (rev l); reflexivity. Qed.

Lemma ntfs_stem_nil c : beqb (ntfs_stem c) [] = forallb sp_or_dot (take_colon c).
Proof. unfold ntfs_stem. now rewrite beqb_rev_nil, drop_while_nil, forallb_rev. Qed.

Lemma is_ntfs_dot_fold p : is_ntfs_dot p = dotdot_on_ntfs p.
Proof.
  unfold is_ntfs_dot, dotdot_on_ntfs. rewrite ntfs_stem_nil.
  destruct p as [|c0 [|c1 r]]; [reflexivity|cbn; now rewrite andb_false_r|].
  cbn [has_prefix]. rewrite (N.eqb_sym 46 c0), (N.eqb_sym 46 c1), andb_true_r.
  destruct (c0 =? 46) eqn:E0; [|reflexivity]. destruct (c1 =? 46) eqn:E1; [|reflexivity].
  apply N.eqb_eq in E0, E1. subst. cbn [andb take_colon forallb]. apply only_sp_dot_take.
Qed.

(* ---- components that resolve to themselves ---- *)
Definition comp_ok (c : bytes) : bool :=
  negb (beqb c [] || beqb c [46] || beqb c [46; 46] || is_hfs_dot c || is_ntfs_dot c).

Lemma view_ok c : comp_ok c = true -> view c = c.
Proof.
  unfold comp_ok, view. rewrite <- is_hfs_dot_fold, <- is_ntfs_dot_fold. intros H.
  apply negb_true_iff in H. repeat (apply orb_false_iff in H as [H ?]).
  now replace (is_ntfs_dot c) with false; replace (is_hfs_dot c) with false.
Qed.

Lemma resolve_id cs : forall st,
  forallb comp_ok cs = true -> resolve (map view cs) st = Some (rev st ++ cs).
Proof.
  induction cs as [|c cs IH]; intros st H.
  - cbn. now rewrite app_nil_r.
  - cbn [forallb] in H. apply andb_true_iff in H as [Hc H].
    cbn [map resolve]. rewrite (view_ok _ Hc).
    unfold comp_ok in Hc. apply negb_true_iff in Hc.
    repeat (apply orb_false_iff in Hc as [Hc ?]).
    replace (beqb c []) with false by congruence. replace (beqb c [46]) with false by congruence.
    replace (beqb c [46; 46]) with false by congruence. cbn [orb].
    rewrite IH by assumption. cbn [rev]. now rewrite <- app_assoc.
Qed.

Definition path_ok (p : bytes) : bool :=
  negb (mem 92 p) && forallb comp_ok (split_on 47 p) && slot (split_on 47 p).

(* ---- FieldsFunc(name, isPathSep) is the '/'-split when there is no
        backslash and no empty component ---- *)
Lemma fields_split s : forall cur,
  mem 92 s = false ->
  (cur <> [] \/ hd [] (split_on 47 s) <> []) ->
  forallb (fun c => negb (beqb c [])) (tl (split_on 47 s)) = true ->
  fields_func is_path_sep s cur = (rev cur ++ hd [] (split_on 47 s)) :: tl (split_on 47 s).
Proof.
  induction s as [|c r IH]; intros cur Hb Hh Ht.
  - cbn. destruct cur as [|x cur]; [destruct Hh as [Hh|Hh]; [congruence|cbn in Hh; congruence]|].
    now rewrite app_nil_r.
  - cbn [mem existsb] in Hb. apply orb_false_iff in Hb as [Hc Hb]. rewrite N.eqb_sym in Hc.
    change (existsb (N.eqb 92) r) with (mem 92 r) in Hb.
    cbn [fields_func split_on]. rewrite is_path_sep_spec, Hc, orb_false_r.
    pose proof (split_nonempty 47 r) as Hne.
    cbn [split_on] in Hh, Ht.
    destruct (c =? 47) eqn:E.
    + cbn [hd tl] in *. destruct Hh as [Hh|Hh]; [|congruence].
      destruct (split_on 47 r) as [|f fs] eqn:ES; [contradiction|].
      cbn [forallb] in Ht. apply andb_true_iff in Ht as [Hf Ht].
      assert (Hfne : f <> []) by (intros ->; discriminate).
      specialize (IH [] Hb). cbn [hd tl rev app] in IH.
      rewrite IH by (auto). rewrite app_nil_r. destruct cur; [congruence|reflexivity].
    + destruct (split_on 47 r) as [|f fs] eqn:ES; [contradiction|].
      cbn [hd tl] in *. specialize (IH (c :: cur) Hb). cbn [hd tl] in IH.
      rewrite IH; [|left; discriminate|assumption]. cbn [rev]. now rewrite <- app_assoc.
Qed.

Lemma split_cons_hd s : split_on 47 s = hd [] (split_on 47 s) :: tl (split_on 47 s).
Proof. pose proof (split_nonempty 47 s). destruct (split_on 47 s); [contradiction|reflexivity]. Qed.

Lemma fields_split0 s :
  mem 92 s = false -> forallb (fun c => negb (beqb c [])) (split_on 47 s) = true ->
  fields_func is_path_sep s [] = split_on 47 s.
Proof.
  intros Hb Ha. rewrite (split_cons_hd s) in Ha. cbn [forallb] in Ha.
  apply andb_true_iff in Ha as [Hh Ht].
  rewrite fields_split; [cbn [rev app]; symmetry; apply split_cons_hd|assumption| |assumption].
  right. intros E. rewrite E in Hh. discriminate.
Qed.

Lemma mem_app c a b : mem c (a ++ b) = mem c a || mem c b.
Proof. unfold mem. apply existsb_app. Qed.

Lemma contains1_mem c s : contains [c] s = mem c s.
Proof. unfold mem. apply contains1. Qed.

Lemma cut_prefix_split p : forall s rest, cut_prefix p s = Some rest -> s = p ++ rest.
Proof.
  induction p as [|x p IH]; intros s rest H; cbn in H.
  - now injection H as <-.
  - destruct s as [|y s]; [discriminate|]. destruct (x =? y) eqn:E; [|discriminate].
    apply N.eqb_eq in E. subst y. cbn. f_equal. now apply IH.
Qed.

(* all-caps names: one component, nothing to fold *)
Lemma caps_no c s : forallb is_caps s = true -> is_caps c = false -> mem c s = false.
Proof.
  intros H Hc. unfold mem. destruct (existsb (N.eqb c) s) eqn:E; [|reflexivity].
  apply existsb_exists in E as [x [Hx Ex]]. apply N.eqb_eq in Ex. subst x.
  assert (H2 : is_caps c = true) by (eapply forallb_forall in H; eauto). congruence.
Qed.

Lemma split_no_sep s : mem 47 s = false -> split_on 47 s = [s].
Proof.
  induction s as [|c r IH]; intros H; [reflexivity|].
  cbn [mem existsb] in H. apply orb_false_iff in H as [Hc H]. rewrite N.eqb_sym in Hc.
  cbn [split_on]. rewrite Hc. change (existsb (N.eqb 47) r) with (mem 47 r) in H.
  now rewrite IH.
Qed.

Lemma caps_comp_ok s : s <> [] -> forallb is_caps s = true -> comp_ok s = true.
Proof.
  intros Hne H. destruct s as [|c r]; [contradiction|]. cbn [forallb] in H.
  apply andb_true_iff in H as [Hc _].
  assert (E46 : (c =? 46) = false) by (unfold is_caps in Hc; lia).
  assert (E226 : (c =? 226) = false) by (unfold is_caps in Hc; lia).
  assert (E239 : (c =? 239) = false) by (unfold is_caps in Hc; lia).
  unfold comp_ok. cbn [beqb]. rewrite E46. cbn [andb orb].
  assert (Hh : is_hfs_dot (c :: r) = false).
  { unfold is_hfs_dot.
    assert (Hs : skip_ignored (c :: r) = c :: r).
    { destruct r as [|b [|d r']]; try reflexivity. cbn [skip_ignored]. unfold hfs_ignored.
      rewrite E226, E239. reflexivity. }
    rewrite Hs, E46. reflexivity. }
  assert (Hn : is_ntfs_dot (c :: r) = false).
  { unfold is_ntfs_dot. destruct r; [reflexivity|]. now rewrite E46. }
  now rewrite Hh, Hn.
Qed.

Lemma guard_sound n : valid_reference_name n = true ->
  mem 92 n = false /\ forallb comp_ok (split_on 47 n) = true /\ ref_slot (split_on 47 n) = true.
Proof.
  unfold valid_reference_name. intros H.
  apply andb_true_iff in H as [H Hparts]. apply andb_true_iff in H as [Hsafe Hctrl].
  apply negb_true_iff in Hparts.
  unfold is_safe in Hsafe. destruct n as [|n0 n'] eqn:En; [discriminate|]. rewrite <- En in *.
  destruct (cut_prefix RefName.refPrefix n) as [rest|] eqn:EC.
  - (* refs/<rest> *)
    apply cut_prefix_split in EC. rewrite refPrefix_val in EC.
    destruct rest as [|r0 r']; [discriminate|]. set (rest := r0 :: r') in *.
    destruct (contains [BSLASH] rest) eqn:EB; [discriminate|].
    unfold BSLASH in EB. rewrite contains1_mem in EB.
    assert (Hb : mem 92 n = false) by (rewrite EC, mem_app, EB; reflexivity).
    assert (ES : split_on 47 n = [114;101;102;115] :: split_on 47 rest).
    { rewrite EC. change ([114;101;102;115;47] ++ rest) with (114::101::102::115::47::rest).
      cbn [split_on]. change (114 =? 47) with false. change (101 =? 47) with false.
      change (102 =? 47) with false. change (115 =? 47) with false. change (47 =? 47) with true.
      cbv iota. pose proof (split_nonempty 47 rest). destruct (split_on 47 rest); [contradiction|reflexivity]. }
    assert (Hne : forallb (fun c => negb (beqb c [])) (split_on 47 n) = true).
    { rewrite ES. cbn [forallb beqb negb andb]. apply forallb_forall. intros c Hc.
      eapply forallb_forall in Hsafe; eauto. unfold SLASH in Hsafe.
      apply negb_true_iff in Hsafe. apply orb_false_iff in Hsafe as [Hs _].
      apply orb_false_iff in Hs as [Hs _]. now rewrite Hs. }
    rewrite fields_split0 in Hparts by assumption.
    split; [assumption|]. split.
    + apply forallb_forall. intros c Hc.
      assert (Hpe : part_escapes c = false).
      { destruct (part_escapes c) eqn:E; [|reflexivity].
        assert (existsb part_escapes (split_on 47 n) = true); [|congruence].
        apply existsb_exists. now exists c. }
      unfold part_escapes in Hpe. apply orb_false_iff in Hpe as [Hpe Hnt].
      apply orb_false_iff in Hpe as [Hdot Hhf].
      eapply forallb_forall in Hne; eauto. apply negb_true_iff in Hne.
      assert (Hdd : beqb c [46;46] = false).
      { rewrite ES in Hc. destruct Hc as [<-|Hc]; [reflexivity|].
        eapply forallb_forall in Hsafe; eauto. unfold DOT in Hsafe.
        apply negb_true_iff in Hsafe. now apply orb_false_iff in Hsafe as [_ Hs]. }
      unfold comp_ok. now rewrite Hne, Hdot, Hdd, Hhf, Hnt.
    + rewrite ES. unfold ref_slot. destruct (split_on 47 rest); reflexivity.
  - (* an all-caps pseudo-ref *)
    assert (H47 : mem 47 n = false) by (apply (caps_no 47 n Hsafe); reflexivity).
    assert (H92 : mem 92 n = false) by (apply (caps_no 92 n Hsafe); reflexivity).
    rewrite (split_no_sep n H47). split; [assumption|].
    assert (Hne : n <> []) by (rewrite En; discriminate).
    split.
    + cbn [forallb]. rewrite (caps_comp_ok n Hne Hsafe). reflexivity.
    + unfold ref_slot, caps_name. rewrite Hsafe.
      destruct (beqb n []) eqn:E; [apply beqb_eq in E; contradiction|]. now rewrite orb_true_r.
Qed.

Lemma valid_path_ok n : valid_reference_name n = true -> path_ok n = true.
Proof.
  intros H. destruct (guard_sound n H) as [Hb [Hc Hs]]. unfold path_ok. rewrite Hb, Hc. cbn [negb andb].
  unfold slot. destruct (split_on 47 n) as [|c [|c2 r]] eqn:E; [discriminate| |].
  - now rewrite Hs, !orb_true_r.
  - cbn [ref_slot] in Hs. apply beqb_eq in Hs. subst c. reflexivity.
Qed.

(* ---- ancestors of a path ---- *)
Lemma split_app a : forall b, split_on 47 (a ++ 47 :: b) = split_on 47 a ++ split_on 47 b.
Proof.
  induction a as [|c a IH]; intros b.
  - reflexivity.
  - cbn [app split_on]. rewrite IH. destruct (c =? 47); [reflexivity|].
    pose proof (split_nonempty 47 a). destruct (split_on 47 a); [contradiction|reflexivity].
Qed.

Lemma parents_from_spec s : forall pre q,
  In q (parents_from pre s) -> exists s1 s2, s = s1 ++ 47 :: s2 /\ q = rev pre ++ s1.
Proof.
  induction s as [|c r IH]; intros pre q H; [contradiction|].
  cbn [parents_from] in H. destruct (c =? 47) eqn:E.
  - apply N.eqb_eq in E. subst c. destruct H as [<-|H].
    + exists [], r. split; [reflexivity|now rewrite app_nil_r].
    + destruct (IH _ _ H) as [s1 [s2 [-> ->]]]. exists (47 :: s1), s2. split; [reflexivity|].
      cbn [rev]. now rewrite <- app_assoc.
  - destruct (IH _ _ H) as [s1 [s2 [-> ->]]]. exists (c :: s1), s2. split; [reflexivity|].
    cbn [rev]. now rewrite <- app_assoc.
Qed.

Lemma parents_spec p q : In q (parents p) -> exists t, p = q ++ 47 :: t.
Proof.
  intros H. destruct (parents_from_spec _ _ _ H) as [s1 [s2 [-> ->]]]. now exists s2.
Qed.

Lemma slot_prefix l1 l2 : slot (l1 ++ l2) = true -> l1 <> [] -> l2 <> [] -> slot l1 = true.
Proof.
  intros H H1 H2. destruct l1 as [|c l1]; [contradiction|]. clear H1.
  destruct l1 as [|d l1].
  - destruct l2 as [|e l2]; [contradiction|]. cbn [app] in H. cbn [slot] in *.
    destruct (beqb c LOGS) eqn:EL; [reflexivity|]. cbn [ref_slot] in *. rewrite H.
    destruct (beqb c PACKED); reflexivity.
  - cbn [app] in H. cbn [slot] in *. destruct (beqb c LOGS) eqn:EL.
    + destruct l1 as [|e l1].
      * destruct l2 as [|e l2]; [contradiction|]. cbn [app ref_slot] in *. now rewrite H.
      * exact H.
    + exact H.
Qed.

Lemma path_ok_prefix q t : path_ok (q ++ 47 :: t) = true -> path_ok q = true.
Proof.
  unfold path_ok. rewrite split_app, mem_app, forallb_app. intros H.
  apply andb_true_iff in H as [H Hs]. apply andb_true_iff in H as [Hm Hc].
  apply negb_true_iff in Hm. apply orb_false_iff in Hm as [Hm _].
  apply andb_true_iff in Hc as [Hc _]. rewrite Hm, Hc. cbn [negb andb].
  apply (slot_prefix _ _ Hs); apply split_nonempty.
Qed.

Lemma path_ok_parent p q : path_ok p = true -> In q (parents p) -> path_ok q = true.
Proof. intros Hp Hq. destruct (parents_spec _ _ Hq) as [t ->]. eapply path_ok_prefix; eauto. Qed.

Lemma log_path_ok n : valid_reference_name n = true -> path_ok (log_path n) = true.
Proof.
  intros H. destruct (guard_sound n H) as [Hb [Hc Hs]].
  unfold path_ok, log_path. rewrite logs_val.
  change ([108;111;103;115] ++ [47] ++ n) with ([108;111;103;115] ++ 47 :: n).
  assert (Hm : mem 92 ([108;111;103;115] ++ 47 :: n) = false).
  { rewrite mem_app. change (mem 92 (47 :: n)) with ((92 =? 47) || mem 92 n). now rewrite Hb. }
  rewrite split_app, Hm, forallb_app, Hc.
  change (split_on 47 [108;111;103;115]) with [[108;111;103;115]].
  assert (Hl : comp_ok [108;111;103;115] = true) by reflexivity.
  cbn [forallb]. rewrite Hl. cbn [orb negb andb app].
  pose proof (split_nonempty 47 n) as Hne. destruct (split_on 47 n) as [|c r] eqn:E; [contradiction|].
  cbn [slot]. change (beqb [108;111;103;115] LOGS) with true. cbv iota. exact Hs.
Qed.

Lemma last_in {A} (l : list A) d : l <> [] -> In (last l d) l.
Proof.
  induction l as [|x l IH]; [contradiction|]. intros _. destruct l as [|y l]; [now left|].
  right. apply IH. discriminate.
Qed.

Lemma parents_log_nonempty n : parents (log_path n) <> [].
Proof.
  unfold log_path, parents. rewrite logs_val. cbn [app parents_from].
  change (108 =? 47) with false. change (111 =? 47) with false. change (103 =? 47) with false.
  change (115 =? 47) with false. change (47 =? 47) with true. cbv iota. discriminate.
Qed.

Lemma touched_ok o pop n p :
  (pop = true -> valid_reference_name n = true) ->
  (guarded o = true -> valid_reference_name n = true) ->
  In p (touched o pop n) -> p = TMP \/ path_ok p = true.
Proof.
  intros Hpop Hg Hin.
  assert (Hpk : path_ok packedRefsPath = true) by reflexivity.
  assert (Hhd : path_ok HEADp = true) by reflexivity.
  assert (Hrd : path_ok refsDir = true) by reflexivity.
  assert (Hwalk : forall q, In q (walk_paths pop n) -> path_ok q = true).
  { intros q Hq. unfold walk_paths in Hq. destruct Hq as [<-|Hq]; [assumption|].
    destruct (pop && under refsDir n) eqn:E; [|contradiction].
    apply andb_true_iff in E as [Ep _]. specialize (Hpop Ep).
    apply in_app_or in Hq as [Hq|[<-|[]]].
    - apply (path_ok_parent n q); [now apply valid_path_ok|assumption].
    - now apply valid_path_ok. }
  destruct o; cbn [touched guarded] in *.
  - destruct Hin as [<-|[]]. right. apply valid_path_ok. auto.
  - specialize (Hg eq_refl). destruct (pop || beqb n HEADp).
    + destruct Hin as [<-|[]]. right. now apply valid_path_ok.
    + destruct Hin as [<-|[<-|[]]]; right; [now apply valid_path_ok|assumption].
  - specialize (Hg eq_refl). destruct (pop || beqb n HEADp).
    + destruct Hin as [<-|[]]. right. now apply valid_path_ok.
    + destruct Hin as [<-|[<-|[]]]; right; [now apply valid_path_ok|assumption].
  - specialize (Hg eq_refl). destruct pop.
    + destruct Hin as [<-|[<-|[<-|[]]]]; [right; now apply valid_path_ok|right; assumption|now left].
    + destruct Hin as [<-|[<-|[]]]; right; [now apply valid_path_ok|assumption].
  - destruct Hin as [<-|[<-|Hin]]; right; auto.
  - destruct Hin as [<-|Hin]; [right; assumption|].
    apply in_app_or in Hin as [Hin|Hin]; [right; auto|].
    destruct (pop && under refsDir n); [destruct Hin as [<-|[]]; now left|contradiction].
  - destruct Hin as [<-|[]]. right. apply log_path_ok. auto.
  - specialize (Hg eq_refl). destruct Hin as [<-|[<-|[]]]; right.
    + unfold dir_of. apply (path_ok_parent (log_path n)); [now apply log_path_ok|].
      apply last_in. apply parents_log_nonempty.
    + now apply log_path_ok.
  - destruct Hin as [<-|[]]. right. apply log_path_ok. auto.
Qed.

Lemma footprint_confined o pop n l p :
  footprint o pop n = Some l -> In p l -> p = TMP \/ path_ok p = true.
Proof.
  unfold footprint. destruct (valid_reference_name n) eqn:Ev.
  - rewrite andb_false_r. intros H. injection H as <-. rewrite andb_true_r.
    apply touched_ok; auto.
  - rewrite andb_true_r. destruct (guarded o) eqn:Eg; [discriminate|].
    intros H. injection H as <-. rewrite andb_false_r.
    apply touched_ok; [discriminate|congruence].
Qed.

Lemma path_ok_resolves p : path_ok p = true ->
  mem 92 p = false /\
  resolve (map view (split_on 47 p)) [] = Some (split_on 47 p) /\
  slot (split_on 47 p) = true.
Proof.
  unfold path_ok. intros H. apply andb_true_iff in H as [H Hs]. apply andb_true_iff in H as [Hm Hc].
  apply negb_true_iff in Hm. repeat split; try assumption.
  now rewrite resolve_id.
Qed.
