(* Proofs/C51Decode.v — decode (encode g) = Ok g: the whole file read back through the reader model,
   and the size of the encoder's output. *)
From Coq Require Import List NArith ZArith Bool Lia ZifyBool ZifyN ZifyNat Permutation.
From GoGit Require Import Base.Out Gen.C51 Model.CommitGraph Proofs.BitPack Proofs.C51 Proofs.C51Reader
  Proofs.C51Bytes Proofs.C51Records Proofs.C51Roundtrip.
Import ListNotations.
Local Open Scope N_scope.

(* what a commit looks like after a round trip: MemoryIndex.Add resets GenerationV2 = MaxUint64 to 0, and
   a graph in which some commit has no generation v2 is written without generation data *)
Definition canon (g2 : bool) (e : centry) : centry :=
  mkEntry (e_hash e) (e_tree e) (e_parents e) (e_gen e) (if g2 then norm_gen2 e else 0) (e_when e).

Lemma map_nth_seq : forall (A : Type) (l : list A) d, map (fun i => nth i l d) (seq 0 (List.length l)) = l.
Proof.
  intros A l d. apply (nth_ext _ _ d d).
  - now rewrite map_length, seq_length.
  - intros n Hn. rewrite map_length, seq_length in Hn.
    rewrite (nth_indep _ d (nth 0 l d)) by (now rewrite map_length, seq_length).
    rewrite (map_nth (fun i => nth i l d) (seq 0 (List.length l)) 0%nat n). now rewrite seq_nth.
Qed.

Theorem decode_roundtrip : forall es trailer, wf_graph es -> List.length trailer = 20%nat ->
  decode (encode es ++ trailer) = Ok (has_gen2 es, map (canon (has_gen2 es)) (sorted_entries es)).
Proof.
  intros es trailer Hwf Htr.
  destruct (reader_accepts es trailer (rt_wff es Hwf) Htr) as [fi [Hopen [Hnc [Hg2 _]]]].
  unfold decode. rewrite Hopen, Hnc, Nat2N.id.
  set (nn := List.length (sorted_of es)).
  assert (Hall : forall l, (forall i, In i l -> (i < nn)%nat) ->
            decode_all (encode es ++ trailer) fi (map N.of_nat l)
            = Ok (map (fun i => canon (has_gen2 es) (nth i (sorted_entries es) dummy_entry)) l)).
  { induction l as [|i r IH]; intros Hl; [reflexivity|].
    cbn [map decode_all]. unfold decode_entry.
    assert (Hi : (i < nn)%nat) by (apply Hl; now left).
    rewrite (rt_hash_local es trailer Hwf Htr fi Hopen i Hi).
    rewrite (commit_readback es trailer Hwf Htr fi Hopen i Hi). cbn [d_tree d_phash d_gen d_gen2 d_when].
    rewrite IH by (intros; apply Hl; now right).
    destruct (rt_ent es Hwf i Hi) as [Hin Hh]. rewrite <- Hh.
    destruct (rt_entry_ok es Hwf _ Hin) as [_ [Hw _]].
    rewrite Z2N.id by lia. reflexivity. }
  rewrite Hall by (intros i Hi; apply in_seq in Hi; lia).
  rewrite Hg2. f_equal. f_equal.
  rewrite <- (map_map (fun i => nth i (sorted_entries es) dummy_entry) (canon (has_gen2 es))).
  unfold nn. rewrite <- (rt_ents_len es). now rewrite map_nth_seq.
Qed.

(* when every commit carries a proper generation v2 (neither absent nor the MaxUint64 marker) the graph comes
   back unchanged, in hash order *)
Theorem decode_roundtrip_exact : forall es trailer, wf_graph es -> List.length trailer = 20%nat ->
  Forall (fun e => 0 < e_gen2 e < two64 - 1) es ->
  decode (encode es ++ trailer) = Ok (true, sorted_entries es).
Proof.
  intros es trailer Hwf Htr Hg. rewrite (decode_roundtrip es trailer Hwf Htr).
  assert (Hn : forall e, In e es -> norm_gen2 e = e_gen2 e /\ norm_gen2 e <> 0).
  { intros e He. rewrite Forall_forall in Hg. specialize (Hg e He). unfold norm_gen2.
    destruct (e_gen2 e =? two64 - 1) eqn:E; lia. }
  assert (Hh : has_gen2 es = true).
  { unfold has_gen2. apply forallb_forall. intros e He. destruct (Hn e He). lia. }
  rewrite Hh. f_equal. f_equal. rewrite <- (map_id (sorted_entries es)) at 2. apply map_ext_in.
  intros e He. apply (Permutation_in _ (sorted_entries_perm es (rt_wfe es Hwf))) in He.
  destruct (Hn e He) as [E _]. unfold canon. rewrite E. destruct e; reflexivity.
Qed.

(* ------------------------------------------------------------ size of the output *)
Lemma total_chunk_table : forall es n,
  total (chunk_table es n) <= 1024 + 56 * n + 4 * extra_edges_count es + 4 * n + 8 * overflow_count es.
Proof.
  intros es n. unfold chunk_table.
  destruct (0 <? extra_edges_count es); destruct (has_gen2 es); try destruct (0 <? overflow_count es);
    cbn [app total]; change lenFanout with 256; change hashSize with 20; change szCommitData with 16; lia.
Qed.

Lemma overflow_count_le : forall es, overflow_count es <= N.of_nat (List.length es).
Proof.
  intros es. unfold overflow_count. destruct (has_gen2 es); [|lia].
  pose proof (filter_length_le _ (fun e => two31 - 1 <? gen2_data e) es). lia.
Qed.

Lemma encode_length : forall es, wf_entries es ->
  N.of_nat (List.length (encode es)) <=
  8 + 12 * 7 + 1024 + 68 * N.of_nat (List.length es) + 4 * extra_edges_count es.
Proof.
  intros es Hwf. destruct (encode_layout es Hwf) as [payloads [Henc [Hpay _]]].
  set (n := N.of_nat (List.length (sorted_of es))) in *.
  destruct (chunk_table_facts es n) as [Fs [_ [_ [_ [_ [_ [_ [_ [Flen _]]]]]]]]].
  rewrite Henc, !app_length, (chunk_headers_length _ _ Fs).
  pose proof (concat_total payloads _ Hpay) as Ht.
  pose proof (total_chunk_table es n) as Hb. pose proof (overflow_count_le es) as Ho.
  assert (Hn : n = N.of_nat (List.length es)).
  { unfold n. rewrite (Permutation_length (sorted_perm es Hwf)), map_length. reflexivity. }
  change (List.length sig_CGPH) with 4%nat. cbn [List.length]. lia.
Qed.

(* ------------------------------------------------------------ well-formed graphs, without reference to the output *)
Definition graph_ok (es : list centry) : Prop :=
  wf_entries es /\
  Forall (fun e => Forall (fun c => c < 256) (e_hash e)) es /\
  Forall (entry_ok (map e_hash es)) es /\
  N.of_nat (List.length es) <= parentNone /\
  extra_edges_count es < 2147483648.

Lemma graph_ok_wf : forall es, graph_ok es -> wf_graph es.
Proof.
  intros es [Hwf [Hb [He [Hn Hx]]]].
  assert (Hlen : List.length (sorted_of es) = List.length es).
  { rewrite (Permutation_length (sorted_perm es Hwf)). apply map_length. }
  rewrite const_parentNone in Hn.
  split; [|split; [exact He|split; [rewrite Hlen, const_parentNone; exact Hn | exact Hx]]].
  split; [exact Hwf|]. split; [exact Hb|]. split; [rewrite Hlen; lia|].
  pose proof (encode_length es Hwf). lia.
Qed.
