(* Proofs/C51Lookup.v — GetIndexByHash on a file the encoder wrote: the fanout bucket and the binary
   search find every commit at its position in id order. *)
From Coq Require Import List NArith ZArith Bool Lia ZifyBool ZifyN ZifyNat Permutation.
From GoGit Require Import Base.Out Gen.C51 Model.CommitGraph Proofs.C51 Proofs.C51Reader Proofs.C51Bytes
  Proofs.C51Records Proofs.C51Roundtrip.
Import ListNotations.
Local Open Scope N_scope.

(* ------------------------------------------------------------ the order on ids *)
Lemma bytes_cmp_antisym : forall a b, bytes_cmp b a = CompOpp (bytes_cmp a b).
Proof.
  induction a as [|x a IH]; destruct b as [|y b]; simpl; try reflexivity.
  rewrite (N.compare_antisym x y). destruct (x ?= y); simpl; auto.
Qed.

Lemma bytes_cmp_lt_trans : forall a b c, bytes_cmp a b = Lt -> bytes_cmp b c = Lt -> bytes_cmp a c = Lt.
Proof.
  induction a as [|x a IH]; destruct b as [|y b]; destruct c as [|z c]; simpl; try discriminate; auto.
  intros H1 H2. destruct (x ?= y) eqn:E1; destruct (y ?= z) eqn:E2; try discriminate.
  - apply N.compare_eq_iff in E1. apply N.compare_eq_iff in E2. subst. rewrite N.compare_refl. eauto.
  - apply N.compare_eq_iff in E1. subst. now rewrite E2.
  - apply N.compare_eq_iff in E2. subst. now rewrite E1.
  - change (x < y) in E1. change (y < z) in E2. assert (E : x < z) by lia. unfold N.lt in E. now rewrite E.
Qed.

Definition ble (a b : bytes) : Prop := bytes_cmp a b <> Gt.

Lemma ble_trans : forall a b c, ble a b -> ble b c -> ble a c.
Proof.
  unfold ble. intros a b c H1 H2.
  destruct (bytes_cmp a b) eqn:E1; [|clear H1|contradiction].
  - apply bytes_cmp_eq in E1. now subst.
  - destruct (bytes_cmp b c) eqn:E2; [| |contradiction].
    + apply bytes_cmp_eq in E2. subst. now rewrite E1.
    + now rewrite (bytes_cmp_lt_trans a b c E1 E2).
Qed.

Fixpoint sorted_le (l : list bytes) : Prop :=
  match l with [] => True | x :: r => (forall y, In y r -> ble x y) /\ sorted_le r end.

Lemma insert_hash_sorted : forall h l, sorted_le l -> sorted_le (insert_hash h l).
Proof.
  intros h. induction l as [|x r IH]; intros Hs.
  - simpl. split; [intros y []|exact I].
  - destruct Hs as [Hx Hr]. cbn [insert_hash]. destruct (bytes_cmp h x) eqn:E.
    + split; [|split; assumption]. intros y [<-|Hy]; [unfold ble; now rewrite E|].
      apply (ble_trans h x y); [unfold ble; now rewrite E | now apply Hx].
    + split; [|split; assumption]. intros y [<-|Hy]; [unfold ble; now rewrite E|].
      apply (ble_trans h x y); [unfold ble; now rewrite E | now apply Hx].
    + split; [|now apply IH]. intros y Hy.
      apply (Permutation_in _ (insert_hash_perm h r)) in Hy. destruct Hy as [<-|Hy]; [|now apply Hx].
      unfold ble. rewrite (bytes_cmp_antisym h x), E. discriminate.
Qed.

Lemma sort_hashes_sorted : forall l, sorted_le (sort_hashes l).
Proof. induction l as [|h r IH]; [exact I|]. simpl. now apply insert_hash_sorted. Qed.

Lemma sorted_nth_lt : forall l i j, sorted_le l -> NoDup l -> (i < j < List.length l)%nat ->
  bytes_cmp (nth i l []) (nth j l []) = Lt.
Proof.
  induction l as [|x r IH]; intros i j Hs Hnd Hij; [simpl in Hij; lia|].
  destruct Hs as [Hx Hr]. inversion Hnd as [|? ? Hn Hnd']; subst.
  destruct j as [|j]; [lia|]. destruct i as [|i].
  - cbn [nth]. assert (Hin : In (nth j r []) r) by (apply nth_In; simpl in Hij; lia).
    specialize (Hx _ Hin). unfold ble in Hx. destruct (bytes_cmp x (nth j r [])) eqn:E; [|reflexivity|contradiction].
    apply bytes_cmp_eq in E. subst x. contradiction.
  - cbn [nth]. apply IH; auto. simpl in Hij. lia.
Qed.

(* ------------------------------------------------------------ the fanout of a sorted list *)
Definition first_le (b : N) (h : bytes) : bool := match h with c :: _ => c <=? b | [] => true end.

Lemma cmp_first : forall a b x y, bytes_cmp (x :: a) (y :: b) <> Gt -> x <= y.
Proof.
  intros a b x y H. simpl in H. destruct (x ?= y) eqn:E.
  - apply N.compare_eq_iff in E. lia.
  - change (x < y) in E. lia.
  - contradiction.
Qed.

Lemma filter_prefix : forall b l, sorted_le l -> (forall h, In h l -> h <> []) ->
  forall i, (i < List.length l)%nat ->
  ((i < List.length (filter (first_le b) l))%nat <-> first_le b (nth i l []) = true).
Proof.
  intros b. induction l as [|x r IH]; intros Hs Hne i Hi; [simpl in Hi; lia|].
  destruct Hs as [Hx Hr]. cbn [filter]. destruct (first_le b x) eqn:E.
  - destruct i as [|i]; cbn [nth List.length]; [split; [intros _; exact E | lia]|].
    rewrite <- (IH Hr (fun h Hh => Hne h (or_intror Hh)) i) by (simpl in Hi; lia). lia.
  - assert (Hall : forall y, In y r -> first_le b y = false).
    { intros y Hy. specialize (Hx y Hy). pose proof (Hne x (or_introl eq_refl)) as Nx. pose proof (Hne y (or_intror Hy)) as Ny.
      destruct x as [|cx tx]; [congruence|]. destruct y as [|cy ty]; [congruence|].
      pose proof (cmp_first tx ty cx cy Hx). cbn [first_le] in *. lia. }
    assert (Hnil : filter (first_le b) r = []).
    { clear - Hall. induction r as [|y r IH]; [reflexivity|]. cbn [filter]. rewrite (Hall y (or_introl eq_refl)).
      apply IH. intros z Hz. apply Hall. now right. }
    rewrite Hnil. cbn [List.length]. split; [lia|]. intros H. exfalso.
    destruct i as [|i]; cbn [nth] in H; [congruence|].
    rewrite (Hall (nth i r [])) in H; [discriminate|]. apply nth_In. simpl in Hi. lia.
Qed.

(* ------------------------------------------------------------ the lookup *)
Section Lookup.
Variable es : list centry.
Variable trailer : bytes.
Hypothesis Hwf : wf_graph es.
Hypothesis Htr : List.length trailer = 20%nat.
Variable fi : findex.
Hypothesis Hopen : open_file (encode es ++ trailer) = Ok fi.

Let sorted := sorted_of es.
Let nn := List.length sorted.
Let file := encode es ++ trailer.

Lemma lk_sorted : sorted_le sorted.
Proof. unfold sorted, sorted_of. apply sort_hashes_sorted. Qed.

Lemma lk_slice : forall m, (m < nn)%nat ->
  slice file (off_of (f_off fi) 1 + Z.of_N (N.of_nat m) * 20) 20 = Some (nth m sorted []).
Proof.
  intros m Hm. pose proof (rt_hash_local es trailer Hwf Htr fi Hopen m Hm) as H. fold file sorted in H.
  unfold hash_local in H. destruct (ncommits fi <=? N.of_nat m); [discriminate|].
  destruct (slice file (off_of (f_off fi) 1 + Z.of_N (N.of_nat m) * 20) 20); [|discriminate]. now injection H as ->.
Qed.

Lemma lk_bsearch : forall i, (i < nn)%nat -> forall fuel low high,
  low <= N.of_nat i < high -> high <= N.of_nat nn -> high - low < 2 ^ N.of_nat fuel ->
  bsearch file fi (nth i sorted []) fuel low high = Ok (N.of_nat i).
Proof.
  intros i Hi. pose proof (rt_nn_bound es Hwf) as Hnb. fold sorted nn in Hnb. rewrite const_parentNone in Hnb.
  induction fuel as [|k IH]; intros low high Hr Hh Hf.
  - cbn in Hf. lia.
  - cbn [bsearch]. assert (C : low <? high = true) by lia. rewrite C.
    assert (Em : (low + high) mod two32 = low + high) by (apply N.mod_small; unfold two32; lia).
    rewrite Em, N.shiftr_div_pow2. change (2 ^ 1) with 2.
    set (mid := (low + high) / 2).
    assert (Hmid : 2 * mid <= low + high < 2 * mid + 2).
    { unfold mid. pose proof (N.div_mod (low + high) 2). pose proof (N.mod_lt (low + high) 2). lia. }
    assert (Hmn : (N.to_nat mid < nn)%nat) by lia.
    pose proof (lk_slice (N.to_nat mid) Hmn) as S. rewrite N2Nat.id in S. rewrite S.
    rewrite Nat2N.inj_succ, N.pow_succ_r' in Hf.
    destruct (Nat.lt_trichotomy i (N.to_nat mid)) as [Hlt|[Heq|Hgt]].
    + rewrite (sorted_nth_lt sorted i (N.to_nat mid) lk_sorted (rt_nodup es Hwf)) by (fold nn; lia).
      apply IH; lia.
    + rewrite <- Heq. assert (E : bytes_cmp (nth i sorted []) (nth i sorted []) = Eq) by (now apply bytes_cmp_eq).
      rewrite E. f_equal. lia.
    + pose proof (sorted_nth_lt sorted (N.to_nat mid) i lk_sorted (rt_nodup es Hwf)) as L.
      rewrite (bytes_cmp_antisym (nth (N.to_nat mid) sorted []) (nth i sorted [])), L by (fold nn; lia).
      cbn [CompOpp]. apply IH; lia.
Qed.

Theorem lookup_readback : forall i, (i < nn)%nat -> index_by_hash file fi (nth i sorted []) = Ok (N.of_nat i).
Proof.
  intros i Hi. set (h := nth i sorted []).
  assert (Hin : In h sorted) by (apply nth_In; exact Hi).
  pose proof (rt_len20 es Hwf h Hin) as Hlen.
  destruct (reader_accepts_strong es trailer (rt_wff es Hwf) Htr) as [fi' [A [_ [_ [Hfan _]]]]].
  rewrite Hopen in A. injection A as <-. fold sorted in Hfan.
  destruct h as [|b0 t] eqn:Eh; [simpl in Hlen; lia|]. unfold index_by_hash.
  assert (Hb0 : b0 < 256).
  { destruct (sorted_in es _ (rt_wfe es Hwf) Hin) as [e [He [Ee _]]].
    destruct (rt_wff es Hwf) as [_ [Hb _]]. rewrite Forall_forall in Hb. specialize (Hb e He). rewrite Ee in Hb.
    inversion Hb; subst. assumption. }
  assert (Hnth : forall c, c < 256 -> nth (N.to_nat c) (f_fanout fi) 0 = count_le_first sorted c).
  { intros c Hc. rewrite Hfan. unfold fanout_of.
    rewrite (nth_indep _ 0 (count_le_first sorted (N.of_nat 0))) by (rewrite map_length, seq_length; lia).
    rewrite (map_nth (fun k => count_le_first sorted (N.of_nat k)) (seq 0 256) O (N.to_nat c)).
    rewrite seq_nth by lia. cbn [plus]. now rewrite N2Nat.id. }
  assert (Hne : forall x, In x sorted -> x <> []).
  { intros x Hx E. pose proof (rt_len20 es Hwf x Hx) as L. rewrite E in L. simpl in L. lia. }
  assert (Hcount : forall c, count_le_first sorted c = N.of_nat (List.length (filter (first_le c) sorted))) by reflexivity.
  pose proof (rt_nn_bound es Hwf) as Hnb. fold sorted nn in Hnb. rewrite const_parentNone in Hnb.
  rewrite <- Eh. fold h. apply lk_bsearch; [exact Hi| | |].
  - split.
    + destruct (b0 =? 0) eqn:E0; [lia|].
      replace (N.to_nat b0 - 1)%nat with (N.to_nat (b0 - 1)) by lia. rewrite (Hnth (b0 - 1)) by lia. rewrite Hcount.
      destruct (Nat.lt_ge_cases i (List.length (filter (first_le (b0 - 1)) sorted))) as [Hlt|Hge]; [|lia].
      apply (filter_prefix (b0 - 1) sorted lk_sorted Hne i Hi) in Hlt. fold h in Hlt. rewrite Eh in Hlt. cbn [first_le] in Hlt. lia.
    + rewrite (Hnth b0 Hb0), Hcount.
      assert (Hlt : (i < List.length (filter (first_le b0) sorted))%nat).
      { apply (filter_prefix b0 sorted lk_sorted Hne i Hi). fold h. rewrite Eh. cbn [first_le]. lia. }
      lia.
  - rewrite (Hnth b0 Hb0). apply count_le_first_le.
  - rewrite (Hnth b0 Hb0). pose proof (count_le_first_le sorted b0). fold nn in H.
    change (2 ^ N.of_nat 40) with 1099511627776. lia.
Qed.
End Lookup.
