(* Proofs/C27Unflat.v — mindex.NewRootNode (Model/StatusTrie.v unflat): the tree inferred from
   the entry paths holds exactly the entries, names distinct per directory, when no entry path is
   a leading directory of (or equal to) another. *)
From Coq Require Import List NArith Bool Arith Lia.
From GoGit Require Import Base.Out Model.Status Model.StatusTrie.
From GoGit Require Model.DiffTree Spec.MapDiff Proofs.C44_order Proofs.C44_diff Proofs.C44_paths.
Import ListNotations.
Local Open Scope N_scope.

Notation pren := C44_diff.pren.
Notation Dir := DiffTree.Dir.
Notation File := DiffTree.File.

Fixpoint child (n : DiffTree.name) (t : dtree) : option DiffTree.node :=
  match t with [] => None | c :: r => if DiffTree.bytes_eqb (fst c) n then Some (snd c) else child n r end.

Lemma has_child_child n t : has_child n t = match child n t with Some _ => true | None => false end.
Proof. induction t as [|c r IH]; [reflexivity|]. cbn [has_child child]. destruct (DiffTree.bytes_eqb (fst c) n); [reflexivity|exact IH]. Qed.

(* the path can be inserted: no file where a directory is needed, no node where the file goes *)
Fixpoint fits (p : dpath) (t : dtree) : bool :=
  match p with
  | [] => false
  | n :: p' =>
    match p' with
    | [] => negb (has_child n t)
    | _ => match child n t with None => true | Some (Dir cs) => fits p' cs | Some (File _) => false end
    end
  end.

Lemma fl_app a b : fl (a ++ b) = fl a ++ fl b.
Proof. unfold fl, DiffTree.files_l. apply flat_map_app. Qed.

Lemma fl_cons n x t : fl ((n, x) :: t) = map (pren n) (DiffTree.files x) ++ fl t.
Proof. reflexivity. Qed.

(* first-match decomposition *)
Lemma child_split n t x : child n t = Some x ->
  exists t1 m t2, t = t1 ++ (m, x) :: t2 /\ m = n /\ child n t1 = None.
Proof.
  induction t as [|c r IH]; [discriminate|]. cbn [child]. destruct (DiffTree.bytes_eqb (fst c) n) eqn:E.
  - intros H. inversion H; subst. apply C44_order.bytes_eqb_eq in E. exists [], (fst c), r. destruct c; cbn in *. subst. auto.
  - intros H. destruct (IH H) as (t1 & m & t2 & -> & -> & Hn). exists (c :: t1), n, t2. cbn [app child]. rewrite E. auto.
Qed.

Lemma child_none_app n t1 t2 : child n t1 = None -> child n (t1 ++ t2) = child n t2.
Proof. induction t1 as [|c r IH]; [reflexivity|]. cbn [child app]. destruct (DiffTree.bytes_eqb (fst c) n); [discriminate|exact IH]. Qed.

Lemma upd_child_none n f t : child n t = None -> upd_child n f t = t ++ [(n, Dir (f []))].
Proof.
  induction t as [|c r IH]; [reflexivity|]. cbn [child upd_child]. destruct (DiffTree.bytes_eqb (fst c) n); [discriminate|].
  intros H. cbn [app]. now rewrite IH.
Qed.

Lemma upd_child_split n f t1 cs t2 :
  child n t1 = None -> upd_child n f (t1 ++ (n, Dir cs) :: t2) = t1 ++ (n, Dir (f cs)) :: t2.
Proof.
  induction t1 as [|c r IH]; intros H.
  - cbn [app upd_child fst snd]. now rewrite C44_order.bytes_eqb_refl.
  - cbn [child] in H. cbn [app upd_child]. destruct (DiffTree.bytes_eqb (fst c) n); [discriminate|]. now rewrite IH.
Qed.

Lemma in_pren n X q l : In (q, l) (map (pren n) X) <-> exists q', q = n :: q' /\ In (q', l) X.
Proof. apply C44_diff.in_pren. Qed.

(* ------------------------------------------------------------ one insertion *)

Lemma tins_fl p : forall l t, fits p t = true ->
  forall q l', In (q, l') (fl (tins p l t)) <-> In (q, l') (fl t) \/ (q = p /\ l' = l).
Proof.
  induction p as [|n p' IH]; intros l t F q l'; [discriminate|].
  destruct p' as [|n2 p''].
  - cbn [fits] in F. apply negb_true_iff in F. cbn [tins]. rewrite F.
    rewrite fl_app, in_app_iff. unfold fl at 2. cbn [DiffTree.files_l flat_map DiffTree.files map fst snd app].
    split; intros [H|H]; auto.
    + destruct H as [H|[]]. inversion H; subst. auto.
    + destruct H as [-> ->]. right. now left.
  - change (tins (n :: n2 :: p'') l t) with (upd_child n (tins (n2 :: p'') l) t).
    change (fits (n :: n2 :: p'') t) with
      (match child n t with None => true | Some (Dir cs) => fits (n2 :: p'') cs | Some (File _) => false end) in F.
    destruct (child n t) as [[lf|cs]|] eqn:C; [discriminate| |].
    + destruct (child_split n t _ C) as (t1 & m & t2 & -> & -> & Hn).
      rewrite (upd_child_split n _ t1 cs t2 Hn), !fl_app, !fl_cons, !in_app_iff, !C44_diff.files_dir.
      fold (fl (tins (n2 :: p'') l cs)) (fl cs). rewrite !in_pren.
      split.
      * intros [H|[H|H]]; auto.
        destruct H as (q' & -> & H). apply (IH l cs F) in H as [H|[-> ->]]; [left; right; left; eauto|right; auto].
      * intros [[H|[H|H]]|[-> ->]]; auto.
        { destruct H as (q' & -> & H). right. left. exists q'. split; [reflexivity|]. apply (IH l cs F). now left. }
        { right. left. exists (n2 :: p''). split; [reflexivity|]. apply (IH l cs F). now right. }
    + rewrite (upd_child_none n _ t C), fl_app, in_app_iff, (fl_cons n _ []).
      change (fl []) with (@nil (dpath * dleaf)). rewrite app_nil_r, C44_diff.files_dir.
      fold (fl (tins (n2 :: p'') l [])). rewrite in_pren.
      assert (F0 : fits (n2 :: p'') [] = true) by (destruct p''; reflexivity).
      split.
      * intros [H|H]; auto. destruct H as (q' & -> & H). apply (IH l [] F0) in H as [[]|[-> ->]]. right. auto.
      * intros [H|[-> ->]]; auto. right. exists (n2 :: p''). split; [reflexivity|]. apply (IH l [] F0). now right.
Qed.

(* names stay distinct per directory *)
Lemma names_app_new t n x :
  MapDiff.nodupb (map fst t) = true -> has_child n t = false -> MapDiff.nodupb (map fst (t ++ [(n, x)])) = true.
Proof.
  induction t as [|c r IH]; intros H C; [reflexivity|].
  cbn [map fst MapDiff.nodupb app] in *. apply andb_true_iff in H as [H1 H2].
  cbn [has_child] in C. apply orb_false_iff in C as [C1 C2].
  rewrite (IH H2 C2), andb_true_r. apply negb_true_iff in H1. apply negb_true_iff.
  rewrite map_app, existsb_app, H1. cbn [map fst existsb orb]. rewrite orb_false_r. exact C1.
Qed.

Lemma node_ok_dir cs :
  MapDiff.node_ok (Dir cs) = MapDiff.nodupb (map fst cs) && forallb (fun c => MapDiff.node_ok (snd c)) cs.
Proof. reflexivity. Qed.

Lemma tins_ok p : forall l t, fits p t = true -> MapDiff.node_ok (Dir t) = true -> MapDiff.node_ok (Dir (tins p l t)) = true.
Proof.
  induction p as [|n p' IH]; intros l t F Hok; [discriminate|].
  destruct p' as [|n2 p''].
  - cbn [fits] in F. apply negb_true_iff in F. cbn [tins]. rewrite F.
    rewrite node_ok_dir in *. apply andb_true_iff in Hok as [H1 H2].
    rewrite (names_app_new t n _ H1 F), forallb_app, H2. reflexivity.
  - change (tins (n :: n2 :: p'') l t) with (upd_child n (tins (n2 :: p'') l) t).
    change (fits (n :: n2 :: p'') t) with
      (match child n t with None => true | Some (Dir cs) => fits (n2 :: p'') cs | Some (File _) => false end) in F.
    destruct (child n t) as [[lf|cs]|] eqn:C; [discriminate| |].
    + destruct (child_split n t _ C) as (t1 & m & t2 & -> & -> & Hn).
      rewrite (upd_child_split n _ t1 cs t2 Hn). rewrite node_ok_dir in *.
      apply andb_true_iff in Hok as [H1 H2]. rewrite !map_app in *. cbn [map fst] in *. rewrite H1. cbn [andb].
      rewrite forallb_app in *. cbn [forallb snd] in *. apply andb_true_iff in H2 as [H2 H3]. apply andb_true_iff in H3 as [H3 H4].
      rewrite H2, H4, andb_true_r. cbn [andb]. now apply IH.
    + rewrite (upd_child_none n _ t C). rewrite node_ok_dir in *. apply andb_true_iff in Hok as [H1 H2].
      assert (Hc : has_child n t = false) by (rewrite has_child_child, C; reflexivity).
      rewrite (names_app_new t n _ H1 Hc), forallb_app, H2. cbn [forallb snd andb]. rewrite andb_true_r.
      apply IH; [destruct p''; reflexivity|reflexivity].
Qed.

(* ------------------------------------------------------------ all entries *)

(* NewRootNode never meets a file where it needs a directory, nor an existing node where it puts a file *)
Fixpoint unflat_ok (m : list (dpath * dleaf)) (t : dtree) : bool :=
  match m with
  | [] => true
  | e :: r => fits (fst e) t && unflat_ok r (tins (fst e) (snd e) t)
  end.

Lemma unflat_fold m : forall t,
  unflat_ok m t = true ->
  (forall q l, In (q, l) (fl (fold_left (fun t e => tins (fst e) (snd e) t) m t)) <-> In (q, l) (fl t) \/ In (q, l) m) /\
  (MapDiff.node_ok (Dir t) = true -> MapDiff.node_ok (Dir (fold_left (fun t e => tins (fst e) (snd e) t) m t)) = true).
Proof.
  induction m as [|[p l0] m IH]; intros t H.
  - cbn [fold_left In]. split; [intros q l; tauto|auto].
  - cbn [unflat_ok fst snd] in H. apply andb_true_iff in H as [F H]. cbn [fold_left fst snd].
    destruct (IH _ H) as [I1 I2]. split.
    + intros q l. rewrite I1, (tins_fl p l0 t F). cbn [In]. split.
      * intros [[H1|[-> ->]]|H1]; auto.
      * intros [H1|[H1|H1]]; auto. inversion H1; subst. auto.
    + intros Hok. apply I2. now apply tins_ok.
Qed.

Lemma unflat_spec m :
  unflat_ok m [] = true ->
  (forall q l, In (q, l) (fl (unflat m)) <-> In (q, l) m) /\ MapDiff.tree_ok (unflat m) = true.
Proof.
  intros H. destruct (unflat_fold m [] H) as [I1 I2]. unfold unflat. split.
  - intros q l. rewrite I1. cbn. tauto.
  - apply I2. reflexivity.
Qed.
