(* Proofs/C51.v — the commit-graph encoder writes, for every chunk it declares
   in the table of contents, exactly the declared number of bytes, and writes
   nothing else (after the repair of the overflow count). *)
From Coq Require Import List NArith ZArith Bool Lia Permutation.
From GoGit Require Import Base.Out Gen.C51 Model.CommitGraph.
Import ListNotations.
Local Open Scope N_scope.

(* ------------------------------------------------------------ byte strings *)
Lemma bytes_cmp_eq : forall a b, bytes_cmp a b = Eq <-> a = b.
Proof.
  induction a as [|x a IH]; destruct b as [|y b]; simpl; try (split; [discriminate | congruence]).
  - tauto.
  - destruct (N.compare x y) eqn:E.
    + apply N.compare_eq_iff in E. subst y. rewrite IH. split; congruence.
    + split; [discriminate|]. intros H. injection H as H1 H2. subst. rewrite N.compare_refl in E. discriminate.
    + split; [discriminate|]. intros H. injection H as H1 H2. subst. rewrite N.compare_refl in E. discriminate.
Qed.

Lemma bytes_eqb_eq : forall a b, bytes_eqb a b = true <-> a = b.
Proof.
  intros a b. unfold bytes_eqb. rewrite <- bytes_cmp_eq. destruct (bytes_cmp a b); split; congruence.
Qed.

Lemma bytes_eqb_refl : forall a, bytes_eqb a a = true.
Proof. intros a. now apply bytes_eqb_eq. Qed.

Lemma be_length : forall w x, List.length (be w x) = w.
Proof. induction w as [|w IH]; intros x; simpl; [reflexivity | now rewrite IH]. Qed.

Lemma be32_length : forall x, List.length (be32 x) = 4%nat.
Proof. intros. apply be_length. Qed.
Lemma be64_length : forall x, List.length (be64 x) = 8%nat.
Proof. intros. apply be_length. Qed.

Lemma flat_map_be32_length : forall l, List.length (flat_map be32 l) = (4 * List.length l)%nat.
Proof. induction l as [|x r IH]; [reflexivity|]. cbn [flat_map]. rewrite app_length, be32_length, IH. simpl. lia. Qed.

Lemma flat_map_be64_length : forall l, List.length (flat_map be64 l) = (8 * List.length l)%nat.
Proof. induction l as [|x r IH]; [reflexivity|]. cbn [flat_map]. rewrite app_length, be64_length, IH. simpl. lia. Qed.

(* ------------------------------------------------------------------ sorting *)
Lemma insert_hash_perm : forall h l, Permutation (insert_hash h l) (h :: l).
Proof.
  intros h l. induction l as [|x r IH]; simpl; [apply Permutation_refl|].
  destruct (bytes_cmp h x); try apply Permutation_refl.
  eapply Permutation_trans; [apply perm_skip; exact IH | apply perm_swap].
Qed.

Lemma sort_hashes_perm : forall l, Permutation (sort_hashes l) l.
Proof.
  induction l as [|h r IH]; simpl; [apply Permutation_refl|].
  eapply Permutation_trans; [apply insert_hash_perm | now apply perm_skip].
Qed.

Lemma dedup_hashes_nodup : forall l, NoDup l -> dedup_hashes l = l.
Proof.
  induction l as [|h r IH]; intros H; [reflexivity|]. simpl.
  inversion H as [|? ? Hn Hr]; subst.
  assert (E : existsb (bytes_eqb h) r = false).
  { destruct (existsb (bytes_eqb h) r) eqn:E; [|reflexivity]. exfalso. apply existsb_exists in E.
    destruct E as [x [Hx Hx2]]. apply bytes_eqb_eq in Hx2. subst x. contradiction. }
  rewrite E. now rewrite IH.
Qed.

(* ------------------------------------------------------------ well-formedness *)
Definition wf_entries (es : list centry) : Prop :=
  NoDup (map e_hash es) /\
  Forall (fun e => List.length (e_hash e) = 20%nat /\ List.length (e_tree e) = 20%nat) es.

Definition sorted_of (es : list centry) : list bytes := sort_hashes (dedup_hashes (map e_hash es)).

Lemma sorted_perm : forall es, wf_entries es -> Permutation (sorted_of es) (map e_hash es).
Proof.
  intros es [Hnd _]. unfold sorted_of. rewrite dedup_hashes_nodup by exact Hnd. apply sort_hashes_perm.
Qed.

Lemma find_entry_none : forall h es found,
  (forall e, In e es -> e_hash e <> h) -> find_entry h es found = found.
Proof.
  intros h es. induction es as [|x r IH]; intros found H; [reflexivity|]. simpl.
  assert (E : bytes_eqb h (e_hash x) = false).
  { destruct (bytes_eqb h (e_hash x)) eqn:E; [|reflexivity]. apply bytes_eqb_eq in E.
    exfalso. apply (H x); [now left | congruence]. }
  rewrite E. apply IH. intros e He. apply H. now right.
Qed.

Lemma find_entry_in : forall es e found, NoDup (map e_hash es) -> In e es ->
  find_entry (e_hash e) es found = Some e.
Proof.
  induction es as [|x r IH]; intros e found Hnd Hin; [contradiction|]. simpl in *.
  inversion Hnd as [|? ? Hn Hr]; subst. destruct Hin as [Hin|Hin].
  - subst x. rewrite bytes_eqb_refl. apply find_entry_none.
    intros e' He' Eq. apply Hn. rewrite <- Eq. now apply in_map.
  - now apply IH.
Qed.

(* the entries in the order of the sorted hashes *)
Definition dummy_entry : centry := mkEntry [] [] [] 0 0 0%Z.
Definition entry_of (es : list centry) (h : bytes) : centry :=
  match find_entry h es None with Some e => e | None => dummy_entry end.
Definition sorted_entries (es : list centry) : list centry := map (entry_of es) (sorted_of es).

Lemma sorted_entries_perm : forall es, wf_entries es -> Permutation (sorted_entries es) es.
Proof.
  intros es Hwf. pose proof (sorted_perm es Hwf) as P. destruct Hwf as [Hnd _].
  unfold sorted_entries. eapply Permutation_trans; [apply Permutation_map; exact P|].
  rewrite map_map. rewrite <- (map_id es) at 2. apply Permutation_refl' .
  apply map_ext_in. intros e He. unfold entry_of. now rewrite (find_entry_in es e None Hnd He).
Qed.

Lemma sorted_in : forall es h, wf_entries es -> In h (sorted_of es) -> exists e, In e es /\ e_hash e = h /\ find_entry h es None = Some e.
Proof.
  intros es h Hwf Hin. pose proof (sorted_perm es Hwf) as P.
  apply (Permutation_in _ P) in Hin. apply in_map_iff in Hin. destruct Hin as [e [Eh He]].
  exists e. split; [exact He|]. split; [exact Eh|]. subst h. destruct Hwf as [Hnd _]. now apply find_entry_in.
Qed.

(* ------------------------------------------------------------------ counting *)
From Coq Require Import ZifyBool ZifyNat ZifyN.

Fixpoint sum_nat (l : list nat) : nat := match l with [] => O | x :: r => (x + sum_nat r)%nat end.

Lemma sum_nat_perm : forall l l', Permutation l l' -> sum_nat l = sum_nat l'.
Proof. induction 1; simpl; lia. Qed.

Lemma filter_length_perm : forall (A : Type) (p : A -> bool) l l', Permutation l l' ->
  List.length (filter p l) = List.length (filter p l').
Proof.
  intros A p l l' H. induction H; simpl; try lia.
  - destruct (p x); simpl; lia.
  - destruct (p x), (p y); simpl; lia.
Qed.

Definition extra_nat (e : centry) : nat :=
  if (2 <? List.length (e_parents e))%nat then (List.length (e_parents e) - 1)%nat else O.

Lemma extra_edges_count_nat : forall es, extra_edges_count es = N.of_nat (sum_nat (map extra_nat es)).
Proof.
  induction es as [|e r IH]; [reflexivity|]. unfold extra_edges_count in *. simpl. rewrite IH.
  unfold extra_nat. destruct (2 <? N.of_nat (List.length (e_parents e))) eqn:E1;
    destruct (2 <? List.length (e_parents e))%nat eqn:E2; lia.
Qed.

Lemma set_last_length : forall l, List.length (set_last l) = List.length l.
Proof.
  induction l as [|x r IH]; [reflexivity|]. destruct r as [|y r']; [reflexivity|].
  change (set_last (x :: y :: r')) with (x :: set_last (y :: r')). simpl in *. now rewrite IH.
Qed.

Lemma commit_data_spec : forall sorted es hs edges,
  (forall h, In h hs -> exists e, find_entry h es None = Some e /\ List.length (e_tree e) = 20%nat) ->
  List.length (fst (commit_data sorted es hs edges)) = (36 * List.length hs)%nat /\
  List.length (snd (commit_data sorted es hs edges))
    = (List.length edges + sum_nat (map (fun h => extra_nat (entry_of es h)) hs))%nat.
Proof.
  intros sorted es hs. induction hs as [|h r IH]; intros edges H.
  - simpl. split; lia.
  - destruct (H h (or_introl eq_refl)) as [e [Hf Ht]].
    assert (Hr : forall h0, In h0 r -> exists e0, find_entry h0 es None = Some e0 /\ List.length (e_tree e0) = 20%nat)
      by (intros h0 Hh0; apply H; now right).
    cbn [commit_data]. rewrite Hf.
    assert (Eo : entry_of es h = e) by (unfold entry_of; now rewrite Hf).
    cbn [map sum_nat]. rewrite Eo. unfold extra_nat at 1.
    destruct (e_parents e) as [|a [|b2 [|c rest]]].
    + destruct (IH edges Hr) as [I1 I2].
      destruct (commit_data sorted es r edges) as [rb ed] eqn:Ec. cbn [fst snd List.length Nat.ltb Nat.leb Nat.sub] in *.
      rewrite !app_length, !be32_length, be64_length, Ht, I1. split; lia.
    + destruct (IH edges Hr) as [I1 I2].
      destruct (commit_data sorted es r edges) as [rb ed] eqn:Ec. cbn [fst snd List.length Nat.ltb Nat.leb Nat.sub] in *.
      rewrite !app_length, !be32_length, be64_length, Ht, I1. split; lia.
    + destruct (IH edges Hr) as [I1 I2].
      destruct (commit_data sorted es r edges) as [rb ed] eqn:Ec. cbn [fst snd List.length Nat.ltb Nat.leb Nat.sub] in *.
      rewrite !app_length, !be32_length, be64_length, Ht, I1. split; lia.
    + set (edges' := edges ++ set_last (map (hash_to_index sorted) (b2 :: c :: rest))).
      destruct (IH edges' Hr) as [I1 I2].
      destruct (commit_data sorted es r edges') as [rb ed] eqn:Ec. cbn [fst snd List.length Nat.ltb Nat.leb Nat.sub] in *.
      rewrite !app_length, !be32_length, be64_length, Ht, I1.
      unfold edges' in I2. rewrite app_length, set_last_length, map_length in I2.
      cbn [List.length] in I2. split; lia.
Qed.

Lemma gen2_chunks_spec : forall ds head,
  List.length (fst (gen2_chunks ds head)) = (4 * List.length ds)%nat /\
  snd (gen2_chunks ds head) = filter (fun d => 2147483648 <=? d) ds.
Proof.
  induction ds as [|d r IH]; intros head; [split; reflexivity|].
  cbn [gen2_chunks filter List.length]. destruct (2147483648 <=? d).
  - destruct (IH (head + 1)) as [I1 I2]. destruct (gen2_chunks r (head + 1)) as [b ov]. cbn [fst snd] in *.
    rewrite app_length, be32_length, I1, I2. split; [lia | reflexivity].
  - destruct (IH head) as [I1 I2]. destruct (gen2_chunks r head) as [b ov]. cbn [fst snd] in *.
    rewrite app_length, be32_length, I1. split; [lia | exact I2].
Qed.

Lemma concat_length_20 : forall (l : list bytes), (forall h, In h l -> List.length h = 20%nat) ->
  List.length (List.concat l) = (20 * List.length l)%nat.
Proof.
  induction l as [|h r IH]; intros H; [reflexivity|]. simpl. rewrite app_length, (H h (or_introl eq_refl)), IH.
  - lia.
  - intros h0 Hh0. apply H. now right.
Qed.

Lemma filter_map_length : forall (A B : Type) (f : A -> B) (p : B -> bool) l,
  List.length (filter p (map f l)) = List.length (filter (fun x => p (f x)) l).
Proof.
  intros A B f p l. induction l as [|x r IH]; [reflexivity|]. simpl. destruct (p (f x)); simpl; now rewrite IH.
Qed.

(* ------------------------------------------------------------ the layout theorem *)
Definition payload_ok (p : bytes) (t : bytes * N) : Prop := N.of_nat (List.length p) = snd t.

Theorem encode_layout : forall es, wf_entries es ->
  let sorted := sorted_of es in
  let n := N.of_nat (List.length sorted) in
  let tbl := chunk_table es n in
  let k := N.of_nat (List.length tbl) in
  exists payloads,
    encode es = sig_CGPH ++ [1; 1; k mod 256; 0] ++ chunk_headers tbl (8 + (k + 1) * 12) ++ List.concat payloads
    /\ Forall2 payload_ok payloads tbl
    /\ nth 0 payloads [] = flat_map be32 (fanout_of sorted).
Proof.
  intros es Hwf sorted n tbl k.
  pose proof (sorted_entries_perm es Hwf) as Pse.
  assert (Hfind : forall h, In h sorted -> exists e, find_entry h es None = Some e /\ List.length (e_tree e) = 20%nat).
  { intros h Hh. destruct (sorted_in es h Hwf Hh) as [e [He [_ Hf]]]. exists e. split; [exact Hf|].
    destruct Hwf as [_ Hall]. rewrite Forall_forall in Hall. now destruct (Hall e He). }
  assert (Hlen20 : forall h, In h sorted -> List.length h = 20%nat).
  { intros h Hh. destruct (sorted_in es h Hwf Hh) as [e [He [Eh _]]]. subst h.
    destruct Hwf as [_ Hall]. rewrite Forall_forall in Hall. now destruct (Hall e He). }
  destruct (commit_data_spec sorted es sorted [] Hfind) as [Hcd Hed].
  unfold encode. fold (sorted_of es). fold sorted. fold n. fold tbl. fold k.
  destruct (commit_data sorted es sorted []) as [cdat edges] eqn:Ecd. cbn [fst snd] in *.
  (* edges written = edges counted *)
  assert (Hedges : N.of_nat (List.length edges) = extra_edges_count es).
  { rewrite Hed, extra_edges_count_nat. simpl. f_equal.
    change (map (fun h => extra_nat (entry_of es h)) sorted) with (map (fun h => extra_nat (entry_of es h)) (sorted_of es)).
    rewrite <- (map_map (entry_of es) extra_nat). fold (sorted_entries es).
    apply sum_nat_perm. now apply Permutation_map. }
  set (ds := map (fun h => match find_entry h es None with Some e => gen2_data e | None => 0 end) sorted).
  destruct (gen2_chunks_spec ds 0) as [Hg Hov].
  destruct (gen2_chunks ds 0) as [gb ov] eqn:Eg. cbn [fst snd] in *.
  assert (Hds : List.length ds = List.length sorted) by (unfold ds; apply map_length).
  assert (Hovc : has_gen2 es = true -> N.of_nat (List.length ov) = overflow_count es).
  { intros Hg2. unfold overflow_count. rewrite Hg2. f_equal. rewrite Hov.
    assert (Eds : ds = map gen2_data (sorted_entries es)).
    { unfold ds, sorted_entries. rewrite map_map. apply map_ext. intros h. unfold entry_of.
      destruct (find_entry h es None); reflexivity. }
    rewrite Eds, filter_map_length.
    rewrite (filter_length_perm _ _ _ _ Pse). f_equal.
    apply filter_ext. intros e. unfold two31. lia. }
  set (fan := flat_map be32 (fanout_of sorted)).
  assert (Hfan : N.of_nat (List.length fan) = 4 * lenFanout).
  { unfold fan. rewrite flat_map_be32_length. unfold fanout_of. rewrite map_length, seq_length. reflexivity. }
  assert (Hoid : N.of_nat (List.length (List.concat sorted)) = n * hashSize).
  { rewrite (concat_length_20 sorted Hlen20). unfold n, hashSize. lia. }
  assert (Hcdat : N.of_nat (List.length cdat) = n * (hashSize + szCommitData)).
  { rewrite Hcd. unfold n, hashSize, szCommitData. change (zN cg_szCommitData) with 16. lia. }
  assert (Hedgeb : N.of_nat (List.length (flat_map be32 edges)) = extra_edges_count es * 4).
  { rewrite flat_map_be32_length. lia. }
  assert (Hgb : N.of_nat (List.length gb) = n * 4) by (rewrite Hg, Hds; unfold n; lia).
  unfold tbl, chunk_table.
  destruct (0 <? extra_edges_count es) eqn:Ex; destruct (has_gen2 es) eqn:Eh.
  - specialize (Hovc eq_refl). destruct (0 <? overflow_count es) eqn:Eo.
    + exists [fan; List.concat sorted; cdat; flat_map be32 edges; gb; flat_map be64 ov]. split.
      * cbn [List.concat]. rewrite ?app_nil_r, <- ?app_assoc. reflexivity.
      * split; [|reflexivity]. repeat constructor; unfold payload_ok; simpl snd; auto. rewrite flat_map_be64_length. lia.
    + assert (Hnil : ov = []) by (destruct ov; [reflexivity | simpl in Hovc; lia]). rewrite Hnil. cbn [flat_map].
      exists [fan; List.concat sorted; cdat; flat_map be32 edges; gb]. split.
      * cbn [List.concat]. rewrite ?app_nil_r, <- ?app_assoc. reflexivity.
      * split; [|reflexivity]. repeat constructor; unfold payload_ok; simpl snd; auto.
  - exists [fan; List.concat sorted; cdat; flat_map be32 edges]. split.
    + cbn [List.concat]. rewrite ?app_nil_r, <- ?app_assoc. reflexivity.
    + split; [|reflexivity]. repeat constructor; unfold payload_ok; simpl snd; auto.
  - assert (Hnile : edges = []) by (destruct edges; [reflexivity | simpl in Hedges; lia]). rewrite Hnile. cbn [flat_map].
    specialize (Hovc eq_refl). destruct (0 <? overflow_count es) eqn:Eo.
    + exists [fan; List.concat sorted; cdat; gb; flat_map be64 ov]. split.
      * cbn [List.concat]. rewrite ?app_nil_r, <- ?app_assoc. reflexivity.
      * split; [|reflexivity]. repeat constructor; unfold payload_ok; simpl snd; auto. rewrite flat_map_be64_length. lia.
    + assert (Hnil : ov = []) by (destruct ov; [reflexivity | simpl in Hovc; lia]). rewrite Hnil. cbn [flat_map].
      exists [fan; List.concat sorted; cdat; gb]. split.
      * cbn [List.concat]. rewrite ?app_nil_r, <- ?app_assoc. reflexivity.
      * split; [|reflexivity]. repeat constructor; unfold payload_ok; simpl snd; auto.
  - assert (Hnile : edges = []) by (destruct edges; [reflexivity | simpl in Hedges; lia]). rewrite Hnile. cbn [flat_map].
    exists [fan; List.concat sorted; cdat]. split.
    + cbn [List.concat]. rewrite ?app_nil_r, <- ?app_assoc. reflexivity.
    + split; [|reflexivity]. repeat constructor; unfold payload_ok; simpl snd; auto.
Qed.

(* ---- the defect repaired in the repository (fix: commitgraph encoder sizes the generation
   overflow chunk ...): before the fix prepare() counted overflow entries with `> MaxUint32`
   while encodeGenerationV2Data writes one for every offset >= 2^31 *)
Definition overflow_count_before_fix (es : list centry) : N :=
  if has_gen2 es then N.of_nat (List.length (filter (fun e => two32 - 1 <? gen2_data e) es)) else 0.

Definition written_overflow_entries (es : list centry) : list N :=
  filter (fun d => 2147483648 <=? d) (map gen2_data (sorted_entries es)).

Definition h20 (b : N) : bytes := repeat b 20.
Definition witness_entries : list centry :=
  [mkEntry (h20 1) (h20 9) [] 1 4500000000 4500000000%Z;
   mkEntry (h20 2) (h20 9) [h20 1] 2 4500000001 1500000000%Z].

Lemma overflow_before_fix_refuted :
  wf_entries witness_entries /\ has_gen2 witness_entries = true /\
  overflow_count_before_fix witness_entries = 0 /\
  List.length (written_overflow_entries witness_entries) = 1%nat /\
  overflow_count witness_entries = 1.
Proof.
  split.
  - split.
    + simpl. repeat constructor; simpl; intuition discriminate.
    + repeat constructor.
  - vm_compute. repeat split.
Qed.
