(* Proofs/C31Stat.v — GetStat (Go, one flag) computes git's gather_stats
   (one byte of look-ahead), up to the NUL/non-printable bookkeeping. *)
From Coq Require Import List NArith Arith Lia Bool ZifyBool ZifyNat ZifyN.
From GoGit Require Import Base.Out Model.Eol Spec.GitConvert.
Import ListNotations.
Local Open Scope N_scope.

Lemma list_ind2 (A : Type) (P : list A -> Prop) :
  P [] -> (forall a, P [a]) -> (forall a b l, P l -> P (b :: l) -> P (a :: b :: l)) ->
  forall l, P l.
Proof.
  intros H0 H1 H2 l. enough (P l /\ forall a, P (a :: l)) by tauto.
  induction l as [|b l [IH1 IH2]]; split; auto.
Qed.

(* the loop of GetStat alone (well-behaved reader) *)
Fixpoint gloop (bs : bytes) (st : stat) (h : bool) : stat * bool :=
  match bs with
  | [] => (st, h)
  | b :: r => let '(st', h') := stat_step st h b in gloop r st' h'
  end.

Lemma last_default (A : Type) (l : list A) (a d d' : A) : last (a :: l) d = last (a :: l) d'.
Proof. revert a. induction l as [|b l IH]; intros a; [reflexivity|]. cbn [last] in *. apply IH. Qed.

Lemma get_stat_ev_gloop bs : forall st h b0,
  get_stat_ev (map RByte bs) st h b0 =
  let '(st', h') := gloop bs st h in stat_finish st' h' (last bs b0).
Proof.
  induction bs as [|b r IH]; intros st h b0; [reflexivity|].
  cbn [map get_stat_ev gloop]. destruct (stat_step st h b) as [st' h'].
  rewrite IH. destruct (gloop r st' h') as [s2 h2].
  destruct r as [|n r]; [reflexivity|]. f_equal. cbn [last]. apply last_default.
Qed.

Lemma gloop_app a b : forall st h,
  gloop (a ++ b) st h = let '(st', h') := gloop a st h in gloop b st' h'.
Proof.
  induction a as [|x a IH]; intros st h; [cbn; now destruct (gloop [] st h)|].
  cbn [app gloop]. destruct (stat_step st h x) as [st' h']. apply IH.
Qed.

(* go-git does not count NUL as non-printable; git does *)
Definition nulfix (s : stat) : stat :=
  mkStat (s_nul s) (s_lonecr s) (s_lonelf s) (s_crlf s) (s_print s) (s_nonprint s + s_nul s).
Definition fincr (s : stat) (h : bool) : stat :=
  mkStat (s_nul s) (if h then s_lonecr s + 1 else s_lonecr s) (s_lonelf s) (s_crlf s) (s_print s) (s_nonprint s).

(* what git still has to count when Go's flag is h and bs remains *)
Definition pend (h : bool) (bs : bytes) : stat :=
  if h then
    match bs with
    | c :: r => if c =? LF then sadd (mkStat 0 0 0 1 0 0) (git_gather r)
                else sadd (mkStat 0 1 0 0 0 0) (git_gather bs)
    | [] => mkStat 0 1 0 0 0 0
    end
  else git_gather bs.

Lemma stat_eq a b :
  s_nul a = s_nul b -> s_lonecr a = s_lonecr b -> s_lonelf a = s_lonelf b ->
  s_crlf a = s_crlf b -> s_print a = s_print b -> s_nonprint a = s_nonprint b -> a = b.
Proof. destruct a, b; cbn; intros; subst; reflexivity. Qed.

Ltac stat_solve :=
  unfold pend; cbn [git_gather]; apply stat_eq; cbn [s_nul s_lonecr s_lonelf s_crlf s_print s_nonprint sadd nulfix fincr stat0]; lia.

Lemma git_gather_cr r :
  git_gather (CR :: r) = pend true r.
Proof.
  cbn [git_gather pend]. change (CR =? CR) with true. cbn iota.
  destruct r as [|c2 r2]; [reflexivity|]. destruct (c2 =? LF); reflexivity.
Qed.

(* one step from flag false *)
Lemma step_false st c r :
  forall st' h', stat_step st false c = (st', h') ->
  sadd (nulfix st) (git_gather (c :: r)) = sadd (nulfix st') (pend h' r).
Proof.
  intros st' h' E. unfold stat_step in E. rewrite andb_false_r in E.
  destruct (c =? LF) eqn:ELF; rewrite ?ELF in E.
  - inversion E; subst. cbn [git_gather pend].
    assert (c = LF) by (apply N.eqb_eq; assumption). subst c.
    change (LF =? CR) with false. cbn iota. change (LF =? LF) with true. cbn iota.
    stat_solve.
  - destruct (c =? CR) eqn:ECR; rewrite ?ECR in E.
    + inversion E; subst. assert (c = CR) by (apply N.eqb_eq; assumption). subst c.
      rewrite git_gather_cr. reflexivity.
    + cbn [git_gather pend]. rewrite ECR, ELF. unfold git_class. revert E.
      destruct (c =? 127); [intros E; inversion E; subst; stat_solve|].
      destruct (c <? 32).
      * destruct ((c =? 8) || (c =? 9) || (c =? 27) || (c =? 12)); [intros E; inversion E; subst; stat_solve|].
        destruct (c =? 0); intros E; inversion E; subst; stat_solve.
      * intros E; inversion E; subst; stat_solve.
Qed.

Lemma step_true_nonlf st c :
  (c =? LF) = false ->
  stat_step st true c =
  stat_step (mkStat (s_nul st) (s_lonecr st + 1) (s_lonelf st) (s_crlf st) (s_print st) (s_nonprint st)) false c.
Proof.
  intros E. unfold stat_step. rewrite E. cbn [negb andb]. reflexivity.
Qed.

Lemma gloop_spec bs : forall st h,
  let '(st', h') := gloop bs st h in
  nulfix (fincr st' h') = sadd (nulfix st) (pend h bs).
Proof.
  induction bs as [|c r IH]; intros st h.
  - cbn [gloop pend git_gather]. destruct h; stat_solve.
  - cbn [gloop]. destruct (stat_step st h c) as [st1 h1] eqn:E.
    specialize (IH st1 h1). destruct (gloop r st1 h1) as [st' h'].
    rewrite IH. destruct h.
    + destruct (c =? LF) eqn:ELF.
      * unfold stat_step in E. rewrite ELF in E. cbn [negb andb] in E. inversion E; subst.
        cbn [pend]. rewrite ELF. stat_solve.
      * rewrite (step_true_nonlf st c ELF) in E.
        apply (step_false _ c r) in E. rewrite <- E.
        cbn [pend]. rewrite ELF. stat_solve.
    + apply (step_false _ c r) in E. cbn [pend]. symmetry. exact E.
Qed.

(* every counter is bounded by the number of bytes *)
Lemma gather_bound bs :
  s_nonprint (git_gather bs) <= N.of_nat (List.length bs).
Proof.
  induction bs as [| a | a b l IH1 IH2] using list_ind2.
  - cbn. lia.
  - cbn [git_gather]. destruct (a =? CR); [cbn; lia|]. destruct (a =? LF); [cbn; lia|].
    unfold git_class. repeat match goal with |- context [if ?x then _ else _] => destruct x end; cbn; lia.
  - cbn [git_gather]. cbn [git_gather] in IH2.
    destruct (a =? CR).
    + destruct (b =? LF).
      * cbn [sadd s_nonprint List.length]. lia.
      * cbn [sadd s_nonprint List.length] in *. lia.
    + destruct (a =? LF).
      * cbn [sadd s_nonprint List.length] in *. lia.
      * assert (s_nonprint (git_class a) <= 1).
        { unfold git_class. repeat match goal with |- context [if ?x then _ else _] => destruct x end; cbn; lia. }
        cbn [sadd s_nonprint List.length] in *. lia.
Qed.

(* a final ^Z has been counted as non-printable by Go's loop *)
Lemma gloop_last_sub bs st h :
  bs <> [] -> last bs 0 = SUB ->
  1 <= s_nonprint (fst (gloop bs st h)).
Proof.
  intros Hne Hl. destruct (exists_last Hne) as [a [x Ex]]. subst bs.
  rewrite last_last in Hl. subst x. rewrite gloop_app.
  destruct (gloop a st h) as [s1 h1]. cbn [gloop].
  assert (E : forall s0 h0, s_nonprint (fst (stat_step s0 h0 SUB)) = s_nonprint s0 + 1)
    by (intros s0 [|]; reflexivity).
  specialize (E s1 h1). destruct (stat_step s1 h1 SUB) as [s2 h2]. cbn [fst] in *. lia.
Qed.

Definition short (bs : bytes) : bool := N.of_nat (List.length bs) <? 2 ^ 64.

Lemma get_stat_git bs :
  short bs = true ->
  nulfix (get_stat bs) = git_stats bs.
Proof.
  intros Hs. unfold short in Hs. unfold get_stat. rewrite get_stat_ev_gloop.
  pose proof (gloop_spec bs stat0 false) as H.
  pose proof (gather_bound bs) as Hb.
  destruct (gloop bs stat0 false) as [st' h'] eqn:EG.
  cbn [pend] in H.
  assert (Hg : nulfix (fincr st' h') = git_gather bs).
  { rewrite H. stat_solve. }
  unfold git_stats, stat_finish. rewrite <- Hg.
  destruct bs as [|b0 r].
  - cbn [last]. change (0 =? SUB) with false. cbn iota.
    cbn in EG. inversion EG; subst. reflexivity.
  - destruct (last (b0 :: r) 0 =? SUB) eqn:EL.
    + assert (H1 : 1 <= s_nonprint st').
      { pose proof (gloop_last_sub (b0 :: r) stat0 false) as G. rewrite EG in G. apply G; [discriminate|].
        apply N.eqb_eq. exact EL. }
      assert (Hnp : s_nonprint st' + s_nul st' <= N.of_nat (List.length (b0 :: r))).
      { rewrite <- Hg in Hb. cbn [nulfix fincr s_nonprint s_nul] in Hb. exact Hb. }
      apply stat_eq; cbn [s_nul s_lonecr s_lonelf s_crlf s_print s_nonprint nulfix fincr];
        try (destruct h'; reflexivity).
      assert (E : (s_nonprint st' + (2 ^ 64 - 1)) mod 2 ^ 64 = s_nonprint st' - 1).
      { replace (s_nonprint st' + (2 ^ 64 - 1)) with ((s_nonprint st' - 1) + 1 * 2 ^ 64) by lia.
        rewrite N.mod_add by lia. apply N.mod_small. lia. }
      rewrite E. lia.
    + apply stat_eq; cbn [s_nul s_lonecr s_lonelf s_crlf s_print s_nonprint nulfix fincr];
        destruct h'; reflexivity.
Qed.

Lemma is_binary_git s :
  is_binary s = git_is_binary (nulfix s).
Proof.
  unfold is_binary, git_is_binary. cbn [nulfix s_nul s_lonecr s_print s_nonprint].
  destruct (0 <? s_nul s) eqn:E1; destruct (0 <? s_lonecr s) eqn:E2; try reflexivity.
  assert (s_nul s = 0) by lia. rewrite H, N.add_0_r.
  destruct (s_nonprint s <=? N.shiftr (s_print s) 7) eqn:E3; cbn [negb]; symmetry; lia.
Qed.

Lemma is_binary_get_stat bs :
  short bs = true -> is_binary (get_stat bs) = git_is_binary (git_stats bs).
Proof. intros H. rewrite is_binary_git, get_stat_git by assumption. reflexivity. Qed.
