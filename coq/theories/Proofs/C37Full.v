(* Proofs/C37Full.v — walkFull (the walk when no have commit was given). *)
From Coq Require Import List NArith ZArith Bool Lia.
From GoGit Require Import Model.RevList Spec.ObjReach Proofs.C37Queue Proofs.C37Trees Proofs.C37Seed.
Import ListNotations.
Local Open Scope N_scope.

Lemma conj5 : forall A B C D E : Prop, A -> B -> C -> D -> E -> A /\ B /\ C /\ D /\ E.
Proof. tauto. Qed.

Section Full.
  Variable st : store.
  Variable sh : list oid.
  Variables wants haves : list oid.
  Hypothesis Hwf : wf_store st = true.
  (* what seeding established about the targets of the selected tags *)
  Variable T0 : oid -> Prop.

  Notation Had := (Had st sh haves).
  Notation I1 := (I1 st sh haves).
  Notation I2 := (I2 st sh haves).
  Notation Wanted := (Wanted st sh wants).
  Notation cok := (cok st).

  Record finv (wseen : list oid) (q : list cinfo) (s : wstate) : Prop := {
    fi_I1 : I1 s;
    fi_I2 : I2 [] s;
    fi_RS : RS s;
    fi_nd : NoDup (snd s);
    fi_q : forall c, In c q -> cok c /\ Wanted (c_id c) /\ In (c_id c) wseen;
    fi_seen : forall x, In x wseen -> (exists c, In c q /\ c_id c = x) \/ In x (fst s);
    fi_res : forall x, In x (snd s) -> Wanted x;
    fi_tag : forall g tg, In g (snd s) -> get st g = Some (Tag tg) -> T0 tg;
    fi_com : forall x t ps tm, In x (snd s) -> get_commit st x = Some (t, ps, tm) ->
               In t (fst s) /\ (mem x sh = true \/ forall p, In p ps -> In p wseen) }.

  Lemma full_parents_spec : forall ps wseen q wseen' q' x,
    full_parents st ps wseen q = Ok (wseen', q') ->
    Wanted x -> (forall p, In p ps -> child st sh x p) ->
    (forall c, In c q -> cok c /\ Wanted (c_id c) /\ In (c_id c) wseen) ->
    incl wseen wseen' /\ (forall p, In p ps -> In p wseen') /\
    (forall c, In c q' -> cok c /\ Wanted (c_id c) /\ In (c_id c) wseen') /\
    (forall c, In c q -> In c q') /\
    (forall y, In y wseen' -> In y wseen \/ exists c, In c q' /\ c_id c = y).
  Proof.
    induction ps as [|p ps IH]; intros wseen q wseen' q' x H Wx Hch Hq; cbn [full_parents] in H.
    - inversion H; subst. apply conj5; [apply incl_refl | intros p [] | exact Hq | auto | intros y Hy; now left].
    - assert (Hch' : forall p0, In p0 ps -> child st sh x p0) by (intros; apply Hch; now right).
      destruct (mem p wseen) eqn:M.
      + destruct (IH _ _ _ _ _ H Wx Hch' Hq) as (A & B & C & D & E). apply conj5; auto.
        intros p0 [<-|Hp]; [apply A; now apply mem_In | now apply B].
      + destruct (get_commit st p) as [[[t pps] tm]|] eqn:G; [|discriminate].
        assert (Hq' : forall c, In c (insert_sorted q (mkC p t pps tm)) ->
                               cok c /\ Wanted (c_id c) /\ In (c_id c) (p :: wseen)).
        { intros c Hc. apply insert_sorted_In in Hc. destruct Hc as [->|Hc].
          - split; [exact G|]. split; [|cbn; now left]. cbn.
            eapply Wanted_closed; [exact Wx | apply reach_child, Hch; now left].
          - destruct (Hq c Hc) as (a & b & c0). repeat split; auto. now right. }
        destruct (IH _ _ _ _ _ H Wx Hch' Hq') as (A & B & C & D & E). apply conj5; auto.
        * eapply incl_tran; [|exact A]. apply incl_tl, incl_refl.
        * intros p0 [<-|Hp]; [apply A; now left | now apply B].
        * intros c Hc. apply D, insert_sorted_In. now right.
        * intros y Hy. destruct (E y Hy) as [[Ey|Hy']|Hy']; [|now left|now right].
          right. exists (mkC p t pps tm). split; [apply D, insert_sorted_In; now left | exact Ey].
  Qed.

  Lemma walk_full_spec : forall fuel wseen q s s',
    walk_full fuel st sh wseen q s = Ok s' -> finv wseen q s ->
    exists wseen', finv wseen' [] s' /\ mono s s' /\ incl wseen wseen'.
  Proof.
    induction fuel as [|f IH]; intros wseen q s s' H Inv; cbn [walk_full] in H; [discriminate|].
    destruct q as [|lc q].
    { inversion H; subst. exists wseen. split; [exact Inv|]. split; [apply mono_refl | apply incl_refl]. }
    destruct (fi_q _ _ _ Inv lc (or_introl eq_refl)) as (Hok & Wlc & Hlcs).
    assert (Hq' : forall c, In c q -> cok c /\ Wanted (c_id c) /\ In (c_id c) wseen)
      by (intros; apply (fi_q _ _ _ Inv); now right).
    destruct (mem (c_id lc) (fst s)) eqn:M.
    - (* already selected *)
      apply IH in H; [exact H|]. destruct Inv as [i1 i2 rs nd fq fs fr ft fc]. constructor; auto.
      intros x Hx. destruct (fs x Hx) as [(c & [<-|Hc] & E)|Hs]; [right; subst x; now apply mem_In | left; eauto | now right].
    - destruct (get_tree st (c_tree lc)) as [es|] eqn:T; [|discriminate].
      destruct (collect_all (tree_fuel st) st (c_tree lc) es (emit (c_id lc) s)) as [s2|] eqn:CA; [|discriminate].
      destruct (collect_all_spec st sh haves Hwf _ _ _ _ _ CA T) as [[m fr i1 i2 nd nc] Hts].
      assert (Gt : get_tree st (c_id lc) = None).
      { unfold cok in Hok. unfold get_tree. unfold get_commit in Hok.
        destruct (get st (c_id lc)) as [[]|]; try discriminate; reflexivity. }
      pose proof (fi_I1 _ _ _ Inv) as J1. pose proof (fi_I2 _ _ _ Inv) as J2.
      pose proof (I1_emit st sh haves (c_id lc) s J1) as J1e.
      pose proof (I2_emit_leaf st sh haves [] (c_id lc) s Gt J2) as J2e.
      assert (RSe : RS (emit (c_id lc) s) /\ NoDup (snd (emit (c_id lc) s))).
      { split.
        - intros x [<-|Hx]; [cbn; now left | cbn; right; now apply (fi_RS _ _ _ Inv)].
        - cbn. constructor; [|apply (fi_nd _ _ _ Inv)]. intro Hin. apply (fi_RS _ _ _ Inv) in Hin.
          apply mem_false in M. contradiction. }
      assert (Hchild_tree : child st sh (c_id lc) (c_tree lc))
        by (eapply ch_tree; apply get_commit_get; exact Hok).
      assert (Hres2 : forall x, In x (snd s2) -> Wanted x).
      { intros x Hx. destruct (fr x Hx) as [[<-|Hx']|Hr]; [exact Wlc | now apply (fi_res _ _ _ Inv)|].
        eapply Wanted_closed; [exact Wlc|]. econstructor; eauto. }
      assert (Htag2 : forall g tg, In g (snd s2) -> get st g = Some (Tag tg) -> T0 tg).
      { intros g tg Hg G. destruct (fr g Hg) as [[<-|Hg']|Hr].
        - unfold cok, get_commit in Hok. rewrite G in Hok. discriminate.
        - eapply (fi_tag _ _ _ Inv); eauto.
        - exfalso. eapply (proj2 (below_tree_kind st sh Hwf _ _ Hr _ T)); eauto. }
      (* the commit-closure fact, for a given final wseen *)
      assert (Hcom2 : forall wseen2, incl wseen wseen2 ->
                (mem (c_id lc) sh = true \/ forall p, In p (c_parents lc) -> In p wseen2) ->
                forall x t ps tm, In x (snd s2) -> get_commit st x = Some (t, ps, tm) ->
                  In t (fst s2) /\ (mem x sh = true \/ forall p, In p ps -> In p wseen2)).
      { intros wseen2 Hinc Hpar x t ps tm Hx G. destruct (nc x Hx) as [[<-|Hx']|Hn]; [| |congruence].
        - unfold cok in Hok. rewrite Hok in G. inversion G; subst. split; [exact Hts | exact Hpar].
        - destruct (fi_com _ _ _ Inv x t ps tm Hx' G) as [A B]. split.
          + apply (proj1 m). cbn. now right.
          + destruct B as [B|B]; [now left | right; intros p Hp; apply Hinc, B, Hp]. }
      destruct (mem (c_id lc) sh) eqn:S.
      + (* shallow: parents are not followed *)
        apply IH in H.
        * destruct H as (w' & A & B & C). exists w'. split; [exact A|]. split; [|exact C].
          eapply mono_trans; [apply mono_emit|]. eapply mono_trans; eauto.
        * constructor; auto.
          -- apply nd; apply RSe.
          -- apply nd; apply RSe.
          -- intros x Hx. destruct (fi_seen _ _ _ Inv x Hx) as [(c & [<-|Hc] & E)|Hs].
             ++ right. apply (proj1 m). cbn. now left.
             ++ left; eauto.
             ++ right. apply (proj1 m). cbn. now right.
          -- apply Hcom2; [apply incl_refl | now left].
      + destruct (full_parents st (c_parents lc) wseen q) as [[wseen1 q1]|] eqn:FP; [|discriminate].
        assert (Hpc : forall p, In p (c_parents lc) -> child st sh (c_id lc) p).
        { intros p Hp. eapply ch_parent; [apply get_commit_get; exact Hok | exact S | exact Hp]. }
        destruct (full_parents_spec _ _ _ _ _ _ FP Wlc Hpc Hq') as (A & B & C & D & E).
        apply IH in H.
        * destruct H as (w' & A' & B' & C'). exists w'. split; [exact A'|]. split.
          -- eapply mono_trans; [apply mono_emit|]. eapply mono_trans; eauto.
          -- eapply incl_tran; eauto.
        * constructor; auto.
          -- apply nd; apply RSe.
          -- apply nd; apply RSe.
          -- intros x Hx. destruct (E x Hx) as [Hx'|Hx']; [|now left].
             destruct (fi_seen _ _ _ Inv x Hx') as [(c & [<-|Hc] & E0)|Hs].
             ++ right. apply (proj1 m). cbn. now left.
             ++ left. exists c. split; [now apply D | exact E0].
             ++ right. apply (proj1 m). cbn. now right.
          -- apply Hcom2; [exact A | right; exact B].
  Qed.
End Full.
