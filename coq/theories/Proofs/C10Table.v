(* Proofs/C10Table.v — facts about a table sorted by id: the fanout counts
   delimit the positions of each first byte, the 32/64-bit offset encoding
   recovers every offset, bit-mask arithmetic of the 64-bit flag. *)
From Coq Require Import List NArith ZArith Bool Lia ZifyBool ZifyNat ZifyN Sorting.Sorted.
From GoGit Require Import Base.Out Model.PackBytes Model.Idx Spec.IdxFormat Proofs.C10Order Proofs.C10Bytes.
Import ListNotations.
Local Open Scope N_scope.
Ltac Zify.zify_post_hook ::= Z.div_mod_to_equations.

(* ------------------------------------------------------------ bit masks *)

Definition P31 : N := 2147483648.
Lemma P31_eq : P31 = 2 ^ 31. Proof. reflexivity. Qed.

Lemma land_mask31 c : c < 4294967296 ->
  N.land c P31 = if c <? P31 then 0 else P31.
Proof.
  intros Hc. apply N.bits_inj. intros m. rewrite N.land_spec.
  rewrite P31_eq at 1. rewrite N.pow2_bits_eqb.
  destruct (N.eqb_spec 31 m) as [<-|Hm].
  - rewrite andb_true_r. destruct (c <? P31) eqn:E.
    + rewrite N.bits_0. apply N.testbit_false. apply N.ltb_lt in E. change (2^31) with P31. unfold P31 in *. lia.
    + rewrite P31_eq. rewrite N.pow2_bits_true. apply N.testbit_true.
      apply N.ltb_ge in E. change (2 ^ 31) with P31. unfold P31 in *. lia.
  - rewrite andb_false_r. destruct (c <? P31).
    + now rewrite N.bits_0.
    + rewrite P31_eq. rewrite N.pow2_bits_false by congruence. reflexivity.
Qed.

Lemma ldiff_mask31 c : c < 4294967296 -> N.ldiff c P31 = c mod P31.
Proof.
  intros Hc. apply N.bits_inj. intros m. rewrite N.ldiff_spec.
  rewrite P31_eq. rewrite N.pow2_bits_eqb.
  destruct (N.ltb_spec m 31) as [L|G].
  - rewrite N.mod_pow2_bits_low by assumption. replace (31 =? m) with false by lia. cbn. now rewrite andb_true_r.
  - rewrite N.mod_pow2_bits_high by assumption.
    destruct (N.eqb_spec 31 m) as [<-|Hm]; cbn; [now rewrite andb_false_r|].
    rewrite andb_true_r. apply N.testbit_false.
    assert (2 ^ 32 <= 2 ^ m) by (apply N.pow_le_mono_r; lia).
    change (2 ^ 32) with 4294967296 in *. rewrite N.div_small by lia. reflexivity.
Qed.

Lemma lor_mask31 n : n < P31 -> N.lor n P31 = n + P31.
Proof.
  intros Hn.
  assert (L : N.land n P31 = 0).
  { rewrite land_mask31 by (unfold P31 in *; lia). now replace (n <? P31) with true by lia. }
  rewrite <- N.lxor_lor by assumption. symmetry. now apply N.add_nocarry_lxor.
Qed.

(* ------------------------------------------------------- fanout counts *)

Definition well_sized (hs : nat) (tbl : list entry) : Prop :=
  forall e, In e tbl -> List.length (e_hash e) = hs.

Lemma filter_prefix_sorted (tbl : list entry) k :
  sorted_tbl tbl -> (forall e, In e tbl -> e_hash e <> []) ->
  exists n, filter (fun e => first_of e <=? k) tbl = firstn n tbl /\ (n <= List.length tbl)%nat /\
            forall i d, (i < List.length tbl)%nat -> ((i < n)%nat <-> first_of (nth i tbl d) <= k).
Proof.
  induction 1 as [|x l Hsl IH F]; intros Hne.
  - exists 0%nat. cbn. repeat split; try lia.
  - destruct IH as (n & En & Ln & Pn); [intros; apply Hne; now right|].
    cbn [filter]. destruct (first_of x <=? k) eqn:Ex.
    + exists (S n). cbn [firstn List.length]. rewrite En. repeat split; try lia.
      * intros Hi. destruct i; cbn; [lia|]. apply Pn; cbn in *; lia.
      * intros Hi. destruct i; [lia|]. cbn in Hi. apply Pn in Hi; cbn in *; lia.
    + (* nothing later can be <= k either *)
      assert (Hall : forall y, In y l -> (first_of y <=? k) = false).
      { intros y Hy. rewrite Forall_forall in F. specialize (F y Hy). unfold hlt in F.
        apply bytes_cmp_hd in F; [|apply Hne; now left|apply Hne; now right]. unfold first_of in *. lia. }
      exists 0%nat. cbn [firstn]. repeat split; try lia.
      * clear - Hall. induction l as [|y l IHl]; cbn; [reflexivity|].
        rewrite Hall by now left. apply IHl. intros; apply Hall; now right.
      * intros Hi. destruct i; cbn in *.
        -- lia.
        -- assert (T : (first_of (nth i l d) <=? k) = false) by (apply Hall, nth_In; lia). lia.
Qed.

(* positions of the entries whose first byte is k: [count_le (k-1), count_le k) *)
Lemma count_le_pos (tbl : list entry) k i d :
  sorted_tbl tbl -> (forall e, In e tbl -> e_hash e <> []) -> (i < List.length tbl)%nat ->
  (N.of_nat i < count_le tbl k <-> first_of (nth i tbl d) <= k).
Proof.
  intros S Hne Hi. destruct (filter_prefix_sorted tbl k S Hne) as (n & En & Ln & Pn).
  unfold count_le. rewrite En, firstn_length, Nat.min_l by lia. rewrite <- (Pn i d Hi). lia.
Qed.

Lemma count_le_le tbl k : count_le tbl k <= N.of_nat (List.length tbl).
Proof.
  unfold count_le. induction tbl as [|e l IH]; cbn [filter List.length]; [lia|].
  destruct (first_of e <=? k); cbn [List.length]; lia.
Qed.

Lemma count_le_mono tbl j k : j <= k -> count_le tbl j <= count_le tbl k.
Proof.
  intros Hjk. unfold count_le. induction tbl as [|e l IH]; cbn [filter List.length]; [lia|].
  destruct (first_of e <=? j) eqn:E1, (first_of e <=? k) eqn:E2; cbn [List.length]; lia.
Qed.

Lemma count_le_all tbl k :
  (forall e, In e tbl -> first_of e <= k) -> count_le tbl k = N.of_nat (List.length tbl).
Proof.
  intros H. unfold count_le. f_equal. induction tbl as [|e l IH]; cbn [filter List.length]; [reflexivity|].
  replace (first_of e <=? k) with true by (specialize (H e (or_introl eq_refl)); lia).
  cbn [List.length]. f_equal. apply IH. intros; apply H; now right.
Qed.

(* ------------------------------------------- 32/64-bit offset encoding *)

Definition n_big (l : list entry) : N := N.of_nat (List.length (filter is_big l)).

Lemma off32_codes_length tbl : forall n, List.length (off32_codes tbl n) = List.length tbl.
Proof. induction tbl as [|e l IH]; intros n; cbn; [reflexivity|]. destruct (is_big e); cbn; now rewrite IH. Qed.

Lemma off32_codes_nth tbl : forall n0 i d,
  (i < List.length tbl)%nat ->
  nth i (off32_codes tbl n0) 0 =
    if is_big (nth i tbl d) then n0 + n_big (firstn i tbl) + 2147483648 else e_off (nth i tbl d).
Proof.
  induction tbl as [|e l IH]; intros n0 i d Hi; cbn in Hi; [lia|].
  destruct i as [|i]; cbn [nth firstn off32_codes].
  - destruct (is_big e); cbn; [unfold n_big; cbn; lia|reflexivity].
  - destruct (is_big e) eqn:E; cbn [nth].
    + rewrite (IH (n0 + 1) i d) by lia. unfold n_big. cbn [filter]. rewrite E. cbn [List.length].
      destruct (is_big (nth i l d)); [lia|reflexivity].
    + rewrite (IH n0 i d) by lia. unfold n_big. cbn [filter]. rewrite E. reflexivity.
Qed.

Lemma big_offsets_nth tbl : forall i d,
  (i < List.length tbl)%nat -> is_big (nth i tbl d) = true ->
  nth (N.to_nat (n_big (firstn i tbl))) (big_offsets tbl) 0 = e_off (nth i tbl d) /\
  n_big (firstn i tbl) < n_big tbl.
Proof.
  unfold big_offsets, n_big.
  induction tbl as [|e l IH]; intros i d Hi Hb; cbn in Hi; [lia|].
  destruct i as [|i]; cbn [nth firstn filter] in *.
  - rewrite Hb. cbn. split; [reflexivity|lia].
  - destruct (IH i d) as [A B]; [lia|assumption|].
    destruct (is_big e) eqn:E; cbn [List.length map nth].
    + rewrite Nat2N.id in *. split; [exact A|lia].
    + split; [exact A|lia].
Qed.

Lemma big_offsets_length tbl : N.of_nat (List.length (big_offsets tbl)) = n_big tbl.
Proof. unfold big_offsets, n_big. now rewrite map_length. Qed.

Lemma off32_codes_bound tbl : forall n0,
  n0 + n_big tbl <= 2147483648 -> (forall e, In e tbl -> is_big e = false -> e_off e < 4294967296) ->
  forall c, In c (off32_codes tbl n0) -> c < 4294967296.
Proof.
  unfold n_big. induction tbl as [|e l IH]; intros n0 Hn Ho c Hc; cbn in *; [contradiction|].
  destruct (is_big e) eqn:E; cbn [List.length] in *; destruct Hc as [<-|Hc].
  - lia.
  - eapply (IH (n0 + 1)); eauto; lia.
  - apply Ho; auto.
  - eapply (IH n0); eauto.
Qed.

(* number of codes with the top bit among the first n records of the table *)
Lemma is_big_code tbl n0 i d :
  (i < List.length tbl)%nat -> n0 + n_big tbl <= 2147483648 ->
  (forall e, In e tbl -> e_off e < 18446744073709551616) ->
  (nth i (off32_codes tbl n0) 0 <? 2147483648) = negb (is_big (nth i tbl d)).
Proof.
  intros Hi Hn Ho. rewrite (off32_codes_nth tbl n0 i d Hi).
  destruct (is_big (nth i tbl d)) eqn:E; cbn.
  - apply N.ltb_ge. lia.
  - unfold is_big in E. apply N.ltb_lt. lia.
Qed.
