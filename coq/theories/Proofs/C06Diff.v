(* Proofs/C06Diff.v — diffDelta followed by any applier gives the target back,
   for an ARBITRARY candidate function standing for the hash index. *)
From Coq Require Import List NArith Arith Lia Bool.
From Coq Require Import ZifyBool ZifyNat ZifyN.
From GoGit Require Import Base.Out Model.Delta Spec.GitDelta Proofs.C06Apply.
Import ListNotations.
Local Open Scope N_scope.

(* ---------------------------------------------------------------- small facts *)
Lemma prefix_res_nil r : prefix_res [] r = r.
Proof. destruct r; reflexivity. Qed.

Lemma prefix_res_app a b r : prefix_res a (prefix_res b r) = prefix_res (a ++ b) r.
Proof. destruct r; cbn; [rewrite app_assoc|]; reflexivity. Qed.

Lemma firstn_len_app {A} (a b : list A) : firstn (List.length a) (a ++ b) = a.
Proof. induction a; cbn; [reflexivity|]. f_equal. assumption. Qed.

Lemma skipn_len_app {A} (a b : list A) : skipn (List.length a) (a ++ b) = b.
Proof. induction a; cbn; [reflexivity|assumption]. Qed.

Lemma firstn_add {A} (n m : nat) (l : list A) :
  firstn (n + m) l = firstn n l ++ firstn m (skipn n l).
Proof.
  revert l. induction n as [|n IH]; intros l; [reflexivity|].
  destruct l; [cbn; rewrite firstn_nil; reflexivity|]. cbn. f_equal. apply IH.
Qed.

Lemma slice_split b off n m : slice b off (n + m) = slice b off n ++ slice b (off + n) m.
Proof.
  rewrite !slice_spec. rewrite N2Nat.inj_add, firstn_add. f_equal.
  rewrite skipn_skipn_add. f_equal. f_equal. lia.
Qed.

Lemma land_small c : c < 128 -> N.land c 128 = 0.
Proof.
  intros H. assert (E : c = N.land c 127).
  { change 127 with (N.ones 7). rewrite N.land_ones. symmetry. apply N.mod_small. exact H. }
  rewrite E, <- N.land_assoc. change (N.land 127 128) with 0. apply N.land_0_r.
Qed.

(* ---------------------------------------------------------------- fuel of pd_loop is irrelevant once sufficient *)
Lemma dec_params_len tbl : forall cmd d acc v r,
  dec_params tbl cmd d acc = Some (v, r) -> (List.length r <= List.length d)%nat.
Proof.
  induction tbl as [|[m s] t IH]; intros cmd d acc v r H; cbn [dec_params] in H.
  - inversion H; subst. auto.
  - destruct (N.land cmd m =? 0); [eapply IH; eauto|].
    destruct d as [|b d']; [discriminate|]. apply IH in H. cbn [List.length]. lia.
Qed.

Lemma dec_size_len cmd d sz r : dec_size cmd d = Some (sz, r) -> (List.length r <= List.length d)%nat.
Proof.
  unfold dec_size. destruct (dec_params sizes_tbl cmd d 0) as [[s0 r0]|] eqn:E; [|discriminate].
  intros H. inversion H; subst. eapply dec_params_len; eauto.
Qed.

Lemma pd_loop_irrel src srcsz : forall f f' d rem,
  (List.length d < f)%nat -> (List.length d < f')%nat ->
  pd_loop f src srcsz d rem = pd_loop f' src srcsz d rem.
Proof.
  induction f as [|f IH]; intros f' d rem Hf Hf'; [lia|].
  destruct f' as [|f']; [lia|].
  cbn [pd_loop]. destruct (rem =? 0); [reflexivity|].
  destruct d as [|cmd r]; [reflexivity|]. cbn [List.length] in Hf, Hf'.
  destruct (is_copy_src cmd).
  - destruct (dec_offset cmd r) as [[off r1]|] eqn:Ho; [|reflexivity].
    apply dec_params_len in Ho.
    destruct (dec_size cmd r1) as [[sz r2]|] eqn:Hs; [|reflexivity].
    apply dec_size_len in Hs.
    destruct (invalid_size sz rem || invalid_offset_size off sz srcsz); [reflexivity|].
    f_equal. apply IH; lia.
  - destruct (is_copy_delta cmd); [|reflexivity].
    destruct (invalid_size cmd rem); [reflexivity|]. destruct (len r <? cmd); [reflexivity|].
    f_equal. apply IH; rewrite drop_skipn, skipn_length; lia.
Qed.

(* the command loop with its canonical fuel *)
Definition pdc (src d : bytes) (rem : N) : res bytes := pd_loop (S (List.length d)) src (len src) d rem.

Lemma pdc_nil src : pdc src [] 0 = Ok [].
Proof. reflexivity. Qed.

Lemma pd_loop_S f src srcsz delta rem :
  pd_loop (S f) src srcsz delta rem =
  if rem =? 0 then (if is_nil delta then Ok [] else Err EInvalid)
  else match delta with
    | [] => Err EInvalid
    | cmd :: d =>
      if is_copy_src cmd then
        match dec_offset cmd d with
        | None => Err EInvalid
        | Some (off, d1) =>
          match dec_size cmd d1 with
          | None => Err EInvalid
          | Some (sz, d2) =>
            if invalid_size sz rem || invalid_offset_size off sz srcsz then Err EInvalid
            else prefix_res (slice src off sz) (pd_loop f src srcsz d2 (rem - sz))
          end
        end
      else if is_copy_delta cmd then
        if invalid_size cmd rem then Err EInvalid
        else if len d <? cmd then Err EInvalid
        else prefix_res (take cmd d) (pd_loop f src srcsz (drop cmd d) (rem - cmd))
      else Err ECmd
    end.
Proof. reflexivity. Qed.

(* ---------------------------------------------------------------- LEB128 *)
Lemma split7 n : N.lor (N.land n 127) (N.shiftl (N.shiftr n 7) 7) = n.
Proof.
  apply N.bits_inj. intro m. rewrite N.lor_spec, N.land_spec. change 127 with (N.ones 7).
  destruct (N.lt_ge_cases m 7) as [H|H].
  - rewrite N.ones_spec_low, N.shiftl_spec_low by assumption.
    rewrite andb_true_r, orb_false_r. reflexivity.
  - rewrite N.ones_spec_high, N.shiftl_spec_high' by assumption.
    rewrite N.shiftr_spec', N.sub_add by assumption. rewrite andb_false_r. reflexivity.
Qed.

Lemma land127_128 n : N.land (N.land n 127) 128 = 0.
Proof. rewrite <- N.land_assoc. change (N.land 127 128) with 0. apply N.land_0_r. Qed.

Lemma land127_idem n : N.land (N.land n 127) 127 = N.land n 127.
Proof. rewrite <- N.land_assoc. reflexivity. Qed.

Lemma leb_rd_enc : forall f n k acc rest,
  n < 2 ^ (7 * N.of_nat f) -> n < 2 ^ (7 * N.of_nat (9 - k)) -> (k <= 8)%nat -> (1 <= f)%nat ->
  leb_rd_go (enc_leb_go f n ++ rest) k acc = Ok (N.lor acc (N.shiftl n (7 * N.of_nat k)), rest).
Proof.
  induction f as [|f IH]; intros n k acc rest Hf Hk Hk8 Hf1; [lia|].
  cbn [enc_leb_go]. cbv zeta.
  assert (Hltb : Nat.ltb 8 k = false) by (apply Nat.ltb_ge; lia).
  destruct (N.shiftr n 7 =? 0) eqn:E.
  - apply N.eqb_eq in E.
    assert (En : N.land n 127 = n).
    { pose proof (split7 n) as S7. rewrite E, N.shiftl_0_l, N.lor_0_r in S7. exact S7. }
    cbn [app leb_rd_go]. rewrite Hltb. unfold leb_step.
    rewrite land127_128, land127_idem, En. cbn [N.eqb]. reflexivity.
  - apply N.eqb_neq in E.
    cbn [app leb_rd_go]. rewrite Hltb. unfold leb_step.
    assert (E128 : N.land (N.lor (N.land n 127) 128) 128 = 128).
    { rewrite N.land_lor_distr_l, land127_128. reflexivity. }
    assert (E127 : N.land (N.lor (N.land n 127) 128) 127 = N.land n 127).
    { rewrite N.land_lor_distr_l, land127_idem. change (N.land 128 127) with 0. apply N.lor_0_r. }
    rewrite E128, E127. cbn [N.eqb Pos.eqb].
    assert (Hsh : N.shiftr n 7 < 2 ^ (7 * N.of_nat f) /\ N.shiftr n 7 < 2 ^ (7 * N.of_nat (8 - k))).
    { rewrite N.shiftr_div_pow2. split; apply N.div_lt_upper_bound; try (apply N.pow_nonzero; discriminate);
        rewrite <- N.pow_add_r.
      - replace (7 + 7 * N.of_nat f) with (7 * N.of_nat (S f)) by lia. exact Hf.
      - replace (7 + 7 * N.of_nat (8 - k)) with (7 * N.of_nat (9 - k)) by lia. exact Hk. }
    destruct Hsh as [Hs1 Hs2].
    assert (Hk7 : (k <= 7)%nat).
    { destruct (Nat.eq_dec k 8) as [->|]; [|lia]. change (2 ^ (7 * N.of_nat (8 - 8))) with 1 in Hs2. lia. }
    assert (Hf' : (1 <= f)%nat).
    { destruct f; [change (2 ^ (7 * N.of_nat 0)) with 1 in Hs1; lia|lia]. }
    rewrite IH; [|assumption|replace (9 - S k)%nat with (8 - k)%nat by lia; assumption|lia|assumption].
    f_equal. f_equal.
    rewrite <- N.lor_assoc. f_equal.
    rewrite <- (split7 n) at 3. rewrite N.shiftl_lor, N.shiftl_shiftl. f_equal. f_equal. lia.
Qed.

Lemma pow_mono_2 a b : a <= b -> 2 ^ a <= 2 ^ b.
Proof. intros. apply N.pow_le_mono_r; [discriminate|assumption]. Qed.

Lemma leb_rd_enc_leb n rest : n < 2 ^ 63 -> leb_rd (enc_leb n ++ rest) = Ok (n, rest).
Proof.
  intros H. unfold leb_rd, enc_leb. rewrite leb_rd_enc.
  - rewrite N.shiftl_0_r. reflexivity.
  - apply N.lt_le_trans with (2 ^ N.size n); [apply N.size_gt|]. apply pow_mono_2. lia.
  - exact H.
  - lia.
  - lia.
Qed.

Lemma leb_buf_enc_leb n rest : n < 2 ^ 63 -> leb_buf (enc_leb n ++ rest) = Ok (n, rest).
Proof. intros H. unfold leb_buf. apply leb_rd_buf. apply (leb_rd_enc_leb n rest H). Qed.

(* ---------------------------------------------------------------- insert commands *)
Lemma pdc_insert src b rest rem :
  1 <= len b -> len b <= 127 -> len b <= rem ->
  pdc src (len b :: b ++ rest) rem = prefix_res b (pdc src rest (rem - len b)).
Proof.
  intros H1 H127 Hrem. unfold pdc. cbn [List.length]. rewrite pd_loop_S.
  assert (E0 : rem =? 0 = false) by (apply N.eqb_neq; lia). rewrite E0.
  unfold is_copy_src, is_copy_delta, mask_continue. rewrite land_small by lia. cbn [N.eqb negb andb].
  assert (E1 : len b =? 0 = false) by (apply N.eqb_neq; lia). rewrite E1. cbn [negb].
  unfold invalid_size.
  assert (E2 : rem <? len b = false) by (apply N.ltb_ge; lia). rewrite E2.
  assert (E3 : len (b ++ rest) <? len b = false) by (apply N.ltb_ge; rewrite len_app; lia). rewrite E3.
  replace (take (len b) (b ++ rest)) with b.
  2:{ rewrite take_firstn. unfold len. rewrite Nat2N.id, firstn_len_app. reflexivity. }
  replace (drop (len b) (b ++ rest)) with rest.
  2:{ rewrite drop_skipn. unfold len. rewrite Nat2N.id, skipn_len_app. reflexivity. }
  f_equal. apply pd_loop_irrel; rewrite ?app_length; lia.
Qed.

Lemma pdc_enc_insert_go src : forall fuel b rest rem,
  (List.length b < fuel)%nat ->
  pdc src (enc_insert_go fuel b ++ rest) (len b + rem) = prefix_res b (pdc src rest rem).
Proof.
  induction fuel as [|fuel IH]; intros b rest rem Hf; [lia|].
  cbn [enc_insert_go]. destruct b as [|x b'] eqn:Eb.
  - cbn [is_nil app]. rewrite prefix_res_nil. reflexivity.
  - cbn [is_nil]. rewrite <- Eb in *. assert (Hb1 : 1 <= len b) by (subst b; unfold len; cbn [List.length]; lia).
    clear Eb x b'. destruct (127 <? len b) eqn:E.
    + apply N.ltb_lt in E.
      rewrite <- app_comm_cons, <- app_assoc.
      assert (Ht : len (take 127 b) = 127) by (apply len_take; lia).
      rewrite <- Ht at 1. rewrite pdc_insert by (rewrite ?Ht; lia). rewrite Ht.
      replace (len b + rem - 127) with (len (drop 127 b) + rem) by (rewrite len_drop; lia).
      rewrite IH.
      * rewrite prefix_res_app, take_drop. reflexivity.
      * rewrite drop_skipn, skipn_length. unfold len in E. lia.
    + apply N.ltb_ge in E. rewrite <- app_comm_cons.
      rewrite pdc_insert by lia. f_equal. f_equal. lia.
Qed.

Lemma pdc_enc_insert src b rest rem :
  pdc src (enc_insert b ++ rest) (len b + rem) = prefix_res b (pdc src rest rem).
Proof. unfold enc_insert. apply pdc_enc_insert_go. lia. Qed.

Lemma pdc_enc_insert_all src b : pdc src (enc_insert b) (len b) = Ok b.
Proof.
  pose proof (pdc_enc_insert src b [] 0) as H. rewrite app_nil_r, N.add_0_r, pdc_nil in H.
  rewrite H. cbn [prefix_res]. rewrite app_nil_r. reflexivity.
Qed.

(* ---------------------------------------------------------------- copy commands *)
Fixpoint enc_list (bit : N) (es : list N) : N * bytes :=
  match es with
  | [] => (0, [])
  | e :: t =>
    let '(code, bs) := enc_list (2 * bit) t in
    if e =? 0 then (code, bs) else (N.lor bit code, e :: bs)
  end.

Lemma dec_params_skip m s t cmd d acc :
  N.land cmd m = 0 -> dec_params ((m, s) :: t) cmd d acc = dec_params t cmd d acc.
Proof. intros H. cbn [dec_params]. rewrite H. reflexivity. Qed.

Lemma dec_params_take m s t cmd b r acc :
  N.land cmd m <> 0 -> dec_params ((m, s) :: t) cmd (b :: r) acc = dec_params t cmd r (N.lor acc (N.shiftl b s)).
Proof. intros H. cbn [dec_params]. apply N.eqb_neq in H. rewrite H. reflexivity. Qed.

Definition lor4 (e0 e1 e2 e3 : N) : N :=
  N.lor (N.lor (N.lor (N.lor 0 (N.shiftl e0 0)) (N.shiftl e1 8)) (N.shiftl e2 16)) (N.shiftl e3 24).
Definition lor3 (e0 e1 e2 : N) : N :=
  N.lor (N.lor (N.lor 0 (N.shiftl e0 0)) (N.shiftl e1 8)) (N.shiftl e2 16).

Ltac dec_step :=
  first [ rewrite dec_params_take by (vm_compute; discriminate)
        | rewrite dec_params_skip by (vm_compute; reflexivity) ].

Lemma dec_enc_list e0 e1 e2 e3 s0 s1 s2 rest :
  let cb1 := enc_list 1 [e0; e1; e2; e3] in
  let cb2 := enc_list 16 [s0; s1; s2] in
  let cmd := N.lor 128 (N.lor (fst cb1) (fst cb2)) in
  N.land cmd 128 <> 0 /\
  dec_params offsets_tbl cmd (snd cb1 ++ snd cb2 ++ rest) 0 = Some (lor4 e0 e1 e2 e3, snd cb2 ++ rest) /\
  dec_params sizes_tbl cmd (snd cb2 ++ rest) 0 = Some (lor3 s0 s1 s2, rest).
Proof.
  unfold lor4, lor3, offsets_tbl, sizes_tbl. cbn [enc_list].
  destruct (e0 =? 0) eqn:E0; [apply N.eqb_eq in E0; subst e0|];
  (destruct (e1 =? 0) eqn:E1; [apply N.eqb_eq in E1; subst e1|]);
  (destruct (e2 =? 0) eqn:E2; [apply N.eqb_eq in E2; subst e2|]);
  (destruct (e3 =? 0) eqn:E3; [apply N.eqb_eq in E3; subst e3|]);
  (destruct (s0 =? 0) eqn:F0; [apply N.eqb_eq in F0; subst s0|]);
  (destruct (s1 =? 0) eqn:F1; [apply N.eqb_eq in F1; subst s1|]);
  (destruct (s2 =? 0) eqn:F2; [apply N.eqb_eq in F2; subst s2|]);
  cbn [fst snd app]; cbv zeta;
  (split; [vm_compute; discriminate|]);
  (split; [do 4 dec_step | do 3 dec_step]);
  cbn [dec_params]; rewrite ?N.shiftl_0_l, ?N.lor_0_r; reflexivity.
Qed.

Lemma enc_fields_list4 v : enc_fields 4 0 1 v = enc_list 1 [field_byte v 0; field_byte v 1; field_byte v 2; field_byte v 3].
Proof. reflexivity. Qed.

Lemma enc_fields_list3 v : enc_fields 3 0 16 v = enc_list 16 [field_byte v 0; field_byte v 1; field_byte v 2].
Proof. reflexivity. Qed.

Lemma field_shift v k : N.shiftl (N.shiftr (N.land v (N.shiftl 255 k)) k) k = N.land v (N.shiftl 255 k).
Proof.
  apply N.bits_inj. intro m. destruct (N.lt_ge_cases m k) as [H|H].
  - rewrite N.shiftl_spec_low by assumption. rewrite N.land_spec, N.shiftl_spec_low by assumption.
    rewrite andb_false_r. reflexivity.
  - rewrite N.shiftl_spec_high' by assumption. rewrite N.shiftr_spec', N.sub_add by assumption. reflexivity.
Qed.

Lemma recompose4 v : v < 2 ^ 32 ->
  lor4 (field_byte v 0) (field_byte v 1) (field_byte v 2) (field_byte v 3) = v.
Proof.
  intros H. unfold lor4, field_byte.
  change (8 * 0) with 0. change (8 * 1) with 8. change (8 * 2) with 16. change (8 * 3) with 24.
  rewrite !field_shift, N.lor_0_l, <- !N.land_lor_distr_r.
  change (N.lor (N.lor (N.lor (N.shiftl 255 0) (N.shiftl 255 8)) (N.shiftl 255 16)) (N.shiftl 255 24)) with (N.ones 32).
  rewrite N.land_ones. apply N.mod_small. exact H.
Qed.

Lemma recompose3 v : v < 2 ^ 24 ->
  lor3 (field_byte v 0) (field_byte v 1) (field_byte v 2) = v.
Proof.
  intros H. unfold lor3, field_byte.
  change (8 * 0) with 0. change (8 * 1) with 8. change (8 * 2) with 16.
  rewrite !field_shift, N.lor_0_l, <- !N.land_lor_distr_r.
  change (N.lor (N.lor (N.shiftl 255 0) (N.shiftl 255 8)) (N.shiftl 255 16)) with (N.ones 24).
  rewrite N.land_ones. apply N.mod_small. exact H.
Qed.

Lemma pdc_copy src off l rest rem :
  off < 2 ^ 32 -> 1 <= l -> l <= 65536 -> off + l <= len src -> l <= rem ->
  pdc src (enc_copy off l ++ rest) rem = prefix_res (slice src off l) (pdc src rest (rem - l)).
Proof.
  intros Hoff Hl1 Hl2 Hsrc Hrem. unfold enc_copy.
  rewrite enc_fields_list4, enc_fields_list3.
  pose proof (dec_enc_list (field_byte off 0) (field_byte off 1) (field_byte off 2) (field_byte off 3)
                           (field_byte l 0) (field_byte l 1) (field_byte l 2) rest) as D.
  cbv zeta in D.
  destruct (enc_list 1 [field_byte off 0; field_byte off 1; field_byte off 2; field_byte off 3]) as [c1 b1].
  destruct (enc_list 16 [field_byte l 0; field_byte l 1; field_byte l 2]) as [c2 b2].
  cbn [fst snd] in D. destruct D as (Dc & Do & Ds).
  assert (Hl24 : l < 2 ^ 24) by (apply N.le_lt_trans with 65536; [assumption|vm_compute; reflexivity]).
  rewrite recompose4 in Do by assumption. rewrite recompose3 in Ds by assumption.
  rewrite <- app_comm_cons, <- app_assoc. unfold pdc. cbn [List.length]. rewrite pd_loop_S.
  assert (E0 : rem =? 0 = false) by (apply N.eqb_neq; lia). rewrite E0.
  unfold is_copy_src, mask_continue. apply N.eqb_neq in Dc. rewrite Dc. cbn [negb].
  unfold dec_offset, dec_size. rewrite Do, Ds.
  assert (El : l =? 0 = false) by (apply N.eqb_neq; lia). rewrite El.
  assert (Hc : invalid_size l rem || invalid_offset_size off l (len src) = false).
  { rewrite copy_check_eq by assumption. unfold glen. fold (len src).
    assert (Hlt : off + l < 2 ^ 64).
    { apply N.lt_trans with (2 ^ 32 + 2 ^ 24); [lia|]. vm_compute. reflexivity. }
    apply orb_false_iff; split; [apply orb_false_iff; split|].
    - apply N.leb_gt. exact Hlt.
    - apply N.ltb_ge. exact Hsrc.
    - apply N.ltb_ge. exact Hrem. }
  rewrite Hc. f_equal. apply pd_loop_irrel; rewrite ?app_length; lia.
Qed.

Lemma pdc_copies src : forall fuel off l rest rem,
  l < 65536 * N.of_nat fuel -> off + l <= len src -> len src <= 2 ^ 32 ->
  pdc src (enc_copies fuel off l ++ rest) (l + rem) = prefix_res (slice src off l) (pdc src rest rem).
Proof.
  induction fuel as [|fuel IH]; intros off l rest rem Hf Hsrc H32; [lia|].
  cbn [enc_copies]. unfold max_copy_size. destruct (l =? 0) eqn:E0.
  - apply N.eqb_eq in E0. subst l. cbn [app]. rewrite slice_spec. cbn [N.to_nat firstn].
    rewrite prefix_res_nil. reflexivity.
  - apply N.eqb_neq in E0. destruct (l <? 65536) eqn:E1.
    + apply N.ltb_lt in E1. rewrite pdc_copy by lia. f_equal. f_equal. lia.
    + apply N.ltb_ge in E1. rewrite <- app_assoc. rewrite pdc_copy by lia.
      replace (l + rem - 65536) with ((l - 65536) + rem) by lia.
      rewrite IH by lia. rewrite prefix_res_app.
      assert (Hsl : slice src off l = slice src off 65536 ++ slice src (off + 65536) (l - 65536)).
      { rewrite <- slice_split. f_equal. lia. }
      rewrite Hsl. reflexivity.
Qed.

Lemma pdc_copy_run src off l rest rem :
  off + l <= len src -> len src <= 2 ^ 32 ->
  pdc src (enc_copy_run off l ++ rest) (l + rem) = prefix_res (slice src off l) (pdc src rest rem).
Proof.
  intros Hs H32. unfold enc_copy_run, max_copy_size. apply pdc_copies; try assumption.
  rewrite Nat2N.inj_succ, N2Nat.id.
  pose proof (N.div_mod l 65536) as Hd. pose proof (N.mod_lt l 65536) as Hm.
  assert (65536 <> 0) by discriminate. specialize (Hd H). specialize (Hm H). lia.
Qed.

(* ---------------------------------------------------------------- matchLength *)
Lemma common_prefix_spec a : forall b,
  firstn (common_prefix a b) a = firstn (common_prefix a b) b /\
  (common_prefix a b <= List.length a)%nat /\ (common_prefix a b <= List.length b)%nat.
Proof.
  induction a as [|x a IH]; intros b; [cbn; repeat split; lia|].
  destruct b as [|y b]; [cbn; repeat split; lia|].
  cbn [common_prefix]. destruct (x =? y) eqn:E; [|cbn; repeat split; lia].
  apply N.eqb_eq in E. subst y. destruct (IH b) as (A & B & C).
  cbn [firstn List.length]. repeat split; [f_equal; exact A|lia|lia].
Qed.

Lemma shorter_spec {A} (l : list A) n : shorter l n = Nat.ltb (List.length l) n.
Proof.
  revert l. induction n as [|n IH]; intros l; [destruct l; reflexivity|].
  destruct l as [|x l]; [reflexivity|]. cbn [shorter List.length]. rewrite IH. reflexivity.
Qed.

(* ---------------------------------------------------------------- the main loop *)
Lemma len_cons x (l : bytes) : len (x :: l) = 1 + len l.
Proof. unfold len. cbn [List.length]. lia. Qed.

Lemma len_firstn_skipn n (t : bytes) : len (firstn n t) + len (skipn n t) = len t.
Proof. rewrite <- len_app, firstn_skipn. reflexivity. Qed.

Lemma diff_loop_sound src pick : len src <= 2 ^ 32 ->
  forall fuel t i ib ops,
  diff_loop fuel pick src t i ib = Some ops ->
  pdc src ops (len (rev ib) + len t) = Ok (rev ib ++ t).
Proof.
  intros H32. induction fuel as [|fuel IH]; intros t i ib ops H; [discriminate|].
  cbn [diff_loop] in H. destruct t as [|c t'].
  - inversion H; subst. change (len []) with 0. rewrite N.add_0_r, app_nil_r. apply pdc_enc_insert_all.
  - destruct (shorter (c :: t') blk).
    { inversion H; subst. rewrite <- len_app. apply pdc_enc_insert_all. }
    destruct (shorter src blk).
    { inversion H; subst. rewrite <- len_app. apply pdc_enc_insert_all. }
    assert (Hone : forall ops', diff_loop fuel pick src t' (S i) (c :: ib) = Some ops' ->
                   pdc src ops' (len (rev ib) + len (c :: t')) = Ok (rev ib ++ c :: t')).
    { intros ops' H'. apply IH in H'. cbn [rev] in H'. rewrite <- app_assoc in H'. cbn [app] in H'.
      rewrite <- H'. f_equal. rewrite len_app, !len_cons. change (len []) with 0. lia. }
    destruct (pick i) as [off|]; [|cbn [Nat.eqb] in H; apply Hone; exact H].
    set (l := common_prefix (skipn off src) (c :: t')) in *.
    destruct (Nat.eqb l 0) eqn:El0; [apply Hone; exact H|].
    apply Nat.eqb_neq in El0.
    destruct (common_prefix_spec (skipn off src) (c :: t')) as (Hcp & Hls & Hlt). fold l in Hcp, Hls, Hlt.
    destruct (Nat.ltb l blk) eqn:Elb.
    + apply IH in H. rewrite rev_app_distr, rev_involutive in H. rewrite <- app_assoc, firstn_skipn in H.
      rewrite <- H. f_equal. rewrite len_app, <- N.add_assoc, len_firstn_skipn. reflexivity.
    + destruct (diff_loop fuel pick src (skipn l (c :: t')) (i + l) []) as [rest|] eqn:Hrec; [|discriminate].
      inversion H; subst ops. clear H.
      apply IH in Hrec. cbn [rev app] in Hrec. change (len []) with 0 in Hrec. rewrite N.add_0_l in Hrec.
      rewrite skipn_length in Hls.
      assert (Hlen : len (c :: t') = N.of_nat l + len (skipn l (c :: t'))).
      { rewrite <- (len_firstn_skipn l (c :: t')). f_equal. unfold len. rewrite firstn_length. lia. }
      rewrite Hlen, pdc_enc_insert, pdc_copy_run; [| unfold len; lia | assumption].
      rewrite Hrec. cbn [prefix_res]. f_equal. f_equal.
      rewrite slice_spec, !Nat2N.id, Hcp. apply firstn_skipn.
Qed.

Lemma diff_loop_fuel src pick : forall fuel t i ib,
  (List.length t < fuel)%nat -> diff_loop fuel pick src t i ib <> None.
Proof.
  induction fuel as [|fuel IH]; intros t i ib Hf; [lia|].
  cbn [diff_loop]. destruct t as [|c t']; [discriminate|].
  destruct (shorter (c :: t') blk); [discriminate|]. destruct (shorter src blk); [discriminate|].
  cbn [List.length] in Hf.
  assert (Hone : diff_loop fuel pick src t' (S i) (c :: ib) <> None) by (apply IH; lia).
  destruct (pick i) as [off|]; [|exact Hone].
  set (l := common_prefix (skipn off src) (c :: t')).
  destruct (Nat.eqb l 0) eqn:El0; [exact Hone|]. apply Nat.eqb_neq in El0.
  assert (Hsk : (List.length (skipn l (c :: t')) < fuel)%nat) by (rewrite skipn_length; cbn [List.length]; lia).
  destruct (Nat.ltb l blk); [apply IH; exact Hsk|].
  specialize (IH (skipn l (c :: t')) (i + l)%nat [] Hsk).
  destruct (diff_loop fuel pick src (skipn l (c :: t')) (i + l) []); [discriminate|congruence].
Qed.

(* ---------------------------------------------------------------- round trips *)
Lemma pow32_63 : 2 ^ 32 < 2 ^ 63.
Proof. vm_compute. reflexivity. Qed.

Lemma diff_roundtrip pick src tgt :
  len src <= 2 ^ 32 -> len tgt < 2 ^ 63 ->
  exists d, diff_delta pick src tgt = Some d /\ patch_delta src d = Ok tgt.
Proof.
  intros H32 H63. unfold diff_delta.
  destruct (diff_loop (S (List.length tgt)) pick src tgt 0 []) as [ops|] eqn:Hd.
  - eexists; split; [reflexivity|].
    unfold patch_delta.
    assert (Hs63 : len src < 2 ^ 63) by (pose proof pow32_63; lia).
    rewrite leb_buf_enc_leb by assumption. rewrite N.eqb_refl. cbn [negb].
    rewrite leb_buf_enc_leb by assumption.
    pose proof (diff_loop_sound src pick H32 _ _ _ _ _ Hd) as S. cbn [rev app] in S.
    change (len []) with 0 in S. rewrite N.add_0_l in S. exact S.
  - exfalso. revert Hd. apply diff_loop_fuel. lia.
Qed.

Lemma diff_hdr_rd pick src tgt d :
  len src <= 2 ^ 32 -> len tgt < 2 ^ 63 -> diff_delta pick src tgt = Some d ->
  exists d1 d2, leb_rd d = Ok (len src, d1) /\ leb_rd d1 = Ok (len tgt, d2).
Proof.
  intros H32 H63 H. unfold diff_delta in H.
  destruct (diff_loop (S (List.length tgt)) pick src tgt 0 []) as [ops|]; [|discriminate].
  inversion H; subst.
  assert (Hs63 : len src < 2 ^ 63) by (pose proof pow32_63; lia).
  eexists. eexists. split; apply leb_rd_enc_leb; assumption.
Qed.

Lemma diff_roundtrip_stream pick src tgt :
  len src <= 2 ^ 32 -> len tgt < 2 ^ 63 ->
  exists d, diff_delta pick src tgt = Some d /\ reader_from_delta src d = Ok tgt.
Proof.
  intros H32 H63. destruct (diff_roundtrip pick src tgt H32 H63) as (d & Hd & Hp).
  exists d. split; [assumption|].
  destruct (diff_hdr_rd pick src tgt d H32 H63 Hd) as (d1 & d2 & H1 & H2).
  rewrite (stream_eq_buffer src d _ _ _ _ H1 H2). exact Hp.
Qed.

Lemma diff_roundtrip_writer pick src tgt :
  len src <= 2 ^ 32 -> len tgt < 2 ^ 63 ->
  exists d, diff_delta pick src tgt = Some d /\ patch_delta_writer true src d = Ok tgt.
Proof.
  intros H32 H63. destruct (diff_roundtrip pick src tgt H32 H63) as (d & Hd & Hp).
  exists d. split; [assumption|].
  destruct (diff_hdr_rd pick src tgt d H32 H63 Hd) as (d1 & d2 & H1 & H2).
  apply to_g_ok. rewrite (writer_eq_buffer src d _ _ _ _ H1 H2). apply to_g_ok. exact Hp.
Qed.
