(* Proofs/C51Reader.v — big-endian codec round trip and byte-slice algebra used
   to show that the reader model accepts what the encoder model writes. *)
From Coq Require Import List NArith ZArith Bool Lia ZifyBool ZifyN ZifyNat.
From GoGit Require Import Base.Out Gen.C51 Model.CommitGraph Proofs.C51.
Import ListNotations.
Local Open Scope N_scope.

Lemma unbe_be : forall w x acc, unbe (be w x) acc = acc * 2 ^ (8 * N.of_nat w) + x mod 2 ^ (8 * N.of_nat w).
Proof.
  induction w as [|w IH]; intros x acc.
  - simpl. rewrite N.mod_1_r. lia.
  - cbn [be unbe]. rewrite IH. rewrite N.shiftr_div_pow2.
    replace (8 * N.of_nat (S w)) with (8 * N.of_nat w + 8) by lia.
    rewrite N.pow_add_r. change (2 ^ 8) with 256.
    set (P := 2 ^ (8 * N.of_nat w)).
    assert (HP : P <> 0) by (unfold P; apply N.pow_nonzero; lia).
    rewrite (N.mod_mul_r x P 256) by (auto; lia). lia.
Qed.

Lemma unbe_be32 : forall x, x < two32 -> unbe (be32 x) 0 = x.
Proof.
  intros x H. unfold be32. rewrite unbe_be. change (2 ^ (8 * N.of_nat 4)) with two32.
  rewrite N.mod_mod by (unfold two32; lia). rewrite N.mod_small by exact H. lia.
Qed.

Lemma unbe_be64 : forall x, x < two64 -> unbe (be64 x) 0 = x.
Proof.
  intros x H. unfold be64. rewrite unbe_be. change (2 ^ (8 * N.of_nat 8)) with two64.
  rewrite N.mod_mod by (unfold two64; lia). rewrite N.mod_small by exact H. lia.
Qed.

(* reading [len] bytes at the end of a known prefix *)
Lemma slice_app : forall (pre body rest : bytes),
  slice (pre ++ body ++ rest) (Z.of_nat (List.length pre)) (List.length body) = Some body.
Proof.
  intros pre body rest. unfold slice.
  assert (E1 : (Z.of_nat (List.length pre) <? 0)%Z = false) by lia.
  assert (E2 : (Z.of_nat (List.length (pre ++ body ++ rest)) <? Z.of_nat (List.length pre) + Z.of_nat (List.length body))%Z = false).
  { rewrite !app_length. lia. }
  rewrite E1, E2. simpl. rewrite Nat2Z.id.
  rewrite skipn_app, skipn_all, Nat.sub_diag. simpl.
  rewrite firstn_app, firstn_all, Nat.sub_diag. simpl. now rewrite app_nil_r.
Qed.

Lemma rd32_app : forall (pre rest : bytes) x, x < two32 ->
  rd (pre ++ be32 x ++ rest) (Z.of_nat (List.length pre)) 4 = Ok x.
Proof.
  intros pre rest x H. unfold rd.
  pose proof (slice_app pre (be32 x) rest) as S. rewrite be32_length in S. rewrite S.
  now rewrite unbe_be32.
Qed.

Lemma rd64_app : forall (pre rest : bytes) x, x < two64 ->
  rd (pre ++ be64 x ++ rest) (Z.of_nat (List.length pre)) 8 = Ok x.
Proof.
  intros pre rest x H. unfold rd.
  pose proof (slice_app pre (be64 x) rest) as S. rewrite be64_length in S. rewrite S.
  now rewrite unbe_be64.
Qed.

(* ------------------------------------------------- table of contents *)
Definition tent := (bytes * nat * N)%type.      (* signature, chunk kind, offset *)
Definition ent_bytes (e : tent) : bytes := fst (fst e) ++ be64 (snd e).
Definition ent_ct (e : tent) : nat := snd (fst e).
Definition ent_off (e : tent) : Z := Z.of_N (snd e).

Fixpoint toc_ok (prev upper : Z) (seen : list bytes) (T : list tent) : Prop :=
  match T with
  | [] => True
  | e :: r =>
    List.length (fst (fst e)) = 4%nat /\ chunk_type (fst (fst e)) = Some (ent_ct e) /\ ent_ct e <> 9%nat /\
    snd e < 9223372036854775808 /\ (prev <= ent_off e <= upper)%Z /\
    existsb (bytes_eqb (fst (fst e))) seen = false /\
    toc_ok (ent_off e) upper (fst (fst e) :: seen) r
  end.

Lemma i64_small : forall x, x < 9223372036854775808 -> i64_of_N x = Z.of_N x.
Proof.
  intros x H. unfold i64_of_N. rewrite N.mod_small by (unfold two64; lia).
  destruct (Z.of_N x <? 9223372036854775808)%Z eqn:E; [reflexivity | lia].
Qed.

Lemma toc_read : forall T file pre rest i prev upper seen offs assigned,
  Z.of_nat (List.length pre) = (8 + 12 * Z.of_nat i)%Z ->
  file = pre ++ flat_map ent_bytes T ++ rest ->
  toc_ok prev upper seen T ->
  read_toc file (List.length T) i prev upper seen offs assigned =
  Ok (fold_left (fun o e => set_nth (ent_ct e) (ent_off e) o) T offs,
      assigned ++ map (fun e => (ent_ct e, ent_off e)) T).
Proof.
  induction T as [|e r IH]; intros file pre rest i prev upper seen offs assigned Hpre Hfile Hok.
  - simpl. now rewrite app_nil_r.
  - destruct e as [[s ct] off]. cbn [toc_ok] in Hok. unfold ent_ct, ent_off in Hok. cbn [fst snd] in Hok.
    destruct Hok as [Hs [Hct [Hne [Hoff [[Hlo Hhi] [Hseen Hrest]]]]]].
    cbn [List.length read_toc].
    assert (F1 : file = pre ++ s ++ (be64 off ++ flat_map ent_bytes r ++ rest)).
    { rewrite Hfile. cbn [flat_map]. unfold ent_bytes at 1. cbn [fst snd]. now rewrite <- !app_assoc. }
    assert (S1 : slice file (8 + 12 * Z.of_nat i) 4 = Some s).
    { rewrite <- Hpre, <- Hs. rewrite F1. apply slice_app. }
    rewrite S1.
    assert (F2 : file = (pre ++ s) ++ be64 off ++ (flat_map ent_bytes r ++ rest)).
    { rewrite F1. now rewrite <- !app_assoc. }
    assert (R1 : rd file (8 + 12 * Z.of_nat i + 4) 8 = Ok off).
    { replace (8 + 12 * Z.of_nat i + 4)%Z with (Z.of_nat (List.length (pre ++ s))) by (rewrite app_length; lia).
      rewrite F2. apply rd64_app. unfold two64. lia. }
    rewrite R1. rewrite (i64_small off Hoff).
    assert (C1 : ((upper <? Z.of_N off) || (Z.of_N off <? prev))%Z = false) by lia.
    rewrite C1, Hseen, Hct.
    assert (E : match ct with 9%nat => @Er (list Z * list (nat * Z)) EMalformed
                | _ => read_toc file (List.length r) (S i) (Z.of_N off) upper (s :: seen)
                         (set_nth ct (Z.of_N off) offs) (assigned ++ [(ct, Z.of_N off)]) end
                = read_toc file (List.length r) (S i) (Z.of_N off) upper (s :: seen)
                         (set_nth ct (Z.of_N off) offs) (assigned ++ [(ct, Z.of_N off)])).
    { do 9 (destruct ct as [|ct]; [reflexivity|]). destruct ct; [exfalso; now apply Hne | reflexivity]. }
    etransitivity; [exact E|].
    rewrite (IH file (pre ++ s ++ be64 off) rest (S i) (Z.of_N off) upper (s :: seen)
               (set_nth ct (Z.of_N off) offs) (assigned ++ [(ct, Z.of_N off)])).
    + cbn [fold_left map]. unfold ent_ct at 1 3, ent_off at 1 3. cbn [fst snd]. now rewrite <- app_assoc.
    + rewrite !app_length, be64_length, Hs. lia.
    + rewrite Hfile. cbn [flat_map]. unfold ent_bytes at 1. cbn [fst snd]. now rewrite <- !app_assoc.
    + exact Hrest.
Qed.

(* ------------------------------------------------------------ table updates *)
Lemma set_nth_length : forall (A : Type) i (x : A) l, List.length (set_nth i x l) = List.length l.
Proof. intros. unfold set_nth. rewrite map_length, combine_length, seq_length. apply Nat.min_id. Qed.

Lemma set_nth_nth : forall i (x : Z) l j, (j < List.length l)%nat ->
  nth j (set_nth i x l) 0%Z = if Nat.eqb j i then x else nth j l 0%Z.
Proof.
  intros i x l j Hj. unfold set_nth.
  set (f := fun kx : nat * Z => if Nat.eqb (fst kx) i then x else snd kx).
  rewrite (nth_indep _ 0%Z (f (O, 0%Z))).
  - rewrite map_nth. rewrite combine_nth by (now rewrite seq_length).
    rewrite seq_nth by exact Hj. reflexivity.
  - rewrite map_length, combine_length, seq_length, Nat.min_id. exact Hj.
Qed.

Lemma fold_set_length : forall (T : list tent) offs,
  List.length (fold_left (fun o e => set_nth (ent_ct e) (ent_off e) o) T offs) = List.length offs.
Proof.
  induction T as [|e r IH]; intros offs; [reflexivity|]. simpl. rewrite IH. apply set_nth_length.
Qed.

Lemma fold_set_notin : forall (T : list tent) offs ct, (ct < List.length offs)%nat ->
  ~ In ct (map ent_ct T) ->
  nth ct (fold_left (fun o e => set_nth (ent_ct e) (ent_off e) o) T offs) 0%Z = nth ct offs 0%Z.
Proof.
  induction T as [|e r IH]; intros offs ct Hlt Hn; [reflexivity|]. simpl in *.
  rewrite IH; [| now rewrite set_nth_length | tauto].
  rewrite set_nth_nth by exact Hlt.
  destruct (Nat.eqb ct (ent_ct e)) eqn:E; [|reflexivity]. apply Nat.eqb_eq in E. exfalso. apply Hn. now left.
Qed.

Lemma fold_set_in : forall (T : list tent) offs e, NoDup (map ent_ct T) -> In e T ->
  (ent_ct e < List.length offs)%nat ->
  nth (ent_ct e) (fold_left (fun o e => set_nth (ent_ct e) (ent_off e) o) T offs) 0%Z = ent_off e.
Proof.
  induction T as [|e0 r IH]; intros offs e Hnd Hin Hlt; [contradiction|]. simpl in *.
  inversion Hnd as [|? ? Hn Hr]; subst. destruct Hin as [Hin|Hin].
  - subst e0. rewrite fold_set_notin; [| now rewrite set_nth_length | exact Hn].
    rewrite set_nth_nth by exact Hlt. now rewrite Nat.eqb_refl.
  - apply IH; auto. now rewrite set_nth_length.
Qed.

Lemma assign_sizes_length : forall assigned term sizes,
  List.length (assign_sizes assigned term sizes) = List.length sizes.
Proof.
  induction assigned as [|[ct o] r IH]; intros term sizes; [reflexivity|]. simpl. rewrite IH. apply set_nth_length.
Qed.

Lemma assign_sizes_notin : forall assigned term sizes ct, (ct < List.length sizes)%nat ->
  ~ In ct (map fst assigned) -> nth ct (assign_sizes assigned term sizes) 0%Z = nth ct sizes 0%Z.
Proof.
  induction assigned as [|[c o] r IH]; intros term sizes ct Hlt Hn; [reflexivity|]. simpl in *.
  rewrite IH; [| now rewrite set_nth_length | tauto].
  rewrite set_nth_nth by exact Hlt.
  destruct (Nat.eqb ct c) eqn:E; [|reflexivity]. apply Nat.eqb_eq in E. exfalso. apply Hn. now left.
Qed.

(* ---- the encoder's table as reader entries: consecutive offsets *)
Definition ct_of (s : bytes) : nat := match chunk_type s with Some c => c | None => O end.

Fixpoint mkT (tbl : list (bytes * N)) (off : N) : list tent :=
  match tbl with
  | [] => []
  | (s, sz) :: r => (s, ct_of s, off) :: mkT r (off + sz)
  end.

Fixpoint total (tbl : list (bytes * N)) : N :=
  match tbl with [] => 0 | (_, sz) :: r => sz + total r end.

Lemma chunk_headers_mkT : forall tbl off,
  chunk_headers tbl off = flat_map ent_bytes (mkT tbl off) ++ sig_ZERO ++ be64 (off + total tbl).
Proof.
  induction tbl as [|[s sz] r IH]; intros off.
  - simpl. now rewrite N.add_0_r.
  - cbn [chunk_headers mkT flat_map total]. unfold ent_bytes at 1. cbn [fst snd]. rewrite IH.
    rewrite <- !app_assoc. now rewrite N.add_assoc.
Qed.

Lemma mkT_cts : forall tbl off, map ent_ct (mkT tbl off) = map (fun t => ct_of (fst t)) tbl.
Proof. induction tbl as [|[s sz] r IH]; intros off; [reflexivity|]. simpl. now rewrite IH. Qed.

Lemma mkT_length : forall tbl off, List.length (mkT tbl off) = List.length tbl.
Proof. induction tbl as [|[s sz] r IH]; intros off; [reflexivity|]. simpl. now rewrite IH. Qed.

Lemma assign_sizes_mkT : forall tbl off sizes s sz,
  NoDup (map (fun t => ct_of (fst t)) tbl) -> In (s, sz) tbl ->
  (forall t, In t tbl -> (ct_of (fst t) < List.length sizes)%nat) ->
  nth (ct_of s)
      (assign_sizes (map (fun e => (ent_ct e, ent_off e)) (mkT tbl off)) (Z.of_N (off + total tbl)) sizes) 0%Z
  = Z.of_N sz.
Proof.
  induction tbl as [|[s0 sz0] r IH]; intros off sizes s sz Hnd Hin Hlt; [contradiction|].
  cbn [mkT map assign_sizes total]. unfold ent_ct at 1, ent_off at 1. cbn [fst snd].
  inversion Hnd as [|? ? Hn Hr]; subst.
  set (e := match map (fun e0 => (ent_ct e0, ent_off e0)) (mkT r (off + sz0)) with
            | (_, o') :: _ => o' | [] => Z.of_N (off + (sz0 + total r)) end).
  assert (He : e = Z.of_N (off + sz0)).
  { unfold e. destruct r as [|[s1 sz1] r']; simpl; [f_equal; lia | reflexivity]. }
  rewrite He. replace (off + (sz0 + total r)) with (off + sz0 + total r) by lia.
  destruct Hin as [Hin|Hin].
  - injection Hin as E1 E2. subst s0 sz0.
    rewrite assign_sizes_notin.
    + rewrite set_nth_nth by (apply (Hlt (s, sz)); now left). rewrite Nat.eqb_refl. unfold ent_off. cbn [snd]. lia.
    + rewrite set_nth_length. apply (Hlt (s, sz)). now left.
    + rewrite map_map. simpl. rewrite mkT_cts. exact Hn.
  - apply IH; auto.
    + intros t Ht. rewrite set_nth_length. apply Hlt. now right.
Qed.

(* ---------------------------------------------------- sufficient conditions *)
Lemma open_file_ok : forall file nc offs assigned toff nco fo,
  slice file 0 4 = Some sig_CGPH ->
  slice file 4 4 = Some [1; 1; nc; 0] ->
  (8 + (Z.of_N nc + 1) * 12 + 1024 + 20 <= Z.of_nat (List.length file))%Z ->
  read_toc file (N.to_nat nc) 0 0%Z (Z.of_nat (List.length file) - 20)%Z [] zeros9 [] = Ok (offs, assigned) ->
  slice file (8 + 12 * Z.of_N nc) 4 = Some sig_ZERO ->
  rd file (8 + 12 * Z.of_N nc + 4) 8 = Ok toff ->
  let sizes := assign_sizes assigned (i64_of_N toff) zeros9 in
  (0 < off_of offs 0)%Z -> (0 < off_of offs 1)%Z -> (0 < off_of offs 2)%Z ->
  off_of sizes 0 = 1024%Z ->
  rd file (off_of offs 0 + 1020) 4 = Ok nco ->
  nco <= 2147483647 ->
  off_of sizes 1 = (Z.of_N nco * 20)%Z ->
  off_of sizes 2 = (Z.of_N nco * 36)%Z ->
  ((0 < off_of offs 3)%Z -> off_of sizes 3 = (Z.of_N nco * 4)%Z) ->
  read_fanout file (off_of offs 0) 256 = Ok fo ->
  open_file file = Ok (mkFI fo offs sizes (0 <? off_of offs 3)%Z (Z.of_nat (List.length file))).
Proof.
  intros file nc offs assigned toff nco fo H1 H2 H3 H4 H5 H6 sizes H7 H8 H9 H10 H11 H12 H13 H14 H15 H16.
  unfold open_file. rewrite H1. change (bytes_eqb sig_CGPH sig_CGPH) with true. cbn [negb].
  rewrite H2. change (1 =? 1) with true. cbn [negb].
  assert (C3 : (Z.of_nat (List.length file) <? 8 + (Z.of_N nc + 1) * 12 + 1024 + 20)%Z = false) by lia.
  rewrite C3, H4, H5, H6. change (bytes_eqb sig_ZERO sig_ZERO) with true. cbn [negb].
  fold sizes.
  assert (C7 : ((off_of offs 0 <=? 0) || (off_of offs 1 <=? 0) || (off_of offs 2 <=? 0))%Z = false) by lia.
  rewrite C7.
  assert (C10 : negb (off_of sizes 0 =? 1024)%Z = false) by (rewrite H10; reflexivity).
  rewrite C10, H11.
  assert (C12 : (2147483647 <? Z.of_N nco)%Z = false) by lia.
  assert (C13 : negb (off_of sizes 1 =? Z.of_N nco * 20)%Z = false) by (rewrite H13, Z.eqb_refl; reflexivity).
  assert (C14 : negb (off_of sizes 2 =? Z.of_N nco * 36)%Z = false) by (rewrite H14, Z.eqb_refl; reflexivity).
  rewrite C12, C13, C14.
  assert (C15 : ((0 <? off_of offs 3)%Z && negb (off_of sizes 3 =? Z.of_N nco * 4)%Z) = false).
  { destruct (0 <? off_of offs 3)%Z eqn:E; [|reflexivity]. simpl.
    rewrite H15 by lia. now rewrite Z.eqb_refl. }
  rewrite C15, H16. reflexivity.
Qed.

(* reading a run of big-endian words *)
Lemma read_fanout_spec : forall l pre rest,
  (forall x, In x l -> x <= 2147483647) ->
  read_fanout (pre ++ flat_map be32 l ++ rest) (Z.of_nat (List.length pre)) (List.length l) = Ok l.
Proof.
  induction l as [|x r IH]; intros pre rest H; [reflexivity|].
  cbn [List.length read_fanout flat_map]. rewrite <- app_assoc.
  rewrite rd32_app by (pose proof (H x (or_introl eq_refl)); unfold two32; lia).
  assert (C : 2147483647 <? x = false) by (pose proof (H x (or_introl eq_refl)); lia).
  rewrite C.
  replace (Z.of_nat (List.length pre) + 4)%Z with (Z.of_nat (List.length (pre ++ be32 x)))
    by (rewrite app_length, be32_length; lia).
  replace (pre ++ be32 x ++ flat_map be32 r ++ rest) with ((pre ++ be32 x) ++ flat_map be32 r ++ rest)
    by (now rewrite <- app_assoc).
  rewrite IH; [reflexivity|]. intros y Hy. apply H. now right.
Qed.

Lemma flat_map_be32_split : forall l k, (k < List.length l)%nat ->
  flat_map be32 l = flat_map be32 (firstn k l) ++ be32 (nth k l 0) ++ flat_map be32 (skipn (S k) l).
Proof.
  induction l as [|x r IH]; intros k H; [simpl in H; lia|].
  destruct k as [|k]; [reflexivity|]. cbn [firstn skipn nth flat_map]. rewrite <- app_assoc. f_equal.
  apply IH. simpl in H. lia.
Qed.

(* -------------------------------------------------- the encoder's own table *)
Definition sig_ok (t : bytes * N) : Prop :=
  List.length (fst t) = 4%nat /\ chunk_type (fst t) = Some (ct_of (fst t)) /\ ct_of (fst t) <> 9%nat /\ (ct_of (fst t) < 9)%nat.

Lemma chunk_table_facts : forall es n,
  Forall sig_ok (chunk_table es n) /\ NoDup (map fst (chunk_table es n)) /\
  NoDup (map (fun t => ct_of (fst t)) (chunk_table es n)) /\
  In (sig_OIDF, 4 * lenFanout) (chunk_table es n) /\ In (sig_OIDL, n * hashSize) (chunk_table es n) /\
  In (sig_CDAT, n * (hashSize + szCommitData)) (chunk_table es n) /\
  (has_gen2 es = true -> In (sig_GDA2, n * 4) (chunk_table es n)) /\
  (has_gen2 es = false -> ~ In 3%nat (map (fun t => ct_of (fst t)) (chunk_table es n))) /\
  (1 <= List.length (chunk_table es n) <= 6)%nat /\
  exists r, chunk_table es n = (sig_OIDF, 4 * lenFanout) :: r.
Proof.
  intros es n. unfold chunk_table.
  assert (S : forall s, In s [sig_OIDF; sig_OIDL; sig_CDAT; sig_EDGE; sig_GDA2; sig_GDO2] -> forall z, sig_ok (s, z)).
  { intros s Hs z. unfold sig_ok. simpl in Hs.
    repeat (destruct Hs as [Hs|Hs]; [subst s; vm_compute; repeat split; try discriminate; lia|]). contradiction. }
  destruct (0 <? extra_edges_count es); destruct (has_gen2 es); try destruct (0 <? overflow_count es);
    cbn [app];
    (split; [repeat constructor; apply S; simpl; tauto|]);
    (split; [repeat constructor; simpl; intuition discriminate|]);
    (split; [vm_compute; repeat constructor; simpl; intuition discriminate|]);
    (split; [simpl; tauto|]); (split; [simpl; tauto|]); (split; [simpl; tauto|]);
    (split; [intros; try discriminate; simpl; tauto|]);
    (split; [intros; try discriminate; vm_compute; intuition discriminate|]);
    (split; [simpl; lia|]); eexists; reflexivity.
Qed.

Lemma toc_ok_mkT : forall tbl off prev upper seen,
  Forall sig_ok tbl -> NoDup (map fst tbl) -> (forall t, In t tbl -> ~ In (fst t) seen) ->
  (prev <= Z.of_N off)%Z -> off + total tbl <= upper -> upper < 9223372036854775808 ->
  toc_ok prev (Z.of_N upper) seen (mkT tbl off).
Proof.
  induction tbl as [|[s sz] r IH]; intros off prev upper seen Hs Hnd Hseen Hprev Hup Hlt; [exact I|].
  cbn [mkT toc_ok total] in *. unfold ent_ct, ent_off. cbn [fst snd].
  inversion Hs as [|? ? [S1 [S2 [S3 S4]]] Hs']; subst. inversion Hnd as [|? ? Hn Hnd']; subst.
  cbn [fst] in *.
  split; [exact S1|]. split; [exact S2|]. split; [exact S3|]. split; [lia|]. split; [lia|]. split.
  - destruct (existsb (bytes_eqb s) seen) eqn:E; [|reflexivity]. exfalso.
    apply existsb_exists in E. destruct E as [x [Hx Hx2]]. apply bytes_eqb_eq in Hx2. subst x.
    apply (Hseen (s, sz)); [now left | exact Hx].
  - apply IH; auto; try lia.
    intros t Ht [E|E].
    + apply Hn. rewrite E. now apply in_map.
    + apply (Hseen t); [now right | exact E].
Qed.

Lemma ents_length : forall tbl off, Forall sig_ok tbl ->
  List.length (flat_map ent_bytes (mkT tbl off)) = (12 * List.length tbl)%nat.
Proof.
  induction tbl as [|[s sz] r IH]; intros off H; [reflexivity|].
  inversion H as [|? ? [S1 _] H']; subst. cbn [mkT flat_map List.length]. unfold ent_bytes at 1. cbn [fst snd] in *.
  rewrite !app_length, be64_length, S1, IH by exact H'. lia.
Qed.

Lemma concat_total : forall payloads tbl, Forall2 payload_ok payloads tbl ->
  N.of_nat (List.length (List.concat payloads)) = total tbl.
Proof.
  intros payloads tbl H. induction H as [|p t ps ts Hp H IH]; [reflexivity|].
  destruct t as [s sz]. unfold payload_ok in Hp. cbn [snd] in Hp. cbn [List.concat total].
  rewrite app_length. lia.
Qed.

(* ------------------------------------------------------------ acceptance *)
Definition wf_file (es : list centry) : Prop :=
  wf_entries es /\
  Forall (fun e => Forall (fun c => c < 256) (e_hash e)) es /\
  N.of_nat (List.length (sorted_of es)) < 2147483648 /\
  (Z.of_nat (List.length (encode es)) < 4611686018427387904)%Z.

Lemma count_le_first_le : forall sorted b, count_le_first sorted b <= N.of_nat (List.length sorted).
Proof.
  intros sorted b'. unfold count_le_first.
  assert (H : forall (p : bytes -> bool) l, (List.length (filter p l) <= List.length l)%nat).
  { intros p l. induction l as [|x r IH]; simpl; [lia|]. destruct (p x); simpl; lia. }
  specialize (H (fun h => match h with c :: _ => c <=? b' | [] => true end) sorted).
  unfold N.le. rewrite <- Nat2N.inj_compare. now apply Nat.compare_le_iff.
Qed.

Lemma count_le_first_255 : forall sorted, (forall h, In h sorted -> Forall (fun c => c < 256) h) ->
  count_le_first sorted 255 = N.of_nat (List.length sorted).
Proof.
  intros sorted H. unfold count_le_first. f_equal. f_equal.
  induction sorted as [|h r IH]; [reflexivity|]. simpl.
  assert (E : match h with c :: _ => c <=? 255 | [] => true end = true).
  { destruct h as [|c t]; [reflexivity|]. pose proof (H (c :: t) (or_introl eq_refl)) as Hh.
    inversion Hh; subst. lia. }
  rewrite E. simpl. f_equal. apply IH. intros h0 Hh0. apply H. now right.
Qed.

(* the strong form also exposes where the reader believes every declared chunk to be:
   at the offset the encoder's table assigns to it (mkT), with the declared size *)
Theorem reader_accepts_strong : forall es trailer, wf_file es -> List.length trailer = 20%nat ->
  let tbl := chunk_table es (N.of_nat (List.length (sorted_of es))) in
  let off0 := 8 + (N.of_nat (List.length tbl) + 1) * 12 in
  exists fi, open_file (encode es ++ trailer) = Ok fi /\
    ncommits fi = N.of_nat (List.length (sorted_of es)) /\
    f_gen2 fi = has_gen2 es /\
    f_fanout fi = fanout_of (sorted_of es) /\
    (forall s off, In (s, ct_of s, off) (mkT tbl off0) -> off_of (f_off fi) (ct_of s) = Z.of_N off) /\
    (forall s sz, In (s, sz) tbl -> off_of (f_size fi) (ct_of s) = Z.of_N sz).
Proof.
  intros es trailer [Hwf [Hbytes [Hn Hsz]]] Htr. cbv zeta.
  destruct (encode_layout es Hwf) as [payloads [Henc [Hpay Hfan]]].
  set (sorted := sorted_of es) in *. set (n := N.of_nat (List.length sorted)) in *.
  set (tbl := chunk_table es n) in *. set (k := N.of_nat (List.length tbl)) in *.
  destruct (chunk_table_facts es n) as [Fs [Fnd [Fct [I0 [I1 [I2 [I3 [I3' [Flen [r0 Er0]]]]]]]]]]. fold tbl in Fs, Fnd, Fct, I0, I1, I2, I3, I3', Flen, Er0.
  assert (Hk : k mod 256 = k) by (apply N.mod_small; unfold k; lia).
  set (off0 := 8 + (k + 1) * 12) in *.
  set (T := mkT tbl off0).
  set (file := encode es ++ trailer).
  pose proof (concat_total payloads tbl Hpay) as Htot.
  assert (Hents : List.length (flat_map ent_bytes T) = (12 * List.length tbl)%nat) by (apply ents_length; exact Fs).
  assert (Hfile : file = (sig_CGPH ++ [1; 1; k; 0]) ++ flat_map ent_bytes T ++
                         (sig_ZERO ++ be64 (off0 + total tbl) ++ List.concat payloads ++ trailer)).
  { unfold file. rewrite Henc, Hk, (chunk_headers_mkT tbl off0). fold T. now rewrite <- !app_assoc. }
  assert (Hlen : Z.of_nat (List.length file) = (Z.of_N (off0 + total tbl) + 20)%Z).
  { rewrite Hfile. rewrite !app_length, Hents, be64_length, Htr.
    change (List.length sig_CGPH) with 4%nat. change (List.length sig_ZERO) with 4%nat.
    change (List.length [1; 1; k; 0]) with 4%nat. unfold off0, k. lia. }
  assert (Hup : off0 + total tbl < 9223372036854775808).
  { unfold file in Hlen. rewrite app_length, Htr in Hlen. lia. }
  (* the payload area starts with the fanout *)
  destruct payloads as [|fan ps]; [inversion Hpay; subst; rewrite <- H in Flen; simpl in Flen; lia|].
  cbn [nth] in Hfan. subst fan.
  set (fo := fanout_of sorted) in *.
  assert (Hfo_len : List.length fo = 256%nat) by (unfold fo, fanout_of; now rewrite map_length, seq_length).
  assert (Hfo_le : forall x, In x fo -> x <= 2147483647).
  { intros x Hx. unfold fo, fanout_of in Hx. apply in_map_iff in Hx. destruct Hx as [i [Hi _]]. subst x.
    pose proof (count_le_first_le sorted (N.of_nat i)). fold n in H. lia. }
  assert (Hsorted_bytes : forall h, In h sorted -> Forall (fun c => c < 256) h).
  { intros h Hh. destruct (sorted_in es h Hwf Hh) as [e [He [Eh _]]]. subst h.
    rewrite Forall_forall in Hbytes. now apply Hbytes. }
  assert (Hfo255 : nth 255 fo 0 = n).
  { unfold fo, fanout_of. rewrite (nth_indep _ 0 (count_le_first sorted (N.of_nat 0))) by (rewrite map_length, seq_length; lia).
    rewrite (map_nth (fun i => count_le_first sorted (N.of_nat i)) (seq 0 256) O 255).
    rewrite seq_nth by lia. simpl N.of_nat. now apply count_le_first_255. }
  set (pre8 := sig_CGPH ++ [1; 1; k; 0]).
  assert (Hpre8 : List.length pre8 = 8%nat) by reflexivity.
  set (hdrs := flat_map ent_bytes T ++ sig_ZERO ++ be64 (off0 + total tbl)).
  assert (Hhdrs : List.length hdrs = (12 * S (List.length tbl))%nat).
  { unfold hdrs. rewrite !app_length, Hents, be64_length. simpl. lia. }
  assert (Hfile2 : file = (pre8 ++ hdrs) ++ flat_map be32 fo ++ (List.concat ps ++ trailer)).
  { rewrite Hfile. unfold pre8, hdrs. cbn [List.concat]. now rewrite <- !app_assoc. }
  assert (Hoff0 : Z.of_nat (List.length (pre8 ++ hdrs)) = Z.of_N off0).
  { rewrite app_length, Hpre8, Hhdrs. unfold off0, k. lia. }
  (* table of contents *)
  assert (Htoc : read_toc file (N.to_nat k) 0 0%Z (Z.of_nat (List.length file) - 20)%Z [] zeros9 [] =
                 Ok (fold_left (fun o e => set_nth (ent_ct e) (ent_off e) o) T zeros9,
                     map (fun e => (ent_ct e, ent_off e)) T)).
  { replace (N.to_nat k) with (List.length T) by (unfold T, k; rewrite mkT_length; lia).
    rewrite (toc_read T file pre8 (sig_ZERO ++ be64 (off0 + total tbl) ++ List.concat (flat_map be32 fo :: ps) ++ trailer)
               0 0%Z (Z.of_nat (List.length file) - 20)%Z [] zeros9 []).
    - reflexivity.
    - rewrite Hpre8. reflexivity.
    - exact Hfile.
    - replace (Z.of_nat (List.length file) - 20)%Z with (Z.of_N (off0 + total tbl)) by lia.
      apply toc_ok_mkT; auto; try lia. }
  set (offs := fold_left (fun o e => set_nth (ent_ct e) (ent_off e) o) T zeros9) in *.
  set (assigned := map (fun e => (ent_ct e, ent_off e)) T) in *.
  assert (HTnd : NoDup (map ent_ct T)) by (unfold T; rewrite mkT_cts; exact Fct).
  assert (Hoffs : forall s off, In (s, ct_of s, off) T -> off_of offs (ct_of s) = Z.of_N off).
  { intros s off Hin. unfold off_of, offs.
    pose proof (fold_set_in T zeros9 (s, ct_of s, off) HTnd Hin) as Hf.
    unfold ent_ct at 1 2, ent_off at 2 in Hf. cbn [fst snd] in Hf. apply Hf.
    assert (Hs : exists z, In (s, z) tbl).
    { unfold T in Hin. clear - Hin. revert Hin. generalize off0. induction tbl as [|[s1 z1] r IH]; intros o Hin; [contradiction|].
      simpl in Hin. destruct Hin as [Hin|Hin]; [injection Hin as E _ _; subst; eexists; now left|].
      destruct (IH _ Hin) as [z Hz]. exists z. now right. }
    destruct Hs as [z Hz]. rewrite Forall_forall in Fs. destruct (Fs _ Hz) as [_ [_ [_ H9]]]. simpl. exact H9. }
  assert (Hoff_first : off_of offs 0 = Z.of_N off0).
  { apply (Hoffs sig_OIDF off0). unfold T. rewrite Er0. now left. }
  assert (Hoff_pos : forall s sz, In (s, sz) tbl -> (0 < off_of offs (ct_of s))%Z).
  { intros s sz Hin.
    assert (Hex : exists off, In (s, ct_of s, off) T /\ off0 <= off).
    { unfold T. clear - Hin. assert (G : forall tb o, In (s, sz) tb -> exists off, In (s, ct_of s, off) (mkT tb o) /\ o <= off).
      { induction tb as [|[s1 z1] r IH]; intros o Hi; [contradiction|]. simpl in *. destruct Hi as [Hi|Hi].
        - injection Hi as E1 E2. subst. exists o. split; [now left | lia].
        - destruct (IH (o + z1) Hi) as [off [H1 H2]]. exists off. split; [now right | lia]. }
      now apply G. }
    destruct Hex as [off [Hin2 Hle]]. rewrite (Hoffs s off Hin2). unfold off0 in Hle. lia. }
  assert (Hsizes : forall s sz, In (s, sz) tbl ->
            off_of (assign_sizes assigned (Z.of_N (off0 + total tbl)) zeros9) (ct_of s) = Z.of_N sz).
  { intros s sz Hin. unfold off_of, assigned, T. apply assign_sizes_mkT; auto.
    intros t Ht. rewrite Forall_forall in Fs. destruct (Fs _ Ht) as [_ [_ [_ H9]]]. exact H9. }
  exists (mkFI fo offs (assign_sizes assigned (i64_of_N (off0 + total tbl)) zeros9) (0 <? off_of offs 3)%Z
               (Z.of_nat (List.length file))).
  split.
  - apply (open_file_ok file k offs assigned (off0 + total tbl) n fo).
    + rewrite Hfile. unfold pre8. rewrite <- !app_assoc. apply (slice_app [] sig_CGPH).
    + rewrite Hfile. unfold pre8. rewrite <- !app_assoc.
      apply (slice_app sig_CGPH [1; 1; k; 0]).
    + rewrite Hlen. pose proof (concat_total _ _ Hpay) as Ht2. cbn [List.concat] in Ht2.
      rewrite app_length, flat_map_be32_length, Hfo_len in Ht2. unfold off0. lia.
    + exact Htoc.
    + replace (8 + 12 * Z.of_N k)%Z with (Z.of_nat (List.length (pre8 ++ flat_map ent_bytes T)))
        by (rewrite app_length, Hpre8, Hents; unfold k; lia).
      rewrite Hfile. fold pre8. rewrite app_assoc. apply (slice_app (pre8 ++ flat_map ent_bytes T) sig_ZERO).
    + assert (Epos : (8 + 12 * Z.of_N k + 4)%Z = Z.of_nat (List.length ((pre8 ++ flat_map ent_bytes T) ++ sig_ZERO))).
      { rewrite !app_length, Hpre8, Hents. change (List.length sig_ZERO) with 4%nat. unfold k. lia. }
      rewrite Epos. rewrite Hfile. fold pre8.
      assert (Eapp : pre8 ++ flat_map ent_bytes T ++ sig_ZERO ++ be64 (off0 + total tbl) ++ List.concat (flat_map be32 fo :: ps) ++ trailer
                     = ((pre8 ++ flat_map ent_bytes T) ++ sig_ZERO) ++ be64 (off0 + total tbl) ++ (List.concat (flat_map be32 fo :: ps) ++ trailer))
        by (now rewrite <- !app_assoc).
      rewrite Eapp.
      apply rd64_app. unfold two64. lia.
    + change 0%nat with (ct_of sig_OIDF). apply (Hoff_pos _ _ I0).
    + change 1%nat with (ct_of sig_OIDL). apply (Hoff_pos _ _ I1).
    + change 2%nat with (ct_of sig_CDAT). apply (Hoff_pos _ _ I2).
    + rewrite (i64_small _ Hup). change 0%nat with (ct_of sig_OIDF). rewrite (Hsizes _ _ I0). reflexivity.
    + rewrite Hoff_first. rewrite Hfile2.
      rewrite (flat_map_be32_split fo 255) by lia.
      replace ((pre8 ++ hdrs) ++ (flat_map be32 (firstn 255 fo) ++ be32 (nth 255 fo 0) ++ flat_map be32 (skipn 256 fo)) ++ List.concat ps ++ trailer)
        with (((pre8 ++ hdrs) ++ flat_map be32 (firstn 255 fo)) ++ be32 (nth 255 fo 0) ++ (flat_map be32 (skipn 256 fo) ++ List.concat ps ++ trailer))
        by (now rewrite <- !app_assoc).
      replace (Z.of_N off0 + 1020)%Z with (Z.of_nat (List.length ((pre8 ++ hdrs) ++ flat_map be32 (firstn 255 fo)))).
      * rewrite Hfo255. apply rd32_app. unfold two32. lia.
      * rewrite app_length, flat_map_be32_length, firstn_length, Hfo_len. rewrite <- Hoff0. lia.
    + lia.
    + rewrite (i64_small _ Hup). change 1%nat with (ct_of sig_OIDL). rewrite (Hsizes _ _ I1). unfold hashSize. lia.
    + rewrite (i64_small _ Hup). change 2%nat with (ct_of sig_CDAT). rewrite (Hsizes _ _ I2).
      unfold hashSize, szCommitData. change (zN cg_szCommitData) with 16. lia.
    + intros Hpos. rewrite (i64_small _ Hup). destruct (has_gen2 es) eqn:Eg.
      * change 3%nat with (ct_of sig_GDA2). rewrite (Hsizes _ _ (I3 eq_refl)). lia.
      * exfalso. unfold off_of, offs in Hpos. rewrite fold_set_notin in Hpos; [simpl in Hpos; lia | simpl; lia |].
        unfold T. rewrite mkT_cts. now apply I3'.
    + rewrite Hoff_first, <- Hoff0. rewrite Hfile2. rewrite <- Hfo_len. apply read_fanout_spec. exact Hfo_le.
  - cbn [ncommits f_fanout f_gen2 f_off f_size]. split; [exact Hfo255|]. split; [|split; [reflexivity|]].
    + destruct (has_gen2 es) eqn:Eg.
      * change 3%nat with (ct_of sig_GDA2). pose proof (Hoff_pos _ _ (I3 eq_refl)). lia.
      * unfold off_of, offs. rewrite fold_set_notin; [reflexivity | simpl; lia |]. unfold T. rewrite mkT_cts. now apply I3'.
    + split; [exact Hoffs|]. intros s sz Hin. rewrite (i64_small _ Hup). now apply Hsizes.
Qed.

Theorem reader_accepts : forall es trailer, wf_file es -> List.length trailer = 20%nat ->
  exists fi, open_file (encode es ++ trailer) = Ok fi /\
    ncommits fi = N.of_nat (List.length (sorted_of es)) /\
    f_gen2 fi = has_gen2 es /\
    f_fanout fi = fanout_of (sorted_of es).
Proof.
  intros es trailer Hwf Htr. destruct (reader_accepts_strong es trailer Hwf Htr) as [fi [A [B [C [D _]]]]].
  exists fi. auto.
Qed.
