(* Proofs/C49Walk.v — the two directory walks (go-git's Scope.Descend/Match and
   git's prep_exclude/last_matching_pattern) agree whenever every pattern pair
   is COHERENT: go-git's pattern.Match accepts a path exactly when git's
   pattern matches the path or one of its ancestor directories (below the
   pattern's base), and no ancestor directory of the queried path is
   re-included by a negated pattern.  Negation is allowed. *)
From Coq Require Import List NArith Bool Lia PeanoNat.
From GoGit Require Import Base.Out Model.Gitignore Spec.Glob Spec.GitIgnore
     Proofs.C49Total Proofs.C49Wild Proofs.C49Git Proofs.C49Trim Proofs.C49Names.
Import ListNotations.
Local Open Scope N_scope.

(* ------------------------------------------------------------------ *)
(* paths                                                               *)

Definition comp_ok (c : bytes) : bool :=
  negb (is_nil c) && negb (has_slash c) && forallb (fun b => negb (b =? 0)) c.
Definition path_ok (p : list bytes) : bool := forallb comp_ok p.

Definition dirflag (k n : nat) (isdir : bool) : bool := if Nat.eqb k n then isdir else true.

(* ------------------------------------------------------------------ *)
(* coherence of a go pattern with a git pattern                        *)

Definition coh (p : pat) (g : gpat) : Prop :=
  g_base g = p_dom p /\ g_neg g = p_incl p /\
  forall rel isdir, rel <> [] -> path_ok rel = true ->
    (pat_match p (p_dom p ++ rel) isdir <> NoMatch <->
     exists k, (0 < k <= List.length rel)%nat /\
               gpat_match g (p_dom p ++ firstn k rel) (dirflag k (List.length rel) isdir) = true).

Lemma pat_match_res p path d :
  pat_match p path d = NoMatch \/ pat_match p path d = (if p_incl p then Include else Exclude).
Proof.
  unfold pat_match. destruct (Nat.leb _ _); [now left|].
  destruct (strip_domain _ _); [|now left].
  destruct (if p_isglob p then _ else _); [now right|now left].
Qed.

(* the decision of a list scanned from its end, as a match result *)
Fixpoint mres_rev (ps : list pat) (path : list bytes) (d : bool) : mres :=
  match ps with
  | [] => NoMatch
  | p :: r => match pat_match p path d with NoMatch => mres_rev r path d | x => x end
  end.
Definition decision (ps : list pat) (path : list bytes) (d : bool) : mres := mres_rev (rev ps) path d.

Lemma matcher_rev_mres ps path d :
  matcher_rev ps path d = match mres_rev ps path d with Exclude => true | _ => false end.
Proof. induction ps as [|p r IH]; cbn; [reflexivity|]. destruct (pat_match p path d); auto. Qed.

Lemma matcher_decision ps path d :
  matcher_match ps path d = match decision ps path d with Exclude => true | _ => false end.
Proof. apply matcher_rev_mres. Qed.

(* patterns that agree one by one on (path, d) decide alike *)
Definition agree_at (path : list bytes) (d : bool) (p : pat) (g : gpat) : Prop :=
  g_neg g = p_incl p /\ (pat_match p path d <> NoMatch <-> gpat_match g path d = true).

Lemma decide_agree path d : forall ps gs, Forall2 (agree_at path d) ps gs ->
  match mres_rev ps path d with
  | NoMatch => glast_rev gs path d = None
  | Exclude => glast_rev gs path d = Some false
  | Include => glast_rev gs path d = Some true
  end.
Proof.
  induction 1 as [|p g ps gs [Hn [Hm1 Hm2]] _ IH]; cbn [mres_rev glast_rev]; [reflexivity|].
  destruct (gpat_match g path d) eqn:G.
  - specialize (Hm2 eq_refl).
    destruct (pat_match_res p path d) as [E|E]; [congruence|].
    rewrite E, Hn. destruct (p_incl p); reflexivity.
  - assert (E : pat_match p path d = NoMatch).
    { destruct (pat_match p path d) eqn:E'; [reflexivity| |];
        (assert (false = true) by (apply Hm1; discriminate); discriminate). }
    rewrite E. exact IH.
Qed.

Lemma Forall2_rev {A B} (R : A -> B -> Prop) l1 l2 : Forall2 R l1 l2 -> Forall2 R (rev l1) (rev l2).
Proof.
  induction 1; cbn; [constructor|]. apply Forall2_app; [assumption|]. constructor; [assumption|constructor].
Qed.

Lemma decision_agree path d ps gs : Forall2 (agree_at path d) ps gs ->
  match decision ps path d with
  | NoMatch => glast gs path d = None
  | Exclude => glast gs path d = Some false
  | Include => glast gs path d = Some true
  end.
Proof. intros H. apply decide_agree. now apply Forall2_rev. Qed.

(* ------------------------------------------------------------------ *)
(* the guard: no proper ancestor directory of the path is re-included  *)

Fixpoint anc_ok (fs : files) (ps : list pat) (pre rest : list bytes) : bool :=
  let ps' := ps ++ go_file fs pre in
  match rest with
  | [] => true
  | e :: rest' =>
    match rest' with
    | [] => true
    | _ => match decision ps' (pre ++ [e]) true with
           | Include => false
           | Exclude => true
           | NoMatch => anc_ok fs ps' (pre ++ [e]) rest'
           end
    end
  end.

Definition excl_pats (excl : option bytes) : list pat :=
  match excl with Some c => read_ignore c [] | None => [] end.

(* go-git's own verdict on every proper ancestor directory of the path is
   "no pattern applies" up to the first excluded one: none is re-included by a
   negated pattern (below an excluded directory nothing matters) *)
Definition no_reincluded_ancestor (excl : option bytes) (fs : files) (path : list bytes) : bool :=
  anc_ok fs (excl_pats excl) [] path.

(* ------------------------------------------------------------------ *)
(* the walk                                                            *)

(* what is known of a pattern pair in scope when the walk stands in firstn n path *)
Definition cohI (path : list bytes) (n : nat) (p : pat) (g : gpat) : Prop :=
  coh p g /\ (exists x, firstn n path = p_dom p ++ x) /\
  forall k, (List.length (p_dom p) < k <= n)%nat -> gpat_match g (firstn k path) true = false.

Lemma firstn_app_exact {A} (a b : list A) : firstn (List.length a) (a ++ b) = a.
Proof. induction a; cbn; [now destruct b|]. now f_equal. Qed.

Lemma path_ok_app a b : path_ok (a ++ b) = path_ok a && path_ok b.
Proof. apply forallb_app. Qed.

Lemma path_ok_firstn k p : path_ok p = true -> path_ok (firstn k p) = true.
Proof.
  revert k. induction p as [|c r IH]; intros k H; destruct k; cbn; try reflexivity.
  cbn in H. apply andb_true_iff in H. destruct H as [H1 H2]. now rewrite H1, IH.
Qed.

Lemma path_ok_skipn k p : path_ok p = true -> path_ok (skipn k p) = true.
Proof.
  revert k. induction p as [|c r IH]; intros k H; destruct k; cbn; try assumption; try reflexivity.
  cbn in H. apply andb_true_iff in H. destruct H as [H1 H2]. now apply IH.
Qed.

Lemma firstn_skipn_firstn {A} (l : list A) : forall d k m, (d + k <= m)%nat ->
  firstn k (skipn d (firstn m l)) = firstn k (skipn d l).
Proof.
  induction l as [|c r IH]; intros d k m H.
  - now rewrite firstn_nil, skipn_nil.
  - destruct m as [|m].
    + assert (d = O) by lia. assert (k = O) by lia. subst. reflexivity.
    + destruct d as [|d]; cbn [firstn skipn].
      * destruct k as [|k]; [reflexivity|]. cbn [firstn]. f_equal.
        apply (IH O k m). lia.
      * apply IH. lia.
Qed.

Lemma firstn_add {A} (l : list A) : forall d k, firstn (d + k) l = firstn d l ++ firstn k (skipn d l).
Proof.
  induction l as [|c r IH]; intros d k.
  - now rewrite skipn_nil, !firstn_nil.
  - destruct d; cbn; [reflexivity|]. f_equal. apply IH.
Qed.

(* at directory level m = n+1 the pair agrees on firstn m path *)
Lemma cohI_agree path n d p g :
  path_ok path = true -> (S n <= List.length path)%nat ->
  cohI path n p g -> agree_at (firstn (S n) path) d p g.
Proof.
  intros Hok Hlen ((Hb & Hn & Hc) & (x & Hx) & Hinv). split; [exact Hn|].
  set (dl := List.length (p_dom p)).
  assert (Hdl : (dl <= n)%nat).
  { assert (List.length (firstn n path) = n) by (apply firstn_length_le; lia).
    rewrite Hx, app_length in H. unfold dl. lia. }
  (* firstn (S n) path = dom ++ rel *)
  assert (Hdom : firstn dl path = p_dom p).
  { assert (firstn dl (firstn n path) = p_dom p) by (rewrite Hx; apply firstn_app_exact).
    rewrite firstn_firstn in H. now rewrite Nat.min_l in H by lia. }
  set (rel := skipn dl (firstn (S n) path)).
  assert (Hsplit : firstn (S n) path = p_dom p ++ rel).
  { unfold rel. rewrite <- (firstn_skipn dl (firstn (S n) path)) at 1.
    f_equal. rewrite firstn_firstn. now rewrite Nat.min_l by lia. }
  assert (Hrl : List.length rel = (S n - dl)%nat).
  { unfold rel. rewrite skipn_length, firstn_length_le by lia. reflexivity. }
  assert (Hrne : rel <> []).
  { intros E. rewrite E in Hrl. change (List.length (@nil bytes)) with O in Hrl. lia. }
  assert (Hrok : path_ok rel = true) by (unfold rel; apply path_ok_skipn, path_ok_firstn, Hok).
  rewrite Hsplit. rewrite (Hc rel d Hrne Hrok).
  assert (Hpre : forall k, (k <= List.length rel)%nat -> p_dom p ++ firstn k rel = firstn (dl + k) path).
  { intros k Hk. rewrite <- Hdom at 1. unfold rel.
    rewrite firstn_skipn_firstn by lia. symmetry. apply firstn_add. }
  split.
  - intros (k & Hk & Hm). rewrite Hrl in Hk.
    destruct (Nat.eq_dec k (S n - dl)) as [->|Hne].
    + unfold dirflag in Hm. rewrite Hrl, Nat.eqb_refl in Hm.
      rewrite firstn_all2 in Hm by lia. exact Hm.
    + exfalso. rewrite Hpre in Hm by lia.
      unfold dirflag in Hm. rewrite Hrl in Hm.
      assert (Nat.eqb k (S n - dl) = false) by (apply Nat.eqb_neq; assumption).
      rewrite H in Hm. rewrite Hinv in Hm by (fold dl; lia). discriminate.
  - intros Hm. exists (List.length rel). split; [rewrite Hrl; lia|].
    unfold dirflag. rewrite Nat.eqb_refl, firstn_all. exact Hm.
Qed.

(* a file read by both sides yields coherent pairs based at its directory *)
Definition files_coh (fs : files) : Prop :=
  forall pre, Forall2 (fun p g => coh p g /\ p_dom p = pre) (go_file fs pre) (git_file fs pre).

Lemma firstn_snoc {A} (pre : list A) e rest : firstn (S (List.length pre)) (pre ++ e :: rest) = pre ++ [e].
Proof. induction pre; cbn; [now destruct rest|]. now f_equal. Qed.

Lemma wide_walk fs path isdir : files_coh fs -> path_ok path = true ->
  forall rest pre ps gs, path = pre ++ rest ->
    Forall2 (cohI path (List.length pre)) ps gs ->
    anc_ok fs ps pre rest = true ->
    gw fs ps pre rest path isdir = gwalk fs gs pre rest path isdir.
Proof.
  intros Hfc Hok. induction rest as [|e rest IH]; intros pre ps gs Hpath HF Hanc.
  { rewrite gwalk_unfold. reflexivity. }
  rewrite gwalk_unfold. cbv zeta.
  set (n := List.length pre).
  set (ps' := ps ++ go_file fs pre). set (gs' := gs ++ git_file fs pre).
  assert (Hpre : firstn n path = pre) by (rewrite Hpath; apply firstn_app_exact).
  assert (Hlen : (S n <= List.length path)%nat) by (rewrite Hpath, app_length; cbn; fold n; lia).
  assert (HF' : Forall2 (cohI path n) ps' gs').
  { apply Forall2_app; [exact HF|].
    specialize (Hfc pre). revert Hfc. generalize (go_file fs pre) (git_file fs pre).
    induction 1 as [|p g l1 l2 [Hc Hd] _ IHf]; constructor; [|exact IHf].
    split; [exact Hc|]. split.
    - exists []. now rewrite Hd, app_nil_r.
    - intros k Hk. rewrite Hd in Hk. fold n in Hk. lia. }
  assert (Hd : firstn (S n) path = pre ++ [e]) by (rewrite Hpath; apply firstn_snoc).
  assert (Hag : forall d, Forall2 (agree_at (pre ++ [e]) d) ps' gs').
  { intros d. rewrite <- Hd. clear - HF' Hok Hlen.
    induction HF' as [|p g l1 l2 H _ IHf]; constructor; [|exact IHf].
    now apply cohI_agree. }
  destruct rest as [|e2 r].
  - cbn [gw]. fold ps'. rewrite matcher_decision.
    assert (Hp : path = pre ++ [e]) by exact Hpath.
    rewrite Hp. pose proof (decision_agree _ isdir _ _ (Hag isdir)) as Hdec.
    destruct (decision ps' (pre ++ [e]) isdir); rewrite Hdec; reflexivity.
  - change (gw fs ps pre (e :: e2 :: r) path isdir)
      with (if matcher_match ps' (pre ++ [e]) true then true else gw fs ps' (pre ++ [e]) (e2 :: r) path isdir).
    cbn [anc_ok] in Hanc. fold ps' in Hanc.
    rewrite matcher_decision. unfold gex.
    pose proof (decision_agree _ true _ _ (Hag true)) as Hdec.
    destruct (decision ps' (pre ++ [e]) true) eqn:Edec; rewrite Hdec; try reflexivity; [|discriminate].
    apply IH.
    + rewrite Hpath, <- app_assoc. reflexivity.
    + rewrite app_length. cbn [List.length]. rewrite Nat.add_1_r. fold n.
      (* every pair failed to match this directory *)
      assert (Hall : Forall2 (fun p g => cohI path n p g /\ gpat_match g (pre ++ [e]) true = false) ps' gs').
      { unfold decision in Edec. unfold glast in Hdec.
        apply Forall2_rev in HF'. pose proof (Forall2_rev _ _ _ (Hag true)) as Hag'.
        assert (Forall2 (fun p g => cohI path n p g /\ gpat_match g (pre ++ [e]) true = false) (rev ps') (rev gs')).
        { revert Edec Hdec HF'. induction Hag' as [|p g l1 l2 [Hn Hm] _ IHa]; intros Edec Hdec HF'; [constructor|].
          inversion HF'; subst. cbn [mres_rev] in Edec. cbn [glast_rev] in Hdec.
          destruct (gpat_match g (pre ++ [e]) true) eqn:G; [discriminate|].
          destruct (pat_match p (pre ++ [e]) true) eqn:E; try discriminate.
          constructor; [split; assumption|]. now apply IHa. }
        apply Forall2_rev in H. now rewrite !rev_involutive in H. }
      clear - Hall Hd Hpre. induction Hall as [|p g l1 l2 [(Hc & (x & Hx) & Hinv) Hno] _ IHf]; constructor; [|exact IHf].
      split; [exact Hc|]. split.
      * exists (x ++ [e]). rewrite Hd, <- Hpre, Hx, app_assoc. reflexivity.
      * intros k Hk. destruct (Nat.eq_dec k (S n)) as [->|Hne]; [rewrite Hd; exact Hno|apply Hinv; lia].
    + exact Hanc.
Qed.
