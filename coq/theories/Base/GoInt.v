(* Base/GoInt.v — Go integer semantics used by the definitions that gotrans
   regenerates into Gen/: fixed-width wrap-around, shifts, indexing. *)
From Coq Require Import ZArith List Bool.
Import ListNotations.
Local Open Scope Z_scope.

(* unsigned w-bit wrap *)
Definition wrapu (w : Z) (z : Z) : Z := z mod 2 ^ w.
(* signed w-bit two's-complement wrap *)
Definition wraps (w : Z) (z : Z) : Z :=
  let m := z mod 2 ^ w in if m <? 2 ^ (w - 1) then m else m - 2 ^ w.
(* x << n at width w: counts >= w give 0 (the caller wraps the result) *)
Definition goshl (w : Z) (x n : Z) : Z := if n >=? w then 0 else Z.shiftl x n.
(* s[i]; out-of-range indexing panics in Go: gotrans only accepts it in leaves,
   and the models that use such a leaf guard the index themselves *)
Definition nthZ (s : list Z) (i : Z) : Z := nth (Z.to_nat i) s 0.
Fixpoint list_eqb (a b : list Z) : bool :=
  match a, b with
  | [], [] => true
  | x :: a', y :: b' => (x =? y) && list_eqb a' b'
  | _, _ => false
  end.

Lemma wrapu_small w z : 0 <= z < 2 ^ w -> wrapu w z = z.
Proof. intros H. unfold wrapu. now apply Z.mod_small. Qed.

Lemma wrapu_range w z : 0 <= w -> 0 <= wrapu w z < 2 ^ w.
Proof. intros Hw. unfold wrapu. apply Z.mod_pos_bound. now apply Z.pow_pos_nonneg. Qed.
