(* Base/Out.v — canonical observable values shared by every correspondence
   suite.  The Go harness (harness/lib/out.go) renders the same grammar:
     sym    ::= [a-zA-Z_][a-zA-Z0-9_]*
     bytes  ::= 'x' hexdigits            (possibly empty: "x")
     num    ::= '-'? decimal
     list   ::= '(' (' ' item)* ' )'     i.e. "( a b )" and "( )"
   Only executable definitions here; no repository content. *)
From Coq Require Import List NArith ZArith String Ascii Bool.
Import ListNotations.
Local Open Scope N_scope.

Definition byte := N.
Definition bytes := list N.

Inductive out :=
| OSym (s : string)
| OBytes (b : bytes)
| ONum (z : Z)
| OList (l : list out).

Definition hexdigit (n : N) : ascii :=
  ascii_of_N (if n <? 10 then 48 + n else 87 + n).

Fixpoint hex_of_bytes (b : bytes) : string :=
  match b with
  | [] => EmptyString
  | c :: r => String (hexdigit (N.shiftr c 4 mod 16)) (String (hexdigit (c mod 16)) (hex_of_bytes r))
  end.

Definition hexval (a : ascii) : N :=
  let n := N_of_ascii a in
  if (48 <=? n) && (n <=? 57) then n - 48
  else if (97 <=? n) && (n <=? 102) then n - 87
  else if (65 <=? n) && (n <=? 70) then n - 55
  else 0.

(* input side: the harness writes byte strings as hex string literals *)
Fixpoint unhex (s : string) : bytes :=
  match s with
  | String a (String b r) => (16 * hexval a + hexval b) :: unhex r
  | _ => []
  end.

Fixpoint bytes_of_string (s : string) : bytes :=
  match s with
  | EmptyString => []
  | String a r => N_of_ascii a :: bytes_of_string r
  end.

Fixpoint string_of_bytes (b : bytes) : string :=
  match b with
  | [] => EmptyString
  | c :: r => String (ascii_of_N c) (string_of_bytes r)
  end.

(* decimal printing with explicit fuel (number of digits is < 1 + log2) *)
Fixpoint dec_digits (fuel : nat) (n : N) (acc : string) : string :=
  match fuel with
  | O => acc
  | S f =>
    let acc' := String (ascii_of_N (48 + n mod 10)) acc in
    if n / 10 =? 0 then acc' else dec_digits f (n / 10) acc'
  end.

Definition dec_of_N (n : N) : string := dec_digits (S (N.to_nat (N.size n))) n EmptyString.

Definition dec_of_Z (z : Z) : string :=
  match z with
  | Z0 => "0"%string
  | Zpos p => dec_of_N (Npos p)
  | Zneg p => String "-"%char (dec_of_N (Npos p))
  end.

Fixpoint render (o : out) : string :=
  match o with
  | OSym s => s
  | OBytes b => String "x"%char (hex_of_bytes b)
  | ONum z => dec_of_Z z
  | OList l =>
    (String "("%char
      (fold_right (fun x acc => String " "%char (render x ++ acc))%string " )"%string l))
  end.

Definition OOk (l : list out) : out := OList (OSym "ok" :: l).
Definition OErr (s : string) : out := OList [OSym "err"; OSym s].
Definition OBool (b : bool) : out := OSym (if b then "true" else "false").
Definition ON (n : N) : out := ONum (Z.of_N n).
Definition ONat (n : nat) : out := ONum (Z.of_nat n).
Definition OStr (s : string) : out := OBytes (bytes_of_string s).
Definition OOpt {A} (f : A -> out) (o : option A) : out :=
  match o with Some x => OList [OSym "some"; f x] | None => OSym "none" end.

Definition render_all (l : list out) : list string := map render l.
