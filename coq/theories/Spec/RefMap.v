(* Spec/RefMap.v — S for C15: the abstract reference store, a map from names
   to values with compare-and-swap on object ids.  No files, no packing. *)
From Coq Require Import List NArith Bool String.
From GoGit Require Import Base.Out Model.RefStrings Model.RefStore.
Import ListNotations.
Local Open Scope N_scope.

Definition rmap := bytes -> option refval.

Definition m_set (m : rmap) (n : bytes) (v : refval) : rmap :=
  fun x => if beqb x n then Some v else m x.
Definition m_del (m : rmap) (n : bytes) : rmap :=
  fun x => if beqb x n then None else m x.

(* results of the mutating operations *)
Definition spec_set (m : rmap) (n : bytes) (v : refval) (old : option refval) : rmap * res unit :=
  match old with
  | None => (m_set m n v, Ok tt)
  | Some o =>
    match m n with
    | None => (m, Er ENotFound)
    | Some c => if hash_eqb (hash_of c) (hash_of o) then (m_set m n v, Ok tt) else (m, Er EChanged)
    end
  end.

Definition spec_get (m : rmap) (n : bytes) : res refval :=
  match m n with Some v => Ok v | None => Er ENotFound end.

(* the names a listing talks about: HEAD and everything below refs/ *)
Definition listed (n : bytes) : bool := beqb n HEADp || under refsDir n.
