(* Spec/RepoOk.v — S for C21: what "a readable, connected repository" means
   for an abstract .git directory (Model/Crash.v):
     every reference file, packed-refs, shallow, index and config is
     completely written, every pack has its complete idx, and every object
     needed by an effective reference is available.
   [needed] does not depend on what is stored: it is the closure of the
   effective reference values under the object graph (parents are not needed
   below a shallow root, gitlinks are not needed). *)
From Coq Require Import List NArith ZArith Bool String.
From GoGit Require Import Base.Out Gen.C22 Model.Gc Model.Crash.
Import ListNotations.
Local Open Scope N_scope.

Definition kid (g : graph) (sh : list oid) (o c : oid) : Prop :=
  match assoc g o with
  | Some (OCommit t ps) => c = t \/ (mem o sh = false /\ In c ps)
  | Some (OTree es) => exists m, In (m, c) es /\ is_gitlink m = false
  | Some (OTag t) => c = t
  | _ => False
  end.

Inductive needed (g : graph) (rs sh : list oid) : oid -> Prop :=
| needed_root o : In o rs -> needed g rs sh o
| needed_step o c : needed g rs sh o -> kid g sh o c -> needed g rs sh c.

Definition shallow_list (fs : fsmap) : list oid :=
  match shallow_of fs with Some l => l | None => [] end.

Definition repo_ok (g : graph) (fs : fsmap) : Prop :=
  files_ok fs = true /\
  forall o, needed g (ref_roots fs) (shallow_list fs) o -> avail fs o = true /\ assoc g o <> None.

(* every state a crash can leave behind is a readable, connected repository *)
Definition crash_safe (g : graph) (fs : fsmap) (ops : list mutation) : Prop :=
  Forall (repo_ok g) (crash_states ops fs).
