(* Spec/SigGuards.v — boolean guards of the C03 `_partial` theorems: the
   input shapes on which go-git's verification payload / signature provably
   equal git's.  Each guard's negation is a known-finding class of C03. *)
From Coq Require Import List NArith ZArith Bool String.
From GoGit Require Import Base.Out Model.ObjLines Model.Commit Model.Tag Model.SigPayload Spec.GitSig Spec.ObjWf.
Import ListNotations.
Local Open Scope N_scope.

(* commits: every header line that starts with "gpgsig" is a "gpgsig " or
   "gpgsig-sha256 " header (git drops ALL gpgsig-prefixed headers from the
   payload, go-git only these two) *)
Definition foreign_gpgsig_free (ls : list bytes) : bool :=
  forallb (fun l => negb (starts_with k_gpgsig l) || is_sig_header l) (header_of ls).
Definition commit_sig_guard (raw : bytes) : bool := foreign_gpgsig_free (split_lines raw).

(* every header line is LF-terminated (an object that ends inside a gpgsig
   header line gets a "\n" appended to the signature by go-git's scanner) *)
Definition hdr_terminated (raw : bytes) : bool := forallb ends_nl (header_of (split_lines raw)).

(* tags, on the lines of buf[:match]: no foreign gpgsig-prefixed header, no
   signature header directly after a signature region, at most two regions
   (git's remove_signature has two slots; a third region is undefined
   behaviour in git 2.39) *)
Fixpoint tag_regions_ok (in_sig : bool) (nreg : nat) (ls : list bytes) : bool :=
  match ls with
  | [] => true
  | l :: r =>
    if first_is LF l then true
    else if in_sig && first_is SPC l then tag_regions_ok true nreg r
    else if is_sig_header l then negb in_sig && Nat.ltb nreg 2 && tag_regions_ok true (S nreg) r
    else negb (starts_with k_gpgsig l) && tag_regions_ok false nreg r
  end.
Definition tag_sig_guard (raw : bytes) : bool :=
  match parse_signed_bytes raw with
  | Some m => tag_regions_ok false 0 (split_lines (firstn m raw))
  | None => true
  end.

(* tags: no line of the header starts a signature block (go-git looks for the
   inline signature in the message only, git in the whole object) *)
Definition tag_marker_guard (raw : bytes) : bool :=
  forallb (fun l => negb (is_sig_start l)) (header_of (split_lines raw)).

Definition c03_guards_commit (raw : string) : out :=
  OList [OBool (commit_sig_guard (unhex raw)); OBool (hdr_terminated (unhex raw))].
Definition c03_guards_tag (raw : string) : out :=
  OList [OBool (tag_sig_guard (unhex raw)); OBool (tag_marker_guard (unhex raw))].
