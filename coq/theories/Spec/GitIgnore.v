(* Spec/GitIgnore.v — S for C49: what git 2.39.5 does (dir.c + wildmatch.c),
   transcribed: add_patterns_from_buffer, trim_trailing_spaces,
   parse_path_pattern, match_basename, match_pathname (with its literal-prefix
   shortcut), last_matching_pattern_from_list(s), prep_exclude,
   last_matching_pattern, and dowild of wildmatch.c as of 2.39.5 (the return
   codes of the abort paths differ from later versions; the bracket-expression
   loop is shared with the model, the Go code being a line-by-line port).
   Byte strings are assumed NUL-free (C strings).  Trusted only as far as the
   C-git correspondence (git check-ignore) exercises it on every run. *)
From Coq Require Import List NArith Bool.
From GoGit Require Import Base.Out Model.Gitignore Spec.Glob.
Import ListNotations.
Local Open Scope N_scope.

(* ------------------------------------------------------------------ *)
(* wildmatch.c (2.39.5)                                                *)

Fixpoint gdowild (fuel : nat) (flags : N) (prev : option N) (p t : bytes) : wm :=
  match fuel with O => WFuel | S f =>
  let cf := fl_casefold flags in
  let pn := fl_pathname flags in
  match p with
  | [] => match t with [] => WMatch | _ => WNoMatch end
  | pc0 :: p1 =>
    let at_end := match t with [] => true | _ => false end in
    let tc0 := match t with [] => 0 | c :: _ => c end in
    let t1 := match t with [] => [] | _ :: r => r end in
    if at_end && negb (pc0 =? cSTAR) then WAbortAll else
    let tc := fold cf tc0 in
    let pc := fold cf pc0 in
    if pc =? cBSL then
      match p1 with
      | [] => WNoMatch                       (* p_ch = NUL, t_ch <> NUL *)
      | e :: p2 => if negb (tc =? e) then WNoMatch else gdowild f flags (Some e) p2 t1
      end
    else if pc =? cQM then
      if pn && (tc =? cSLASH) then WNoMatch else gdowild f flags (Some pc0) p1 t1
    else if pc =? cSTAR then
      (* 2.39.5 returns WM_NOMATCH on the three abort paths of case '*' *)
      star_case (gdowild f flags) pn cf WNoMatch WNoMatch (fun _ : bool => WNoMatch) prev p1 t
    else if pc =? cLB then
      match bracket cf tc p1 with
      | (CAbort, _) => WAbortAll
      | (CFuel, _) => WFuel
      | (CDone matched rest, negated) =>
        if Bool.eqb matched negated || (pn && (tc =? cSLASH)) then WNoMatch
        else gdowild f flags (Some cRB) rest t1
      end
    else
      if negb (tc =? pc) then WNoMatch else gdowild f flags (Some pc0) p1 t1
  end
  end.

(* wildmatch(pattern, text, flags) == WM_MATCH *)
Definition gwildmatch (flags : N) (p t : bytes) : bool :=
  wm_eqb (gdowild (wm_fuel p) flags None p t) WMatch.

(* ------------------------------------------------------------------ *)
(* dir.c                                                               *)

(* trim_trailing_spaces *)
Fixpoint gtrim (s : bytes) : bytes :=
  match s with
  | [] => []
  | c :: r =>
    if c =? cSP then (if forallb (N.eqb cSP) r then [] else c :: gtrim r)
    else if c =? cBSL then
      match r with [] => [c] | d :: r' => c :: d :: gtrim r' end
    else c :: gtrim r
  end.

Record gpat := mkG { g_pat : bytes;         (* the first patternlen bytes *)
                     g_neg : bool; g_mustdir : bool; g_nodir : bool; g_endswith : bool;
                     g_nowild : nat;        (* nowildcardlen *)
                     g_base : list bytes }. (* directory of the ignore file *)

Fixpoint simple_length (s : bytes) : nat :=
  match s with [] => O | c :: r => if is_glob_special c then O else S (simple_length r) end.
Definition no_wildcard (s : bytes) : bool := Nat.eqb (simple_length s) (List.length s).

(* parse_path_pattern (+ add_pattern) *)
Definition gparse (line : bytes) (base : list bytes) : gpat :=
  let (neg, p) := match line with
                  | c :: r => if c =? cBANG then (true, r) else (false, line)
                  | [] => (false, line) end in
  let (mustdir, q) := match rev p with
                      | c :: r' => if c =? cSLASH then (true, rev r') else (false, p)
                      | [] => (false, p) end in
  let nodir := negb (has_slash q) in
  let nw := Nat.min (simple_length p) (List.length q) in
  let ends := match p with c :: r => (c =? cSTAR) && no_wildcard r | [] => false end in
  mkG q neg mustdir nodir ends nw base.

(* add_patterns_from_buffer: lines of the (newline-terminated) buffer *)
Fixpoint split_lf (s : bytes) (cur : bytes) : list bytes :=
  match s with
  | [] => match cur with [] => [] | _ => [rev cur] end      (* a final '\n' is appended when missing *)
  | c :: r => if c =? cLF then rev cur :: split_lf r [] else split_lf r (c :: cur)
  end.
Definition skip_bom (s : bytes) : bytes :=
  match s with
  | a :: b :: c :: r => if (a =? 239) && (b =? 187) && (c =? 191) then r else s
  | _ => s
  end.
Definition gline (l : bytes) : option bytes :=
  match l with
  | [] => None
  | c :: _ => if c =? cHASH then None
              else Some (gtrim (match rev l with d :: r => if d =? cCR then rev r else l | [] => l end))
  end.
Definition gread (content : bytes) (base : list bytes) : list gpat :=
  flat_map (fun l => match gline l with Some e => [gparse e base] | None => [] end)
           (split_lf (skip_bom content) []).

Fixpoint join_slash (cs : list bytes) : bytes :=
  match cs with
  | [] => []
  | [c] => c
  | c :: r => c ++ cSLASH :: join_slash r
  end.

Definition last_comp (path : list bytes) : bytes := last path [].

Fixpoint is_suffix_at (suf s : bytes) : bool :=     (* s ends with suf *)
  beq suf s || match s with [] => false | _ :: r => is_suffix_at suf r end.

(* match_basename *)
Definition match_basename (g : gpat) (basename : bytes) : bool :=
  let pl := List.length (g_pat g) in
  if Nat.eqb (g_nowild g) pl then beq (g_pat g) basename
  else if g_endswith g then
    Nat.leb (pl - 1) (List.length basename) && is_suffix_at (tl (g_pat g)) basename
  else gwildmatch 0 (g_pat g) basename.

(* match_pathname: name = path below the base, joined with '/' *)
Definition match_pathname (g : gpat) (path : list bytes) : bool :=
  match strip_domain (g_base g) path with
  | None => false
  | Some [] => false
  | Some rel =>
    let name := join_slash rel in
    let (pattern, prefix) :=
        match g_pat g with
        | c :: r => if c =? cSLASH then (r, Nat.pred (g_nowild g)) else (g_pat g, g_nowild g)
        | [] => ([], g_nowild g) end in
    if Nat.eqb prefix 0 then gwildmatch 2 pattern name
    else if Nat.ltb (List.length name) prefix then false
    else if negb (beq (firstn prefix pattern) (firstn prefix name)) then false
    else
      let pattern' := skipn prefix pattern in
      let name' := skipn prefix name in
      if is_nil pattern' && is_nil name' then true
      else gwildmatch 2 pattern' name'
  end.

(* one entry of last_matching_pattern_from_list *)
Definition gpat_match (g : gpat) (path : list bytes) (isdir : bool) : bool :=
  if g_mustdir g && negb isdir then false
  else if g_nodir g then match_basename g (last_comp path)
  else match_pathname g path.

(* patterns in ascending priority; scanning from the end: Some negative? *)
Fixpoint glast_rev (gs : list gpat) (path : list bytes) (isdir : bool) : option bool :=
  match gs with
  | [] => None
  | g :: r => if gpat_match g path isdir then Some (g_neg g) else glast_rev r path isdir
  end.
Definition glast (gs : list gpat) (path : list bytes) (isdir : bool) : option bool :=
  glast_rev (rev gs) path isdir.

(* prep_exclude along the directories of path, then last_matching_pattern.
   gs: patterns loaded so far (ascending priority); pre: directory reached *)
Fixpoint gwalk (fs : files) (gs : list gpat) (pre rest : list bytes) (path : list bytes) (isdir : bool) : bool :=
  let gs' := match file_at fs pre with Some c => gs ++ gread c pre | None => gs end in
  match rest with
  | [] => false                                     (* not reached: path is never empty *)
  | [e] => match glast gs' path isdir with Some neg => negb neg | None => false end
  | e :: rest' =>
    let dir := pre ++ [e] in
    match glast gs' dir true with
    | Some false => true                            (* directory excluded: dir->pattern *)
    | _ => gwalk fs gs' dir rest' path isdir
    end
  end.

Definition git_ignored (excl : option bytes) (fs : files) (path : list bytes) (isdir : bool) : bool :=
  gwalk fs (match excl with Some c => gread c [] | None => [] end) [] path path isdir.

(* ------------------------------------------------------------------ *)
Definition c49_git_ignore (excl : option String.string)
           (fs : list (list String.string * String.string))
           (qs : list (list String.string * bool)) : out :=
  let fs' := map (fun f => (map unhex (fst f), unhex (snd f))) fs in
  let ex := match excl with Some e => Some (unhex e) | None => None end in
  OOk (map (fun q => OBool (git_ignored ex fs' (map unhex (fst q)) (snd q))) qs).

Definition c49_git_wild (p t : String.string) : out :=
  OBool (match_basename (gparse (unhex p) []) (unhex t)).

From Coq Require Import String.
(* the declarative glob semantics on a (pattern, text) pair, when the pattern is in the fragment *)
Definition c49_gmatch (p t : String.string) : out :=
  match glob_of (unhex p) with
  | Some g => OBool (gmatch g (unhex t))
  | None => OSym "outside"%string
  end.
