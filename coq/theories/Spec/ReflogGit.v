(* Spec/ReflogGit.v — S for C52: git 2.39's reflog line format, transcribed from
     refs.c            copy_reflog_msg (message normalisation)
     refs/files-backend.c  log_ref_write_fd (writer), show_one_reflog_ent (reader)
     ident.c           split_ident_line (what %gn / %ge print)
     date.c            show_date(DATE_RAW)  "%PRItime %+05d"
   Strings are C strings: every statement about S is for NUL-free input.
   Validated against /usr/bin/git on every run (C-git, props/C52.py). *)
From Coq Require Import List NArith ZArith Bool String.
From GoGit Require Import Base.Out Model.Reflog.
Import ListNotations.
Local Open Scope N_scope.

(* git's sane_ctype isspace(): SP HT LF CR *)
Definition git_isspace (c : N) : bool := (c =? 32) || (c =? 9) || (c =? 10) || (c =? 13).
(* libc isspace() in the C locale, used by strtoumax/strtol *)
Definition c_isspace (c : N) : bool := ((9 <=? c) && (c <=? 13)) || (c =? 32).

(* ---- copy_reflog_msg: collapse runs of isspace to one SP, drop leading, rtrim *)
Fixpoint copy_msg_go (s : bytes) (wasspace : bool) : bytes :=
  match s with
  | [] => []
  | c :: r =>
    if git_isspace c then (if wasspace then copy_msg_go r true else SP :: copy_msg_go r true)
    else c :: copy_msg_go r false
  end.
Fixpoint drop_spaces (s : bytes) : bytes :=
  match s with c :: r => if git_isspace c then drop_spaces r else s | [] => [] end.
Definition rtrim (s : bytes) : bytes := rev (drop_spaces (rev s)).
Definition git_copy_reflog_msg (m : bytes) : bytes := rtrim (copy_msg_go m true).

(* ---- what git shows of one reflog entry *)
Record gitent := mkGitent {
  g_old : bytes; g_new : bytes; g_name : bytes; g_email : bytes;
  g_time : N;           (* timestamp_t, unsigned *)
  g_tz : Z;             (* the decimal +hhmm number, as git keeps it *)
  g_msg : bytes }.

(* log_ref_write_fd with committer = fmt_ident(name, email, date): the line git
   appends for already sanitised fields *)
Definition tz_text (tz : Z) : bytes :=
  (if (tz <? 0)%Z then MINUS else PLUS) ::
  (let d := dec_N (Z.to_N (Z.abs tz)) in repeat 48 (4 - List.length d) ++ d).

Definition git_write (g : gitent) : bytes :=
  hex_enc (g_old g) ++ [SP] ++ hex_enc (g_new g) ++ [SP] ++
  g_name g ++ [SP; LT] ++ g_email g ++ [GT; SP] ++
  dec_N (g_time g) ++ [SP] ++ tz_text (g_tz g) ++
  (match g_msg g with [] => [] | m => TAB :: m end) ++ [LF].

(* ---- show_one_reflog_ent *)
Definition parse_oid_hex (hexsz : nat) (s : bytes) : option (bytes * bytes) :=
  if Nat.ltb (List.length s) hexsz then None
  else match hex_dec (firstn hexsz s) with
       | Some b => Some (b, skipn hexsz s)
       | None => None
       end.

Fixpoint take_digits (s : bytes) (acc : N) : N * bytes :=
  match s with
  | c :: r => if is_digit c then take_digits r (10 * acc + (c - 48)) else (acc, s)
  | [] => (acc, [])
  end.

Fixpoint skip_c_spaces (s : bytes) : bytes :=
  match s with c :: r => if c_isspace c then skip_c_spaces r else s | [] => [] end.

(* strtoumax(s, &end, 10) with a 64-bit uintmax_t: (value, rest); no digits =>
   (0, s) *)
Definition strtoumax10 (s : bytes) : N * bytes :=
  let t := skip_c_spaces s in
  let '(neg, u) :=
    match t with
    | c :: r => if c =? MINUS then (true, r) else if c =? PLUS then (false, r) else (false, t)
    | [] => (false, t)
    end in
  match u with
  | c :: _ =>
    if is_digit c then
      let '(v, rest) := take_digits u 0 in
      if 2 ^ 64 <=? v then (2 ^ 64 - 1, rest)
      else if neg then ((2 ^ 64 - v) mod 2 ^ 64, rest) else (v, rest)
    else (0, s)
  | [] => (0, s)
  end.

(* `int tz = strtol(s, NULL, 10)` on a string known to start with [+-]d *)
Definition strtol_int (s : bytes) : Z :=
  match s with
  | sg :: r =>
    let '(v, _) := take_digits r 0 in
    let l := if sg =? MINUS then Z.max (- Z.of_N v) (- 2 ^ 63)%Z else Z.min (Z.of_N v) (2 ^ 63 - 1)%Z in
    ((l + 2 ^ 31) mod 2 ^ 32 - 2 ^ 31)%Z
  | [] => 0%Z
  end.

(* split_ident_line on "name <email>" as used by %gn / %ge; failure prints nothing *)
Definition git_ident (ident : bytes) : bytes * bytes :=
  match cut LT ident with
  | None => ([], [])
  | Some (nm, r) =>
    match cut GT r with
    | None => ([], [])
    | Some (em, _) => (rtrim nm, em)
    end
  end.

(* one line INCLUDING its LF (sb->buf); None = "corrupt?", silently skipped *)
Definition git_parse_line (hexsz : nat) (line : bytes) : option gitent :=
  match rev line with
  | c :: _ =>
    if negb (c =? LF) then None else
    match parse_oid_hex hexsz line with
    | None => None
    | Some (old, l1) =>
      match l1 with
      | sp1 :: l1' =>
        if negb (sp1 =? SP) then None else
        match parse_oid_hex hexsz l1' with
        | None => None
        | Some (new, l2) =>
          match l2 with
          | sp2 :: p =>
            if negb (sp2 =? SP) then None else
            match cut GT p with
            | None => None
            | Some (id, after) =>
              match after with
              | sp3 :: tsb =>
                if negb (sp3 =? SP) then None else
                let '(ts, m) := strtoumax10 tsb in
                if ts =? 0 then None else
                match m with
                | m0 :: m1 :: m2 :: m3 :: m4 :: m5 :: rest =>
                  if (m0 =? SP) && ((m1 =? PLUS) || (m1 =? MINUS)) &&
                     is_digit m2 && is_digit m3 && is_digit m4 && is_digit m5 then
                    let tz := strtol_int (m1 :: m2 :: m3 :: m4 :: m5 :: rest) in
                    let msg := match rest with t :: r' => if t =? TAB then r' else rest | [] => rest end in
                    let '(nm, em) := git_ident (id ++ [GT]) in
                    Some (mkGitent old new nm em ts tz (removelast msg))
                  else None
                | _ => None
                end
              | [] => None
              end
            end
          | [] => None
          end
        end
      | [] => None
      end
    end
  | [] => None
  end.

(* for_each_reflog_ent: strbuf_getwholeline pieces, corrupt ones skipped *)
Fixpoint git_read_go (hexsz : nat) (s : bytes) (cur : bytes) : list gitent :=
  match s with
  | [] => []          (* a last piece without LF is corrupt by the first test *)
  | c :: r =>
    if c =? LF then
      match git_parse_line hexsz (rev (c :: cur)) with
      | Some g => g :: git_read_go hexsz r []
      | None => git_read_go hexsz r []
      end
    else git_read_go hexsz r (c :: cur)
  end.
Definition git_read (hexsz : nat) (file : bytes) : list gitent := git_read_go hexsz file [].

(* the view of a go-git entry that git is expected to list: offset as +hhmm *)
Definition tz_of_off (off : Z) : Z :=
  let a := Z.abs off in
  let v := (a / 3600 * 100 + a mod 3600 / 60)%Z in
  if (off <? 0)%Z then (- v)%Z else v.
Definition off_of_tz (tz : Z) : Z :=
  let a := Z.abs tz in
  let v := (a / 100 * 3600 + a mod 100 * 60)%Z in
  if (tz <? 0)%Z then (- v)%Z else v.

Definition git_view (e : entry) : gitent :=
  mkGitent (e_old e) (e_new e) (e_name e) (e_email e) (Z.to_N (e_secs e)) (tz_of_off (e_off e)) (e_msg e).
Definition go_view (g : gitent) : entry :=
  mkEntry (g_old g) (g_new g) (g_name g) (g_email g) (Z.of_N (g_time g)) (off_of_tz (g_tz g)) (g_msg g).

(* ---- observables for the C-git comparison *)
Definition gitent_out (g : gitent) : out :=
  OList [OBytes (g_old g); OBytes (g_new g); OBytes (g_name g); OBytes (g_email g);
         ON (g_time g); ONum (g_tz g); OBytes (g_msg g)].
Definition c52_git_read (file : string) : out := OList (map gitent_out (git_read 40 (unhex file))).
Definition c52_git_msg (m : string) : out := OBytes (git_copy_reflog_msg (unhex m)).
