(* Spec/ObjDisk.v — S for C18: the abstract object store.  Its state is what
   the successful writes put on disk (loose objects, packs) plus the open
   writers; every lookup answers from that state alone — no caches, no
   gates, no options.  "An object is visible once its writer has closed" is
   immediate here (ObjDisk facts in Proofs/C18.v); the theorem of C18 is that
   the implementation model (Model/ObjVis.v) produces exactly these answers. *)
From Coq Require Import List NArith Bool.
From GoGit Require Import Model.ObjVis.
Import ListNotations.
Local Open Scope N_scope.

Record disk := Disk {
  d_loose : oset;
  d_packs : list pid;
  d_ow : list (nat * oid);
  d_pw : list (nat * pid)
}.

Definition init_disk (l : oset) (ps : list pid) : disk := Disk l ps [] [].

Definition all_objects (d : disk) : oset := N.lor (d_loose d) (union_all (d_packs d)).
Definition visible (d : disk) (k : oid) : bool := mem k (all_objects d).

Definition spec_step (d : disk) (o : op) : disk * res :=
  match o with
  | NewObj w k =>
    match slot_get w (d_ow d) with
    | Some _ => (d, RErr EBadSlot)
    | None => (Disk (d_loose d) (d_packs d) ((w, k) :: d_ow d) (d_pw d), ROk)
    end
  | CloseObj w =>
    match slot_get w (d_ow d) with
    | None => (d, RErr EBadSlot)
    | Some k => (Disk (N.setbit (d_loose d) k) (d_packs d) (slot_del w (d_ow d)) (d_pw d), ROk)
    end
  | FailObj => (d, RErr EOther)
  | SetObj k => (Disk (N.setbit (d_loose d) k) (d_packs d) (d_ow d) (d_pw d), ROk)
  | NewPack w p =>
    match slot_get w (d_pw d) with
    | Some _ => (d, RErr EBadSlot)
    | None => (Disk (d_loose d) (d_packs d) (d_ow d) ((w, p) :: d_pw d), ROk)
    end
  | ClosePack w =>
    match slot_get w (d_pw d) with
    | None => (d, RErr EBadSlot)
    | Some p =>
      (Disk (d_loose d) (if p =? 0 then d_packs d else addp p (d_packs d)) (d_ow d) (slot_del w (d_pw d)), ROk)
    end
  | Has k => (d, RBool (visible d k))
  | Size k => (d, if visible d k then ROk else RErr ENotFound)
  | Get k t => (d, if visible d k && has_type t k then ROk else RErr ENotFound)
  | Iter t => (d, RSet (tmask t (all_objects d)))
  | Prefix k _ => (d, RNum (if visible d k then 1 else 0))
  | Packs => (d, RPacks (d_packs d))
  | Del k =>
    if mem k (d_loose d)
    then (Disk (N.clearbit (d_loose d) k) (d_packs d) (d_ow d) (d_pw d), ROk)
    else (d, RErr ENotExist)
  | Reindex => (d, ROk)
  end.

Fixpoint spec_run (d : disk) (ops : list op) : disk * list res :=
  match ops with
  | [] => (d, [])
  | o :: r => let '(d1, x) := spec_step d o in let '(d2, xs) := spec_run d1 r in (d2, x :: xs)
  end.

(* what "the lookup q finds object k" means *)
Definition finds (k : oid) (q : op) (r : res) : bool :=
  match q, r with
  | Has k', RBool b => (k' =? k) && b
  | Size k', ROk => k' =? k
  | Get k' TAny, ROk => k' =? k
  | Iter TAny, RSet m => mem k m
  | Prefix k' _, RNum n => (k' =? k) && (n =? 1)
  | _, _ => false
  end.
Definition is_lookup (k : oid) (q : op) : bool :=
  match q with
  | Has k' | Size k' | Get k' TAny | Prefix k' _ => k' =? k
  | Iter TAny => true
  | _ => false
  end.
Definition is_del (k : oid) (o : op) : bool := match o with Del k' => k' =? k | _ => false end.
