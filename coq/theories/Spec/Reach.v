(* Spec/Reach.v — S for C22: liveness as git defines it for gc/prune/repack:
   everything reachable from the hash references (detached HEAD included)
   and from the index entries, over commit -> tree, parents (not below a
   shallow root), tree -> entries (gitlinks excluded), tag -> target. *)
From Coq Require Import List NArith ZArith Bool.
From GoGit Require Import Base.Out Gen.C22 Model.Gc.
Import ListNotations.
Local Open Scope N_scope.

Definition child (r : repo) (h c : oid) : Prop :=
  match get r h with
  | Some (OCommit t ps) => c = t \/ (mem h r.(shallow) = false /\ In c ps)
  | Some (OTree es) => exists m, In (m, c) es /\ m <> filemode_Submodule
  | Some (OTag t) => c = t
  | _ => False
  end.

Inductive reach (r : repo) (rs : list oid) : oid -> Prop :=
| reach_root h : In h rs -> reach r rs h
| reach_step h c : reach r rs h -> child r h c -> reach r rs c.

Definition index_roots (r : repo) : list oid := map snd (filter (fun e => negb (fst e)) r.(index)).
Definition live (r : repo) (h : oid) : Prop := reach r (r.(roots) ++ index_roots r) h.
