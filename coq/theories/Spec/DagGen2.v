(* Spec/DagGen2.v — git's generation number v2 ("corrected commit date", commit-graph.c
   compute_generation_numbers / Documentation/technical/commit-graph.adoc):
     corrected date of a commit = max (its committer date, 1 + the largest corrected date of a parent),
   over the abstract history of Spec/Dag.v (nodes numbered topologically).  Executable. *)
From Coq Require Import List Arith ZArith Bool Lia.
From GoGit Require Import Spec.Dag.
Import ListNotations.

Fixpoint cdate_table (i : nat) (l : list (list node)) (times : list Z) (acc : list Z) : list Z :=
  match l with
  | [] => acc
  | ps :: r =>
    cdate_table (S i) r times
      (acc ++ [fold_right (fun p m => Z.max (nth p acc 0%Z + 1) m) (nth i times 0%Z) ps])
  end.

Definition corrected_date (g : dag) (c : node) : Z := nth c (cdate_table 0 (dpar g) (dtime g) []) 0%Z.

(* the offset stored in the GDA2 chunk *)
Definition date_offset (g : dag) (c : node) : Z := (corrected_date g c - ctime g c)%Z.

(* S evaluated by the correspondence (compared with the numbers in files written by the git binary) *)
From GoGit Require Import Base.Out.
Definition c51_spec (par : list (list nat)) (times : list Z) : out :=
  let g := mkDag par times in
  OList (map (fun c => OList [ONat (generation g c); ONum (corrected_date g c)]) (nodes g)).
