(* Spec/MapDiff.v — S for C44: a tree is the finite map path -> (mode, id) of its non-directory
   entries; the changes between two trees are the differences of the two maps.  Executable. *)
From Coq Require Import List NArith Bool.
From GoGit Require Import Base.Out Model.DiffTree.
Import ListNotations.

Definition fmap := list (path * leaf).

(* the flattened tree (entries in the order written; the order is irrelevant below) *)
Definition flatten (t : tree) : fmap := files_l t.

Fixpoint path_eqb (p q : path) : bool :=
  match p, q with
  | [], [] => true
  | a :: p', b :: q' => bytes_eqb a b && path_eqb p' q'
  | _, _ => false
  end.

Fixpoint lookup (p : path) (m : fmap) : option leaf :=
  match m with
  | [] => None
  | (q, l) :: r => if path_eqb p q then Some l else lookup p r
  end.

(* entries are compared the way go-git (and git) compare them: same id and same canonical mode *)
Definition map_diff (A B : fmap) : list mchange :=
  flat_map (fun pl => match lookup (fst pl) B with
                      | None => [MDel (fst pl) (snd pl)]
                      | Some l' => if leaf_eqb (snd pl) l' then [] else [MMod (fst pl) (snd pl) l']
                      end) A
  ++ flat_map (fun pl => match lookup (fst pl) A with
                         | None => [MIns (fst pl) (snd pl)]
                         | Some _ => []
                         end) B.

(* applying a change list to a map *)
Definition touches (p : path) (c : mchange) : bool :=
  match c with MIns q _ | MDel q _ | MMod q _ _ => path_eqb p q end.
Definition result_of (c : mchange) : fmap :=
  match c with MIns q l => [(q, l)] | MDel _ _ => [] | MMod q _ b => [(q, b)] end.
Definition apply_changes (cs : list mchange) (A : fmap) : fmap :=
  filter (fun pl => negb (existsb (touches (fst pl)) cs)) A ++ flat_map result_of cs.

(* well-formed input trees (boolean guard): names pairwise distinct in every directory *)
Fixpoint nodupb (l : list bytes) : bool :=
  match l with
  | [] => true
  | x :: r => negb (existsb (bytes_eqb x) r) && nodupb r
  end.
Fixpoint node_ok (x : node) : bool :=
  match x with
  | File _ => true
  | Dir cs => nodupb (map fst cs) &&
              (fix go (cs : list (name * node)) : bool :=
                 match cs with [] => true | c :: r => node_ok (snd c) && go r end) cs
  end.
Definition tree_ok (t : tree) : bool := node_ok (Dir t).

(* two maps agree up to the entry equivalence *)
Definition fmap_equiv (A B : fmap) : Prop :=
  (forall p l, In (p, l) A -> exists l', In (p, l') B /\ leaf_eqb l l' = true) /\
  (forall p l', In (p, l') B -> exists l, In (p, l) A /\ leaf_eqb l l' = true).
