(* Spec/GitIndexOps.v — S for C28: what `git add <path>`, `git add -A`,
   `git rm -r -f <path>`, `git mv`, `git clean -f [-d]` and `git write-tree`
   do to the flattened index / worktree (validated against the git binary on
   every run). *)
From Coq Require Import List NArith Bool String.
From GoGit Require Import Base.Out Model.Status Model.IndexOps Spec.GitStatus.
Import ListNotations.
Local Open Scope N_scope.

(* ce_mode_from_stat: without core.fileMode a regular file keeps the mode of its entry (100644 when new) *)
Definition git_mode (s : state) (f : wfile) (old : option ientry) : fmode :=
  if st_filemode s then wf_mode f
  else match wf_mode f with
       | MLink => MLink
       | _ => match old with
              | Some e => if is_link (ie_mode e) then MReg else ie_mode e
              | None => MReg
              end
       end.

Definition git_entry (s : state) (i : list ientry) (f : wfile) : ientry :=
  mkI (wf_path f) (git_mode s f (find_i i (wf_path f))) (mkHash (st_fmt s) (wf_cid f)) (wf_size f mod 2 ^ 32) (wf_mtime f) false.

(* untracked and ignored: never added implicitly, refused when named *)
Definition git_skips (s : state) (f : wfile) : bool :=
  negb (is_some (find_i (st_index s) (wf_path f))) && wf_ignored_git f.

(* entries in directory/file conflict with p are dropped when p is staged *)
Definition df_conflict (p q : path) : bool := under p q || under q p.
Definition drop_conflicts (i : list ientry) (p : path) : list ientry :=
  filter (fun e => negb (df_conflict p (ie_path e))) i.

(* stage everything in [scope]: files present are (re)staged, entries whose file is gone are removed *)
Definition git_add_scope (s : state) (scope : path -> bool) : list ientry :=
  let kept := filter (fun e => negb (scope (ie_path e)) || has_file s (ie_path e)) (st_index s) in
  fold_left (fun i f => if scope (wf_path f) && negb (git_skips s f)
                        then idx_set (drop_conflicts i (wf_path f)) (git_entry s (st_index s) f) else i)
            (st_wt s) kept.

Definition s_add_all (s : state) : res := ROk (with_index s (git_add_scope s (fun _ => true))).

Definition s_add (s : state) (p : path) : res :=
  match find_w (st_wt s) p with
  | Some f => if git_skips s f then RErr s
              else ROk (with_index s (idx_set (drop_conflicts (st_index s) p) (git_entry s (st_index s) f)))
  | None =>
    (* "pathspec is beyond a symbolic link" *)
    if existsb (fun f => is_link (wf_mode f) && under (wf_path f) p) (st_wt s) then RErr s
    else if is_dir_wt s p then
      ROk (with_index s (git_add_scope s (fun q => under p q || bytes_eqb p q)))
    else if is_some (find_i (st_index s) p) then ROk (with_index s (idx_remove (st_index s) p))
    else if existsb (fun e => under p (ie_path e)) (st_index s)
         then ROk (with_index s (git_add_scope s (fun q => under p q)))
         else RErr s
  end.

(* builtin/rm.c: the index entries are dropped first, then the files are removed in index order; a
   removal that fails (the path is a directory now) is fatal only when no file has been removed
   yet, i.e. when it is the FIRST one — afterwards failures are passed over *)
Definition first_fails (s : state) (victims : list path) : bool :=
  match victims with v :: _ => is_dir_wt s v && negb (has_file s v) | [] => false end.

Definition s_rm (s : state) (p : path) : res :=
  match find_i (st_index s) p with
  | Some _ =>
    if is_dir_wt s p && negb (has_file s p) then RErr s      (* the entry's path is a directory now: unlink fails *)
    else ROk (with_both s (idx_remove (st_index s) p) (wt_remove (st_wt s) p))
  | None =>
    let victims := filter (under p) (map ie_path (st_index s)) in
    match victims with
    | [] => RErr s
    | _ =>
      (* an entry below p whose path is a directory now: "is a directory" *)
      if first_fails s victims then RErr s
      else ROk (with_both s (fold_left idx_remove victims (st_index s)) (fold_left wt_remove victims (st_wt s)))
    end
  end.

(* every ancestor directory of q holds a tracked file: git enters it without -d *)
Fixpoint dir_prefixes (p : bytes) (cur : bytes) : list bytes :=
  match p with
  | [] => []
  | c :: r => if c =? SLASH then cur :: dir_prefixes r (cur ++ [c]) else dir_prefixes r (cur ++ [c])
  end.
Definition s_mv (s : state) (from to : path) : res :=
  match find_w (st_wt s) from, find_i (st_index s) from with
  | Some f, Some e =>
    if has_file s to || is_dir_wt s to then RErr s
    else if negb (forallb (fun d => is_dir_wt s d) (dir_prefixes to [])) then RErr s   (* destination directory does not exist *)
    else
      let f' := mkW to (wf_mode f) (wf_cid f) (wf_size f) (wf_mtime f) (wf_ignored f) (wf_ignored_git f) in
      let e' := mkI to (ie_mode e) (ie_hash e) (ie_size e) (ie_mtime e) (ie_ita e) in
      ROk (with_both s (idx_set (idx_remove (st_index s) from) e') (f' :: wt_remove (st_wt s) from))
  | _, _ => RErr s
  end.

Definition in_tracked_dirs (s : state) (q : path) : bool :=
  forallb (fun d => existsb (fun e => under d (ie_path e)) (st_index s)) (dir_prefixes q []).

Definition s_clean (s : state) (dir : bool) : res :=
  (* a file below a path that is itself an index entry (tracked file replaced by a directory) is left alone *)
  let victims := filter (fun q => git_untracked s q && (dir || in_tracked_dirs s q)
                                  && negb (existsb (fun e => under (ie_path e) q) (st_index s)))
                        (map wf_path (st_wt s)) in
  ROk (with_both s (st_index s) (fold_left wt_remove victims (st_wt s))).

(* write-tree: intent-to-add entries are left out *)
Definition s_tree_files (s : state) : list (path * fmode * hash) :=
  map (fun e => (ie_path e, ie_mode e, ie_hash e)) (filter (fun e => negb (ie_ita e)) (st_index s)).

Definition c28_git_add (tbl : list string) (s : state) (p : string) : out := out_res tbl (s_add s (unhex p)).
Definition c28_git_addall (tbl : list string) (s : state) : out := out_res tbl (s_add_all s).
Definition c28_git_rm (tbl : list string) (s : state) (p : string) : out := out_res tbl (s_rm s (unhex p)).
Definition c28_git_mv (tbl : list string) (s : state) (a b : string) : out := out_res tbl (s_mv s (unhex a) (unhex b)).
Definition c28_git_clean (tbl : list string) (s : state) (dir : bool) : out := out_res tbl (s_clean s dir).
Definition c28_git_commit (tbl : list string) (s : state) : out :=
  let t := map unhex tbl in
  OList [OSym "ok";
         OList (map (fun '(p, m, h) => OList [OBytes p; out_mode m; OBytes (content_of t (h_cid h))])
                    (sort_by (fun x => fst (fst x)) (s_tree_files s)))].

(* git clean -f -d (no -x): empty untracked directories go, ignored ones stay *)
Definition s_clean_empty_dirs (dirs : list (path * bool)) : list path :=
  map fst (filter (fun d => snd d) dirs).
