(* Spec/GitCommitHead.v — S for C28 (commit): what `git commit [--amend]
   [--allow-empty]` does to the history and the references (builtin/commit.c:
   prepare_to_commit's "commitable" test against HEAD, or against HEAD^1 / the
   empty tree when amending or on an unborn branch; parents = HEAD plus
   MERGE_HEAD, or the parents of HEAD when amending; update_head_with_reflog on
   the branch HEAD names, or on HEAD itself when detached).
   Validated against /usr/bin/git on every run. *)
From Coq Require Import List NArith Bool String.
From GoGit Require Import Base.Out Model.CommitHead.
Import ListNotations.
Local Open Scope N_scope.

Definition tree_of (r : crepo) (c : N) : option N := option_map fst (commit_of (r_commits r) c).

Definition s_commit_head (r : crepo) (o : copts) (tree : N) : cres :=
  match head_of r with
  | None =>
    if o_amend o then CErr ENoHead                                  (* "You have nothing to amend." *)
    else if (tree =? EMPTY_TREE) && negb (o_allow_empty o) then CErr EEmpty
    else COk tree [] (update_head r NEW)
  | Some h =>
    match commit_of (r_commits r) h with
    | None => CErr ENoObject
    | Some (th, hps) =>
      if o_amend o then
        if is_nil (match r_merge_head r with Some _ => [tt] | None => [] end) then
          let base := match hps with
                      | [] => Some EMPTY_TREE
                      | p :: _ => tree_of r p
                      end in
          match base with
          | None => CErr ENoObject
          | Some bt =>
            (* amending a merge may be "empty"; a plain commit may not *)
            if (tree =? bt) && negb (o_allow_empty o) && negb (Nat.ltb 1 (List.length hps)) then CErr EEmpty
            else COk tree hps (update_head r NEW)
          end
        else CErr EOptions                                          (* "in the middle of a merge -- cannot amend" *)
      else
        match r_merge_head r with
        | Some m => COk tree [h; m] (update_head r NEW)             (* concluding a merge is never "empty" *)
        | None =>
          if (tree =? th) && negb (o_allow_empty o) then CErr EEmpty
          else COk tree [h] (update_head r NEW)
        end
    end
  end.

Definition c28_git_commithead (hk hist : N) (amend allow merge : bool) (th tree : N) : out :=
  let r := mk_repo hk hist th merge in
  out_cres r (s_commit_head r (mkOpts false amend allow []) tree).
