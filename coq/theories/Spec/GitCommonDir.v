(* Spec/GitCommonDir.v — S for C33: git 2.39 path.c common_list / update_common_dir:
   which paths of $GIT_DIR of a linked worktree live in $GIT_COMMON_DIR.
   Validated against `git rev-parse --git-path` on every run. *)
From Coq Require Import List NArith Arith Bool String.
From GoGit Require Import Base.Out Model.WtRoute.
Import ListNotations.
Local Open Scope N_scope.

(* (is_dir, is_common, path) *)
Definition common_list : list (bool * bool * bytes) :=
  [ (true, true, s "branches"); (true, true, s "common"); (true, true, s "hooks"); (true, true, s "info");
    (false, false, s "info/sparse-checkout");
    (true, true, s "logs"); (false, false, s "logs/HEAD");
    (true, false, s "logs/refs/bisect"); (true, false, s "logs/refs/rewritten"); (true, false, s "logs/refs/worktree");
    (true, true, s "lost-found"); (true, true, s "objects"); (true, true, s "refs");
    (true, false, s "refs/bisect"); (true, false, s "refs/rewritten"); (true, false, s "refs/worktree");
    (true, true, s "remotes"); (true, true, s "worktrees"); (true, true, s "rr-cache"); (true, true, s "svn");
    (false, true, s "config"); (false, true, s "gc.pid"); (false, true, s "packed-refs"); (false, true, s "shallow") ].

Fixpoint bprefix (a b : bytes) : bool :=
  match a, b with
  | [], _ => true
  | x :: a', y :: b' => (x =? y) && bprefix a' b'
  | _ :: _, [] => false
  end.

(* the entry applies to p: the path itself, or (directories) anything below it *)
Definition entry_applies (e : bool * bool * bytes) (p : bytes) : bool :=
  let '(isdir, _, q) := e in
  beqb q p || (isdir && bprefix (q ++ [SL]) p).

(* the most specific applicable entry decides *)
Definition best (p : bytes) : option (bool * bool * bytes) :=
  fold_left (fun acc e =>
               if entry_applies e p
               then match acc with
                    | Some a => if Nat.ltb (List.length (snd a)) (List.length (snd e)) then Some e else acc
                    | None => Some e
                    end
               else acc) common_list None.

Definition strip_lock (p : bytes) : bytes :=
  let n := List.length p in
  if Nat.ltb 5 n && beqb (skipn (n - 5) p) (s ".lock") then firstn (n - 5) p else p.

Definition git_common (p : bytes) : bool :=
  match best (strip_lock p) with
  | Some (_, c, _) => c
  | None => false
  end.

Definition c33_git_route (p : string) : out := OSym (if git_common (unhex p) then "common" else "private").
