(* Spec/GitConvert.v — S for C31: git 2.39 convert.c transcribed
   (gather_stats, convert_is_binary, will_convert_lf_to_crlf, crlf_to_worktree,
   crlf_to_git with has_crlf_in_index) for a path without attributes, i.e.
   crlf_action = CRLF_AUTO_CRLF (core.autocrlf=true), CRLF_AUTO_INPUT (input)
   or CRLF_BINARY (false).  Validated against /usr/bin/git on every run. *)
From Coq Require Import List NArith Bool String.
From GoGit Require Import Base.Out Model.Eol.
Import ListNotations.
Local Open Scope N_scope.

Definition sadd (a b : stat) : stat :=
  mkStat (s_nul a + s_nul b) (s_lonecr a + s_lonecr b) (s_lonelf a + s_lonelf b)
         (s_crlf a + s_crlf b) (s_print a + s_print b) (s_nonprint a + s_nonprint b).

(* the counters one non-CR, non-LF byte contributes (NUL falls through to nonprintable++) *)
Definition git_class (c : N) : stat :=
  if c =? 127 then mkStat 0 0 0 0 0 1
  else if c <? 32 then
    if (c =? 8) || (c =? 9) || (c =? 27) || (c =? 12) then mkStat 0 0 0 0 1 0
    else if c =? 0 then mkStat 1 0 0 0 0 1
    else mkStat 0 0 0 0 0 1
  else mkStat 0 0 0 0 1 0.

(* gather_stats: the for loop with one byte of look-ahead *)
Fixpoint git_gather (bs : bytes) : stat :=
  match bs with
  | [] => stat0
  | c :: r =>
    if c =? CR then
      match r with
      | c2 :: r2 => if c2 =? LF then sadd (mkStat 0 0 0 1 0 0) (git_gather r2)
                    else sadd (mkStat 0 1 0 0 0 0) (git_gather r)
      | [] => mkStat 0 1 0 0 0 0
      end
    else if c =? LF then sadd (mkStat 0 0 1 0 0 0) (git_gather r)
    else sadd (git_class c) (git_gather r)
  end.

(* "If file ends with EOF then don't count this EOF as non-printable" *)
Definition git_stats (bs : bytes) : stat :=
  let s := git_gather bs in
  if last bs 0 =? SUB
  then mkStat (s_nul s) (s_lonecr s) (s_lonelf s) (s_crlf s) (s_print s) (s_nonprint s - 1)
  else s.

Definition git_is_binary (s : stat) : bool :=
  if 0 <? s_lonecr s then true
  else if 0 <? s_nul s then true
  else N.shiftr (s_print s) 7 <? s_nonprint s.

(* will_convert_lf_to_crlf for CRLF_AUTO_CRLF *)
Definition git_will_convert (s : stat) : bool :=
  if s_lonelf s =? 0 then false
  else if (0 <? s_lonecr s) || (0 <? s_crlf s) then false
  else negb (git_is_binary s).

(* the copy loop of crlf_to_worktree: an LF not preceded by CR becomes CR LF *)
Fixpoint git_lf_to_crlf (prevCR : bool) (bs : bytes) : bytes :=
  match bs with
  | [] => []
  | c :: r =>
    if c =? LF then (if prevCR then [LF] else [CR; LF]) ++ git_lf_to_crlf false r
    else c :: git_lf_to_crlf (c =? CR) r
  end.

Definition git_checkout (ac : autocrlf) (blob : bytes) : bytes :=
  match ac with
  | ACTrue =>
    match blob with
    | [] => []
    | _ => if git_will_convert (git_stats blob) then git_lf_to_crlf false blob else blob
    end
  | _ => blob
  end.

(* crlf_to_git, the CRLF_AUTO_* copy loop: every CR is dropped *)
Definition strip_cr (bs : bytes) : bytes := filter (fun c => negb (c =? CR)) bs.

(* has_crlf_in_index: the blob currently staged at the path *)
Definition has_crlf_in_index (prior : option bytes) : bool :=
  match prior with
  | None => false
  | Some d =>
    existsb (fun c => c =? CR) d &&
    negb (git_is_binary (git_stats d)) && (0 <? s_crlf (git_stats d))
  end.

Definition git_add (ac : autocrlf) (prior : option bytes) (file : bytes) : bytes :=
  match ac with
  | ACFalse => file
  | _ =>
    match file with
    | [] => []
    | _ =>
      let s := git_stats file in
      if s_crlf s =? 0 then file
      else if git_is_binary s then file
      else if has_crlf_in_index prior then file
      else strip_cr file
    end
  end.

(* correspondence entry points (S against the git binary) *)
Definition c31_git_checkout (ac : N) (blob : string) : out := OBytes (git_checkout (ac_of ac) (unhex blob)).
Definition c31_git_add (ac : N) (prior : option string) (file : string) : out :=
  OBytes (git_add (ac_of ac) (option_map unhex prior) (unhex file)).
Definition c31_git_stat (bs : string) : out :=
  let s := git_stats (unhex bs) in
  OOk [ON (s_nul s); ON (s_lonecr s); ON (s_lonelf s); ON (s_crlf s); ON (s_print s); ON (s_nonprint s);
       OBool (git_is_binary s)].
