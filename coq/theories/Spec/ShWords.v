(* Spec/ShWords.v — S for C41: POSIX shell word splitting restricted to the
   sublanguage buildCommand can emit (single quotes, backslash outside quotes,
   blanks).  Any *unquoted* shell-special byte makes the lexer refuse, so a
   [Some ws] result also means that no operator, expansion, comment or second
   command occurs.  Validated against /bin/sh on every run (C-git analogue). *)
From Coq Require Import List NArith Bool String.
From GoGit Require Import Base.Out Model.ShellQuote.
Import ListNotations.
Local Open Scope N_scope.

(* the shell operator, expansion, glob, comment, assignment and double-quote bytes, LF, TAB, NUL *)
Definition special (c : N) : bool :=
  existsb (N.eqb c) [59;38;124;60;62;40;41;36;96;34;42;63;91;35;126;61;37;123;125;10;9;0].
Definition blank (c : N) : bool := c =? SP.

(* cur = Some w : a word is in progress *)
Fixpoint lex (s : bytes) (inq : bool) (cur : option bytes) (acc : list bytes)
  : option (list bytes) :=
  let curw := match cur with Some w => w | None => [] end in
  match s with
  | [] => if inq then None else Some (rev (match cur with Some w => w :: acc | None => acc end))
  | c :: r =>
    if inq then
      if c =? SQ then lex r false (Some curw) acc else lex r true (Some (curw ++ [c])) acc
    else if c =? SQ then lex r true (Some curw) acc
    else if c =? BS then
      match r with [] => None | d :: r' => lex r' false (Some (curw ++ [d])) acc end
    else if blank c then lex r false None (match cur with Some w => w :: acc | None => acc end)
    else if special c then None
    else lex r false (Some (curw ++ [c])) acc
  end.
Definition sh_words (s : bytes) := lex s false None [].

Definition plain (c : N) : bool := negb (special c || blank c || (c =? SQ) || (c =? BS)).

(* git-shell: quote.c sq_dequote_step / sq_dequote / sq_dequote_to_argv.
   [s] is the text after the opening quote.  After a closing quote: end of
   string finishes; backslash + (SQ|BANG) + SQ resumes; anything else ends the
   argument when a continuation is allowed ([has_next]) and fails otherwise. *)
Definition gspace (c : N) : bool := (c =? 32) || (c =? 9) || (c =? 10) || (c =? 13).

Fixpoint sq_step (has_next : bool) (fuel : nat) (s : bytes) (acc : bytes) : option (bytes * option bytes) :=
  match fuel with O => None | S f =>
  match s with
  | [] => None
  | c :: r =>
    if c =? SQ then
      match r with
      | [] => Some (acc, None)
      | d :: r1 =>
        let dflt := if has_next then Some (acc, Some r) else None in
        if d =? BS then
          match r1 with
          | e :: q :: r2 =>
            if ((e =? SQ) || (e =? BANG)) && (q =? SQ) then sq_step has_next f r2 (acc ++ [e]) else dflt
          | _ => dflt
          end
        else dflt
      end
    else sq_step has_next f r (acc ++ [c])
  end end.

Definition sq_dequote_step (has_next : bool) (s : bytes) : option (bytes * option bytes) :=
  match s with
  | c :: r => if c =? SQ then sq_step has_next (S (List.length r)) r [] else None
  | [] => None
  end.

(* sq_dequote: exactly one quoted argument *)
Definition sq_dequote (s : bytes) : option bytes :=
  match sq_dequote_step false s with Some (w, _) => Some w | None => None end.

Fixpoint skip_gspace (s : bytes) : bytes :=
  match s with c :: r => if gspace c then skip_gspace r else s | [] => [] end.

(* sq_dequote_to_argv: arguments separated by whitespace *)
Fixpoint sq_dequote_argv (fuel : nat) (s : bytes) (acc : list bytes) : option (list bytes) :=
  match fuel with O => None | S f =>
  match sq_dequote_step true s with
  | None => None
  | Some (w, None) => Some (rev (w :: acc))
  | Some (w, Some rest) =>
    match rest with
    | c :: r => if gspace c then sq_dequote_argv f (skip_gspace r) (w :: acc) else None
    | [] => None
    end
  end end.

Definition c41_spec_run (line : string) : out :=
  match sh_words (unhex line) with
  | Some ws => OOk (map OBytes ws)
  | None => OErr "refused"
  end.
