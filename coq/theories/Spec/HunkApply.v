(* Spec/HunkApply.v — S for C45: strict application of unified hunks to a file given as a list of
   lines.  A hunk "@@ -a,b +c,d @@" must sit exactly at old line a (after line a when b = 0) and at
   new line c (after line c when d = 0); every context and deleted line must equal the old line it
   meets; the header counts must equal the number of old-side / new-side lines of the body.
   This is what a conforming patch program does when no fuzz or offset search is allowed.  Executable. *)
From Coq Require Import List NArith ZArith Bool.
From GoGit Require Import Base.Out Model.Unified.
Import ListNotations.

Fixpoint line_eqb (a b : line) : bool :=
  match a, b with
  | [], [] => true
  | x :: a', y :: b' => N.eqb x y && line_eqb a' b'
  | _, _ => false
  end.

(* number of lines that precede a range "start,count" *)
Definition start_index (start count : Z) : Z := if (count =? 0)%Z then start else (start - 1)%Z.

(* the body of one hunk against the remaining old lines: (emitted new lines, rest of old, #old-side, #new-side) *)
Fixpoint run_ops (ops : list (dop * line)) (old : list line) : option (list line * list line * nat * nat) :=
  match ops with
  | [] => Some ([], old, O, O)
  | (Add, l) :: r =>
    match run_ops r old with
    | Some (em, rest, nf, nt) => Some (l :: em, rest, nf, S nt)
    | None => None
    end
  | (t, l) :: r =>
    match old with
    | o :: old' =>
      if line_eqb o l then
        match run_ops r old' with
        | Some (em, rest, nf, nt) =>
          Some (match t with Equal => l :: em | _ => em end, rest, S nf, match t with Equal => S nt | _ => nt end)
        | None => None
        end
      else None
    | [] => None
    end
  end.

(* hunks in order; kf / kt = old lines consumed / new lines produced so far.
   result: (new lines produced by these hunks incl. the copied gaps, kf', kt', old lines left) *)
Fixpoint apply_pref (hs : list hunk) (kf kt : Z) (old : list line) : option (list line * Z * Z * list line) :=
  match hs with
  | [] => Some ([], kf, kt, old)
  | h :: r =>
    let sf := start_index h.(h_from) h.(h_fromc) in
    let st := start_index h.(h_to) h.(h_toc) in
    if (sf <? kf)%Z then None
    else
      let gap := Z.to_nat (sf - kf) in
      if Nat.ltb (List.length old) gap then None
      else if negb (st =? kt + (sf - kf))%Z then None
      else
        match run_ops h.(h_ops) (skipn gap old) with
        | Some (em, rest, nf, nt) =>
          if ((Z.of_nat nf =? h.(h_fromc)) && (Z.of_nat nt =? h.(h_toc)))%Z then
            match apply_pref r (sf + Z.of_nat nf) (st + Z.of_nat nt) rest with
            | Some (out, kf', kt', rest') => Some (firstn gap old ++ em ++ out, kf', kt', rest')
            | None => None
            end
          else None
        | None => None
        end
  end.

Definition strict_apply (hs : list hunk) (old : list line) : option (list line) :=
  match apply_pref hs 0 0 old with
  | Some (out, _, _, rest) => Some (out ++ rest)
  | None => None
  end.

(* the two versions a chunk list describes, as lines *)
Definition old_lines (cs : list chunk) : list line :=
  flat_map (fun c => match fst c with Add => [] | _ => split_lines (snd c) end) cs.
Definition new_lines (cs : list chunk) : list line :=
  flat_map (fun c => match fst c with Delete => [] | _ => split_lines (snd c) end) cs.
(* ... and as bytes (utils/diff Src / Dst) *)
Definition src_bytes (cs : list chunk) : bytes := flat_map (fun c => match fst c with Add => [] | _ => snd c end) cs.
Definition dst_bytes (cs : list chunk) : bytes := flat_map (fun c => match fst c with Delete => [] | _ => snd c end) cs.

(* the oracle contract beyond consistency (boolean guard): no empty chunk, adjacent chunks differ in type *)
Fixpoint alternating (cs : list chunk) : bool :=
  match cs with
  | c :: ((d :: _) as r) => negb (dop_eqb (fst c) (fst d)) && alternating r
  | _ => true
  end.
Definition normal (cs : list chunk) : bool :=
  forallb (fun c => match snd c with [] => false | _ => true end) cs && alternating cs.

(* context-free variant for ctx = 0: positions on the old side only *)
Fixpoint apply_pref_old (hs : list hunk) (kf : Z) (old : list line) : option (list line * Z * list line) :=
  match hs with
  | [] => Some ([], kf, old)
  | h :: r =>
    let sf := start_index h.(h_from) h.(h_fromc) in
    if (sf <? kf)%Z then None
    else
      let gap := Z.to_nat (sf - kf) in
      if Nat.ltb (List.length old) gap then None
      else
        match run_ops h.(h_ops) (skipn gap old) with
        | Some (em, rest, nf, nt) =>
          if ((Z.of_nat nf =? h.(h_fromc)) && (Z.of_nat nt =? h.(h_toc)))%Z then
            match apply_pref_old r (sf + Z.of_nat nf) rest with
            | Some (out, kf', rest') => Some (firstn gap old ++ em ++ out, kf', rest')
            | None => None
            end
          else None
        | None => None
        end
  end.
Definition old_side_apply (hs : list hunk) (old : list line) : option (list line) :=
  match apply_pref_old hs 0 old with
  | Some (out, _, rest) => Some (out ++ rest)
  | None => None
  end.
