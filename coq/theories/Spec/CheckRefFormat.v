(* Spec/CheckRefFormat.v — S for C13: git's check_refname_format (refs.c,
   git 2.39) with flags = 0, i.e. `git check-ref-format <name>`: the
   refname_disposition table, check_refname_component and the component loop.
   The C code walks a NUL-terminated string; here the string is a byte list
   and a 0 byte is the terminator exactly as in C (disposition 1).
   Trusted only as far as the C-git suite compares it with /usr/bin/git. *)
From Coq Require Import List Arith NArith Bool String.
From GoGit Require Import Base.Out Model.RefStrings.
Import ListNotations.
Local Open Scope N_scope.

(* refname_disposition[256]:
   0 acceptable, 1 end-of-component (NUL, '/'), 2 '.', 3 '{',
   4 bad (control, DEL, SP ~ ^ : ? [ \), 5 '*' *)
Definition disposition (c : N) : N :=
  if c =? 0 then 1
  else if c <? 32 then 4
  else if c =? 32 then 4
  else if c =? 42 then 5
  else if c =? 46 then 2
  else if c =? 47 then 1
  else if c =? 58 then 4
  else if c =? 63 then 4
  else if c =? 91 then 4
  else if c =? 92 then 4
  else if c =? 94 then 4
  else if c =? 123 then 3
  else if c =? 126 then 4
  else if c =? 127 then 4
  else 0.

Definition LOCK_SUFFIX : bytes := [46; 108; 111; 99; 107].

(* the for(;;) loop of check_refname_component: scans to the end of the
   component; None = return -1, Some (component, rest) otherwise, where rest
   starts at the terminating byte ([] = end of list = the C string's NUL) *)
Fixpoint comp_scan (s : bytes) (last : N) (acc : bytes) : option (bytes * bytes) :=
  match s with
  | [] => Some (rev acc, [])
  | ch :: r =>
    let d := disposition ch in
    if d =? 1 then Some (rev acc, s)
    else if d =? 2 then (if last =? 46 then None else comp_scan r ch (ch :: acc))
    else if d =? 3 then (if last =? 64 then None else comp_scan r ch (ch :: acc))
    else if d =? 4 then None
    else if d =? 5 then None                 (* REFNAME_REFSPEC_PATTERN not set *)
    else comp_scan r ch (ch :: acc)
  end.

(* check_refname_component: None = -1, Some (len-as-component, rest) with
   component = [] meaning "return 0" *)
Definition check_component (s : bytes) : option (bytes * bytes) :=
  match comp_scan s 0 [] with
  | None => None
  | Some (comp, rest) =>
    match comp with
    | [] => Some ([], rest)                                   (* zero length *)
    | c0 :: _ =>
      if c0 =? 46 then None                                   (* starts with '.' *)
      else if (5 <=? List.length comp)%nat && has_suffix LOCK_SUFFIX comp then None
      else Some (comp, rest)
    end
  end.

Inductive verdict := Valid | Invalid | OutOfFuel.

(* the while(1) loop of check_or_sanitize_refname; count = components seen *)
Fixpoint comp_loop (fuel : nat) (s : bytes) (count : nat) : verdict :=
  match fuel with
  | O => OutOfFuel
  | S f =>
    match check_component s with
    | None => Invalid
    | Some ([], _) => Invalid                                 (* component_len <= 0 *)
    | Some (comp, rest) =>
      let final :=                                            (* refname[component_len] == '\0' *)
        if last comp 0 =? 46 then Invalid                     (* ends with '.' *)
        else if (S count <? 2)%nat then Invalid               (* !ALLOW_ONELEVEL *)
        else Valid in
      match rest with
      | ch :: r => if ch =? 47 then comp_loop f r (S count)   (* skip to next component *)
                   else final                                 (* ch = NUL *)
      | [] => final
      end
    end
  end.

Definition git_check (s : bytes) : verdict :=
  if beqb s [64] then Invalid                                 (* "@" *)
  else comp_loop (S (List.length s)) s 0.

Definition verdict_N (v : verdict) : N :=
  match v with Valid => 1 | Invalid => 0 | OutOfFuel => 2 end.

(* the documented extra rule of go-git: a branch or tag short name must not
   start with '-' (git check-ref-format --branch / git tag refuse it) *)
Definition dash_rule (s : bytes) : bool :=
  negb (has_prefix (bytes_of_string "refs/heads/-") s || has_prefix (bytes_of_string "refs/tags/-") s).

Definition c13_spec_run (names : list string) : out :=
  OBytes (map (fun h => verdict_N (git_check (unhex h))) names).
