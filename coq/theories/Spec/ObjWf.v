(* Spec/ObjWf.v — boolean well-formedness of in-memory commits / tags / idents
   (the structs for which C02 claims decode (encode c) = c), and boolean
   "git agrees" clauses over stored bytes (the shapes on which C02 claims the
   decoded fields are the ones git reports).  Each clause is also the
   known-finding class of C02's check when it fails. *)
From Coq Require Import List NArith ZArith Bool String.
From GoGit Require Import Base.Out Model.ObjLines Model.Ident Model.Commit Model.Tag Spec.GitFields.
Import ListNotations.
Local Open Scope N_scope.

Definition bytes_ok (b : bytes) : bool := forallb (fun c => c <? 256) b.
Definition has_byte (c : N) (b : bytes) : bool := existsb (N.eqb c) b.
Definition last_is (c : N) (b : bytes) : bool := first_is c (rev b).

(* a raw object id: 20 or 32 bytes *)
Definition oid_ok (h : bytes) : bool :=
  bytes_ok h && (Nat.eqb (List.length h) 20 || Nat.eqb (List.length h) 32).

(* ---- structs ---- *)
Definition wf_zone (tz : Z) : bool :=
  ((-5999 <=? tz) && (tz <=? 5999) && ((0 <=? tz) || (tz <=? -60)))%Z.

Definition wf_ident (i : ident) : bool :=
  negb (has_byte LF (id_name i) || has_byte LT (id_name i) || has_byte GT (id_name i)) &&
  negb (has_byte LF (id_email i) || has_byte LT (id_email i) || has_byte GT (id_email i)) &&
  negb (first_is SPC (id_name i)) && negb (last_is SPC (id_name i)) &&
  ((0 <=? id_ts i) && (id_ts i <? 2 ^ 63))%Z && wf_zone (id_tz i).

(* a value written through indent_nl and read back through continuation lines *)
Definition wf_sigval (s : bytes) : bool :=
  match s with [] => true | _ => last_is LF s end.

Definition wf_extra (kv : bytes * bytes) : bool :=
  let '(k, v) := kv in
  negb (is_standard_header k) &&
  match k with [] => false | _ => true end &&
  negb (has_byte SPC k || has_byte LF k) &&
  negb (last_is LF v).

Definition wf_commit (c : commit) : bool :=
  oid_ok (c_tree c) && forallb oid_ok (c_parents c) &&
  wf_ident (c_author c) && wf_ident (c_committer c) &&
  match c_enc c with [] => false | _ => true end && negb (has_byte LF (c_enc c)) &&
  forallb wf_extra (c_extra c) &&
  wf_sigval (c_sig c) && wf_sigval (c_sig256 c).

(* the tagger is either absent (zero value) or well-formed; the message holds
   no line that starts a signature block and ends with LF when a signature
   follows; the signature (if any) starts with its only block-start line *)
Definition wf_tag (t : tag) : bool :=
  oid_ok (t_target t) && valid_type (t_type t) && negb (has_byte LF (t_name t)) &&
  ((ident_is_zero (t_tagger t) && (id_tz (t_tagger t) =? 0)%Z) || wf_ident (t_tagger t)) &&
  wf_sigval (t_sig256 t) &&
  match parse_signed_bytes (t_msg t) with Some _ => false | None => true end &&
  (match t_msg t with [] => true | _ => match t_sig t with [] => true | _ => last_is LF (t_msg t) end end) &&
  match t_sig t with
  | [] => true
  | s => match parse_signed_bytes s with Some O => true | _ => false end
  end.

(* ---- stored bytes: where go-git's decoded fields are git's ---- *)
Definition count_byte (c : N) (b : bytes) : nat := List.length (filter (N.eqb c) b).

(* name/email part of an ident value (commits; git = ident.c split_ident_line):
   one '<'; after it exactly one '>' (a '>' inside the name is harmless: git
   takes the first '>' after the first '<', go-git the last '<' and the last
   '>'); the name is blank, or has no leading space and, once its trailing
   spaces are removed, does not end in TAB/CR (git strips those too, go-git
   only spaces) *)
Definition person_ok (v : bytes) : bool :=
  match index_of LT v with
  | Some lt =>
    let before := firstn lt v in
    let after := skipn (S lt) v in
    negb (has_byte LT after) && Nat.eqb (count_byte GT after) 1 &&
    match trim_right SPC before with
    | [] => true
    | t => negb (first_is SPC before) && negb (last_is 9 t || last_is 13 t)
    end
  | None => false
  end.

(* tags (git = ref-filter.c copy_name / copy_email / grab_date): the name
   ends at the first " <" and keeps inner trailing spaces, the date is looked
   for after the FIRST '>' of the line, so the line holds a single '>' *)
Definition person_ok_tag (v : bytes) : bool :=
  person_ok v && Nat.eqb (count_byte GT v) 1 &&
  match index_of LT v with
  | Some (S p) => (nth p v 0 =? SPC) && negb (last_is SPC (firstn p v))
  | _ => false
  end.

Definition two_digits (a b : N) : option N :=
  if is_digit a && is_digit b then Some (10 * (a - 48) + (b - 48)) else None.

(* the text after '>' is empty, or " <digits> [+-]hhmm" with digits < 2^63,
   mm < 60, not -00mm with mm > 0, and no further digit *)
Definition date_canon (after : bytes) : bool :=
  match after with
  | sp :: t =>
    (sp =? SPC) &&
    let ds := take_while is_digit t in
    match ds, skipn (List.length ds) t with
    | _ :: _, sp2 :: s :: h1 :: h2 :: m1 :: m2 :: rest =>
      (sp2 =? SPC) && ((s =? 43) || (s =? 45)) && (dval ds <? 2 ^ 63) &&
      match two_digits h1 h2, two_digits m1 m2 with
      | Some hh, Some mm =>
        (mm <? 60) && negb ((s =? 45) && (hh =? 0) && negb (mm =? 0)) &&
        negb (match rest with c :: _ => is_digit c | [] => false end)
      | _, _ => false
      end
    | _, _ => false
    end
  | [] => false
  end.
(* commits: the text after the last '>' holds no digit at all (git finds no
   date, go-git's strconv.ParseInt fails: both report no date), or is canonical *)
Definition date_ok (v : bytes) : bool :=
  match last_index_of GT v with
  | Some i => let a := skipn (S i) v in negb (existsb is_digit a) || date_canon a
  | None => true
  end.
Definition date_ok_tag (v : bytes) : bool :=
  match last_index_of GT v with
  | Some i => date_canon (skipn (S i) v)
  | None => false
  end.

(* header lines = the lines before the first empty line *)
Fixpoint header_of (ls : list bytes) : list bytes :=
  match ls with
  | [] => []
  | l :: r => if first_is LF l then [] else l :: header_of r
  end.

Fixpoint drop_parents (ls : list bytes) : list bytes :=
  match ls with
  | l :: r => if starts_with (str "parent ") l then drop_parents r else ls
  | [] => []
  end.

Record commit_agree := mk_cagree {
  ca_parents : bool;     (* every line of the leading "parent " block is a 48-byte line followed by more data *)
  ca_position : bool;    (* author / committer only directly after the parents, in this order *)
  ca_aperson : bool; ca_adate : bool;
  ca_cperson : bool; ca_cdate : bool;
  ca_encoding : bool }.  (* no "encoding" line without a value *)

Definition key_is (k : bytes) (l : bytes) : bool := beqb (fst (split_header l)) k.
Definition value_of (l : bytes) : bytes := snd (split_header l).

(* the leading block of lines go-git reads as parents ([key_is k_parent]):
   git must read them as parents too (48-byte "parent " lines with more data
   after them); [remaining] = bytes from this line to the end of the object *)
Fixpoint pblock_ok (ls : list bytes) (remaining : nat) : bool :=
  match ls with
  | l :: r =>
    if key_is k_parent l then
      Nat.eqb (List.length l) 48 && starts_with (str "parent ") l && Nat.ltb 48 remaining &&
      pblock_ok r (remaining - List.length l)%nat
    else true
  | [] => true
  end.

Definition commit_agree_of (raw : bytes) : commit_agree :=
  let ls := split_lines raw in
  let hdr := header_of ls in
  let after_tree := tl hdr in
  let pblock_ok := pblock_ok after_tree (List.length raw - 46)%nat in
  let rest := drop_parents after_tree in
  let '(a, rest1) := match rest with
                     | l :: r => if key_is k_author l then (Some l, r) else (None, rest)
                     | [] => (None, [])
                     end in
  let '(c, rest2) := match rest1 with
                     | l :: r => if key_is k_committer l then (Some l, r) else (None, rest1)
                     | [] => (None, [])
                     end in
  let stray l := starts_with (str "author ") l || starts_with (str "committer ") l in
  let position := negb (existsb stray rest2) in
  let pok o := match o with Some l => person_ok (value_of l) | None => true end in
  let dok o := match o with Some l => date_ok (value_of l) | None => true end in
  mk_cagree pblock_ok position (pok a) (dok a) (pok c) (dok c)
            (negb (existsb (fun l => beqb (trim_right LF l) k_encoding) hdr)).

Record tag_agree := mk_tagree {
  ta_position : bool;    (* "tagger " only as the fourth line *)
  ta_person : bool; ta_date : bool }.

Definition tag_agree_of (raw : bytes) : tag_agree :=
  let hdr := header_of (split_lines raw) in
  let rest := skipn 3 hdr in
  let '(t, rest1) := match rest with
                     | l :: r => if key_is k_tagger l then (Some l, r) else (None, rest)
                     | [] => (None, [])
                     end in
  let stray l := starts_with (str "tagger ") l in
  mk_tagree (negb (existsb stray rest1) && match t with Some l => stray l | None => true end)
            (match t with Some l => person_ok_tag (value_of l) | None => true end)
            (match t with Some l => date_ok_tag (value_of l) | None => true end).

(* ---- observables for the check (clauses as booleans, in the order above) ---- *)
Definition c02_agree_commit (raw : string) : out :=
  let a := commit_agree_of (unhex raw) in
  OList [OBool (ca_parents a); OBool (ca_position a); OBool (ca_aperson a); OBool (ca_adate a);
         OBool (ca_cperson a); OBool (ca_cdate a); OBool (ca_encoding a)].
Definition c02_agree_tag (raw : string) : out :=
  let a := tag_agree_of (unhex raw) in
  OList [OBool (ta_position a); OBool (ta_person a); OBool (ta_date a)].
Definition c02_wf_commit (c : commit) : out := OBool (wf_commit c).
Definition c02_wf_tag (t : tag) : out := OBool (wf_tag t).
