(* Spec/GitIndex.v — S for C12: git 2.39's on-disk index format as git itself reads
   and writes it (read-cache.c: do_read_index, verify_hdr, create_from_disk,
   ondisk_ce_size, load_index_extensions, read_index_extension, read_eoie_extension,
   check_ce_order, do_write_index, ce_write_entry, write_eoie_extension; varint.c;
   cache-tree.c: read_one, write_one; resolve-undo.c: resolve_undo_read/_write).

   Executable definitions only.  git's source is not available offline: this is a
   transcription from knowledge of the 2.39 sources and is trusted only as far as
   the C-git suite of props/C12.py validates it against the git 2.39.5 binary on
   every run (ls-files --stage --debug, ls-files --resolve-undo, write-tree
   [--prefix] for the cache tree, fsck for the checksum and the entry order,
   -c index.threads=2 for the EOIE extension, and byte-exact re-encoding of the
   index files git writes).

   git reads the file through an mmap without bounds checks: where the C code would
   read outside the mapping the transcription answers GOob ("undefined"); where git
   is defined but the transcription does not follow it (split index, sparse index,
   strtol corner cases, the threaded IEOT loader) it answers GUnspec.  Neither
   value is ever compared with the binary.

   The byte helpers (u16 u32 get_u16 get_u32 take read_until bytes_eqb bytes_ltb
   zeros) are shared with Model/IndexFile.v; everything that carries format
   knowledge is written here independently of the model. *)
From Coq Require Import List NArith ZArith Bool String.
From GoGit Require Import Base.Out Model.IndexFile.
Import ListNotations.
Local Open Scope N_scope.

Inductive gerr :=
| GTooSmall            (* index file smaller than expected *)
| GBadSignature | GBadVersion | GBadChecksum          (* verify_hdr; "index file corrupt" *)
| GUnknownEntryFormat  (* unknown index entry format 0x%08x *)
| GMalformedName       (* malformed name field in the index, near path ... *)
| GMandatoryExt        (* index uses %.4s extension, which we do not understand *)
| GCorruptLink         (* corrupt link extension (too short) *)
| GUnordered | GMultipleStage                         (* check_ce_order (fsck) *)
| GOob                 (* git reads outside the mapping *)
| GUnspec              (* outside this transcription *)
| GFuel.

Inductive gres (A : Type) := GOk (a : A) | GErr (e : gerr).
Arguments GOk {A}. Arguments GErr {A}.

(* three-valued results of the extension parsers: value / the C function gives up (NULL) / not transcribed *)
Inductive tri (A : Type) := TVal (a : A) | TFail | TUnspec.
Arguments TVal {A}. Arguments TFail {A}. Arguments TUnspec {A}.

(* ---- in-memory state (struct cache_entry, struct cache_tree, resolve_undo, struct index_state) ---- *)
Record gentry := mkGE {
  ge_sec : N; ge_nsec : N; ge_msec : N; ge_mnsec : N;
  ge_dev : N; ge_ino : N; ge_mode : N; ge_uid : N; ge_gid : N; ge_size : N;
  ge_oid : bytes;
  ge_stage : N;          (* ce_flags bits 12-13 *)
  ge_extended : bool;    (* CE_EXTENDED 0x4000 as found on disk (recomputed when written) *)
  ge_valid : bool;       (* CE_VALID 0x8000 (assume-unchanged) *)
  ge_ita : bool;         (* CE_INTENT_TO_ADD  1 << 29 *)
  ge_skip : bool;        (* CE_SKIP_WORKTREE  1 << 30 *)
  ge_name : bytes }.

(* ce_flags as `git ls-files --debug` prints it *)
Definition ge_flags (e : gentry) : N :=
  ge_stage e * 4096 + (if ge_extended e then 16384 else 0) + (if ge_valid e then 32768 else 0) +
  (if ge_ita e then 536870912 else 0) + (if ge_skip e then 1073741824 else 0).

Inductive ctree := CT (count : Z) (oid : bytes) (subs : cforest)
with cforest := CNil | CCons (name : bytes) (t : ctree) (r : cforest).

Record greuc := mkGR { gr_path : bytes; gr_m1 : N; gr_m2 : N; gr_m3 : N; gr_o1 : bytes; gr_o2 : bytes; gr_o3 : bytes }.

Record gindex := mkGI {
  gi_version : N; gi_entries : list gentry;
  gi_tree : option ctree;             (* istate->cache_tree (NULL when absent or unparsable) *)
  gi_reuc : option (list greuc);      (* istate->resolve_undo *)
  gi_untr : option bytes;             (* UNTR / FSMN: contents kept as found (git parses them; a failure only drops them) *)
  gi_fsmn : option bytes;
  gi_sparse : bool }.                 (* sdir *)

Definition gDIRC : bytes := [68; 73; 82; 67].
Definition gTREE : bytes := [84; 82; 69; 69].
Definition gREUC : bytes := [82; 69; 85; 67].
Definition gEOIE : bytes := [69; 79; 73; 69].
Definition gIEOT : bytes := [73; 69; 79; 84].
Definition gUNTR : bytes := [85; 78; 84; 82].
Definition gFSMN : bytes := [70; 83; 77; 78].
Definition glink : bytes := [108; 105; 110; 107].
Definition gsdir : bytes := [115; 100; 105; 114].

Definition g_nonul (s : bytes) : bool := forallb (fun c => negb (c =? 0)) s.

(* strlen inside the mapping *)
Fixpoint g_strlen (b : bytes) : option nat :=
  match b with
  | [] => None
  | c :: r => if c =? 0 then Some O else match g_strlen r with Some n => Some (S n) | None => None end
  end.

(* ---- varint.c ---- *)
(* decode_varint: val += 1; if (!val || MSB(val, 7)) return 0 (overflow: not transcribed) *)
Fixpoint g_varint_loop (fuel : nat) (val c : N) (b : bytes) : gres (N * bytes) :=
  if c <? 128 then GOk (val, b) else
  if 144115188075855872 <=? val + 1 then GErr GUnspec else       (* 2^57 *)
  match b with
  | [] => GErr GOob
  | c' :: r =>
    match fuel with
    | O => GErr GFuel
    | S f => g_varint_loop f ((val + 1) * 128 + c' mod 128) c' r
    end
  end.
Definition g_decode_varint (b : bytes) : gres (N * bytes) :=
  match b with
  | [] => GErr GOob
  | c :: r => g_varint_loop (List.length r) (c mod 128) c r
  end.

(* encode_varint: varint[pos] = value & 127; while (value >>= 7) varint[--pos] = 128 | (--value & 127) *)
Fixpoint g_varint_more (fuel : nat) (value : N) (acc : bytes) : bytes :=
  match fuel with
  | O => acc
  | S f => let v := value / 128 in
           if v =? 0 then acc else g_varint_more f (v - 1) ((128 + (v - 1) mod 128) :: acc)
  end.
Definition g_encode_varint (value : N) : bytes := g_varint_more 10 value [value mod 128].

(* ---- printf("%d") / ("%o"), strtol / strtoul ---- *)
Fixpoint g_digits_of (fuel : nat) (base n : N) (acc : bytes) : bytes :=
  match fuel with
  | O => acc
  | S f => let acc' := (48 + n mod base) :: acc in
           if n / base =? 0 then acc' else g_digits_of f base (n / base) acc'
  end.
Definition g_print_nat (base n : N) : bytes := g_digits_of 64 base n [].
Definition g_print_int (z : Z) : bytes :=
  if (z <? 0)%Z then 45 :: g_print_nat 10 (Z.to_N (- z)) else g_print_nat 10 (Z.to_N z).

Definition g_isspace (c : N) : bool := (c =? 32) || ((9 <=? c) && (c <=? 13)).
Fixpoint g_skip_space (b : bytes) : bytes :=
  match b with c :: r => if g_isspace c then g_skip_space r else b | [] => [] end.
(* the digit run at the head of b: value, number of digits, what follows *)
Fixpoint g_digits (base : N) (b : bytes) (acc : N) (n : nat) : N * nat * bytes :=
  match b with
  | c :: r => if (48 <=? c) && (c <? 48 + base) then g_digits base r (acc * base + (c - 48)) (S n) else (acc, n, b)
  | [] => (acc, n, [])
  end.

(* int x = strtol(cp, &ep, 10): TFail when ep == cp.  A scan that reaches the end of the
   extension data (strtol would go on into the next bytes of the file) and values outside
   int are not transcribed. *)
Definition g_strtol10 (b : bytes) : tri (Z * bytes) :=
  let b1 := g_skip_space b in
  let '(neg, b2) := match b1 with 45 :: r => (true, r) | 43 :: r => (false, r) | _ => (false, b1) end in
  match g_digits 10 b2 0 0 with
  | (_, _, []) => TUnspec
  | (_, O, _) => TFail
  | (v, _, rest) => if 2147483648 <=? v then TUnspec else TVal (if neg then (- Z.of_N v)%Z else Z.of_N v, rest)
  end.

(* unsigned int m = strtoul(data, &endptr, 8); if (!endptr || endptr == data || *endptr) error.
   Answers the bytes after the terminating NUL. *)
Definition g_strtoul8 (b : bytes) : tri (N * bytes) :=
  match b with
  | [] => TUnspec
  | c :: _ =>
    if g_isspace c || (c =? 43) || (c =? 45) then TUnspec else
    match g_digits 8 b 0 0 with
    | (_, _, []) => TUnspec
    | (_, O, _) => TFail
    | (v, _, t :: r) => if negb (t =? 0) then TFail else if 4294967296 <=? v then TUnspec else TVal (v, r)
    end
  end.

(* ---- cache-tree.c ---- *)
(* subtree_name_cmp: shorter names first, then memcmp *)
Definition g_subtree_lt (a b : bytes) : bool :=
  if (List.length a <? List.length b)%nat then true
  else if (List.length b <? List.length a)%nat then false else bytes_ltb a b.
Fixpoint g_forest_sorted (prev : option bytes) (f : cforest) : bool :=
  match f with
  | CNil => true
  | CCons n _ r => (match prev with Some p => g_subtree_lt p n | None => true end) && g_forest_sorted (Some n) r
  end.
Fixpoint cf_length (f : cforest) : nat := match f with CNil => O | CCons _ _ r => S (cf_length r) end.

(* while (size && *buf && *buf != '\n') ...; if (!size) fail; buf++ *)
Fixpoint g_skip_line (b : bytes) : option bytes :=
  match b with [] => None | c :: r => if (c =? 0) || (c =? 10) then Some r else g_skip_line r end.

Section Git.
Variable hs : nat.                 (* the_hash_algo->rawsz *)
Variable H : bytes -> bytes.       (* the_hash_algo over a byte string *)

(* read_one: the subtrees are kept in file order; cache_tree_sub() inserts them in
   subtree_name_cmp order and a duplicate name is a BUG ("cache-tree: internal error"):
   a node whose children are not strictly sorted is not transcribed *)
Fixpoint g_read_one (fuel : nat) (b : bytes) : tri (ctree * bytes) :=
  match fuel with
  | O => TUnspec
  | S f =>
    match read_until 0 b with None => TFail | Some (_, b1) =>
    match g_strtol10 b1 with TFail => TFail | TUnspec => TUnspec | TVal (cnt, ep) =>
    match g_strtol10 ep with TFail => TFail | TUnspec => TUnspec | TVal (nsub, _) =>
    match g_skip_line b1 with None => TFail | Some b2 =>
    match (if (0 <=? cnt)%Z then match take hs b2 with None => TFail | Some (o, b3) => TVal (o, b3) end
           else TVal ([], b2)) with
    | TFail => TFail | TUnspec => TUnspec
    | TVal (oid, b3) =>
      if (nsub <? 0)%Z then TUnspec else
      if (Z.of_nat (List.length b3) <? nsub)%Z then TFail else    (* every subtree takes at least one byte *)
      match (fix subs (k : nat) (b : bytes) : tri (cforest * bytes) :=
               match k with
               | O => TVal (CNil, b)
               | S k' =>
                 match read_until 0 b with None => TFail | Some (name, _) =>
                 match g_read_one f b with TFail => TFail | TUnspec => TUnspec | TVal (t, b') =>
                 match subs k' b' with TFail => TFail | TUnspec => TUnspec | TVal (l, b'') => TVal (CCons name t l, b'')
                 end end end
               end) (Z.to_nat nsub) b3 with
      | TFail => TFail | TUnspec => TUnspec
      | TVal (l, b4) => if g_forest_sorted None l then TVal (CT cnt oid l, b4) else TUnspec
      end
    end end end end end
  end.

(* cache_tree_read: if (buffer[0]) return NULL; an empty extension yields NULL either way *)
Definition g_cache_tree_read (data : bytes) : tri (option ctree) :=
  match data with
  | [] => TVal None
  | c :: _ => if negb (c =? 0) then TVal None else
              match g_read_one (S (List.length data)) data with
              | TVal (t, _) => TVal (Some t) | TFail => TVal None | TUnspec => TUnspec
              end
  end.

(* write_one *)
Fixpoint g_write_ct (name : bytes) (t : ctree) : bytes :=
  match t with
  | CT cnt oid subs =>
    name ++ 0 :: g_print_int cnt ++ 32 :: g_print_int (Z.of_nat (cf_length subs)) ++ 10 ::
    (if (0 <=? cnt)%Z then oid else []) ++ g_write_cf subs
  end
with g_write_cf (f : cforest) : bytes :=
  match f with CNil => [] | CCons n t r => g_write_ct n t ++ g_write_cf r end.

(* ---- resolve-undo.c ---- *)
Definition g_reuc_oid (m : N) (b : bytes) : tri (bytes * bytes) :=
  if m =? 0 then TVal ([], b) else match take hs b with None => TFail | Some (o, b') => TVal (o, b') end.

Definition g_reuc_mode (b : bytes) : tri (N * bytes) :=
  match g_strtoul8 b with
  | TVal (m, r) => match r with [] => TFail | _ => TVal (m, r) end     (* if (size <= len) goto error *)
  | x => x
  end.

(* resolve_undo_read: string_list_insert keeps the list sorted and merges equal paths:
   a list that is not strictly sorted is not transcribed *)
Fixpoint g_reuc_loop (fuel : nat) (b : bytes) (acc : list greuc) : tri (list greuc) :=
  match b with
  | [] => TVal (rev acc)
  | _ =>
    match fuel with
    | O => TUnspec
    | S f =>
      match read_until 0 b with None => TUnspec (* strlen leaves the extension *) | Some (path, b1) =>
      match b1 with [] => TFail | _ =>
      match g_reuc_mode b1 with TFail => TFail | TUnspec => TUnspec | TVal (m1, b2) =>
      match g_reuc_mode b2 with TFail => TFail | TUnspec => TUnspec | TVal (m2, b3) =>
      match g_strtoul8 b3 with TFail => TFail | TUnspec => TUnspec | TVal (m3, b4) =>
      match b4 with [] => TFail | _ =>
      match g_reuc_oid m1 b4 with TFail => TFail | TUnspec => TUnspec | TVal (o1, b5) =>
      match g_reuc_oid m2 b5 with TFail => TFail | TUnspec => TUnspec | TVal (o2, b6) =>
      match g_reuc_oid m3 b6 with TFail => TFail | TUnspec => TUnspec | TVal (o3, b7) =>
        g_reuc_loop f b7 (mkGR path m1 m2 m3 o1 o2 o3 :: acc)
      end end end end end end end end end
    end
  end.

Fixpoint g_reuc_sorted (prev : option bytes) (l : list greuc) : bool :=
  match l with
  | [] => true
  | r :: t => (match prev with Some p => bytes_ltb p (gr_path r) | None => true end) && g_nonul (gr_path r) &&
              g_reuc_sorted (Some (gr_path r)) t
  end.

Definition g_resolve_undo_read (data : bytes) : tri (option (list greuc)) :=
  match g_reuc_loop (S (List.length data)) data [] with
  | TVal l => if g_reuc_sorted None l then TVal (Some l) else TUnspec
  | TFail => TVal None            (* error("Index records invalid resolve-undo information"), not fatal *)
  | TUnspec => TUnspec
  end.

(* resolve_undo_write *)
Definition g_write_reuc1 (r : greuc) : bytes :=
  gr_path r ++ 0 :: g_print_nat 8 (gr_m1 r) ++ 0 :: g_print_nat 8 (gr_m2 r) ++ 0 :: g_print_nat 8 (gr_m3 r) ++ 0 ::
  (if gr_m1 r =? 0 then [] else gr_o1 r) ++ (if gr_m2 r =? 0 then [] else gr_o2 r) ++ (if gr_m3 r =? 0 then [] else gr_o3 r).
Definition g_write_reuc (l : list greuc) : bytes := flat_map g_write_reuc1 l.

(* ---- create_from_disk ---- *)
(* struct ondisk_cache_entry: ctime, mtime, dev, ino, mode, uid, gid, size (ten big-endian
   32-bit words), the object name, the 16-bit flags *)
Definition g_ondisk (b : bytes) : option ((N -> bool -> bool -> bool -> bool -> bytes -> gentry) * N * bytes) :=
  match get_u32 b with None => None | Some (sec, b) =>
  match get_u32 b with None => None | Some (nsec, b) =>
  match get_u32 b with None => None | Some (msec, b) =>
  match get_u32 b with None => None | Some (mnsec, b) =>
  match get_u32 b with None => None | Some (dev, b) =>
  match get_u32 b with None => None | Some (ino, b) =>
  match get_u32 b with None => None | Some (mode, b) =>
  match get_u32 b with None => None | Some (uid, b) =>
  match get_u32 b with None => None | Some (gid, b) =>
  match get_u32 b with None => None | Some (size, b) =>
  match take hs b with None => None | Some (oid, b) =>
  match get_u16 b with None => None | Some (flags, b) =>
    Some (mkGE sec nsec msec mnsec dev ino mode uid gid size oid, flags, b)
  end end end end end end end end end end end end.

(* ondisk_ce_size: align_flex_name = (offsetof(data) + hash + flags [+ flags2] + len + 8) & ~7 *)
Definition g_ondisk_ce_size (extended : bool) (len : nat) : nat :=
  ((40 + hs + 2 + (if extended then 2 else 0) + len + 8) / 8 * 8)%nat.

(* the name of a version-4 entry: strip length (varint), then the bytes to append, NUL-terminated *)
Definition g_name_v4 (prev : option bytes) (len : N) (b2 : bytes) : gres (bytes * bytes) :=
  match g_decode_varint b2 with GErr e => GErr e | GOk (strip, b3) =>
  match (match prev with
         | None => GOk O                       (* beginning of a block: the strip length is ignored *)
         | Some p => if N.of_nat (List.length p) <? strip then GErr GMalformedName
                     else GOk (List.length p - N.to_nat strip)%nat
         end) with GErr e => GErr e | GOk copy_len =>
  match (if len =? 4095 then match g_strlen b3 with None => GErr GOob | Some l => GOk (l + copy_len)%nat end
         else GOk (N.to_nat len)) with GErr e => GErr e | GOk nlen =>
    if (nlen <? copy_len)%nat then GErr GOob else         (* memcpy(len + 1 - copy_len) with a wrapped size *)
    match take (nlen - copy_len) b3 with None => GErr GOob | Some (suffix, b4) =>
    match b4 with [] => GErr GOob | t :: b5 =>
      let name := firstn copy_len (match prev with Some p => p | None => [] end) ++ suffix in
      (* the byte copied as the terminator is not checked by git; a name that is not a C string is not transcribed *)
      if negb (t =? 0) || negb (g_nonul name) then GErr GUnspec else GOk (name, b5)
    end end
  end end end.

(* the name of a version-2/3 entry; the entry ends at ondisk_ce_size ([hdr] bytes precede the name) *)
Definition g_name_v23 (extended : bool) (hdr : nat) (len : N) (b2 : bytes) : gres (bytes * bytes) :=
  match (if len =? 4095 then match g_strlen b2 with None => GErr GOob | Some l => GOk l end
         else GOk (N.to_nat len)) with GErr e => GErr e | GOk nlen =>
    match take nlen b2 with None => GErr GOob | Some (name, b3) =>
    match b3 with [] => GErr GOob | t :: _ =>
      if negb (t =? 0) || negb (g_nonul name) then GErr GUnspec else
      match take (g_ondisk_ce_size extended nlen - hdr) b2 with
      | None => GErr GOob
      | Some (_, b4) => GOk (name, b4)
      end
    end end
  end.

Definition g_create_from_disk (ver : N) (prev : option bytes) (b : bytes) : gres (gentry * bytes) :=
  match g_ondisk b with None => GErr GOob | Some (mk, flags, b1) =>
  let len := flags mod 4096 in                      (* flags & CE_NAMEMASK *)
  let extended := N.testbit flags 14 in             (* CE_EXTENDED *)
  match (if extended then
           match get_u16 b1 with None => GErr GOob | Some (x, b2) =>
             (* extended_flags & ~CE_EXTENDED_FLAGS: any bit but 13 and 14 of the second word *)
             if N.ldiff x 24576 =? 0 then GOk (N.testbit x 13, N.testbit x 14, b2) else GErr GUnknownEntryFormat
           end
         else GOk (false, false, b1)) with
  | GErr e => GErr e
  | GOk (ita, skip, b2) =>
    let mk' := mk ((flags / 4096) mod 4) extended (N.testbit flags 15) ita skip in
    let hdr := (40 + hs + 2 + (if extended then 2 else 0))%nat in
    match (if ver =? 4 then g_name_v4 prev len b2 else g_name_v23 extended hdr len b2) with
    | GErr e => GErr e
    | GOk (name, b') => GOk (mk' name, b')
    end
  end end.

(* load_cache_entry_block *)
Fixpoint g_load_entries (fuel : nat) (ver count : N) (prev : option bytes) (b : bytes) (acc : list gentry)
  : gres (list gentry * bytes) :=
  if count =? 0 then GOk (rev acc, b) else
  match fuel with
  | O => GErr GFuel
  | S f =>
    match g_create_from_disk ver prev b with
    | GErr e => GErr e
    | GOk (e, b') => g_load_entries f ver (count - 1) (Some (ge_name e)) b' (e :: acc)
    end
  end.

(* ---- read_index_extension ---- *)
Definition g_set_tree (g : gindex) (t : option ctree) : gindex :=
  mkGI (gi_version g) (gi_entries g) t (gi_reuc g) (gi_untr g) (gi_fsmn g) (gi_sparse g).
Definition g_set_reuc (g : gindex) (r : option (list greuc)) : gindex :=
  mkGI (gi_version g) (gi_entries g) (gi_tree g) r (gi_untr g) (gi_fsmn g) (gi_sparse g).
Definition g_set_untr (g : gindex) (d : option bytes) : gindex :=
  mkGI (gi_version g) (gi_entries g) (gi_tree g) (gi_reuc g) d (gi_fsmn g) (gi_sparse g).
Definition g_set_fsmn (g : gindex) (d : option bytes) : gindex :=
  mkGI (gi_version g) (gi_entries g) (gi_tree g) (gi_reuc g) (gi_untr g) d (gi_sparse g).
Definition g_set_sparse (g : gindex) : gindex :=
  mkGI (gi_version g) (gi_entries g) (gi_tree g) (gi_reuc g) (gi_untr g) (gi_fsmn g) true.

(* [inside]: the extension's declared size stays inside the mapping *)
Definition g_read_extension (g : gindex) (sig data : bytes) (inside : bool) : gres gindex :=
  if bytes_eqb sig gTREE then
    if negb inside then GErr GOob else
    match g_cache_tree_read data with TVal t => GOk (g_set_tree g t) | _ => GErr GUnspec end
  else if bytes_eqb sig gREUC then
    if negb inside then GErr GOob else
    match g_resolve_undo_read data with TVal r => GOk (g_set_reuc g r) | _ => GErr GUnspec end
  else if bytes_eqb sig glink then
    if negb inside then GErr GOob else
    if (List.length data <? hs)%nat then GErr GCorruptLink else GErr GUnspec      (* split index *)
  else if bytes_eqb sig gUNTR then if negb inside then GErr GOob else GOk (g_set_untr g (Some data))
  else if bytes_eqb sig gFSMN then if negb inside then GErr GOob else GOk (g_set_fsmn g (Some data))
  else if bytes_eqb sig gEOIE || bytes_eqb sig gIEOT then GOk g          (* already handled in do_read_index *)
  else if bytes_eqb sig gsdir then GOk (g_set_sparse g)
  else match sig with
       | c :: _ => if (c <? 65) || (90 <? c) then GErr GMandatoryExt else GOk g     (* "ignoring %.4s extension" *)
       | [] => GErr GFuel
       end.

(* load_index_extensions: while (src_offset <= mmap_size - rawsz - 8) *)
Fixpoint g_load_extensions (fuel : nat) (b : bytes) (g : gindex) : gres gindex :=
  if (List.length b <? 8 + hs)%nat then GOk g else
  match fuel with
  | O => GErr GFuel
  | S f =>
    match take 4 b with None => GErr GFuel | Some (sig, b1) =>
    match get_u32 b1 with None => GErr GFuel | Some (sz, b2) =>
      let inside := sz <=? N.of_nat (List.length b2) in
      let n := N.to_nat (N.min sz (N.of_nat (List.length b2))) in
      match g_read_extension g sig (firstn n b2) inside with
      | GErr e => GErr e
      | GOk g' => g_load_extensions f (if inside then skipn n b2 else []) g'
      end
    end end
  end.

(* ---- read_eoie_extension: 0 = none / invalid, otherwise the offset of the first extension.
   EOIE_SIZE is 4 + GIT_SHA1_RAWSZ = 24 whatever the repository's hash (sic), while the hash
   comparison covers rawsz bytes: git never accepts the EOIE it writes in a SHA-256 repository *)
Fixpoint g_eoie_walk (fuel : nat) (region acc : bytes) : option bytes :=
  match region with
  | [] => Some acc
  | _ =>
    match fuel with
    | O => None
    | S f =>
      match take 8 region with None => None | Some (hdr, r) =>
      match get_u32 (skipn 4 hdr) with None => None | Some (sz, _) =>
        if N.of_nat (List.length r) <? sz then None else g_eoie_walk f (skipn (N.to_nat sz) r) (acc ++ hdr)
      end end
    end
  end.

Definition g_read_eoie (b : bytes) : N :=
  let n := List.length b in
  if (n <? 12 + 32 + hs)%nat then 0 else
  let epos := (n - 32 - hs)%nat in
  let e := skipn epos b in
  match take 4 e with None => 0 | Some (sig, e1) =>
  if negb (bytes_eqb sig gEOIE) then 0 else
  match get_u32 e1 with None => 0 | Some (extsize, e2) =>
  if negb (extsize =? 24) then 0 else
  match get_u32 e2 with None => 0 | Some (offset, e3) =>
  if (offset <? 12) || (N.of_nat epos <=? offset) then 0 else
  match g_eoie_walk (S n) (firstn (epos - N.to_nat offset) (skipn (N.to_nat offset) b)) [] with
  | None => 0
  | Some hdrs => if bytes_eqb (H hdrs) (firstn hs e3) then offset else 0
  end end end end.

(* the first extension from [offset] on whose signature is IEOT (read_ieot_extension's scan) *)
Fixpoint g_has_ieot (fuel : nat) (b : bytes) : bool :=
  if (List.length b <? 8 + hs)%nat then false else
  match fuel with
  | O => false
  | S f =>
    match take 4 b with None => false | Some (sig, b1) =>
    match get_u32 b1 with None => false | Some (sz, b2) =>
      if bytes_eqb sig gIEOT then true
      else if N.of_nat (List.length b2) <? sz then false else g_has_ieot f (skipn (N.to_nat sz) b2)
    end end
  end.

(* ---- check_ce_order (fsck): strcmp order of names, stages ascending, no second entry after a merged one ---- *)
Fixpoint g_check_order (l : list gentry) : option gerr :=
  match l with
  | a :: ((b :: _) as r) =>
    if bytes_ltb (ge_name b) (ge_name a) then Some GUnordered
    else if bytes_eqb (ge_name a) (ge_name b) then
      if ge_stage a =? 0 then Some GMultipleStage
      else if ge_stage b <? ge_stage a then Some GUnordered else g_check_order r
    else g_check_order r
  | _ => None
  end.

Record gmode := mkGM {
  gm_verify : bool;     (* git fsck: verify_index_checksum and verify_ce_order *)
  gm_null_ok : bool;    (* git >= 2.40 accepts a null trailer (index.skipHash); 2.39.5 does not *)
  gm_threads : bool }.  (* index.threads > 1: the extensions are loaded from the EOIE offset *)

Definition g_is_zero (b : bytes) : bool := forallb (fun c => c =? 0) b.

(* do_read_index + verify_hdr + post-read checks *)
Definition git_decode (m : gmode) (b : bytes) : gres gindex :=
  let n := List.length b in
  if (n <? 12 + hs)%nat then GErr GTooSmall else
  match take 4 b with None => GErr GTooSmall | Some (sig, b1) =>
  if negb (bytes_eqb sig gDIRC) then GErr GBadSignature else
  match get_u32 b1 with None => GErr GTooSmall | Some (ver, b2) =>
  if (ver <? 2) || (4 <? ver) then GErr GBadVersion else
  if gm_verify m && negb (gm_null_ok m && g_is_zero (skipn (n - hs) b)) &&
     negb (bytes_eqb (H (firstn (n - hs) b)) (skipn (n - hs) b)) then GErr GBadChecksum else
  match get_u32 b2 with None => GErr GTooSmall | Some (count, b3) =>
  match g_load_entries (S (List.length b3)) ver count None b3 [] with
  | GErr e => GErr e
  | GOk (es, b4) =>
    let off := if gm_threads m then g_read_eoie b else 0 in
    let start := if off =? 0 then b4 else skipn (N.to_nat off) b in
    if negb (off =? 0) && g_has_ieot (S n) start then GErr GUnspec else
    match g_load_extensions (S (List.length start)) start (mkGI ver es None None None None false) with
    | GErr e => GErr e
    | GOk g =>
      if gm_verify m then match g_check_order es with Some e => GErr e | None => GOk g end else GOk g
    end
  end end end end.

(* ---- do_write_index (index.threads = 1: no IEOT) ---- *)
(* common prefix with the previous name: common < previous_name->len && ce->name[common] && equal *)
Fixpoint g_common (p name : bytes) : nat :=
  match p, name with
  | x :: p', y :: n' => if y =? 0 then O else if x =? y then S (g_common p' n') else O
  | _, _ => O
  end.

Definition g_write_entry (ver : N) (prev : bytes) (e : gentry) : bytes :=
  let ext := ge_ita e || ge_skip e in                (* ce_flags & CE_EXTENDED_FLAGS *)
  let nl := N.of_nat (List.length (ge_name e)) in
  let flags := ge_stage e * 4096 + (if ext then 16384 else 0) + (if ge_valid e then 32768 else 0) +
               (if nl <? 4095 then nl else 4095) in
  let fixed := u32 (ge_sec e) ++ u32 (ge_nsec e) ++ u32 (ge_msec e) ++ u32 (ge_mnsec e) ++ u32 (ge_dev e) ++ u32 (ge_ino e) ++
               u32 (ge_mode e) ++ u32 (ge_uid e) ++ u32 (ge_gid e) ++ u32 (ge_size e) ++ ge_oid e ++ u16 flags ++
               (if ext then u16 ((if ge_ita e then 8192 else 0) + (if ge_skip e then 16384 else 0)) else []) in
  if ver =? 4 then
    let common := g_common prev (ge_name e) in
    fixed ++ g_encode_varint (N.of_nat (List.length prev - common)) ++ skipn common (ge_name e) ++ [0]
  else
    let size := (40 + hs + 2 + (if ext then 2 else 0))%nat in
    let len := List.length (ge_name e) in
    (* align_padding_size(size, len) = ((size + len + 8) & ~7) - (size + len) *)
    fixed ++ ge_name e ++ zeros ((size + len + 8) / 8 * 8 - (size + len)).

Fixpoint g_write_entries (ver : N) (prev : bytes) (l : list gentry) : bytes :=
  match l with
  | [] => []
  | e :: r => g_write_entry ver prev e ++ g_write_entries ver (ge_name e) r
  end.

(* demote version 3 to version 2 when the latter suffices, promote 2 to 3 when needed *)
Definition g_written_version (g : gindex) : N :=
  let v := gi_version g in
  if (v =? 2) || (v =? 3) then (if existsb (fun e => ge_ita e || ge_skip e) (gi_entries g) then 3 else 2) else v.

(* the extensions in the order do_write_index emits them (no split index: no "link") *)
Definition g_ext_list (g : gindex) : list (bytes * bytes) :=
  (match gi_tree g with Some t => [(gTREE, g_write_ct [] t)] | None => [] end) ++
  (match gi_reuc g with Some l => [(gREUC, g_write_reuc l)] | None => [] end) ++
  (match gi_untr g with Some d => [(gUNTR, d)] | None => [] end) ++
  (match gi_fsmn g with Some d => [(gFSMN, d)] | None => [] end) ++
  (if gi_sparse g then [(gsdir, [])] else []).

Definition g_ext_header (x : bytes * bytes) : bytes := fst x ++ u32 (N.of_nat (List.length (snd x))).
Definition g_ext_bytes (x : bytes * bytes) : bytes := g_ext_header x ++ snd x.

(* the bytes before the extensions, and the EOIE contents: offset of the first extension,
   hash over the signature+size headers of the extensions written before it *)
Definition git_encode_entries (g : gindex) : bytes :=
  gDIRC ++ u32 (g_written_version g) ++ u32 (N.of_nat (List.length (gi_entries g))) ++
  g_write_entries (g_written_version g) [] (gi_entries g).
Definition git_eoie_offset (g : gindex) : N := N.of_nat (List.length (git_encode_entries g)).
Definition git_eoie_hash (g : gindex) : bytes := H (flat_map g_ext_header (g_ext_list g)).

(* [eoie]: index.recordEndOfIndexEntries; [skip_hash]: index.skipHash (git >= 2.40) *)
Definition git_encode (eoie skip_hash : bool) (g : gindex) : bytes :=
  let body := git_encode_entries g ++ flat_map g_ext_bytes (g_ext_list g) ++
              (if eoie then g_ext_bytes (gEOIE, u32 (git_eoie_offset g) ++ git_eoie_hash g) else []) in
  body ++ (if skip_hash then zeros hs else H body).

End Git.

(* ---- observables for the C-git suite ---- *)
Definition gerr_sym (e : gerr) : string :=
  match e with
  | GTooSmall => "too_small" | GBadSignature => "bad_signature" | GBadVersion => "bad_version" | GBadChecksum => "bad_checksum"
  | GUnknownEntryFormat => "unknown_entry_format" | GMalformedName => "malformed_name" | GMandatoryExt => "mandatory_ext"
  | GCorruptLink => "corrupt_link" | GUnordered => "unordered" | GMultipleStage => "multiple_stage"
  | GOob => "oob" | GUnspec => "unspec" | GFuel => "fuel"
  end.

Definition gentry_out (e : gentry) : out :=
  OList [obytes (ge_name e); ON (ge_stage e); ON (ge_sec e); ON (ge_nsec e); ON (ge_msec e); ON (ge_mnsec e);
         ON (ge_dev e); ON (ge_ino e); ON (ge_mode e); ON (ge_uid e); ON (ge_gid e); ON (ge_size e);
         OBytes (ge_oid e); ON (ge_flags e)].

(* the cache tree as (full path, name, entry_count, subtree_nr, oid) in pre-order *)
Fixpoint ct_paths (path name : bytes) (t : ctree) : list out :=
  match t with
  | CT cnt oid subs => OList [obytes path; obytes name; ONum cnt; ONat (cf_length subs); OBytes oid] :: cf_paths path subs
  end
with cf_paths (path : bytes) (f : cforest) : list out :=
  match f with
  | CNil => []
  | CCons n t r => ct_paths (match path with [] => n | _ => path ++ 47 :: n end) n t ++ cf_paths path r
  end.

Definition greuc_out (r : greuc) : out :=
  OList [obytes (gr_path r); OList [ON (gr_m1 r); OBytes (gr_o1 r)]; OList [ON (gr_m2 r); OBytes (gr_o2 r)];
         OList [ON (gr_m3 r); OBytes (gr_o3 r)]].

(* [w] shortens a long component (Model/IndexFile.c12_short) *)
Definition gindex_out_with (w : out -> out) (g : gindex) : out :=
  OOk [ON (gi_version g); w (OList (map gentry_out (gi_entries g)));
       OOpt (fun t => w (OList (ct_paths [] [] t))) (gi_tree g);
       OOpt (fun l => OList (map greuc_out l)) (gi_reuc g);
       OBool (match gi_untr g with Some _ => true | None => false end);
       OBool (match gi_fsmn g with Some _ => true | None => false end);
       OBool (gi_sparse g)].

Definition gres_out {A} (f : A -> out) (r : gres A) : out :=
  match r with GOk a => f a | GErr e => OErr (gerr_sym e) end.

(* ---- correspondence entry points ---- *)
(* the hash function as a finite table (length, digest, hex of the hash) supplied by the harness for the
   byte strings git hashes on this input; an input outside the table hashes to [] (never equal to a stored hash) *)
Definition table_H (tbl : list (N * N * string)) (x : bytes) : bytes :=
  let k := N.of_nat (List.length x) in
  let d := digest x in
  match find (fun e => (fst (fst e) =? k) && (snd (fst e) =? d)) tbl with
  | Some e => unhex (snd e)
  | None => []
  end.

Definition c12_git_dec (hs : N) (tbl : list (N * N * string)) (verify threads : bool) (d : bytes) : gres gindex :=
  git_decode (N.to_nat hs) (table_H tbl) (mkGM verify false threads) d.
(* the normal read / the fsck read (status only) / the read with index.threads > 1 *)
Definition c12_git_normal hs tbl d : out := gres_out (gindex_out_with c12_short) (c12_git_dec hs tbl false false d).
Definition c12_git_fsck hs tbl d : out := gres_out (fun _ => OSym "ok") (c12_git_dec hs tbl true false d).
Definition c12_git_threads hs tbl d : out := gres_out (gindex_out_with c12_short) (c12_git_dec hs tbl false true d).
(* read_eoie_extension, and what git would write back for the state it read: the file, the EOIE offset and hash *)
Definition c12_git_eoie hs tbl d : out := ON (g_read_eoie (N.to_nat hs) (table_H tbl) d).
Definition c12_git_reenc (hs : N) (tbl : list (N * N * string)) (eoie : bool) (d : bytes) : out :=
  match c12_git_dec hs tbl false false d with
  | GOk g => OList [obytes (git_encode (N.to_nat hs) (table_H tbl) eoie false g); ON (git_eoie_offset (N.to_nat hs) g);
                    OBytes (git_eoie_hash (table_H tbl) g)]
  | GErr _ => OSym "none"
  end.
