(* Spec/PackHash.v — executable SHA-1 and SHA-256 (FIPS 180-4) over byte lists.
   Used to instantiate the checksum / object-id section variables of the pack
   and pack-index models (C08 C09 C10) when the models are evaluated in the
   correspondence; the theorems are parametric in the hash function.
   Test vectors at the end (vm_compute). *)
From Coq Require Import List NArith Bool String.
From GoGit Require Import Base.Out.
Import ListNotations.
Local Open Scope N_scope.

Definition M32 : N := 4294967296.
(* operands are below 2^32: one conditional subtraction is the reduction mod 2^32 *)
Definition add32 (a b : N) : N := let s := a + b in if s <? M32 then s else s - M32.
Definition rotl32 (n : N) (x : N) : N :=
  N.lor (N.land (N.shiftl x n) (M32 - 1)) (N.shiftr x (32 - n)).
Definition rotr32 (n : N) (x : N) : N := rotl32 (32 - n) x.
Definition not32 (x : N) : N := (M32 - 1) - x.

Definition word_be (b0 b1 b2 b3 : N) : N := ((b0 * 256 + b1) * 256 + b2) * 256 + b3.
Definition bytes_of_word (w : N) : bytes :=
  [N.shiftr w 24 mod 256; N.shiftr w 16 mod 256; N.shiftr w 8 mod 256; w mod 256].

Fixpoint words_of_bytes (b : bytes) : list N :=
  match b with
  | b0 :: b1 :: b2 :: b3 :: r => word_be b0 b1 b2 b3 :: words_of_bytes r
  | _ => []
  end.

(* message padding: 0x80, zeros up to 56 mod 64, 64-bit big-endian bit length *)
Definition pad_zeros (len : N) : nat := N.to_nat ((119 - len mod 64) mod 64).
Definition sha_pad (m : bytes) : bytes :=
  let len := N.of_nat (List.length m) in
  let bits := 8 * len in
  m ++ [128] ++ repeat 0 (pad_zeros len)
    ++ bytes_of_word (N.shiftr bits 32 mod M32) ++ bytes_of_word (bits mod M32).

Fixpoint chunks16 (fuel : nat) (ws : list N) : list (list N) :=
  match fuel with
  | O => []
  | S f => match ws with
           | [] => []
           | _ => firstn 16 ws :: chunks16 f (skipn 16 ws)
           end
  end.

(* ---------------------------------------------------------------- SHA-1 *)

(* the schedule is kept most-recent-first: nth 2 = w[t-3], ... *)
Fixpoint sha1_extend (n : nat) (rev_w : list N) : list N :=
  match n with
  | O => rev_w
  | S k =>
    let x := N.lxor (N.lxor (nth 2 rev_w 0) (nth 7 rev_w 0)) (N.lxor (nth 13 rev_w 0) (nth 15 rev_w 0)) in
    sha1_extend k (rotl32 1 x :: rev_w)
  end.

Definition sha1_f (t : nat) (b c d : N) : N :=
  if Nat.ltb t 20 then N.lor (N.land b c) (N.land (not32 b) d)
  else if Nat.ltb t 40 then N.lxor (N.lxor b c) d
  else if Nat.ltb t 60 then N.lor (N.lor (N.land b c) (N.land b d)) (N.land c d)
  else N.lxor (N.lxor b c) d.
Definition sha1_k (t : nat) : N :=
  if Nat.ltb t 20 then 1518500249 else if Nat.ltb t 40 then 1859775393
  else if Nat.ltb t 60 then 2400959708 else 3395469782.

Definition st5 := (N * N * N * N * N)%type.

Definition sha1_round (s : st5) (tw : nat * N) : st5 :=
  let '(a, b, c, d, e) := s in
  let '(t, w) := tw in
  let tmp := add32 (add32 (add32 (add32 (rotl32 5 a) (sha1_f t b c d)) e) (sha1_k t)) w in
  (tmp, a, rotl32 30 b, c, d).

Definition sha1_block (h : st5) (blk : list N) : st5 :=
  let ws := rev (sha1_extend 64 (rev blk)) in
  let '(a, b, c, d, e) := fold_left sha1_round (combine (seq 0 80) ws) h in
  let '(h0, h1, h2, h3, h4) := h in
  (add32 h0 a, add32 h1 b, add32 h2 c, add32 h3 d, add32 h4 e).

Definition sha1_init : st5 := (1732584193, 4023233417, 2562383102, 271733878, 3285377520).

Definition sha1 (m : bytes) : bytes :=
  let ws := words_of_bytes (sha_pad m) in
  let '(a, b, c, d, e) := fold_left sha1_block (chunks16 (S (List.length ws)) ws) sha1_init in
  bytes_of_word a ++ bytes_of_word b ++ bytes_of_word c ++ bytes_of_word d ++ bytes_of_word e.

(* -------------------------------------------------------------- SHA-256 *)

Definition sha256_K : list N :=
  [1116352408; 1899447441; 3049323471; 3921009573; 961987163; 1508970993; 2453635748; 2870763221;
   3624381080; 310598401; 607225278; 1426881987; 1925078388; 2162078206; 2614888103; 3248222580;
   3835390401; 4022224774; 264347078; 604807628; 770255983; 1249150122; 1555081692; 1996064986;
   2554220882; 2821834349; 2952996808; 3210313671; 3336571891; 3584528711; 113926993; 338241895;
   666307205; 773529912; 1294757372; 1396182291; 1695183700; 1986661051; 2177026350; 2456956037;
   2730485921; 2820302411; 3259730800; 3345764771; 3516065817; 3600352804; 4094571909; 275423344;
   430227734; 506948616; 659060556; 883997877; 958139571; 1322822218; 1537002063; 1747873779;
   1955562222; 2024104815; 2227730452; 2361852424; 2428436474; 2756734187; 3204031479; 3329325298].

Definition ssig0 (x : N) := N.lxor (N.lxor (rotr32 7 x) (rotr32 18 x)) (N.shiftr x 3).
Definition ssig1 (x : N) := N.lxor (N.lxor (rotr32 17 x) (rotr32 19 x)) (N.shiftr x 10).
Definition bsig0 (x : N) := N.lxor (N.lxor (rotr32 2 x) (rotr32 13 x)) (rotr32 22 x).
Definition bsig1 (x : N) := N.lxor (N.lxor (rotr32 6 x) (rotr32 11 x)) (rotr32 25 x).

Fixpoint sha256_extend (n : nat) (rev_w : list N) : list N :=
  match n with
  | O => rev_w
  | S k =>
    let x := add32 (add32 (ssig1 (nth 1 rev_w 0)) (nth 6 rev_w 0))
                   (add32 (ssig0 (nth 14 rev_w 0)) (nth 15 rev_w 0)) in
    sha256_extend k (x :: rev_w)
  end.

Definition st8 := (N * N * N * N * N * N * N * N)%type.

Definition sha256_round (s : st8) (kw : N * N) : st8 :=
  let '(a, b, c, d, e, f, g, h) := s in
  let '(k, w) := kw in
  let ch := N.lxor (N.land e f) (N.land (not32 e) g) in
  let maj := N.lxor (N.lxor (N.land a b) (N.land a c)) (N.land b c) in
  let t1 := add32 (add32 (add32 (add32 h (bsig1 e)) ch) k) w in
  let t2 := add32 (bsig0 a) maj in
  (add32 t1 t2, a, b, c, add32 d t1, e, f, g).

Definition sha256_block (hh : st8) (blk : list N) : st8 :=
  let ws := rev (sha256_extend 48 (rev blk)) in
  let '(a, b, c, d, e, f, g, h) := fold_left sha256_round (combine sha256_K ws) hh in
  let '(h0, h1, h2, h3, h4, h5, h6, h7) := hh in
  (add32 h0 a, add32 h1 b, add32 h2 c, add32 h3 d, add32 h4 e, add32 h5 f, add32 h6 g, add32 h7 h).

Definition sha256_init : st8 :=
  (1779033703, 3144134277, 1013904242, 2773480762, 1359893119, 2600822924, 528734635, 1541459225).

Definition sha256 (m : bytes) : bytes :=
  let ws := words_of_bytes (sha_pad m) in
  let '(a, b, c, d, e, f, g, h) := fold_left sha256_block (chunks16 (S (List.length ws)) ws) sha256_init in
  bytes_of_word a ++ bytes_of_word b ++ bytes_of_word c ++ bytes_of_word d
  ++ bytes_of_word e ++ bytes_of_word f ++ bytes_of_word g ++ bytes_of_word h.

(* hash selected by object-id size, as plumbing/hash does (20 -> SHA-1, 32 -> SHA-256) *)
Definition hash_by_size (hs : nat) : bytes -> bytes :=
  if Nat.eqb hs 32 then sha256 else sha1.

(* ---------------------------------------------------------- test vectors *)
Example sha1_empty : sha1 [] = unhex "da39a3ee5e6b4b0d3255bfef95601890afd80709".
Proof. vm_compute. reflexivity. Qed.
Example sha1_abc : sha1 [97; 98; 99] = unhex "a9993e364706816aba3e25717850c26c9cd0d89d".
Proof. vm_compute. reflexivity. Qed.
Example sha1_two_blocks :
  sha1 (bytes_of_string "abcdbcdecdefdefgefghfghighijhijkijkljklmklmnlmnomnopnopq")
  = unhex "84983e441c3bd26ebaae4aa1f95129e5e54670f1".
Proof. vm_compute. reflexivity. Qed.
Example sha256_empty :
  sha256 [] = unhex "e3b0c44298fc1c149afbf4c8996fb92427ae41e4649b934ca495991b7852b855".
Proof. vm_compute. reflexivity. Qed.
Example sha256_abc :
  sha256 [97; 98; 99] = unhex "ba7816bf8f01cfea414140de5dae2223b00361a396177a9cb410ff61f20015ad".
Proof. vm_compute. reflexivity. Qed.
Example sha256_two_blocks :
  sha256 (bytes_of_string "abcdbcdecdefdefgefghfghighijhijkijkljklmklmnlmnomnopnopq")
  = unhex "248d6a61d20638b8e5c026930c3e6039a33ce45964ff2167f6ecedd419db06c1".
Proof. vm_compute. reflexivity. Qed.

(* ------------------------------------------------------------------ CRC-32 (IEEE 802.3, hash/crc32) *)
Fixpoint crc_bits (n : nat) (c : N) : N :=
  match n with
  | O => c
  | S k => crc_bits k (if N.odd c then N.lxor (N.shiftr c 1) 3988292384 else N.shiftr c 1)
  end.
Definition crc32_update (c : N) (b : bytes) : N :=
  fold_left (fun c x => crc_bits 8 (N.lxor c x)) b c.
Definition crc32 (b : bytes) : N := N.lxor (crc32_update 4294967295 b) 4294967295.

Example crc32_check : crc32 (bytes_of_string "123456789") = 3421780262.
Proof. vm_compute. reflexivity. Qed.
Example crc32_empty : crc32 [] = 0.
Proof. vm_compute. reflexivity. Qed.
