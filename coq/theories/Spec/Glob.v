(* Spec/Glob.v — a declarative semantics of shell globs (no path separators,
   no case folding: the way gitignore applies wildmatch to one path component).
   A pattern of the fragment
       literal | \c | ? | * | ** | [set] | [!set] | [^set]
       set ::= element+ ;  element ::= c | \c | lo-hi | lo-\hi | [:class:]
       class ::= alnum | alpha | blank | cntrl | digit | graph | lower | print |
                 punct | space | upper | xdigit          (ASCII, as in sane-ctype.h)
       (everything wildmatch accepts in brackets; an unknown class name or an
        unterminated "[:" is malformed, as it is for wildmatch)
   denotes a list of items; [Gmatch] says which byte strings a list of items
   matches.  No repository content here. *)
From Coq Require Import List NArith Bool.
From GoGit Require Import Base.Out.
Import ListNotations.
Local Open Scope N_scope.

Inductive item :=
| ILit (c : N)                       (* exactly this byte *)
| IAny                               (* any one byte *)
| IStar                              (* any byte string *)
| ISet (neg : bool) (rs : list (N * N)).   (* one byte inside / outside the union of the ranges *)

Definition in_ranges (rs : list (N * N)) (c : N) : bool :=
  existsb (fun r => (fst r <=? c) && (c <=? snd r)) rs.

(* one byte against a non-star item *)
Definition item_ok (it : item) (c : N) : bool :=
  match it with
  | ILit d => c =? d
  | IAny => true
  | ISet neg rs => negb (Bool.eqb (in_ranges rs c) neg)
  | IStar => false
  end.

Definition is_star (it : item) : bool := match it with IStar => true | _ => false end.

Inductive Gmatch : list item -> bytes -> Prop :=
| GM_nil : Gmatch [] []
| GM_one : forall it g c t, item_ok it c = true -> Gmatch g t -> Gmatch (it :: g) (c :: t)
| GM_star : forall g s t, Gmatch g t -> Gmatch (IStar :: g) (s ++ t).

(* the same, executable (backtracking without any pruning) *)
Fixpoint gmatch (g : list item) (t : bytes) : bool :=
  match g with
  | [] => match t with [] => true | _ => false end
  | IStar :: g' =>
    (fix star (t : bytes) : bool :=
       gmatch g' t || match t with [] => false | _ :: t' => star t' end) t
  | it :: g' => match t with c :: t' => item_ok it c && gmatch g' t' | [] => false end
  end.

(* ---------------- concrete syntax of the fragment ---------------- *)

Definition is_some {A} (o : option A) : bool := match o with Some _ => true | None => false end.

(* POSIX character classes denote unions of ASCII ranges *)
Fixpoint bytes_eqb (a b : bytes) : bool :=
  match a, b with
  | [], [] => true
  | x :: a', y :: b' => (x =? y) && bytes_eqb a' b'
  | _, _ => false
  end.

Definition class_ranges (name : bytes) : option (list (N * N)) :=
  if bytes_eqb name [97;108;110;117;109] then Some [(48, 57); (65, 90); (97, 122)]        (* alnum *)
  else if bytes_eqb name [97;108;112;104;97] then Some [(65, 90); (97, 122)]               (* alpha *)
  else if bytes_eqb name [98;108;97;110;107] then Some [(32, 32); (9, 9)]                  (* blank *)
  else if bytes_eqb name [99;110;116;114;108] then Some [(0, 31); (127, 127)]              (* cntrl *)
  else if bytes_eqb name [100;105;103;105;116] then Some [(48, 57)]                        (* digit *)
  else if bytes_eqb name [103;114;97;112;104] then Some [(33, 126)]                        (* graph *)
  else if bytes_eqb name [108;111;119;101;114] then Some [(97, 122)]                       (* lower *)
  else if bytes_eqb name [112;114;105;110;116] then Some [(32, 126)]                       (* print *)
  else if bytes_eqb name [112;117;110;99;116] then Some [(33, 47); (58, 64); (91, 96); (123, 126)]  (* punct *)
  else if bytes_eqb name [115;112;97;99;101] then Some [(32, 32); (9, 10); (13, 13)]       (* space: SP TAB LF CR (sane-ctype.h) *)
  else if bytes_eqb name [117;112;112;101;114] then Some [(65, 90)]                        (* upper *)
  else if bytes_eqb name [120;100;105;103;105;116] then Some [(48, 57); (97, 102); (65, 70)]  (* xdigit *)
  else None.

(* split at the first closing bracket: (before, after) *)
Fixpoint cut_rb (s : bytes) : option (bytes * bytes) :=
  match s with
  | [] => None
  | c :: r => if c =? 93 then Some ([], r)
              else match cut_rb r with Some (a, b) => Some (c :: a, b) | None => None end
  end.

(* the elements of a set up to and including the closing bracket.
     element ::= c | \c | lo-hi | lo-\hi | [:class:]
   [prev] is the byte of the preceding single-byte element (a range can start
   from it); a dash is literal when nothing precedes it, when it follows a
   range or a class, or when it is last; the first element may be a closing
   bracket or an opening one.  "[:" opens a class when the text up to the next
   closing bracket ends in a colon ("[:name:]"): the name must then be one of
   the twelve above (else the pattern is malformed); when it does not end in a
   colon the opening bracket is an ordinary element; with no closing bracket
   at all the pattern is malformed *)
Fixpoint parse_elems (fuel : nat) (prev : option N) (s : bytes) : option (list (N * N) * bytes) :=
  match fuel with O => None | S f =>
  let cont (prev' : option N) (rs : list (N * N)) (rest : bytes) :=
      match rest with
      | [] => None
      | x :: after =>
        if x =? 93 then Some (rs, after)
        else match parse_elems f prev' rest with
             | Some (rs', rest') => Some (rs ++ rs', rest')
             | None => None
             end
      end in
  match s with
  | [] => None
  | c :: r =>
    if c =? 0 then None
    else if c =? 92 then
      match r with
      | e :: r' => if e =? 0 then None else cont (Some e) [(e, e)] r'
      | [] => None
      end
    else if (c =? 45) && is_some prev && match r with h :: _ => negb (h =? 93) | [] => false end then
      match prev, r with
      | Some lo, h :: r1 =>
        if h =? 92 then match r1 with e2 :: r2 => cont None [(lo, e2)] r2 | [] => None end
        else cont None [(lo, h)] r1
      | _, _ => None
      end
    else if (c =? 91) && match r with h :: _ => h =? 58 | [] => false end then
      match r with
      | _ :: r0 =>
        match cut_rb r0 with
        | None => None
        | Some (name', after) =>
          match rev name' with
          | [] => cont (Some c) [(c, c)] r
          | lastc :: rname =>
            if negb (lastc =? 58) then cont (Some c) [(c, c)] r
            else match class_ranges (rev rname) with
                 | Some rs => cont None rs after
                 | None => None
                 end
          end
        end
      | [] => None
      end
    else cont (Some c) [(c, c)] r
  end
  end.

(* after the opening bracket *)
Definition parse_set (s : bytes) : option (item * bytes) :=
  match s with
  | c :: r =>
    if (c =? 33) || (c =? 94) then
      match parse_elems (S (List.length r)) None r with Some (rs, rest) => Some (ISet true rs, rest) | None => None end
    else
      match parse_elems (S (List.length s)) None s with Some (rs, rest) => Some (ISet false rs, rest) | None => None end
  | [] => None
  end.

Fixpoint parse_glob (fuel : nat) (p : bytes) : option (list item) :=
  match fuel with O => None | S f =>
  match p with
  | [] => Some []
  | c :: r =>
    if c =? 92 then                                   (* backslash: the next byte, literally *)
      match r with
      | e :: r' => match parse_glob f r' with Some g => Some (ILit e :: g) | None => None end
      | [] => None
      end
    else if c =? 63 then match parse_glob f r with Some g => Some (IAny :: g) | None => None end
    else if c =? 42 then match parse_glob f r with Some g => Some (IStar :: g) | None => None end
    else if c =? 91 then
      match parse_set r with
      | Some (it, rest) => match parse_glob f rest with Some g => Some (it :: g) | None => None end
      | None => None
      end
    else match parse_glob f r with Some g => Some (ILit c :: g) | None => None end
  end
  end.

Definition glob_of (p : bytes) : option (list item) := parse_glob (S (List.length p)) p.
