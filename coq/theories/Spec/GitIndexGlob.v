(* Spec/GitIndexGlob.v — S for AddGlob / RemoveGlob:
     AddGlob(pattern)    ~ `git add -- <the names the pattern expands to in the worktree>`
                           (what a shell does with an unquoted pattern; the harness expands with
                           Go's path/filepath.Glob and passes :(literal) pathspecs), i.e. git add of
                           the scope made of the matched files and everything below matched directories
     RemoveGlob(pattern) ~ `git rm -r -f -- '<pattern>'` with the pattern as an ordinary pathspec
                           (fnmatch without FNM_PATHNAME on the whole entry name)
   Validated against /usr/bin/git on every run. *)
From Coq Require Import List NArith Bool String.
From GoGit Require Import Base.Out Model.Status Model.IndexOps Model.IndexGlob Spec.GitStatus Spec.GitIndexOps.
Import ListNotations.
Local Open Scope N_scope.

Definition match_scope (ms : list path) (q : path) : bool := existsb (fun m => bytes_eqb m q || under m q) ms.

Definition s_add_matches (s : state) (ms : list path) : res :=
  match ms with
  | [] => RErr s
  | _ => ROk (with_index s (git_add_scope s (match_scope ms)))
  end.
Definition s_add_glob (s : state) (pat : bytes) : res := s_add_matches s (g_glob s pat).

(* a pathspec without wildcard also names everything below the directory of that name *)
Definition has_meta (pat : bytes) : bool := existsb (fun c => (c =? STAR) || (c =? QM)) pat.
Definition git_rm_match (pat : bytes) (q : path) : bool := gmatch pat q || (negb (has_meta pat) && under pat q).

Definition s_rm_glob (s : state) (pat : bytes) : res :=
  let victims := filter (git_rm_match pat) (map ie_path (st_index s)) in
  match victims with
  | [] => RErr s
  | _ =>
    if first_fails s victims then RErr s
    else ROk (with_both s (fold_left idx_remove victims (st_index s)) (fold_left wt_remove victims (st_wt s)))
  end.

Definition c28_git_addglob (tbl : list string) (s : state) (p : string) : out := out_res tbl (s_add_glob s (unhex p)).
Definition c28_git_rmglob (tbl : list string) (s : state) (p : string) : out := out_res tbl (s_rm_glob s (unhex p)).
