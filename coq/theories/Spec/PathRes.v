(* Spec/PathRes.v — S for C14: lexical resolution of a relative path below a
   root directory, and how NTFS and HFS+ see a path component that is a
   disguise of "..".  Executable. *)
From Coq Require Import List Arith NArith Bool String.
From GoGit Require Import Base.Out Model.RefStrings Model.RefName Model.RefGuard.
Import ListNotations.
Local Open Scope N_scope.

(* walk the components from the root; the stack is the chain of directories
   entered so far; None = the path climbs above the root *)
Fixpoint resolve (comps : list bytes) (stack : list bytes) : option (list bytes) :=
  match comps with
  | [] => Some (rev stack)
  | c :: r =>
    if beqb c [] || beqb c [46] then resolve r stack
    else if beqb c [46; 46] then match stack with [] => None | _ :: s => resolve r s end
    else resolve r (c :: stack)
  end.

(* HFS+ drops the ignorable code points of a name *)
Fixpoint hfs_fold (s : bytes) : bytes :=
  match s with
  | a :: ((b :: c :: r) as t) => if hfs_ignored a b c then hfs_fold r else a :: hfs_fold t
  | _ => s
  end.

(* NTFS: an alternate-data-stream suffix ":…" and trailing spaces / periods do
   not belong to the name *)
Definition sp_or_dot (c : N) : bool := (c =? 32) || (c =? 46).
Fixpoint take_colon (s : bytes) : bytes :=
  match s with
  | [] => []
  | c :: r => if c =? 58 then [] else c :: take_colon r
  end.
Fixpoint drop_while (f : N -> bool) (s : bytes) : bytes :=
  match s with
  | [] => []
  | c :: r => if f c then drop_while f r else s
  end.
Definition ntfs_stem (c : bytes) : bytes := rev (drop_while sp_or_dot (rev (take_colon c))).

Definition dotdot_on_hfs (c : bytes) : bool := beqb (hfs_fold c) [46; 46].
Definition dotdot_on_ntfs (c : bytes) : bool := has_prefix [46; 46] c && beqb (ntfs_stem c) [].

(* the component as the least favourable of the three filesystems sees it *)
Definition view (c : bytes) : bytes :=
  if dotdot_on_ntfs c || dotdot_on_hfs c then [46; 46] else c.

(* the places a reference operation may touch, as component lists *)
Definition caps_name (c : bytes) : bool := negb (beqb c []) && forallb is_caps c.
Definition REFS : bytes := bytes_of_string "refs".
Definition LOGS : bytes := bytes_of_string "logs".
Definition PACKED : bytes := bytes_of_string "packed-refs".
Definition ref_slot (cs : list bytes) : bool :=
  match cs with
  | [] => false
  | [c] => beqb c REFS || caps_name c
  | c :: _ => beqb c REFS
  end.
Definition slot (cs : list bytes) : bool :=
  match cs with
  | [c] => beqb c LOGS || beqb c PACKED || ref_slot cs
  | c :: r => if beqb c LOGS then ref_slot r else ref_slot cs
  | [] => false
  end.
