(* Spec/PathGlob.v — a declarative semantics of gitignore patterns that contain
   a slash (git matches them against the whole path below the ignore file,
   wildmatch with WM_PATHNAME):
       pattern ::= segment ( "/" segment )*
       segment ::= "**"  (not last: any number of whole directories, none included)
                 | glob of Spec/Glob without two adjacent stars and without an
                   escaped slash:  ? and [set] match one byte other than "/",
                   * matches any string without "/"
   A pattern denotes a list of path items; [PMatch] says which byte strings
   (paths joined with "/") a list of path items matches.  No repository content. *)
From Coq Require Import List NArith Bool.
From GoGit Require Import Base.Out Spec.Glob.
Import ListNotations.
Local Open Scope N_scope.

Inductive pitem :=
| PIt (it : item)        (* within a component: ILit / IAny / ISet match one byte that is not a slash, IStar a slash-free string *)
| PSep                   (* the slash between two components *)
| PDirs.                 (* "**/" : zero or more whole components, each with its slash *)

Definition noslash (s : bytes) : Prop := ~ In 47 s.

Inductive PMatch : list pitem -> bytes -> Prop :=
| PM_nil : PMatch [] []
| PM_one : forall it g c t, is_star it = false -> item_ok it c = true -> c <> 47 ->
    PMatch g t -> PMatch (PIt it :: g) (c :: t)
| PM_star : forall g s t, noslash s -> PMatch g t -> PMatch (PIt IStar :: g) (s ++ t)
| PM_sep : forall g t, PMatch g t -> PMatch (PSep :: g) (47 :: t)
| PM_dirs0 : forall g t, PMatch g t -> PMatch (PDirs :: g) t
| PM_dirsS : forall g s t, PMatch g t -> PMatch (PDirs :: g) (s ++ 47 :: t).

Definition ocons {A} (x : A) (o : option (list A)) : option (list A) :=
  match o with Some l => Some (x :: l) | None => None end.

(* concrete syntax; bos: the pattern position is the beginning of a segment *)
Fixpoint pparse (fuel : nat) (bos : bool) (p : bytes) : option (list pitem) :=
  match fuel with O => None | S f =>
  match p with
  | [] => Some []
  | c :: r =>
    if c =? 92 then
      match r with
      | e :: r' => if e =? 47 then None else ocons (PIt (ILit e)) (pparse f false r')
      | [] => None
      end
    else if c =? 63 then ocons (PIt IAny) (pparse f false r)
    else if c =? 42 then
      match r with
      | d :: r2 =>
        if d =? 42 then
          (* two stars: only as a whole segment that is followed by a slash *)
          if bos then
            match r2 with
            | s :: r3 => if s =? 47 then ocons PDirs (pparse f true r3) else None
            | [] => None
            end
          else None
        else ocons (PIt IStar) (pparse f false r)
      | [] => Some [PIt IStar]
      end
    else if c =? 91 then
      match parse_set r with
      | Some (it, rest) => ocons (PIt it) (pparse f false rest)
      | None => None
      end
    else if c =? 47 then ocons PSep (pparse f true r)
    else ocons (PIt (ILit c)) (pparse f false r)
  end
  end.

Definition pglob_of (p : bytes) : option (list pitem) := pparse (S (List.length p)) true p.
