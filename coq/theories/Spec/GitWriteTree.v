(* Spec/GitWriteTree.v — S for C28 (commit): `git write-tree`.
     cache-tree.c update_one: the index (sorted by path) is walked once; an entry
       without '/' below the current directory is emitted as it stands, a run of
       entries sharing the next component becomes one sub-tree entry (mode 40000)
       emitted at the position of the run; intent-to-add entries are left out;
       nothing is sorted and nothing is validated
     tree.c / read-cache.c base_name_compare: the order a tree must have
   Validated against /usr/bin/git (`git write-tree` on the same index) on every run. *)
From Coq Require Import List NArith ZArith Bool String.
From GoGit Require Import Base.Out Model.Status Model.IndexOps Gen.C04.
From GoGit Require Model.TreeObj Spec.GitTree Model.WriteTree.
Import ListNotations.
Local Open Scope N_scope.

Definition ent := (list bytes * Z * bytes)%type.     (* path components below the current directory, mode, id *)

Definition in_run (n : bytes) (e : ent) : bool :=
  match fst (fst e) with n' :: _ :: _ => bytes_eqb n n' | _ => false end.
Fixpoint take_run (n : bytes) (es : list ent) : list ent :=
  match es with e :: r => if in_run n e then e :: take_run n r else [] | [] => [] end.
Definition strip (e : ent) : ent := (tl (fst (fst e)), snd (fst e), snd e).

(* one directory: [sub] computes the id of a sub-tree from the entries of its run *)
Fixpoint walk_with (sub : list ent -> option bytes) (k : nat) (es : list ent) : option (list TreeObj.tentry) :=
  match k with
  | O => match es with [] => Some [] | _ => None end
  | S k' =>
    match es with
    | [] => Some []
    | (p, m, h) :: rest =>
      match p with
      | [] => None
      | [n] => option_map (cons (TreeObj.mkT m n h)) (walk_with sub k' rest)
      | n :: _ =>
        let run := take_run n es in
        match sub (map strip run), walk_with sub k' (skipn (List.length run) es) with
        | Some id, Some l => Some (TreeObj.mkT fmode_Dir n id :: l)
        | _, _ => None
        end
      end
    end
  end.

Fixpoint s_tree (fuel : nat) (es : list ent) : option bytes :=
  match fuel with
  | O => None
  | S f =>
    match walk_with (s_tree f) (S (List.length es)) es with
    | Some l => Some (WriteTree.obj_id "tree" (List.concat (map TreeObj.encode_entry l)))
    | None => None
    end
  end.

(* the stage-0 entries that are not intent-to-add, in index order (by path bytes) *)
Definition git_entries (tbl : list bytes) (i : list ientry) : list ent :=
  map (fun e => (split_slash (ie_path e) [], WriteTree.tmode (ie_mode e), WriteTree.blob_id tbl (ie_hash e)))
      (sort_by ie_path (filter (fun e => negb (ie_ita e)) i)).

Definition s_write_tree (tbl : list bytes) (i : list ientry) : option bytes :=
  s_tree (S (WriteTree.max_depth i)) (git_entries tbl i).

(* base_name_compare(name1, len1, mode1, name2, len2, mode2) *)
Definition base_name_compare (n1 : bytes) (m1 : Z) (n2 : bytes) (m2 : Z) : comparison :=
  match GitTree.cmp_names n1 n2 with
  | (Lt, _, _) => Lt
  | (Gt, _, _) => Gt
  | (Eq, c1, c2) =>
    let c1' := if (c1 =? 0) && GitTree.is_dir_mode m1 then 47 else c1 in
    let c2' := if (c2 =? 0) && GitTree.is_dir_mode m2 then 47 else c2 in
    N.compare c1' c2'
  end.

Definition c28_git_commit_id (tbl : list string) (s : state) : out :=
  match s_write_tree (map unhex tbl) (st_index s) with
  | Some id => OBytes id
  | None => OSym "err"
  end.
