(* Spec/ObjReach.v — S for C37 (and the object halves of C36/C38): which
   objects are reachable from a set of roots in an object store.

   Edges: a commit reaches its tree and, unless it is a shallow commit (git
   treats those as parentless: grafts), its parents; a tree reaches the objects
   of its entries except gitlinks (mode 160000 names a commit of another
   repository); a tag reaches its target.  An id that names no stored object is
   reachable (it can be referred to) but has no edges. *)
From Coq Require Import List NArith ZArith Bool.
From GoGit Require Import Model.RevList.
Import ListNotations.
Local Open Scope N_scope.

Section Reach.
  Variable st : store.
  Variable sh : list oid.

  Inductive child : oid -> oid -> Prop :=
  | ch_tree : forall c t ps tm, get st c = Some (Commit t ps tm) -> child c t
  | ch_parent : forall c t ps tm p,
      get st c = Some (Commit t ps tm) -> mem c sh = false -> In p ps -> child c p
  | ch_entry : forall t es e,
      get st t = Some (Tree es) -> In e es -> e_kind e <> KSub -> child t (e_id e)
  | ch_tag : forall g tg, get st g = Some (Tag tg) -> child g tg.

  Inductive reach : oid -> oid -> Prop :=
  | r_refl : forall a, reach a a
  | r_step : forall a b c, child a b -> reach b c -> reach a c.

  Definition reach_set (roots : list oid) (o : oid) : Prop :=
    exists r, In r roots /\ reach r o.

  Lemma reach_trans : forall a b c, reach a b -> reach b c -> reach a c.
  Proof. induction 1; intros; [assumption | econstructor; eauto]. Qed.

  Lemma reach_child : forall a b, child a b -> reach a b.
  Proof. intros. econstructor; [eassumption | constructor]. Qed.

  Lemma reach_set_closed : forall roots a b, reach_set roots a -> reach a b -> reach_set roots b.
  Proof. intros roots a b (r & Hr & Hra) Hab. exists r. split; [assumption | eapply reach_trans; eauto]. Qed.
End Reach.

(* the same relation with no shallow cut: plain graph reachability *)
Definition reach_full (st : store) := reach st [].

Lemma child_cut_full : forall st sh a b, child st sh a b -> child st [] a b.
Proof.
  intros st sh a b H. destruct H.
  - eapply ch_tree; eauto.
  - eapply ch_parent; eauto.
  - eapply ch_entry; eauto.
  - eapply ch_tag; eauto.
Qed.

Lemma reach_cut_full : forall st sh a b, reach st sh a b -> reach_full st a b.
Proof. induction 1; [constructor | econstructor; [eapply child_cut_full; eauto | assumption]]. Qed.

(* ---- well-formed stores (decidable) ----
   an object id is a content hash: the entries of a tree name objects of the
   kind their mode says (or objects that are not stored), a commit's tree is a
   tree, and — hashes cannot be cyclic — every parent was created before its
   child (ids are creation ranks). *)
(* ids used by gitlink entries anywhere in the store *)
Definition sub_ids (st : store) : list oid :=
  flat_map (fun ido => match snd ido with
                       | Tree es => flat_map (fun e => match e_kind e with KSub => [e_id e] | _ => [] end) es
                       | _ => []
                       end) st.

(* a gitlink names a commit (of another repository, normally not stored); a
   hash has one type, so it never also names a blob or a tree *)
Definition entry_typed (st : store) (subs : list oid) (e : entry) : bool :=
  match e_kind e with
  | KSub => match get st (e_id e) with None | Some (Commit _ _ _) => true | _ => false end
  | KDir => match get st (e_id e) with None | Some (Tree _) => true | _ => false end && negb (mem (e_id e) subs)
  | KFile => match get st (e_id e) with None | Some Blob => true | _ => false end && negb (mem (e_id e) subs)
  end.

Definition object_wf (st : store) (subs : list oid) (ido : oid * object) : bool :=
  match snd ido with
  | Tree es => forallb (entry_typed st subs) es
  | Commit t ps _ =>
    match get st t with None | Some (Tree _) => true | _ => false end &&
    forallb (fun p => p <? fst ido) ps
  | _ => true
  end.

Definition wf_store (st : store) : bool := forallb (object_wf st (sub_ids st)) st.

Lemma get_In : forall st h o, get st h = Some o -> In (h, o) st.
Proof.
  induction st as [|[k v] st IH]; intros h o H; cbn [get] in H; [discriminate|].
  destruct (k =? h) eqn:E.
  - apply N.eqb_eq in E. inversion H; subst. now left.
  - right. now apply IH.
Qed.

Lemma wf_get : forall st h o, wf_store st = true -> get st h = Some o -> object_wf st (sub_ids st) (h, o) = true.
Proof.
  intros st h o Hwf Hg. unfold wf_store in Hwf. rewrite forallb_forall in Hwf.
  apply Hwf. now apply get_In.
Qed.
