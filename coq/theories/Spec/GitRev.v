(* Spec/GitRev.v — S: git's name resolution (get_oid_with_context, as used by
   `git rev-parse --verify '<rev>^{commit}'`) on the item level of the grammar
   modelled in Model/Revision.v, over the same abstract repository.
   Transcribed from git 2.39's object-name.c; trusted only as far as the C-git
   comparison of props/C47.py exercises it (every case, every run).

   - a 40-digit hexadecimal name is that object id (no reference is consulted);
   - otherwise the reference found by the rev-parse rules wins;
   - otherwise an abbreviated id: at least 4 digits, case-insensitive, must be
     unique, or unique among committishes (commit, or tag peeling to a commit);
   - the result is peeled through (nested) tags to a commit;
   - ^n is the n-th parent, ~n the n-th first-parent ancestor, ^{commit} ^{}
     ^{object} keep a commit, ^{tree} ^{blob} cannot yield a commit;
   - ^{/re}: the first match of a walk that always takes the pending commit
     with the most recent committer date (commit_list_insert_by_date). *)
From Coq Require Import List Arith NArith ZArith Bool String.
From GoGit Require Import Base.Out Spec.Dag Model.CommitWalk Model.Revision.
Import ListNotations.
Local Open Scope N_scope.

Fixpoint git_peel (fuel : nat) (rp : repo) (h : bytes) : rres :=
  match fuel with
  | O => RErr
  | S k => match lookup_obj h (r_objects rp) with
           | Some (KCommit n) => ROk n
           | Some (KTag t) => git_peel k rp t
           | Some KOther => RErr
           | None => RNotFound
           end
  end.

Definition peel_fuel (rp : repo) : nat := S (List.length (r_objects rp)).

Definition committish (rp : repo) (h : bytes) : bool :=
  match git_peel (peel_fuel rp) rp h with ROk _ => true | _ => false end.

Definition git_short (rp : repo) (s : bytes) : option bytes :=
  if (List.length s <? 4)%nat || (40 <? List.length s)%nat || negb (forallb is_hex s) then None
  else
    let cands := filter (fun h => is_prefix (map lower s) h) (map fst (r_objects rp)) in
    match cands with
    | [] => None
    | [h] => Some h
    | _ => match filter (committish rp) cands with [h] => Some h | _ => None end
    end.

Definition git_base (rp : repo) (name : bytes) : rres :=
  if Nat.eqb (List.length name) 40 && forallb is_hex name then git_peel (peel_fuel rp) rp (map lower name)
  else match expand_ref rp name with
       | Some h => git_peel (peel_fuel rp) rp h
       | None => match git_short rp name with
                 | Some h => git_peel (peel_fuel rp) rp h
                 | None => RNotFound
                 end
       end.

(* get_oid_oneline: most recent pending commit first *)
Fixpoint insert_by_date (g : dag) (x : node) (l : list node) : list node :=
  match l with
  | [] => [x]
  | y :: r => if (ctime g y <? ctime g x)%Z then x :: y :: r else y :: insert_by_date g x r
  end.

Fixpoint git_oneline (g : dag) (hit : node -> bool) (fuel : nat) (l seen : list node) : option node :=
  match fuel with
  | O => None
  | S f =>
    match l with
    | [] => None
    | c :: r =>
      if hit c then Some c
      else
        let ps := nodup Nat.eq_dec (filter (fun p => negb (mem p seen) && present g p) (parents g c)) in
        git_oneline g hit f (fold_left (fun acc p => insert_by_date g p acc) ps r) (ps ++ seen)
    end
  end.

Section GitItems.
  Variable matches : bytes -> bytes -> bool.

  Fixpoint git_items (rp : repo) (items : list item) (cur : option node) : rres :=
    match items with
    | [] => match cur with Some c => ROk c | None => RNotFound end
    | it :: rest =>
      match it, cur with
      | IRef name, _ => match git_base rp name with ROk n => git_items rp rest (Some n) | e => e end
      | _, None => RErr
      | ICaret d, Some c =>
        if d =? 0 then git_items rp rest cur
        else match nth_error (parents (r_dag rp) c) (N.to_nat d - 1) with
             | Some p => if present (r_dag rp) p then git_items rp rest (Some p) else RErr
             | None => RErr
             end
      | ITilde d, Some c =>
        match first_parents (r_dag rp) (N.to_nat (N.min d (N.of_nat (S (nnodes (r_dag rp)))))) c with
        | Some p => git_items rp rest (Some p)
        | None => RErr
        end
      | ICaretReg re neg, Some c =>
        let g := r_dag rp in
        let hit x := if neg then negb (matches re (msg_of rp x)) else matches re (msg_of rp x) in
        match git_oneline g hit (S (nnodes g + nedges g)) [c] [c] with
        | Some x => git_items rp rest (Some x)
        | None => RErr
        end
      | ICaretType t, Some c =>
        (* [tag] is what the parser makes of ^{}: peel — a commit stays; commit / object keep it too *)
        if bytes_eqb t (b "tree") || bytes_eqb t (b "blob") then RErr else git_items rp rest cur
      | IOther, Some c => RErr
      end
    end.
End GitItems.

Definition c47_git_one (rp : repo) (s : string) : out :=
  match parse (unhex s) with
  | POk items =>
    match git_items lit_match rp items None with
    | ROk n => OOk [ONat n]
    | _ => OErr "none"
    end
  | _ => OErr "unparsed"
  end.

Definition c47_git (rp : repo) (exprs : list string) : out := OList (map (c47_git_one rp) exprs).
