(* Spec/AStore.v — S for C17/C19: the abstract repository store behind the
   storer API (references, objects, index, config, shallow list, reflogs),
   as finite maps in canonical form (key-sorted association lists), the
   results of API calls, and their rendering as observables.
   Executable definitions only. *)
From Coq Require Import List NArith Bool String Ascii.
From GoGit Require Import Base.Out.
Import ListNotations.
Local Open Scope N_scope.

(* ---------------------------------------------------------------- maps *)
Section FMap.
  Context {V : Type}.
  Definition fmap := list (N * V).

  Fixpoint fm_get (k : N) (m : fmap) : option V :=
    match m with
    | [] => None
    | (k', v) :: r => if k =? k' then Some v else fm_get k r
    end.

  (* insertion at the sorted position; replaces an equal key *)
  Fixpoint fm_set (k : N) (v : V) (m : fmap) : fmap :=
    match m with
    | [] => [(k, v)]
    | (k', v') :: r =>
      if k <? k' then (k, v) :: m
      else if k =? k' then (k, v) :: r
      else (k', v') :: fm_set k v r
    end.

  Definition fm_del (k : N) (m : fmap) : fmap :=
    filter (fun p => negb (fst p =? k)) m.

  Definition fm_has (k : N) (m : fmap) : bool :=
    match fm_get k m with Some _ => true | None => false end.

  Definition fm_keys (m : fmap) : list N := map fst m.

  (* b overridden by t *)
  Definition fm_union (b t : fmap) : fmap :=
    fold_right (fun p m => fm_set (fst p) (snd p) m) b t.

  Definition fm_diff (b : fmap) (ds : list N) : fmap :=
    fold_right fm_del b ds.

  (* canonical form: keys strictly increasing *)
  Fixpoint fm_okb (m : fmap) : bool :=
    match m with
    | [] => true
    | (k, _) :: r =>
      match r with
      | [] => true
      | (k', _) :: _ => (k <? k') && fm_okb r
      end
    end.
End FMap.
Arguments fmap : clear implicits.

(* sets of names as plain lists (Go: map[name]struct{}) *)
Definition nmem (k : N) (l : list N) : bool := existsb (N.eqb k) l.
Definition nadd (k : N) (l : list N) : list N := if nmem k l then l else k :: l.
Definition nrem (k : N) (l : list N) : list N := filter (fun x => negb (x =? k)) l.

(* ---------------------------------------------------------------- store *)
(* a reference value: a hash reference to object [h] or a symbolic reference
   to the name [n].  Reference.Hash() of a symbolic reference is the zero hash *)
Inductive refval := RHash (h : N) | RSym (n : N).

Definition rv_hash (v : refval) : option N :=
  match v with RHash h => Some h | RSym _ => None end.
Definition optN_eqb (a b : option N) : bool :=
  match a, b with
  | Some x, Some y => x =? y
  | None, None => true
  | _, _ => false
  end.
(* the comparison CheckAndSetReference performs: tmp.Hash() == old.Hash() *)
Definition rv_hash_eqb (a b : refval) : bool := optN_eqb (rv_hash a) (rv_hash b).
Definition rv_code (v : refval) : N :=
  match v with RHash h => 2 * h | RSym n => 2 * n + 1 end.

Record store := mkStore {
  s_refs : fmap refval;
  s_objs : fmap unit;          (* the set of object ids present *)
  s_idx : N;                   (* 0 = the initial empty index *)
  s_cfg : N;                   (* 0 = the default config *)
  s_shallow : list N;
  s_logs : fmap (list N)       (* name -> entries, oldest first; never [] *)
}.

Definition st_empty : store := mkStore [] [] 0 0 [] [].

Definition lg_get (n : N) (m : fmap (list N)) : list N :=
  match fm_get n m with Some l => l | None => [] end.

Definition st_with_refs s r := mkStore r (s_objs s) (s_idx s) (s_cfg s) (s_shallow s) (s_logs s).
Definition st_with_objs s o := mkStore (s_refs s) o (s_idx s) (s_cfg s) (s_shallow s) (s_logs s).
Definition st_with_idx s i := mkStore (s_refs s) (s_objs s) i (s_cfg s) (s_shallow s) (s_logs s).
Definition st_with_cfg s c := mkStore (s_refs s) (s_objs s) (s_idx s) c (s_shallow s) (s_logs s).
Definition st_with_shallow s l := mkStore (s_refs s) (s_objs s) (s_idx s) (s_cfg s) l (s_logs s).
Definition st_with_logs s l := mkStore (s_refs s) (s_objs s) (s_idx s) (s_cfg s) (s_shallow s) l.

Definition st_okb (s : store) : bool :=
  fm_okb (s_refs s) && fm_okb (s_objs s) && fm_okb (s_logs s)
  && forallb (fun p => match snd p with [] => false | _ => true end) (s_logs s).

(* ---------------------------------------------------------------- API *)
(* object universe: id -> (type, size); types 1 commit 2 tree 3 blob 4 tag,
   0 = AnyObject in queries *)
Definition universe := N -> N * N.

Inductive err := ENotFound | EChanged | EObjNotFound | EInvalidType | EEmptyRefFile | EPackedRefsBad
  | ENotExist          (* DeleteLooseObject: no such loose object file (os.ErrNotExist) *)
  | ENotSupported.     (* DeleteLooseObject on a storer without loose objects (memory) *)

Inductive res :=
| ROk
| RErr (e : err)
| RRef (v : refval)
| RRefs (l : list (N * refval))      (* a listing: order is not specified *)
| RNum (n : N)
| RObj (k t sz : N)
| RIds (l : list N)                  (* a listing of object ids: order not specified *)
| RSeq (l : list N).                 (* an ordered list (shallow commits, reflog entries) *)

Inductive op :=
| OSetRef (n : N) (v : refval)
| OCas (n : N) (v : refval) (on : N) (ov : refval)   (* CheckAndSetReference(ref, old), old <> nil *)
| OGetRef (n : N)
| OIterRefs
| ODelRef (n : N)
| OSetObj (k : N)
| OHasObj (k : N)
| OSizeObj (k : N)
| OGetObj (t k : N)
| OIterObjs (t : N)
| OSetIdx (i : N)
| OGetIdx
| OSetCfg (c : N)
| OGetCfg
| OSetShallow (l : list N)
| OGetShallow
| OAppendLog (n e : N)
| OGetLog (n : N)
| ODelLog (n : N).

Definition typ_match (U : universe) (t k : N) : bool := (t =? 0) || (fst (U k) =? t).
(* SetEncodedObject only takes commits, trees, blobs and tags *)
Definition valid_typ (U : universe) (k : N) : bool := (1 <=? fst (U k)) && (fst (U k) <=? 4).

Definition st_iter_objs (U : universe) (t : N) (s : store) : list N :=
  filter (typ_match U t) (fm_keys (s_objs s)).

Definition st_get_obj (U : universe) (t k : N) (s : store) : res :=
  if fm_has k (s_objs s) && typ_match U t k then RObj k (fst (U k)) (snd (U k))
  else RErr EObjNotFound.

(* the documented contract of CheckAndSetReference: the stored value of
   old.Name() must match old (by hash), otherwise nothing is written *)
Definition st_cas (n : N) (v : refval) (on : N) (ov : refval) (s : store) : store * res :=
  match fm_get on (s_refs s) with
  | None => (s, RErr ENotFound)
  | Some cur =>
    if rv_hash_eqb cur ov then (st_with_refs s (fm_set n v (s_refs s)), ROk)
    else (s, RErr EChanged)
  end.

(* removal of an object id from the set of objects present (what deleting the
   last copy of an object amounts to) *)
Definition st_del_obj (k : N) (s : store) : store := st_with_objs s (fm_del k (s_objs s)).

(* one API call on a plain store *)
Definition st_step (U : universe) (s : store) (o : op) : store * res :=
  match o with
  | OSetRef n v => (st_with_refs s (fm_set n v (s_refs s)), ROk)
  | OCas n v on ov => st_cas n v on ov s
  | OGetRef n =>
    (s, match fm_get n (s_refs s) with Some v => RRef v | None => RErr ENotFound end)
  | OIterRefs => (s, RRefs (s_refs s))
  | ODelRef n => (st_with_refs s (fm_del n (s_refs s)), ROk)
  | OSetObj k =>
    if valid_typ U k then (st_with_objs s (fm_set k tt (s_objs s)), RNum k)
    else (s, RErr EInvalidType)
  | OHasObj k => (s, if fm_has k (s_objs s) then ROk else RErr EObjNotFound)
  | OSizeObj k => (s, if fm_has k (s_objs s) then RNum (snd (U k)) else RErr EObjNotFound)
  | OGetObj t k => (s, st_get_obj U t k s)
  | OIterObjs t => (s, RIds (st_iter_objs U t s))
  | OSetIdx i => (st_with_idx s i, ROk)
  | OGetIdx => (s, RNum (s_idx s))
  | OSetCfg c => (st_with_cfg s c, ROk)
  | OGetCfg => (s, RNum (s_cfg s))
  | OSetShallow l => (st_with_shallow s l, ROk)
  | OGetShallow => (s, RSeq (s_shallow s))
  | OAppendLog n e => (st_with_logs s (fm_set n (lg_get n (s_logs s) ++ [e]) (s_logs s)), ROk)
  | OGetLog n => (s, RSeq (lg_get n (s_logs s)))
  | ODelLog n => (st_with_logs s (fm_del n (s_logs s)), ROk)
  end.

Fixpoint st_run (U : universe) (s : store) (ops : list op) : store * list res :=
  match ops with
  | [] => (s, [])
  | o :: r =>
    let '(s1, x) := st_step U s o in
    let '(s2, xs) := st_run U s1 r in (s2, x :: xs)
  end.

Definition st_init (U : universe) (ops : list op) : store := fst (st_run U st_empty ops).

(* ------------------------------------------- the transaction, abstractly *)
(* S for C19: a transaction is the base plus a view; every write goes to the
   view, every read is answered from the view, the base does not move, and
   Commit makes the base equal to the view. *)
Record spec_txn := mkSpec { sp_base : store; sp_view : store }.

Definition spec_begin (b : store) : spec_txn := mkSpec b b.
Definition spec_step (U : universe) (s : spec_txn) (o : op) : spec_txn * res :=
  let '(v, x) := st_step U (sp_view s) o in (mkSpec (sp_base s) v, x).
Fixpoint spec_run (U : universe) (s : spec_txn) (ops : list op) : spec_txn * list res :=
  match ops with
  | [] => (s, [])
  | o :: r =>
    let '(s1, x) := spec_step U s o in
    let '(s2, xs) := spec_run U s1 r in (s2, x :: xs)
  end.
Definition spec_commit (s : spec_txn) : store := sp_view s.

(* ---------------------------------------------------------------- rendering *)
(* listings are rendered sorted (Go map order is random): insertion sort *)
Fixpoint ins_by {A} (le : A -> A -> bool) (x : A) (l : list A) : list A :=
  match l with
  | [] => [x]
  | y :: r => if le x y then x :: l else y :: ins_by le x r
  end.
Definition isort {A} (le : A -> A -> bool) (l : list A) : list A :=
  fold_right (ins_by le) [] l.

Definition ref_le (a b : N * refval) : bool :=
  (fst a <? fst b) || ((fst a =? fst b) && (rv_code (snd a) <=? rv_code (snd b))).

(* compact observables: printing a Coq string costs about a millisecond per
   character, so every result is one symbol
     ok | e<class> | h<k> / s<n> | L(_<name><h|s><k>)* | n<k> | o<k>_<t>_<sz> | I(_<k>)* | Q(_<k>)*   *)
Definition sN (n : N) : string := dec_of_N n.
Definition s_refval (v : refval) : string :=
  match v with
  | RHash h => String "h"%char (sN h)
  | RSym n => String "s"%char (sN n)
  end.
Definition s_join (l : list string) : string :=
  fold_right (fun x acc => String "_"%char (String.append x acc)) EmptyString l.

Definition s_err (e : err) : string :=
  (match e with
   | ENotFound => "eNF"
   | EChanged => "eCH"
   | EObjNotFound => "eON"
   | EInvalidType => "eIT"
   | EEmptyRefFile => "eEF"
   | EPackedRefsBad => "ePB"
   | ENotExist => "eNE"
   | ENotSupported => "eNS"
   end)%string.

Definition o_res (r : res) : out :=
  OSym (match r with
        | ROk => "ok"%string
        | RErr e => s_err e
        | RRef v => s_refval v
        | RRefs l => String "L"%char (s_join (map (fun p => String.append (sN (fst p)) (s_refval (snd p))) (isort ref_le l)))
        | RNum n => String "n"%char (sN n)
        | RObj k t sz => String "o"%char (String.append (sN k) (String "_"%char (String.append (sN t) (String "_"%char (sN sz)))))
        | RIds l => String "I"%char (s_join (map sN (isort N.leb l)))
        | RSeq l => String "Q"%char (s_join (map sN l))
        end).

Definition o_logs (m : fmap (list N)) : out :=
  OList (map (fun p => OSym (String "G"%char (String.append (sN (fst p)) (s_join (map sN (snd p)))))) m).

Definition o_store (U : universe) (s : store) : out :=
  OList [ o_res (RRefs (s_refs s));
          o_res (RIds (fm_keys (s_objs s)));
          o_res (RNum (s_idx s)); o_res (RNum (s_cfg s));
          o_res (RSeq (s_shallow s));
          o_logs (s_logs s) ].

Definition mkU (l : list (N * N)) : universe := fun k => nth (N.to_nat k) l (0, 0).

(* oracle entry point: what the abstract transaction answers *)
Definition c19_spec_run (u : list (N * N)) (init ops : list op) : out :=
  let U := mkU u in
  let b := st_init U init in
  let '(s, xs) := spec_run U (spec_begin b) ops in
  OList [OList (map o_res xs); o_store U (sp_base s); o_res ROk; o_store U (spec_commit s)].
