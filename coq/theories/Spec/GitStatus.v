(* Spec/GitStatus.v — S for C27: the records of `git status --porcelain=v1
   --untracked-files=all --ignored=no --no-renames` per path, from the same
   flattened state as Model/Status.v.  X compares HEAD with the index
   (intent-to-add entries are invisible there), Y the index with the working
   tree (type changes are 'T'; with core.fileMode=false the executable bit of
   the file is not looked at; content is compared, git's stat shortcut being
   sound on the generated histories), untracked files are separate '??' records.
   Validated against /usr/bin/git on every run. *)
From Coq Require Import List NArith Bool String.
From GoGit Require Import Base.Out Model.Status.
Import ListNotations.
Local Open Scope N_scope.

Definition is_link (m : fmode) : bool := match m with MLink => true | _ => false end.

Definition find_i_visible (s : state) (p : path) : option ientry :=
  match find_i (st_index s) p with
  | Some e => if ie_ita e then None else Some e
  | None => None
  end.

Definition git_x (s : state) (p : path) : code :=
  match find_t (st_head s) p, find_i_visible s p with
  | None, None => CUnmod
  | Some _, None => CDel
  | None, Some _ => CAdd
  | Some a, Some b =>
    if hash_eqb (te_hash a) (ie_hash b) && fmode_eqb (te_mode a) (ie_mode b) then CUnmod
    else if Bool.eqb (is_link (te_mode a)) (is_link (ie_mode b)) then CMod else CType
  end.

Definition git_y (s : state) (p : path) : code :=
  match find_i (st_index s) p with
  | None => CUnmod
  | Some e =>
    match find_w (st_wt s) p with
    | None => CDel
    | Some f =>
      if ie_ita e then CAdd
      else if negb (Bool.eqb (is_link (ie_mode e)) (is_link (wf_mode f))) then CType
      else
        let wm := if st_filemode s then wf_mode f else ie_mode e in
        if negb (fmode_eqb wm (ie_mode e)) then CMod
        else if h_cid (ie_hash e) =? wf_cid f then CUnmod else CMod
    end
  end.

Definition git_untracked (s : state) (p : path) : bool :=
  match find_i (st_index s) p, find_w (st_wt s) p with
  | None, Some f => negb (wf_ignored_git f)
  | _, _ => false
  end.

Definition git_records (s : state) (p : path) : list (path * code * code) :=
  (let x := git_x s p in let y := git_y s p in
   if code_eqb x CUnmod && code_eqb y CUnmod then [] else [(p, x, y)])
  ++ (if git_untracked s p then [(p, CUntracked, CUntracked)] else []).

Definition git_status (s : state) (ps : list path) : list (path * code * code) :=
  flat_map (git_records s) ps.

Definition c27_git_run (s : state) : out :=
  OOk (map out_rec (git_status s (sort_paths (all_paths s)))).
