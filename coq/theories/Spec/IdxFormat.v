(* Spec/IdxFormat.v — S for C08/C10: git's pack index (idx v2) and reverse
   index (rev v1) as functions of the table of (id, offset, crc) entries
   sorted by id — a transcription of gitformat-pack(5), validated against
   `git index-pack` / `git show-index` by the C08 and C10 suites — and the
   plain-map semantics of the index queries. *)
From Coq Require Import List NArith ZArith Bool.
From GoGit Require Import Base.Out Model.PackBytes Model.Idx.
Import ListNotations.
Local Open Scope N_scope.

Definition first_of (e : entry) : N := hd 0 (e_hash e).
Definition is_big (e : entry) : bool := 2147483647 <? e_off e.

(* fanout[k] = number of objects whose first id byte is <= k *)
Definition count_le (tbl : list entry) (k : N) : N :=
  N.of_nat (List.length (filter (fun e => first_of e <=? k) tbl)).
Definition fanout_of (tbl : list entry) : list N := map (fun k => count_le tbl (N.of_nat k)) (seq 0 256).

(* the 32-bit offset table: offsets below 2^31 as they are, the others as
   0x80000000 | index into the 64-bit table (in table order) *)
Fixpoint off32_codes (tbl : list entry) (n64 : N) : list N :=
  match tbl with
  | [] => []
  | e :: r => if is_big e then (n64 + 2147483648) :: off32_codes r (n64 + 1)
              else e_off e :: off32_codes r n64
  end.
Definition big_offsets (tbl : list entry) : list N := map e_off (filter is_big tbl).

Section Format.
Variable H : bytes -> bytes.

Definition idx_body (tbl : list entry) (pack : bytes) : bytes :=
  [255; 116; 79; 99] ++ be32 2 ++ flat_map be32 (fanout_of tbl)
  ++ flat_map e_hash tbl ++ flat_map (fun e => be32 (e_crc e)) tbl
  ++ flat_map be32 (off32_codes tbl 0) ++ flat_map be64 (big_offsets tbl) ++ pack.
Definition idx_file (tbl : list entry) (pack : bytes) : bytes :=
  let b := idx_body tbl pack in b ++ H b.

End Format.

(* ---- the map ---- *)
Definition lookup (tbl : list entry) (h : bytes) : option entry :=
  find (fun e => bytes_eqb (e_hash e) h) tbl.
Definition lookup_off (tbl : list entry) (o : N) : option entry :=
  find (fun e => e_off e =? o) tbl.
Definition with_prefix (tbl : list entry) (p : bytes) : list entry :=
  filter (fun e => has_prefix (e_hash e) p) tbl.
