(* Spec/ObjContent.v — S for C11: a repository as a content-addressed store.
   [presolve] is delta resolution with no cache; [copies] lists every stored
   copy of every id (loose, every pack entry, main store and alternates);
   [content r id] is the first copy — under [store_ok] (each pack has distinct
   offsets, every entry resolves, all copies of an id agree: content
   addressing) it is THE object named id.  The read specification answers from
   [content] alone: no routing, no cache, no hint, no options. *)
From Coq Require Import List NArith Bool.
From GoGit Require Import Base.Out Model.ObjStore.
Import ListNotations.
Local Open Scope N_scope.

Fixpoint presolve (fuel : nat) (p : pack) (e : entry) : option obj :=
  match fuel with
  | O => None
  | S f =>
    match e_kind e with
    | KBase t d => Some (Obj t d)
    | KOfs b delta =>
      match find_entry p b with
      | None => None
      | Some pe =>
        match presolve f p pe with
        | None => None
        | Some po => option_map (Obj (o_type po)) (apply_delta (o_data po) delta)
        end
      end
    | KRef bid delta =>
      match find_off p bid with
      | None => None
      | Some off =>
        match find_entry p off with
        | None => None
        | Some pe =>
          match presolve f p pe with
          | None => None
          | Some po => option_map (Obj (o_type po)) (apply_delta (o_data po) delta)
          end
        end
      end
    end
  end.

Definition pack_copies (p : pack) : list (bytes * option obj) :=
  map (fun e => (e_id e, presolve (S (List.length p)) p e)) p.
Definition store_copies (s : store) : list (bytes * option obj) :=
  map (fun x => (fst x, Some (snd x))) (s_loose s) ++ flat_map pack_copies (s_packs s).
Definition copies (r : repo) : list (bytes * option obj) :=
  store_copies (r_main r) ++ flat_map store_copies (r_alts r).

Fixpoint assoc {A} (l : list (bytes * A)) (id : bytes) : option A :=
  match l with
  | [] => None
  | (i, x) :: r => if bytes_eqb i id then Some x else assoc r id
  end.

Definition content (r : repo) (id : bytes) : option obj :=
  match assoc (copies r) id with Some (Some o) => Some o | _ => None end.

Fixpoint nodup_N (l : list N) : bool :=
  match l with
  | [] => true
  | x :: r => negb (existsb (N.eqb x) r) && nodup_N r
  end.

Definition opt_obj_eqb (a b : option obj) : bool :=
  match a, b with
  | Some x, Some y => obj_eqb x y
  | _, _ => false                      (* an unresolvable copy agrees with nothing *)
  end.

Definition all_packs (r : repo) : list pack := s_packs (r_main r) ++ flat_map s_packs (r_alts r).

Definition store_ok (r : repo) : bool :=
  forallb (fun p => nodup_N (map e_off p)) (all_packs r) &&
  forallb (fun x => forallb (fun y => implb (bytes_eqb (fst x) (fst y)) (opt_obj_eqb (snd x) (snd y))) (copies r)) (copies r).

(* ---- the read specification ---- *)

Definition spec_get (r : repo) (t : option otype) (id : bytes) : rres :=
  match content r id with Some o => typed t o | None => RNotFound end.
Definition spec_has (r : repo) (id : bytes) : bool :=
  match content r id with Some _ => true | None => false end.
