(* Spec/GitTree.v — S for C04: how git 2.39 reads and checks a tree object.
     tree-walk.c   decode_tree_entry / get_mode / update_tree_entry  (git ls-tree)
     cache.h       canon_mode, ce_permissions
     fsck.c        fsck_tree, verify_ordered with the d/f name stack
     utf8.c        pick_one_utf8_char, next_hfs_char, is_hfs_dot_generic
     path.c        is_ntfs_dotgit, is_ntfs_dot_generic (is_ntfs_dotgitmodules)
   Only the messages `git fsck --strict` reports as ERRORS are kept
   (badFilemode and the gitattributes/gitignore/mailmap symlink messages are
   INFO in 2.39 and never fail a check).  Nothing of go-git's detectors is
   reused: only byte-string helpers and the needle constants of the model.
   Validated against /usr/bin/git (ls-tree, fsck --strict) on every run. *)
From Coq Require Import List NArith ZArith Bool String.
From GoGit Require Import Base.Out Model.TreeObj.
Import ListNotations.
Local Open Scope N_scope.

(* ------------------------------------------------------------------ parsing *)
Record rawent := mkR { r_mtext : bytes; r_mode : Z; r_name : bytes; r_oid : bytes }.

(* get_mode: octal digits up to the first SP, `unsigned int` arithmetic; NULL
   on an empty token or a foreign byte *)
Fixpoint get_mode_go (s : bytes) (acc : N) (seen : bytes) : option (bytes * N * bytes) :=
  match s with
  | [] => None
  | c :: r =>
    if c =? 32 then Some (rev seen, acc, r)
    else if is_octal c then get_mode_go r ((8 * acc + (c - 48)) mod 2 ^ 32) (c :: seen)
    else None
  end.
Definition get_mode (s : bytes) : option (bytes * N * bytes) :=
  match s with
  | 32 :: _ => None
  | _ => get_mode_go s 0 []
  end.

Inductive gerr := GTooShort | GBadMode | GEmptyName | GFuel.

(* decode_tree_entry + update_tree_entry over the remaining buffer: the entries
   decoded before the first failure, and that failure *)
Fixpoint git_parse_go (fuel : nat) (hsz : nat) (b : bytes) (acc : list rawent) : option gerr * list rawent :=
  match b with
  | [] => (None, rev acc)
  | _ =>
    match fuel with
    | O => (Some GFuel, rev acc)
    | S f =>
      let size := List.length b in
      if Nat.ltb size (hsz + 3) then (Some GTooShort, rev acc)
      else if negb (nth (size - (hsz + 1)) b 1 =? 0) then (Some GTooShort, rev acc)
      else
        match get_mode b with
        | None => (Some GBadMode, rev acc)
        | Some (mtext, mode, path) =>
          match tcut 0 path with
          | None => (Some GTooShort, rev acc)                (* cannot happen after the NUL test *)
          | Some (name, rest) =>
            match name with
            | [] => (Some GEmptyName, rev acc)
            | _ =>
              if Nat.ltb (List.length rest) hsz then (Some GTooShort, rev acc)
              else git_parse_go f hsz (skipn hsz rest) (mkR mtext (Z.of_N mode) name (firstn hsz rest) :: acc)
            end
          end
        end
    end
  end.
Definition git_parse_partial (hsz : nat) (b : bytes) : option gerr * list rawent :=
  git_parse_go (S (List.length b)) hsz b [].
Definition git_parse (hsz : nat) (b : bytes) : gerr + list rawent :=
  match git_parse_partial hsz b with
  | (Some e, _) => inl e
  | (None, l) => inr l
  end.

(* canon_mode: only the owner-execute bit picks 0755 *)
Definition canon_mode (m : Z) : Z :=
  let fmt := Z.land m 61440 in
  if (fmt =? 32768)%Z then (if (Z.land m 64 =? 0)%Z then 33188 else 33261)%Z
  else if (fmt =? 40960)%Z then 40960%Z
  else if (fmt =? 16384)%Z then 16384%Z
  else 57344%Z.

(* git ls-tree: mode, name, id of every entry, in stored order *)
Definition git_ls_tree (hsz : nat) (b : bytes) : gerr + list tentry :=
  match git_parse hsz b with
  | inl e => inl e
  | inr l => inr (map (fun r => mkT (canon_mode (r_mode r)) (r_name r) (r_oid r)) l)
  end.

(* ------------------------------------------------------------------ utf8.c *)
(* git's tolower on a byte it knows to be ASCII / strncasecmp in the C locale:
   only 'A'..'Z' change *)
Definition c_tolower (c : N) : N := if (65 <=? c) && (c <=? 90) then c + 32 else c.

(* pick_one_utf8_char on NUL-terminated text ([] = the terminating NUL): the
   code point and the bytes consumed, or `invalid` (the cursor is set to NULL).  Shifts
   and ors of disjoint bit fields are written as products and sums. *)
Inductive upick := PEnd | PInvalid | PChar (cp : N) (n : nat).

Definition cont (c : N) : bool := N.land c 192 =? 128.

Definition pick_cp (s : bytes) : upick :=
  match s with
  | [] => PEnd
  | a :: r =>
    if a <? 128 then PChar a 1
    else if N.land a 224 =? 192 then
      match r with
      | b :: _ => if negb (cont b) || (N.land a 254 =? 192) then PInvalid
                  else PChar (N.land a 31 * 64 + N.land b 63) 2
      | [] => PInvalid
      end
    else if N.land a 240 =? 224 then
      match r with
      | b :: c :: _ =>
        if negb (cont b) || negb (cont c) ||
           ((a =? 224) && (N.land b 224 =? 128)) ||            (* overlong *)
           ((a =? 237) && (N.land b 224 =? 160)) ||            (* surrogate *)
           ((a =? 239) && (b =? 191) && (N.land c 254 =? 190)) (* U+FFFE, U+FFFF *)
        then PInvalid
        else PChar (N.land a 15 * 4096 + N.land b 63 * 64 + N.land c 63) 3
      | _ => PInvalid
      end
    else if N.land a 248 =? 240 then
      match r with
      | b :: c :: d :: _ =>
        if negb (cont b) || negb (cont c) || negb (cont d) ||
           ((a =? 240) && (N.land b 240 =? 128)) ||            (* overlong *)
           ((a =? 244) && (143 <? b)) || (244 <? a)            (* > U+10FFFF *)
        then PInvalid
        else PChar (N.land a 7 * 262144 + N.land b 63 * 4096 + N.land c 63 * 64 + N.land d 63) 4
      | _ => PInvalid
      end
    else PInvalid
  end.

(* next_hfs_char: "these code points are ignored completely" *)
Definition hfs_ignored_cp (cp : N) : bool :=
  (cp =? 8204) || (cp =? 8205) || (cp =? 8206) || (cp =? 8207) ||                    (* U+200C..U+200F *)
  (cp =? 8234) || (cp =? 8235) || (cp =? 8236) || (cp =? 8237) || (cp =? 8238) ||    (* U+202A..U+202E *)
  (cp =? 8298) || (cp =? 8299) || (cp =? 8300) || (cp =? 8301) || (cp =? 8302) || (cp =? 8303) ||  (* U+206A..U+206F *)
  (cp =? 65279).                                                                     (* U+FEFF *)

(* the picked character as is_hfs_dot_generic looks at it *)
Inductive uchar := UEnd | UInvalid | UAscii (c : N) | UIgnored | UOther.

Definition pick_utf8 (s : bytes) : uchar * nat :=
  match pick_cp s with
  | PEnd => (UEnd, O)
  | PInvalid => (UInvalid, O)
  | PChar cp n => if hfs_ignored_cp cp then (UIgnored, n) else if cp <? 128 then (UAscii cp, n) else (UOther, n)
  end.

(* well-formed UTF-8 in git's sense: pick_one_utf8_char, iterated over the
   string, never reports an invalid sequence (it rejects stray and missing
   continuation bytes, overlong forms, surrogates, code points above U+10FFFF
   and the non-characters U+FFFE / U+FFFF) *)
Fixpoint wf_utf8_go (fuel : nat) (s : bytes) : bool :=
  match fuel with
  | O => false
  | S f =>
    match pick_cp s with
    | PEnd => true
    | PInvalid => false
    | PChar _ n => wf_utf8_go f (skipn n s)
    end
  end.
Definition wf_utf8 (s : bytes) : bool := wf_utf8_go (S (List.length s)) s.

(* the strings are byte strings *)
Definition is_bytes (s : bytes) : bool := forallb (fun c => c <? 256) s.

(* next_hfs_char: skip ignored code points *)
Fixpoint next_hfs (fuel : nat) (s : bytes) : uchar * bytes :=
  match fuel with
  | O => (UInvalid, s)
  | S f =>
    match pick_utf8 s with
    | (UIgnored, n) => next_hfs f (skipn n s)
    | (u, n) => (u, skipn n s)
    end
  end.

(* is_hfs_dot_generic: '.', the needle (ASCII, case-folded), then end / dir
   separator — and a malformed sequence reads as 0, i.e. as the end *)
Fixpoint hfs_needle_git (s : bytes) (needle : bytes) : bool :=
  match needle with
  | [] =>
    match next_hfs (S (List.length s)) s with
    | (UEnd, _) | (UInvalid, _) => true
    | (UAscii c, _) => (c =? 47) || (c =? 0)
    | _ => false
    end
  | e :: ns =>
    match next_hfs (S (List.length s)) s with
    | (UAscii c, r) => (c_tolower c =? e) && hfs_needle_git r ns
    | _ => false
    end
  end.
Definition git_is_hfs_dot (name needle : bytes) : bool :=
  match next_hfs (S (List.length name)) name with
  | (UAscii c, r) => (c =? 46) && hfs_needle_git r needle
  | _ => false
  end.

(* what the guards of the theorems need: is_hfs_dot_generic gets past its first
   test (the first non-ignored character is '.'), and the name is well-formed
   UTF-8 whenever it does *)
Definition git_hfs_head (name : bytes) : bool :=
  match next_hfs (S (List.length name)) name with
  | (UAscii c, _) => c =? 46
  | _ => false
  end.
Definition utf8_guard (name : bytes) : bool := wf_utf8 name || negb (git_hfs_head name).

(* ------------------------------------------------------------------ path.c *)
(* is_ntfs_dotgit: ".git" or "git~1", then spaces / periods up to the end, a
   directory separator (either kind) or ':' *)
Fixpoint ntfs_tail (s : bytes) : bool :=
  match s with
  | [] => true
  | c :: r => if (c =? 47) || (c =? 92) || (c =? 58) then true
              else if (c =? 46) || (c =? 32) then ntfs_tail r else false
  end.
(* c = *(name++); if (c == '.') { g/G, i/I, t/T or return 0 } else if (c == 'g' || c == 'G')
   { i/I, t/T, '~', '1' or return 0 } else return 0; then the tail loop *)
Definition is_ch (c lo : N) : bool := (c =? lo) || (c =? lo - 32).
Definition git_is_ntfs_dotgit (p : bytes) : bool :=
  match p with
  | [] => false
  | c :: p1 =>
    if c =? 46 then
      match p1 with
      | g :: i :: t :: r => if negb (is_ch g 103) || negb (is_ch i 105) || negb (is_ch t 116) then false else ntfs_tail r
      | _ => false
      end
    else if is_ch c 103 then
      match p1 with
      | i :: t :: d :: e :: r =>
        if negb (is_ch i 105) || negb (is_ch t 116) || negb (d =? 126) || negb (e =? 49) then false else ntfs_tail r
      | _ => false
      end
    else false
  end.

(* is_ntfs_dot_generic(name, dotgit_name, len, dotgit_ntfs_shortname_prefix),
   transcribed over a NUL-terminated C string: name[i] = chr name i *)
Definition chr (s : bytes) (i : nat) : N := nth i s 0.

(* !strncasecmp(a + ia, b + ib, n) *)
Fixpoint strncase_eq (n : nat) (a : bytes) (ia : nat) (b : bytes) (ib : nat) : bool :=
  match n with
  | O => true
  | S n' =>
    let x := c_tolower (chr a ia) in
    let y := c_tolower (chr b ib) in
    if negb (x =? y) then false
    else if x =? 0 then true
    else strncase_eq n' a (S ia) b (S ib)
  end.

(* only_spaces_and_periods: for (;;) { c = name[i++]; if (!c || c == ':') return 1;
   if (c != ' ' && c != '.') return 0; } *)
Fixpoint only_sp_git (fuel : nat) (name : bytes) (i : nat) : bool :=
  match fuel with
  | O => false
  | S f =>
    let c := chr name i in
    if (c =? 0) || (c =? 58) then true
    else if negb (c =? 32) && negb (c =? 46) then false
    else only_sp_git f name (S i)
  end.

(* the fall-back short-name loop: for (i = 0, saw_tilde = 0; i < 8; i++) ...;
   goto only_spaces_and_periods *)
Fixpoint short_loop_git (fuel : nat) (name short : bytes) (i : nat) (saw_tilde : bool) : bool :=
  match fuel with
  | O => false
  | S f =>
    if Nat.leb 8 i then only_sp_git (S (List.length name)) name i
    else
      let c := chr name i in
      if c =? 0 then false
      else if saw_tilde then
        (if (c <? 48) || (57 <? c) then false else short_loop_git f name short (S i) true)
      else if c =? 126 then
        (let d := chr name (S i) in                     (* name[++i] *)
         if (d <? 49) || (57 <? d) then false else short_loop_git f name short (S (S i)) true)
      else if Nat.leb 6 i then false
      else if negb (N.land c 128 =? 0) then false
      else if negb (c_tolower c =? chr short i) then false
      else short_loop_git f name short (S i) false
  end.

Definition git_is_ntfs_dot_generic (name dotgit short : bytes) : bool :=
  let len := List.length dotgit in
  if (chr name 0 =? 46) && strncase_eq len name 1 dotgit 0 then
    only_sp_git (S (List.length name)) name (len + 1)
  else if strncase_eq 6 name 0 dotgit 0 && (chr name 6 =? 126) && (49 <=? chr name 7) && (chr name 7 <=? 52) then
    only_sp_git (S (List.length name)) name 8
  else short_loop_git 9 name short 0 false.

(* the suffixes that follow each backslash *)
Fixpoint after_backslashes (s : bytes) : list bytes :=
  match s with
  | [] => []
  | c :: r => (if c =? 92 then [r] else []) ++ after_backslashes r
  end.

Definition git_has_dotgit (name : bytes) : bool :=
  git_is_hfs_dot name N_git || git_is_ntfs_dotgit name || existsb git_is_ntfs_dotgit (after_backslashes name).

(* is_hfs_dotgitmodules || is_ntfs_dotgitmodules, the latter also on every
   suffix that follows a backslash *)
Definition git_is_ntfs_dotgitmodules (name : bytes) : bool := git_is_ntfs_dot_generic name N_gitmodules S_gi7eba.
Definition git_is_dotgitmodules (name : bytes) : bool :=
  git_is_hfs_dot name N_gitmodules || git_is_ntfs_dotgitmodules name ||
  existsb git_is_ntfs_dotgitmodules (after_backslashes name).

(* ------------------------------------------------------------------ verify_ordered *)
Inductive ord := Ordered | Unordered | HasDups.

Definition is_dir_mode (m : Z) : bool := (Z.land m 61440 =? 16384)%Z.
Definition lt_slash (c : N) : bool := (0 <? c) && (c <? 47).

(* memcmp of the common prefix, then the two next bytes (0 at the end) *)
Fixpoint cmp_names (a b : bytes) : comparison * N * N :=
  match a, b with
  | x :: a', y :: b' => if x =? y then cmp_names a' b' else (if x <? y then Lt else Gt, x, y)
  | [], [] => (Eq, 0, 0)
  | [], y :: _ => (Eq, 0, y)
  | x :: _, [] => (Eq, x, 0)
  end.

Fixpoint skip_prefix (s p : bytes) : option bytes :=
  match p, s with
  | [], _ => Some s
  | y :: p', x :: s' => if x =? y then skip_prefix s' p' else None
  | _ :: _, [] => None
  end.

(* the pop loop against directory candidate name2; returns (dup found, stack) *)
Fixpoint pop_loop (name2 : bytes) (stack : list bytes) : bool * list bytes :=
  match stack with
  | [] => (false, [])
  | f :: rest =>
    match skip_prefix name2 f with
    | None => pop_loop name2 rest
    | Some [] => (true, rest)
    | Some (c :: _) => if lt_slash c then (false, f :: rest) else pop_loop name2 rest
    end
  end.

Definition verify_ordered (m1 : Z) (n1 : bytes) (m2 : Z) (n2 : bytes) (stack : list bytes) : ord * list bytes :=
  match cmp_names n1 n2 with
  | (Lt, _, _) => (Ordered, stack)
  | (Gt, _, _) => (Unordered, stack)
  | (Eq, c1, c2) =>
    if (c1 =? 0) && (c2 =? 0) then (HasDups, stack)
    else
      let c1' := if (c1 =? 0) && is_dir_mode m1 then 47 else c1 in
      let c2' := if (c2 =? 0) && is_dir_mode m2 then 47 else c2 in
      let res := if c1' <? c2' then Ordered else Unordered in
      if (c1' =? 0) && lt_slash c2' then (res, n1 :: stack)
      else if (c2' =? 47) && lt_slash c1' then
        let '(dup, st) := pop_loop n2 stack in ((if dup then HasDups else res), st)
      else (res, stack)
  end.

(* ------------------------------------------------------------------ fsck_tree *)
Inductive fmsg := MBadTree | MNullSha1 | MFullPathname | MHasDot | MHasDotdot | MHasDotgit | MZeroPadded
                | MDuplicateEntries | MTreeNotSorted | MGitmodulesSymlink.

Fixpoint order_flags (prev : option (Z * bytes)) (es : list rawent) (stack : list bytes) (uns dup : bool) : bool * bool :=
  match es with
  | [] => (uns, dup)
  | e :: r =>
    match prev with
    | None => order_flags (Some (r_mode e, r_name e)) r stack uns dup
    | Some (m1, n1) =>
      let '(o, st) := verify_ordered m1 n1 (r_mode e) (r_name e) stack in
      order_flags (Some (r_mode e, r_name e)) r st
                  (uns || match o with Unordered => true | _ => false end)
                  (dup || match o with HasDups => true | _ => false end)
    end
  end.

(* es: the entries whose names, ids and mode texts are inspected; ord: the ones
   that also reach the ordering / duplicate check (all of them when the tree
   parses; all but the last decoded one when the NEXT entry fails to decode,
   because fsck_tree advances the cursor before it compares) *)
Definition fsck_with (es ord : list rawent) : list fmsg :=
  let any (p : rawent -> bool) := existsb p es in
  let '(uns, dup) := order_flags None ord [] false false in
  (if any (fun e => is_zero_hash (r_oid e)) then [MNullSha1] else []) ++
  (if any (fun e => existsb (fun c => c =? 47) (r_name e)) then [MFullPathname] else []) ++
  (if any (fun e => beq (r_name e) [46]) then [MHasDot] else []) ++
  (if any (fun e => beq (r_name e) [46; 46]) then [MHasDotdot] else []) ++
  (if any (fun e => git_has_dotgit (r_name e)) then [MHasDotgit] else []) ++
  (if any (fun e => match r_mtext e with c :: _ => c =? 48 | [] => false end) then [MZeroPadded] else []) ++
  (if dup then [MDuplicateEntries] else []) ++
  (if uns then [MTreeNotSorted] else []) ++
  (if any (fun e => (Z.land (r_mode e) 61440 =? 40960)%Z && git_is_dotgitmodules (r_name e)) then [MGitmodulesSymlink] else []).
Definition fsck_entries (es : list rawent) : list fmsg := fsck_with es es.

(* the error-level messages of `git fsck --strict` for a tree object *)
Definition git_fsck_tree (hsz : nat) (b : bytes) : list fmsg :=
  match git_parse_partial hsz b with
  | (Some _, es) => MBadTree :: fsck_with es (removelast es)
  | (None, es) => fsck_entries es
  end.

(* ------------------------------------------------------------------ observables *)
Definition fmsg_name (m : fmsg) : string :=
  match m with
  | MBadTree => "badTree" | MNullSha1 => "nullSha1" | MFullPathname => "fullPathname" | MHasDot => "hasDot"
  | MHasDotdot => "hasDotdot" | MHasDotgit => "hasDotgit" | MZeroPadded => "zeroPaddedFilemode"
  | MDuplicateEntries => "duplicateEntries" | MTreeNotSorted => "treeNotSorted" | MGitmodulesSymlink => "gitmodulesSymlink"
  end.

Definition c04_git_ls (hsz : nat) (raw : string) : out :=
  match git_ls_tree hsz (unhex raw) with
  | inr es => OOk (map tentry_out es)
  | inl _ => OErr "malformed"
  end.
Definition c04_git_fsck (hsz : nat) (raw : string) : out :=
  OList (map (fun m => OSym (fmsg_name m)) (git_fsck_tree hsz (unhex raw))).
