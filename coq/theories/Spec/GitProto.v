(* Spec/GitProto.v — S for C35: the pkt-level grammars of git's protocol
   documents (Documentation/gitprotocol-pack, gitprotocol-v2; pack-protocol.txt and
   protocol-v2.txt in 2.39), written as parsers over packet lists.  Each
   git_<msg> accepts exactly the documented shape of one message and returns
   what the peer learns from it.  Where git 2.39.5 was observed to accept more
   than the documents say (any order of the request lines of an upload-request,
   trailing bytes after an object id, C number syntax), S keeps the documented
   form: S is a sub-language of what git accepts, and the correspondence with
   the git binary (props/C35.py, suite "git") checks on every run that git
   accepts what S accepts with the same meaning and rejects the malformed
   inputs S rejects.
   hexsz is the hex length of the repository's object format (40 / 64).
   Executable definitions only; nothing here refers to go-git's decoders. *)
From Coq Require Import List NArith ZArith Bool String.
From GoGit Require Import Base.Out Model.PktLine Model.Packp.
Import ListNotations.

Definition ishex (c : N) : bool :=
  (N.leb 48 c && N.leb c 57) || (N.leb 97 c && N.leb c 102) || (N.leb 65 c && N.leb c 70).

(* obj-id = hexsz HEXDIG, nothing else *)
Definition git_oid (hexsz : nat) (s : bytes) : option hash :=
  if Nat.eqb (List.length s) hexsz && forallb ishex s then Some (new_hash s) else None.

(* the payload of PKT-LINE(x LF) or PKT-LINE(x): packet_read with CHOMP_NEWLINE *)
Definition chomp (p : bytes) : bytes := trim_suffix [NL] p.

Definition isdigit (c : N) : bool := N.leb 48 c && N.leb c 57.
(* 1*DIGIT *)
Definition git_number (s : bytes) : option Z :=
  match s with
  | [] => None
  | _ => if forallb isdigit s then parse_dec_go s 0%Z else None
  end.

(* PKT-LINE(<kw> SP obj-id) *)
Definition kw_oid (hexsz : nat) (kw : string) (line : bytes) : option hash :=
  if has_prefix (B kw ++ [SP]) line then git_oid hexsz (skipn (List.length (B kw) + 1) line) else None.

(* obj-id SP rest *)
Definition oid_sp (hexsz : nat) (line : bytes) : option (hash * bytes) :=
  match git_oid hexsz (firstn hexsz line), skipn hexsz line with
  | Some h, c :: rest => if N.eqb c SP then Some (h, rest) else None
  | _, _ => None
  end.

(* capability-list = capability *(SP capability): the tokens *)
Definition cap_words (s : bytes) : list bytes := filter (fun w => negb (Nat.eqb (List.length w) 0)) (split_on SP s).

(* ================= protocol v0 / v1 ================= *)

(* ---------- advertised-refs (what a fetching / pushing client reads) ----------
   advertised-refs = *1("version 1") (no-refs / list-of-refs) *shallow flush-pkt
   no-refs         = PKT-LINE(zero-id SP "capabilities^{}" NUL capability-list)
   first-ref       = PKT-LINE(obj-id SP refname NUL capability-list)
   other-ref       = PKT-LINE(obj-id SP refname)        shallow = PKT-LINE("shallow" SP obj-id) *)
Record gadv := mkgadv { ga_caps : list bytes; ga_refs : list (bytes * hash); ga_shallows : list hash }.

Fixpoint git_adv_shallows (hexsz : nat) (ps : list pkt) (acc : list hash) : option (list hash) :=
  match ps with
  | [PFlush] => Some acc
  | PData p :: r =>
    match kw_oid hexsz "shallow" (chomp p) with
    | Some h => git_adv_shallows hexsz r (acc ++ [h])
    | None => None
    end
  | _ => None
  end.

Fixpoint git_adv_refs (hexsz : nat) (ps : list pkt) (acc : list (bytes * hash)) : option (list (bytes * hash) * list hash) :=
  match ps with
  | [PFlush] => Some (acc, [])
  | PData p :: r =>
    match oid_sp hexsz (chomp p) with
    | Some (h, name) =>
      match name with
      | [] => None
      | _ => if beq name (B "capabilities^{}") then None else git_adv_refs hexsz r (acc ++ [(name, h)])
      end
    | None =>
      match git_adv_shallows hexsz ps [] with
      | Some sh => Some (acc, sh)
      | None => None
      end
    end
  | _ => None
  end.

Definition git_advrefs (hexsz : nat) (ps : list pkt) : option gadv :=
  let ps := match ps with
            | PData p :: r => if beq (chomp p) (B "version 1") then r else ps
            | _ => ps
            end in
  match ps with
  | PData p :: r =>
    match cut NUL p with
    | None => None
    | Some (line, capstr) =>
      match oid_sp hexsz line with
      | None => None
      | Some (h, name) =>
        let caps := cap_words (chomp capstr) in
        if beq name (B "capabilities^{}") then
          (if hash_is_zero h then
             match git_adv_refs hexsz r [] with
             | Some ([], sh) => Some (mkgadv caps [] sh)
             | _ => None
             end
           else None)
        else match name with
        | [] => None
        | _ => match git_adv_refs hexsz r [(name, h)] with
               | Some (refs, sh) => Some (mkgadv caps refs sh)
               | None => None
               end
        end
      end
    end
  | _ => None
  end.

(* ---------- upload-request (what upload-pack reads) ----------
   upload-request = want-list *shallow-line *depth-request [filter-request] flush-pkt
   first-want = PKT-LINE("want" SP obj-id SP capability-list)   additional-want = PKT-LINE("want" SP obj-id)
   depth-request = "deepen" SP 1*DIGIT / "deepen-since" SP timestamp / "deepen-not" SP ref
   (deepen excludes deepen-since and deepen-not; depth and timestamp are positive) *)
Record gulreq := mkgulreq { gu_caps : list bytes; gu_wants : list hash; gu_shallows : list hash;
                            gu_deepen : option Z; gu_since : option Z; gu_not : list bytes; gu_filter : option bytes }.

(* phase: 0 want-list, 1 shallow lines, 2 depth requests, 3 after the filter *)
Fixpoint git_ul_lines (hexsz : nat) (ps : list pkt) (phase : nat) (u : gulreq) : option gulreq :=
  match ps with
  | [PFlush] => Some u
  | PData p :: r =>
    let line := chomp p in
    if has_prefix (B "want ") line then
      if Nat.ltb 0 phase then None
      else match git_oid hexsz (skipn 5 line) with
      | Some h => git_ul_lines hexsz r 0 (mkgulreq (gu_caps u) (gu_wants u ++ [h]) (gu_shallows u) (gu_deepen u) (gu_since u) (gu_not u) (gu_filter u))
      | None => None
      end
    else if has_prefix (B "shallow ") line then
      if Nat.ltb 1 phase then None
      else match git_oid hexsz (skipn 8 line) with
      | Some h => git_ul_lines hexsz r 1 (mkgulreq (gu_caps u) (gu_wants u) (gu_shallows u ++ [h]) (gu_deepen u) (gu_since u) (gu_not u) (gu_filter u))
      | None => None
      end
    else if has_prefix (B "deepen ") line then
      if Nat.ltb 2 phase then None
      else match git_number (skipn 7 line), gu_deepen u, gu_since u, gu_not u with
      | Some n, None, None, [] =>
        if (0 <? n)%Z && (n <? 2 ^ 31)%Z
        then git_ul_lines hexsz r 2 (mkgulreq (gu_caps u) (gu_wants u) (gu_shallows u) (Some n) None [] (gu_filter u))
        else None
      | _, _, _, _ => None
      end
    else if has_prefix (B "deepen-since ") line then
      if Nat.ltb 2 phase then None
      else match git_number (skipn 13 line), gu_deepen u, gu_since u with
      | Some t, None, None =>
        if (0 <? t)%Z && (t <? 2 ^ 63)%Z
        then git_ul_lines hexsz r 2 (mkgulreq (gu_caps u) (gu_wants u) (gu_shallows u) None (Some t) (gu_not u) (gu_filter u))
        else None
      | _, _, _ => None
      end
    else if has_prefix (B "deepen-not ") line then
      if Nat.ltb 2 phase then None
      else match skipn 11 line, gu_deepen u with
      | c :: ref, None => git_ul_lines hexsz r 2 (mkgulreq (gu_caps u) (gu_wants u) (gu_shallows u) None (gu_since u) (gu_not u ++ [c :: ref]) (gu_filter u))
      | _, _ => None
      end
    else if has_prefix (B "filter ") line then
      if Nat.ltb 2 phase then None
      else match skipn 7 line with
      | c :: spec => git_ul_lines hexsz r 3 (mkgulreq (gu_caps u) (gu_wants u) (gu_shallows u) (gu_deepen u) (gu_since u) (gu_not u) (Some (c :: spec)))
      | [] => None
      end
    else None
  | _ => None
  end.

Definition git_ulreq (hexsz : nat) (ps : list pkt) : option gulreq :=
  match ps with
  | PData p :: r =>
    let line := chomp p in
    if has_prefix (B "want ") line then
      match git_oid hexsz (firstn hexsz (skipn 5 line)), skipn (5 + hexsz) line with
      | Some h, [] => git_ul_lines hexsz r 0 (mkgulreq [] [h] [] None None [] None)
      | Some h, c :: capstr =>
        if N.eqb c SP then git_ul_lines hexsz r 0 (mkgulreq (cap_words capstr) [h] [] None None [] None) else None
      | None, _ => None
      end
    else None
  | _ => None
  end.

(* upload-haves: *PKT-LINE("have" SP obj-id) (flush-pkt / PKT-LINE("done")) -> (haves, done) *)
Fixpoint git_haves (hexsz : nat) (ps : list pkt) (acc : list hash) : option (list hash * bool) :=
  match ps with
  | [PFlush] => Some (acc, false)
  | [PData p] => if beq (chomp p) (B "done") then Some (acc, true) else None
  | PData p :: r =>
    match kw_oid hexsz "have" (chomp p) with
    | Some h => git_haves hexsz r (acc ++ [h])
    | None => None
    end
  | _ => None
  end.

(* ---------- server-response (what fetch-pack reads) ----------
   ack_multi = PKT-LINE("ACK" SP obj-id SP ("continue" / "common" / "ready"))
   ack = PKT-LINE("ACK" SP obj-id)   nak = PKT-LINE("NAK")
   -> the acknowledged ids with their status (0 plain, 1 continue, 2 common, 3 ready) *)
Definition git_ack_status (s : bytes) : option N :=
  if beq s (B "continue") then Some 1%N else if beq s (B "common") then Some 2%N
  else if beq s (B "ready") then Some 3%N else None.

Fixpoint git_srvresp (hexsz : nat) (ps : list pkt) (acc : list (hash * N)) : option (list (hash * N)) :=
  match ps with
  | [] => Some acc
  | PData p :: r =>
    let line := chomp p in
    if beq line (B "NAK") then (match r with [] => Some acc | _ => None end)
    else if has_prefix (B "ACK ") line then
      match git_oid hexsz (firstn hexsz (skipn 4 line)), skipn (4 + hexsz) line with
      | Some h, [] => (match r with [] => Some (acc ++ [(h, 0%N)]) | _ => None end)
      | Some h, c :: st =>
        if N.eqb c SP then
          match git_ack_status st with
          | Some s => git_srvresp hexsz r (acc ++ [(h, s)])
          | None => None
          end
        else None
      | None, _ => None
      end
    else None
  | _ => None
  end.

(* ---------- shallow-update = *shallow-line *unshallow-line flush-pkt ---------- *)
Fixpoint git_shupd (hexsz : nat) (ps : list pkt) (un : bool) (sh uns : list hash) : option (list hash * list hash) :=
  match ps with
  | [PFlush] => Some (sh, uns)
  | PData p :: r =>
    let line := chomp p in
    match kw_oid hexsz "shallow" line with
    | Some h => if un then None else git_shupd hexsz r false (sh ++ [h]) uns
    | None =>
      match kw_oid hexsz "unshallow" line with
      | Some h => git_shupd hexsz r true sh (uns ++ [h])
      | None => None
      end
    end
  | _ => None
  end.

(* ---------- update-requests (what receive-pack reads) ----------
   update-requests = *shallow command-list ; command-list = PKT-LINE(command NUL capability-list) *PKT-LINE(command) flush-pkt
   command = old-id SP new-id SP name *)
Definition git_command (hexsz : nat) (line : bytes) : option (bytes * hash * hash) :=
  match oid_sp hexsz line with
  | Some (o, rest) =>
    match oid_sp hexsz rest with
    | Some (n, name) => match name with [] => None | _ => Some (name, o, n) end
    | None => None
    end
  | None => None
  end.

Fixpoint git_cmds (hexsz : nat) (ps : list pkt) (acc : list (bytes * hash * hash)) : option (list (bytes * hash * hash)) :=
  match ps with
  | [PFlush] => Some acc
  | PData p :: r =>
    match git_command hexsz (chomp p) with
    | Some c => git_cmds hexsz r (acc ++ [c])
    | None => None
    end
  | _ => None
  end.

Record gupdreq := mkgupdreq { gr_caps : list bytes; gr_cmds : list (bytes * hash * hash); gr_shallows : list hash }.

Fixpoint git_updreq_go (hexsz : nat) (ps : list pkt) (sh : list hash) : option gupdreq :=
  match ps with
  | PData p :: r =>
    match kw_oid hexsz "shallow" (chomp p) with
    | Some h => git_updreq_go hexsz r (sh ++ [h])
    | None =>
      match cut NUL p with
      | None => None
      | Some (cmd, capstr) =>
        match git_command hexsz cmd, git_cmds hexsz r [] with
        | Some c, Some cs => Some (mkgupdreq (cap_words (chomp capstr)) (c :: cs) sh)
        | _, _ => None
        end
      end
    end
  | _ => None
  end.
Definition git_updreq (hexsz : nat) (ps : list pkt) : option gupdreq := git_updreq_go hexsz ps [].

(* ---------- report-status (what send-pack reads) ----------
   report-status = PKT-LINE("unpack" SP unpack-result) 1*(command-status) flush-pkt
   command-ok = PKT-LINE("ok" SP refname)   command-fail = PKT-LINE("ng" SP refname SP error-msg) *)
Fixpoint git_statuses (ps : list pkt) (acc : list (bytes * bytes)) : option (list (bytes * bytes)) :=
  match ps with
  | [PFlush] => Some acc
  | PData p :: r =>
    let line := chomp p in
    if has_prefix (B "ok ") line then
      match skipn 3 line with
      | [] => None
      | name => if existsb (N.eqb SP) name then None else git_statuses r (acc ++ [(name, B "ok")])
      end
    else if has_prefix (B "ng ") line then
      match cut SP (skipn 3 line) with
      | Some (c :: name, msg) => git_statuses r (acc ++ [(c :: name, msg)])
      | _ => None
      end
    else None
  | _ => None
  end.

Definition git_report (ps : list pkt) : option (bytes * list (bytes * bytes)) :=
  match ps with
  | PData p :: r =>
    let line := chomp p in
    if has_prefix (B "unpack ") line then
      match git_statuses r [] with
      | Some cs => Some (skipn 7 line, cs)
      | None => None
      end
    else None
  | _ => None
  end.

(* ---------- push-options = *PKT-LINE(push-option) flush-pkt ---------- *)
Fixpoint git_pushopts (ps : list pkt) (acc : list bytes) : option (list bytes) :=
  match ps with
  | [PFlush] => Some acc
  | PData p :: r => git_pushopts r (acc ++ [chomp p])
  | _ => None
  end.

(* ================= protocol v2 ================= *)

(* capability = PKT-LINE(key[=value] LF) -> (key, value) *)
Definition git_cap2 (line : bytes) : option (bytes * option bytes) :=
  match line with
  | [] => None
  | _ => match cut 61 line with
         | Some ([], _) => None
         | Some (k, v) => Some (k, Some v)
         | None => Some (line, None)
         end
  end.

Fixpoint git_caps2 (ps : list pkt) (acc : list (bytes * option bytes)) : option (list (bytes * option bytes) * list pkt) :=
  match ps with
  | PData p :: r =>
    match git_cap2 (chomp p) with
    | Some c => git_caps2 r (acc ++ [c])
    | None => None
    end
  | _ => Some (acc, ps)
  end.

(* capability-advertisement = PKT-LINE("version 2" LF) *capability flush-pkt *)
Definition git_capadv (ps : list pkt) : option (list (bytes * option bytes)) :=
  match ps with
  | PData p :: r =>
    if beq (chomp p) (B "version 2") then
      match git_caps2 r [] with
      | Some (caps, [PFlush]) => Some caps
      | _ => None
      end
    else None
  | _ => None
  end.

(* ls-refs arguments: peel / symrefs / unborn / ref-prefix <prefix>, in any order *)
Record glsargs := mkglsargs { gl_peel : bool; gl_symrefs : bool; gl_unborn : bool; gl_prefixes : list bytes }.

Fixpoint git_lsargs (ps : list pkt) (a : glsargs) : option glsargs :=
  match ps with
  | [PFlush] => Some a
  | PData p :: r =>
    let line := chomp p in
    if beq line (B "peel") then git_lsargs r (mkglsargs true (gl_symrefs a) (gl_unborn a) (gl_prefixes a))
    else if beq line (B "symrefs") then git_lsargs r (mkglsargs (gl_peel a) true (gl_unborn a) (gl_prefixes a))
    else if beq line (B "unborn") then git_lsargs r (mkglsargs (gl_peel a) (gl_symrefs a) true (gl_prefixes a))
    else if has_prefix (B "ref-prefix ") line then
      match skipn 11 line with
      | [] => None
      | pre => git_lsargs r (mkglsargs (gl_peel a) (gl_symrefs a) (gl_unborn a) (gl_prefixes a ++ [pre]))
      end
    else None
  | _ => None
  end.

(* fetch arguments (gitprotocol-v2, "fetch"), in any order *)
Record gfetchargs := mkgfetchargs {
  gf_wants : list hash; gf_haves : list hash; gf_shallows : list hash;
  gf_flags : list bytes;                       (* done thin-pack no-progress include-tag ofs-delta deepen-relative wait-for-done, as sent *)
  gf_deepen : option Z; gf_since : option Z; gf_not : list bytes; gf_filter : option bytes }.

Definition fetch_flag (line : bytes) : bool :=
  beq line (B "done") || beq line (B "thin-pack") || beq line (B "no-progress") || beq line (B "include-tag") ||
  beq line (B "ofs-delta") || beq line (B "deepen-relative") || beq line (B "wait-for-done").

Fixpoint git_fetchargs (hexsz : nat) (ps : list pkt) (a : gfetchargs) : option gfetchargs :=
  match ps with
  | [PFlush] => Some a
  | PData p :: r =>
    let line := chomp p in
    if fetch_flag line then
      git_fetchargs hexsz r (mkgfetchargs (gf_wants a) (gf_haves a) (gf_shallows a) (gf_flags a ++ [line]) (gf_deepen a) (gf_since a) (gf_not a) (gf_filter a))
    else if has_prefix (B "want ") line then
      match git_oid hexsz (skipn 5 line) with
      | Some h => git_fetchargs hexsz r (mkgfetchargs (gf_wants a ++ [h]) (gf_haves a) (gf_shallows a) (gf_flags a) (gf_deepen a) (gf_since a) (gf_not a) (gf_filter a))
      | None => None
      end
    else if has_prefix (B "have ") line then
      match git_oid hexsz (skipn 5 line) with
      | Some h => git_fetchargs hexsz r (mkgfetchargs (gf_wants a) (gf_haves a ++ [h]) (gf_shallows a) (gf_flags a) (gf_deepen a) (gf_since a) (gf_not a) (gf_filter a))
      | None => None
      end
    else if has_prefix (B "shallow ") line then
      match git_oid hexsz (skipn 8 line) with
      | Some h => git_fetchargs hexsz r (mkgfetchargs (gf_wants a) (gf_haves a) (gf_shallows a ++ [h]) (gf_flags a) (gf_deepen a) (gf_since a) (gf_not a) (gf_filter a))
      | None => None
      end
    else if has_prefix (B "deepen ") line then
      match git_number (skipn 7 line) with
      | Some n => if (0 <? n)%Z && (n <? 2 ^ 31)%Z
                  then git_fetchargs hexsz r (mkgfetchargs (gf_wants a) (gf_haves a) (gf_shallows a) (gf_flags a) (Some n) (gf_since a) (gf_not a) (gf_filter a))
                  else None
      | None => None
      end
    else if has_prefix (B "deepen-since ") line then
      match git_number (skipn 13 line) with
      | Some t => if (0 <? t)%Z && (t <? 2 ^ 63)%Z
                  then git_fetchargs hexsz r (mkgfetchargs (gf_wants a) (gf_haves a) (gf_shallows a) (gf_flags a) (gf_deepen a) (Some t) (gf_not a) (gf_filter a))
                  else None
      | None => None
      end
    else if has_prefix (B "deepen-not ") line then
      match skipn 11 line with
      | [] => None
      | ref => git_fetchargs hexsz r (mkgfetchargs (gf_wants a) (gf_haves a) (gf_shallows a) (gf_flags a) (gf_deepen a) (gf_since a) (gf_not a ++ [ref]) (gf_filter a))
      end
    else if has_prefix (B "filter ") line then
      match skipn 7 line with
      | [] => None
      | spec => git_fetchargs hexsz r (mkgfetchargs (gf_wants a) (gf_haves a) (gf_shallows a) (gf_flags a) (gf_deepen a) (gf_since a) (gf_not a) (Some spec))
      end
    else None
  | _ => None
  end.

(* request = flush-pkt | PKT-LINE("command=" key LF) *capability delim-pkt *command-specific-arg flush-pkt
   -> (command, capabilities, the argument packets up to and including the flush) *)
Definition git_cmdreq (ps : list pkt) : option (option (bytes * list (bytes * option bytes) * list pkt)) :=
  match ps with
  | [PFlush] => Some None
  | PData p :: r =>
    let line := chomp p in
    if has_prefix (B "command=") line then
      match skipn 8 line with
      | [] => None
      | cmd =>
        match git_caps2 r [] with
        | Some (caps, PDelim :: args) => Some (Some (cmd, caps, args))
        | _ => None
        end
      end
    else None
  | _ => None
  end.

(* ls-refs output: *PKT-LINE(obj-id-or-unborn SP refname *(SP ref-attribute) LF) flush-pkt
   ref-attribute = "symref-target:" symref-target / "peeled:" obj-id
   -> (name, oid (None = unborn), symref target, peeled oid) *)
Definition glsref := (bytes * option hash * option bytes * option hash)%type.

Fixpoint git_ref_attrs (hexsz : nat) (attrs : list bytes) (sym : option bytes) (peeled : option hash) : option (option bytes * option hash) :=
  match attrs with
  | [] => Some (sym, peeled)
  | a :: r =>
    if has_prefix (B "symref-target:") a then git_ref_attrs hexsz r (Some (skipn 14 a)) peeled
    else if has_prefix (B "peeled:") a then
      match git_oid hexsz (skipn 7 a) with
      | Some h => git_ref_attrs hexsz r sym (Some h)
      | None => None
      end
    else None
  end.

Definition git_lsref (hexsz : nat) (line : bytes) : option glsref :=
  match split_on SP line with
  | oid :: name :: attrs =>
    match name with
    | [] => None
    | _ =>
      match git_ref_attrs hexsz attrs None None with
      | None => None
      | Some (sym, peeled) =>
        if beq oid (B "unborn") then Some (name, None, sym, peeled)
        else match git_oid hexsz oid with
             | Some h => Some (name, Some h, sym, peeled)
             | None => None
             end
      end
    end
  | _ => None
  end.

Fixpoint git_lsout (hexsz : nat) (ps : list pkt) (acc : list glsref) : option (list glsref) :=
  match ps with
  | [PFlush] => Some acc
  | PData p :: r =>
    match git_lsref hexsz (chomp p) with
    | Some x => git_lsout hexsz r (acc ++ [x])
    | None => None
    end
  | _ => None
  end.

(* fetch output up to the packfile data:
   output = acknowledgments flush-pkt |
            [acknowledgments delim-pkt] [shallow-info delim-pkt] [wanted-refs delim-pkt] [packfile-uris delim-pkt] PKT-LINE("packfile" LF)
   acknowledgments = PKT-LINE("acknowledgments" LF) (nak | *ack) [ready]; ready only before a delim-pkt, and always there *)
Record gfetchout := mkgfetchout { go_acks : option (list hash * bool); go_shallow : option (list hash * list hash);
                                  go_wanted : option (list (bytes * hash)); go_uris : option (list bytes); go_packfile : bool }.

(* the body of a section up to its terminator: (lines, terminator, rest) *)
Fixpoint section_body (ps : list pkt) (acc : list bytes) : option (list bytes * pkt * list pkt) :=
  match ps with
  | PData p :: r => section_body r (acc ++ [chomp p])
  | PFlush :: r => Some (acc, PFlush, r)
  | PDelim :: r => Some (acc, PDelim, r)
  | _ => None
  end.

Fixpoint git_acks (hexsz : nat) (ls : list bytes) (acc : list hash) : option (list hash * bool) :=
  match ls with
  | [] => Some (acc, false)
  | [l] => if beq l (B "ready") then Some (acc, true)
           else if beq l (B "NAK") then (match acc with [] => Some ([], false) | _ => None end)
           else match kw_oid hexsz "ACK" l with Some h => Some (acc ++ [h], false) | None => None end
  | l :: r =>
    if beq l (B "NAK") then (match acc, r with [], [l2] => if beq l2 (B "ready") then Some ([], true) else None | _, _ => None end)
    else match kw_oid hexsz "ACK" l with Some h => git_acks hexsz r (acc ++ [h]) | None => None end
  end.

Fixpoint git_shinfo (hexsz : nat) (ls : list bytes) (sh uns : list hash) : option (list hash * list hash) :=
  match ls with
  | [] => Some (sh, uns)
  | l :: r =>
    match kw_oid hexsz "shallow" l with
    | Some h => git_shinfo hexsz r (sh ++ [h]) uns
    | None => match kw_oid hexsz "unshallow" l with
              | Some h => git_shinfo hexsz r sh (uns ++ [h])
              | None => None
              end
    end
  end.

Fixpoint git_wanted (hexsz : nat) (ls : list bytes) (acc : list (bytes * hash)) : option (list (bytes * hash)) :=
  match ls with
  | [] => Some acc
  | l :: r =>
    match oid_sp hexsz l with
    | Some (h, c :: name) => git_wanted hexsz r (acc ++ [(c :: name, h)])
    | _ => None
    end
  end.

(* the sections after the acknowledgments; rank: 2 shallow-info, 3 wanted-refs, 4 packfile-uris *)
Fixpoint git_sections (hexsz : nat) (fuel : nat) (ps : list pkt) (rank : nat) (o : gfetchout) : option gfetchout :=
  match fuel with
  | O => None
  | S f =>
    match ps with
    | [PData p] => if beq (chomp p) (B "packfile") then Some (mkgfetchout (go_acks o) (go_shallow o) (go_wanted o) (go_uris o) true) else None
    | PData p :: r =>
      let hdr := chomp p in
      match section_body r [] with
      | Some (ls, PDelim, r') =>
        if beq hdr (B "shallow-info") && Nat.ltb rank 2 then
          match git_shinfo hexsz ls [] [] with
          | Some s => git_sections hexsz f r' 2 (mkgfetchout (go_acks o) (Some s) (go_wanted o) (go_uris o) false)
          | None => None
          end
        else if beq hdr (B "wanted-refs") && Nat.ltb rank 3 then
          match git_wanted hexsz ls [] with
          | Some w => git_sections hexsz f r' 3 (mkgfetchout (go_acks o) (go_shallow o) (Some w) (go_uris o) false)
          | None => None
          end
        else if beq hdr (B "packfile-uris") && Nat.ltb rank 4 then
          git_sections hexsz f r' 4 (mkgfetchout (go_acks o) (go_shallow o) (go_wanted o) (Some ls) false)
        else None
      | _ => None
      end
    | _ => None
    end
  end.

Definition git_fetchout (hexsz : nat) (ps : list pkt) : option gfetchout :=
  match ps with
  | PData p :: r =>
    if beq (chomp p) (B "acknowledgments") then
      match section_body r [] with
      | Some (ls, PFlush, []) =>
        match git_acks hexsz ls [] with
        | Some (acks, false) => Some (mkgfetchout (Some (acks, false)) None None None false)
        | _ => None
        end
      | Some (ls, PDelim, r') =>
        match git_acks hexsz ls [] with
        | Some (acks, true) => git_sections hexsz 5 r' 1 (mkgfetchout (Some (acks, true)) None None None false)
        | _ => None
        end
      | _ => None
      end
    else git_sections hexsz 5 ps 1 (mkgfetchout None None None None false)
  | _ => None
  end.

(* ================= evaluation on byte streams (C-git side of the correspondence) ================= *)
(* the packets of a well-framed stream; None on a framing error or an ERR line *)
Fixpoint pkts_of_rds (l : list rd) : option (list pkt) :=
  match l with
  | [] => None
  | [d] => match rd_err d with Some PEeof => Some [] | _ => None end
  | d :: r =>
    match rd_err d, pkt_of_rd d, pkts_of_rds r with
    | None, Some p, Some ps => Some (p :: ps)
    | _, _, _ => None
    end
  end.
Definition pkts_of_bytes (b : bytes) : option (list pkt) :=
  match read_all MaxSizeN [b] with RAll l => pkts_of_rds l | RFuel => None end.

Definition o_opt_bytes (o : option bytes) : out := OOpt OBytes o.
Definition o_opt_Z (o : option Z) : out := OOpt ONum o.
Definition o_hashes (l : list hash) : out := OList (map o_hash l).
Definition o_words (l : list bytes) : out := OList (map OBytes l).
Definition o_caps2 (l : list (bytes * option bytes)) : out := OList (map (fun c => OList [OBytes (fst c); o_opt_bytes (snd c)]) l).

Definition o_some {A} (f : A -> out) (o : option A) : out := match o with Some x => OOk [f x] | None => OErr "reject" end.

Definition o_glsargs (a : glsargs) : out :=
  OList [OBool (gl_peel a); OBool (gl_symrefs a); OBool (gl_unborn a); o_words (gl_prefixes a)].
Definition o_gfetchargs (a : gfetchargs) : out :=
  OList [o_hashes (gf_wants a); o_hashes (gf_haves a); o_hashes (gf_shallows a); o_words (gf_flags a);
         o_opt_Z (gf_deepen a); o_opt_Z (gf_since a); o_words (gf_not a); o_opt_bytes (gf_filter a)].

(* msg selects the grammar; for "cmd-lsrefs" / "cmd-fetch" the arguments are parsed with the command's grammar *)
Definition c35s (msg : string) (hexsz : N) (hex : string) : out :=
  let hs := N.to_nat hexsz in
  match pkts_of_bytes (unhex hex) with
  | None => OErr "framing"
  | Some ps =>
    if String.eqb msg "advrefs" then
      o_some (fun a => OList [o_words (ga_caps a); OList (map (fun r => OList [OBytes (fst r); o_hash (snd r)]) (ga_refs a)); o_hashes (ga_shallows a)])
             (git_advrefs hs ps)
    else if String.eqb msg "ulreq" then
      o_some (fun u => OList [o_words (gu_caps u); o_hashes (gu_wants u); o_hashes (gu_shallows u); o_opt_Z (gu_deepen u);
                              o_opt_Z (gu_since u); o_words (gu_not u); o_opt_bytes (gu_filter u)]) (git_ulreq hs ps)
    else if String.eqb msg "haves" then
      o_some (fun x : list hash * bool => OList [o_hashes (fst x); OBool (snd x)]) (git_haves hs ps [])
    else if String.eqb msg "srvresp" then
      o_some (fun l : list (hash * N) => OList (map (fun a => OList [o_hash (fst a); ON (snd a)]) l)) (git_srvresp hs ps [])
    else if String.eqb msg "shupd" then
      o_some (fun x : list hash * list hash => OList [o_hashes (fst x); o_hashes (snd x)]) (git_shupd hs ps false [] [])
    else if String.eqb msg "updreq" then
      o_some (fun u => OList [o_words (gr_caps u);
                              OList (map (fun c : bytes * hash * hash => let '(n, o, nw) := c in OList [OBytes n; o_hash o; o_hash nw]) (gr_cmds u));
                              o_hashes (gr_shallows u)]) (git_updreq hs ps)
    else if String.eqb msg "report" then
      o_some (fun x : bytes * list (bytes * bytes) => OList [OBytes (fst x); OList (map (fun c => OList [OBytes (fst c); OBytes (snd c)]) (snd x))])
             (git_report ps)
    else if String.eqb msg "pushopts" then o_some o_words (git_pushopts ps [])
    else if String.eqb msg "capadv" then o_some o_caps2 (git_capadv ps)
    else if String.eqb msg "cmd-lsrefs" then
      match git_cmdreq ps with
      | Some (Some (cmd, caps, args)) =>
        o_some (fun a => OList [OBytes cmd; o_caps2 caps; o_glsargs a]) (git_lsargs args (mkglsargs false false false []))
      | Some None => OOk [OSym "empty"]
      | None => OErr "reject"
      end
    else if String.eqb msg "cmd-fetch" then
      match git_cmdreq ps with
      | Some (Some (cmd, caps, args)) =>
        o_some (fun a => OList [OBytes cmd; o_caps2 caps; o_gfetchargs a]) (git_fetchargs hs args (mkgfetchargs [] [] [] [] None None [] None))
      | Some None => OOk [OSym "empty"]
      | None => OErr "reject"
      end
    else if String.eqb msg "lsout" then
      o_some (fun l : list glsref => OList (map (fun x : glsref => let '(n, h, s, p) := x in
                OList [OBytes n; OOpt o_hash h; o_opt_bytes s; OOpt o_hash p]) l)) (git_lsout hs ps [])
    else if String.eqb msg "fetchout" then
      o_some (fun o => OList [OOpt (fun a : list hash * bool => OList [o_hashes (fst a); OBool (snd a)]) (go_acks o);
                              OOpt (fun s : list hash * list hash => OList [o_hashes (fst s); o_hashes (snd s)]) (go_shallow o);
                              OOpt (fun w : list (bytes * hash) => OList (map (fun r => OList [OBytes (fst r); o_hash (snd r)]) w)) (go_wanted o);
                              OOpt o_words (go_uris o); OBool (go_packfile o)]) (git_fetchout hs ps)
    else OErr "kind"
  end.
