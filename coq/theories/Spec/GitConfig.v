(* Spec/GitConfig.v — S for C48: a transcription of git 2.39.5's config.c
   reader (git_parse_source, get_next_char, get_base_var,
   get_extended_base_var, get_value, parse_value) as a byte-at-a-time state
   machine, plus git_parse_maybe_bool / git_parse_int (parse.c / config.c).
   Executable definitions only.  Validated against /usr/bin/git
   (`git config --file f --list --null`, `--type=bool`, `--type=int`) on every
   run of ./check C48 (C-git); disagreements are reported as spec_mismatches.

   Domain: NUL-free input.  git keeps names and values in C strings, so a NUL
   byte truncates them; S does not describe that and answers [GErrNul]. *)
From Coq Require Import List NArith ZArith Bool String.
From GoGit Require Import Base.Out.
Import ListNotations.
Local Open Scope N_scope.

Definition LF : N := 10.  Definition CR : N := 13.  Definition TAB : N := 9.
Definition SPC : N := 32. Definition DQ : N := 34.  Definition BSL : N := 92.
Definition LBR : N := 91. Definition RBR : N := 93. Definition EQS : N := 61.
Definition HASH : N := 35. Definition SEMI : N := 59. Definition DOT : N := 46.
Definition DASH : N := 45.

(* git's sane_ctype: isspace is exactly SP, TAB, LF, CR *)
Definition g_isspace (c : N) : bool := (c =? SPC) || (c =? TAB) || (c =? LF) || (c =? CR).
Definition g_isupper (c : N) : bool := (65 <=? c) && (c <=? 90).
Definition g_islower (c : N) : bool := (97 <=? c) && (c <=? 122).
Definition g_isdigit (c : N) : bool := (48 <=? c) && (c <=? 57).
Definition g_isalpha (c : N) : bool := g_isupper c || g_islower c.
Definition g_isalnum (c : N) : bool := g_isalpha c || g_isdigit c.
Definition g_tolower (c : N) : N := if g_isupper c then c + 32 else c.
Definition iskeychar (c : N) : bool := g_isalnum c || (c =? DASH).

(* the section header in force: None before the first header (baselen = 0);
   Some (sec, None) for "[sec]"; Some (sec, Some sub) for [sec "sub"].  The
   deprecated "[sec.sub]" form is kept as written (lower-cased) in [sec]: git
   only ever builds the dotted full name. *)
Definition gbase := option (bytes * option bytes).
(* one callback invocation fn(name, value): value None = valueless key (NULL) *)
Definition gentry := (gbase * bytes * option bytes)%type.

Inductive gmode :=
| MTop (comment : bool)                                  (* git_parse_source loop *)
| MSec (name : bytes)                                    (* get_base_var *)
| MExt0 (name : bytes)                                   (* get_extended_base_var: blanks before the quote *)
| MExtQ (name sub : bytes)                               (*   inside the quotes *)
| MExtEsc (name sub : bytes)                             (*   after a backslash *)
| MExtEnd (name sub : bytes)                             (*   the final ']' *)
| MKey (key : bytes)                                     (* get_value: name *)
| MKeyWs (key : bytes)                                   (* get_value: blanks after the name *)
| MVal (key : bytes) (quote comment : bool) (space : nat) (v : bytes)   (* parse_value *)
| MValEsc (key : bytes) (quote : bool) (v : bytes)       (* parse_value after a backslash *)
| MErr.

Record gstate := GS { g_base : gbase; g_acc : list gentry; g_mode : gmode }.

Definition emit (st : gstate) (key : bytes) (v : option bytes) : gstate :=
  GS (g_base st) ((g_base st, key, v) :: g_acc st) (MTop false).
Definition setm (st : gstate) (m : gmode) : gstate := GS (g_base st) (g_acc st) m.

(* get_value once the key characters are over: c is the first non-key char *)
Definition key_ws (st : gstate) (key : bytes) (c : N) : gstate :=
  if (c =? SPC) || (c =? TAB) then setm st (MKeyWs key)
  else if c =? LF then emit st key None
  else if c =? EQS then setm st (MVal key false false 0 [])
  else setm st MErr.

Definition step (st : gstate) (c : N) : gstate :=
  match g_mode st with
  | MErr => st
  | MTop comment =>
    if c =? LF then setm st (MTop false)
    else if comment then st
    else if g_isspace c then st
    else if (c =? HASH) || (c =? SEMI) then setm st (MTop true)
    else if c =? LBR then setm st (MSec [])
    else if g_isalpha c then setm st (MKey [g_tolower c])
    else setm st MErr
  | MSec name =>
    if c =? RBR then
      match name with
      | [] => setm st MErr
      | _ => GS (Some (name, None)) (g_acc st) (MTop false)
      end
    else if g_isspace c then (if c =? LF then setm st MErr else setm st (MExt0 name))
    else if iskeychar c || (c =? DOT) then setm st (MSec (name ++ [g_tolower c]))
    else setm st MErr
  | MExt0 name =>
    if g_isspace c then (if c =? LF then setm st MErr else st)
    else if c =? DQ then setm st (MExtQ name [])
    else setm st MErr
  | MExtQ name sub =>
    if c =? LF then setm st MErr
    else if c =? DQ then setm st (MExtEnd name sub)
    else if c =? BSL then setm st (MExtEsc name sub)
    else setm st (MExtQ name (sub ++ [c]))
  | MExtEsc name sub =>
    if c =? LF then setm st MErr else setm st (MExtQ name (sub ++ [c]))
  | MExtEnd name sub =>
    if c =? RBR then GS (Some (name, Some sub)) (g_acc st) (MTop false) else setm st MErr
  | MKey key =>
    if iskeychar c then setm st (MKey (key ++ [g_tolower c])) else key_ws st key c
  | MKeyWs key => key_ws st key c
  | MVal key quote comment space v =>
    if c =? LF then (if quote then setm st MErr else emit st key (Some v))
    else if comment then st
    else if g_isspace c && negb quote then
      setm st (MVal key quote comment (match v with [] => space | _ => S space end) v)
    else if negb quote && ((c =? SEMI) || (c =? HASH)) then setm st (MVal key quote true space v)
    else
      let v' := v ++ repeat SPC space in
      if c =? BSL then setm st (MValEsc key quote v')
      else if c =? DQ then setm st (MVal key (negb quote) false 0 v')
      else setm st (MVal key quote false 0 (v' ++ [c]))
  | MValEsc key quote v =>
    if c =? LF then setm st (MVal key quote false 0 v)
    else if c =? 116 then setm st (MVal key quote false 0 (v ++ [TAB]))
    else if c =? 98 then setm st (MVal key quote false 0 (v ++ [8]))
    else if c =? 110 then setm st (MVal key quote false 0 (v ++ [LF]))
    else if (c =? BSL) || (c =? DQ) then setm st (MVal key quote false 0 (v ++ [c]))
    else setm st MErr
  end.

Definition run (s : bytes) (st : gstate) : gstate := fold_left step s st.

(* get_next_char: a CR immediately before a LF is dropped *)
Fixpoint drop_crlf (s : bytes) : bytes :=
  match s with
  | [] => []
  | c :: r =>
    match r with
    | d :: _ => if (c =? CR) && (d =? LF) then drop_crlf r else c :: drop_crlf r
    | [] => [c]
    end
  end.

Inductive gerr := GErrSyntax | GErrNul.

(* the UTF-8 byte order mark is skipped; a partial one is an error *)
Definition strip_bom (s : bytes) : option bytes :=
  match s with
  | c1 :: r1 =>
    if c1 =? 239 then
      match r1 with
      | c2 :: c3 :: r => if (c2 =? 187) && (c3 =? 191) then Some r else None
      | _ => None
      end
    else Some s
  | [] => Some s
  end.

Definition ginit : gstate := GS None [] (MTop false).

(* EOF acts as LF (get_next_char returns '\n' with cf->eof set, again and
   again): two are enough to leave every non-error mode. *)
Definition git_config_parse (s : bytes) : gerr + list gentry :=
  if existsb (N.eqb 0) s then inl GErrNul else
  match strip_bom (drop_crlf s) with
  | None => inl GErrSyntax
  | Some t =>
    let st := run (t ++ [LF; LF]) ginit in
    match g_mode st with
    | MTop _ => inr (rev (g_acc st))
    | _ => inl GErrSyntax
    end
  end.

(* the name `git config --list` prints *)
Definition full_name (b : gbase) (key : bytes) : bytes :=
  match b with
  | None => key
  | Some (sec, None) => sec ++ [DOT] ++ key
  | Some (sec, Some sub) => sec ++ [DOT] ++ sub ++ [DOT] ++ key
  end.

(* ---- parse.c: git_parse_maybe_bool, git_parse_int ---- *)

Definition lower (s : bytes) : bytes := map g_tolower s.
Fixpoint beq (a b : bytes) : bool :=
  match a, b with
  | [], [] => true
  | x :: a', y :: b' => (x =? y) && beq a' b'
  | _, _ => false
  end.
Definition w_true := [116;114;117;101].   Definition w_yes := [121;101;115].  Definition w_on := [111;110].
Definition w_false := [102;97;108;115;101]. Definition w_no := [110;111].     Definition w_off := [111;102;102].

(* git_parse_maybe_bool_text on a non-NULL value; strcasecmp is ASCII *)
Definition git_bool_text (s : bytes) : option bool :=
  match s with
  | [] => Some false
  | _ =>
    let l := lower s in
    if beq l w_true || beq l w_yes || beq l w_on then Some true
    else if beq l w_false || beq l w_no || beq l w_off then Some false
    else None
  end.

(* strtoimax(value, &end, 0): C-locale blanks, optional sign, 0x / 0 prefixes *)
Definition c_isspace (c : N) : bool := (c =? 32) || ((9 <=? c) && (c <=? 13)).
Fixpoint skip_c_space (s : bytes) : bytes :=
  match s with c :: r => if c_isspace c then skip_c_space r else s | [] => [] end.
Definition digit_val (c : N) : option N :=
  if g_isdigit c then Some (c - 48)
  else if (97 <=? c) && (c <=? 102) then Some (c - 87)
  else if (65 <=? c) && (c <=? 70) then Some (c - 55)
  else None.
(* longest prefix of digits below [base]: (value, any digit seen, rest) *)
Fixpoint digits (base : N) (s : bytes) (acc : N) (seen : bool) : N * bool * bytes :=
  match s with
  | c :: r =>
    match digit_val c with
    | Some d => if d <? base then digits base r (acc * base + d) true else (acc, seen, s)
    | None => (acc, seen, s)
    end
  | [] => (acc, seen, s)
  end.
(* Some (magnitude, negative?, rest); None when no digit was converted
   (strtoimax leaves end = value, which git_parse_signed rejects with EINVAL) *)
Definition strtoimax0 (s : bytes) : option (N * bool * bytes) :=
  let t := skip_c_space s in
  let '(neg, u) := match t with
                   | 45 :: r => (true, r)
                   | 43 :: r => (false, r)
                   | _ => (false, t)
                   end in
  let hex := match u with
             | 48 :: x :: h :: _ =>
               ((x =? 120) || (x =? 88)) && match digit_val h with Some _ => true | None => false end
             | _ => false
             end in
  if hex then
    let '(v, _, rest) := digits 16 (skipn 2 u) 0 false in Some (v, neg, rest)
  else
    let base := match u with 48 :: _ => 8 | _ => 10 end in
    let '(v, seen, rest) := digits base u 0 false in
    if seen then Some (v, neg, rest) else None.

Definition unit_factor (e : bytes) : option N :=
  match e with
  | [] => Some 1
  | [c] => let l := g_tolower c in
           if l =? 107 then Some 1024 else if l =? 109 then Some (1024 * 1024)
           else if l =? 103 then Some (1024 * 1024 * 1024) else None
  | _ => None
  end.

(* git_parse_signed(value, &ret, max): intmax_t is 64 bit *)
Definition git_parse_signed (s : bytes) (max : N) : option Z :=
  match s with
  | [] => None
  | _ =>
    match strtoimax0 s with
    | None => None
    | Some (mag, neg, rest) =>
      if (if neg then 9223372036854775808 else 9223372036854775807) <? mag then None   (* ERANGE *)
      else match unit_factor rest with
           | None => None
           | Some f =>
             if max <? f * mag then None
             else Some (if neg then (- Z.of_N (f * mag))%Z else Z.of_N (f * mag))
           end
    end
  end.
Definition git_parse_int (s : bytes) : option Z := git_parse_signed s 2147483647.

(* git_parse_maybe_bool / git_config_bool: None = NULL value (valueless key) *)
Definition git_bool (v : option bytes) : option bool :=
  match v with
  | None => Some true
  | Some s =>
    match git_bool_text s with
    | Some b => Some b
    | None => match git_parse_int s with
              | Some z => Some (negb (Z.eqb z 0))
              | None => None
              end
    end
  end.
(* git_config_int: a valueless key is an error (die_bad_number via config_error_nonbool) *)
Definition git_int (v : option bytes) : option Z :=
  match v with None => None | Some s => git_parse_int s end.

(* ---- correspondence entry points (C-git) ---- *)
Definition o_entry (e : gentry) : out :=
  let '(b, k, v) := e in OList [OBytes (full_name b k); OOpt OBytes v].
Definition unhexl (l : list String.string) : bytes := flat_map unhex l.
Definition c48_spec_parse (hex : list String.string) : out :=
  match git_config_parse (unhexl hex) with
  | inr es => OOk (map o_entry es)
  | inl GErrSyntax => OErr "syntax"%string
  | inl GErrNul => OErr "nul"%string
  end.
Definition c48_spec_bool (hex : list String.string) : out :=
  OOpt OBool (git_bool (Some (unhexl hex))).
Definition c48_spec_int (hex : list String.string) : out :=
  OOpt ONum (git_int (Some (unhexl hex))).
(* `git config --type=int` itself parses with git_config_int64 (max = 2^63-1);
   settings read with git_config_int (pack.window) use [git_parse_int]. *)
Definition c48_spec_int64 (hex : list String.string) : out :=
  OOpt ONum (git_parse_signed (unhexl hex) 9223372036854775807).
