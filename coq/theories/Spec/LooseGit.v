(* Spec/LooseGit.v — S for C01: what git 2.39 writes as, and accepts as, a
   loose object (object-file.c: write_object_file_prepare /
   format_object_header, unpack_loose_header, parse_loose_header), over the
   INFLATED byte stream.  Transcribed from git's source and validated against
   the installed git binary on every run (C-git part of ./check C01). *)
From Coq Require Import List NArith ZArith Bool.
From GoGit Require Import Base.Out Spec.SHA Model.ObjFile.
Import ListNotations.
Local Open Scope N_scope.

(* ---------- writer ---------- *)
(* "%s %"PRIuMAX + NUL *)
Definition git_hdr (t : otype) (n : N) : bytes := type_bytes t ++ [32] ++ print_dec n ++ [0].
Definition nlen (c : bytes) : N := N.of_nat (List.length c).
Definition git_loose (t : otype) (c : bytes) : bytes := git_hdr t (nlen c) ++ c.
Definition git_oid (f : hfmt) (t : otype) (c : bytes) : bytes := H f (git_loose t c).

(* ---------- reader ---------- *)
Definition MAX_HEADER_LEN : nat := 32.
Definition two64 : N := 18446744073709551616.

(* unpack_loose_header: the NUL must be within the first MAX_HEADER_LEN bytes *)
Fixpoint find_nul (budget : nat) (l acc : bytes) : option (bytes * bytes) :=
  match budget with
  | O => None
  | S b => match l with
           | [] => None
           | c :: r => if c =? 0 then Some (rev acc, r) else find_nul b r (c :: acc)
           end
  end.

(* split the header text at the first space *)
Fixpoint split_sp (l acc : bytes) : option (bytes * bytes) :=
  match l with
  | [] => None
  | c :: r => if c =? 32 then Some (rev acc, r) else split_sp r (c :: acc)
  end.

(* type_from_string_gently *)
Definition git_type (s : bytes) : option otype :=
  match parse_type s with
  | Some t => if type_git t then Some t else None
  | None => None
  end.

(* canonical decimal: first byte a digit; "0" only alone; st_mult/st_add die on
   unsigned long (64-bit) overflow; nothing may follow the digits *)
Fixpoint git_digits (l : bytes) (acc : N) : option N :=
  match l with
  | [] => Some acc
  | c :: r => if is_digit c
              then let v := 10 * acc + (c - 48) in if two64 <=? v then None else git_digits r v
              else None
  end.

Definition git_size (s : bytes) : option N :=
  match s with
  | [] => None
  | c :: r =>
    if negb (is_digit c) then None
    else if c =? 48 then (match r with [] => Some 0 | _ => None end)
    else git_digits r (c - 48)
  end.

(* parse_loose_header on the inflated stream: (type, size, content) *)
Definition git_parse (raw : bytes) : option (otype * N * bytes) :=
  match find_nul MAX_HEADER_LEN raw [] with
  | None => None
  | Some (h, content) =>
    match split_sp h [] with
    | None => None
    | Some (ty, sz) =>
      match git_type ty, git_size sz with
      | Some t, Some n => Some (t, n, content)
      | _, _ => None
      end
    end
  end.

(* reading an object (read_object_file / fsck): the header must parse and the
   content must have exactly the declared size *)
Definition git_read (raw : bytes) : option (otype * bytes) :=
  match git_parse raw with
  | Some (t, n, c) => if n =? nlen c then Some (t, c) else None
  | None => None
  end.

(* correspondence with the git binary: header verdict of `git cat-file -t/-s` *)
From Coq Require Import String.
Definition c01_git_parse (raw : string) : out :=
  match git_parse (unhex raw) with
  | Some (t, n, _) => OOk [OType t; ON n]
  | None => OErr "reject"%string
  end.
