(* Spec/GitDelta.v — S for C06: git 2.39's patch_delta() (patch-delta.c) and
   get_delta_hdr_size() (delta.h), transcribed; validated against the git
   binary on every run (REF_DELTA pack through `git index-pack`).

   unsigned long / size_t are 64 bits.  st_left_shift(v, i) dies when the shift
   overflows; for i >= 64 the C expression is undefined behaviour (the overflow
   macro does not fire and `v << i` is out of range): S answers GUndef there and
   the theorems exclude it. *)
From Coq Require Import List NArith ZArith Bool String.
From GoGit Require Import Base.Out.
Import ListNotations.
Local Open Scope N_scope.

Inductive gres := GOk (b : bytes) | GReject | GUndef.

Inductive hres := HOk (size : N) (rest : bytes) | HDie | HUndef.

Definition g_nil {A} (l : list A) : bool := match l with [] => true | _ => false end.

(* do { cmd = *data++; size |= st_left_shift(cmd & 0x7f, i); i += 7; } while (cmd & 0x80 && data < top);
   called with data < top *)
Fixpoint git_hdr (inp : bytes) (i : N) (acc : N) : hres :=
  match inp with
  | [] => HOk acc []
  | c :: r =>
    if 64 <=? i then HUndef
    else
      let v := N.land c 127 in
      if N.shiftr (2 ^ 64 - 1) i <? v then HDie          (* unsigned_left_shift_overflows *)
      else
        let acc' := N.lor acc (N.shiftl v i) in
        if (N.land c 128 =? 0) || g_nil r then HOk acc' r else git_hdr r (i + 7) acc'
  end.

Definition DELTA_SIZE_MIN : N := 4.

(* PARSE_CP_PARAM over the seven optional bytes; None = `data >= top` *)
Fixpoint git_params (tbl : list (N * N)) (cmd : N) (d : bytes) (acc : N) : option (N * bytes) :=
  match tbl with
  | [] => Some (acc, d)
  | (bit, shift) :: t =>
    if N.land cmd bit =? 0 then git_params t cmd d acc
    else match d with
         | [] => None
         | b :: r => git_params t cmd r (N.lor acc (N.shiftl b shift))
         end
  end.

Definition glen (b : bytes) : N := N.of_nat (List.length b).
Definition gtake (n : N) (b : bytes) := firstn (N.to_nat n) b.
Definition gdrop (n : N) (b : bytes) := skipn (N.to_nat n) b.

Definition gprefix (p : bytes) (r : gres) : gres :=
  match r with GOk t => GOk (p ++ t) | x => x end.

(* while (data < top) { ... }  then  if (data != top || size != 0) bad *)
Fixpoint git_loop (fuel : nat) (src d : bytes) (size : N) : gres :=
  match d with
  | [] => if size =? 0 then GOk [] else GReject
  | cmd :: r =>
    match fuel with
    | O => GUndef
    | S f =>
      if negb (N.land cmd 128 =? 0) then
        match git_params [(1, 0); (2, 8); (4, 16); (8, 24)] cmd r 0 with
        | None => GReject
        | Some (off, r1) =>
          match git_params [(16, 0); (32, 8); (64, 16)] cmd r1 0 with
          | None => GReject
          | Some (sz0, r2) =>
            let sz := if sz0 =? 0 then 65536 else sz0 in
            if (2 ^ 64 <=? off + sz) || (glen src <? off + sz) || (size <? sz) then GReject
            else gprefix (gtake sz (gdrop off src)) (git_loop f src r2 (size - sz))
          end
        end
      else if negb (cmd =? 0) then
        if (size <? cmd) || (glen r <? cmd) then GReject
        else gprefix (gtake cmd r) (git_loop f src (gdrop cmd r) (size - cmd))
      else GReject                                   (* "unexpected delta opcode 0" *)
    end
  end.

Definition git_patch_delta (src delta : bytes) : gres :=
  if glen delta <? DELTA_SIZE_MIN then GReject
  else match git_hdr delta 0 0 with
       | HDie => GReject
       | HUndef => GUndef
       | HOk size d1 =>
         if negb (size =? glen src) then GReject
         else match d1 with
              | [] => GReject     (* the second header is read past `top`: data > top afterwards *)
              | _ =>
                match git_hdr d1 0 0 with
                | HDie => GReject
                | HUndef => GUndef
                | HOk tsize d2 => git_loop (List.length d2) src d2 tsize
                end
              end
       end.

(* correspondence entry point (C-git) *)
Definition g_expand (segs : list (string * N)) : bytes :=
  flat_map (fun '(h, n) => let p := unhex h in N.iter n (fun acc => p ++ acc) []) segs.

Definition g_adler (b : bytes) : N :=
  let '(a, s) := fold_left (fun '(a, s) x => let a' := a + x in (a', s + a')) b (1, 0) in
  (s mod 65521) * 65536 + a mod 65521.

Definition c06_spec_run (src delta : list (string * N)) : out :=
  match git_patch_delta (g_expand src) (g_expand delta) with
  | GOk b => OOk [OList [ONum (Z.of_N (glen b)); ONum (Z.of_N (g_adler b))]]
  | GReject => OErr "reject"%string
  | GUndef => OSym "undef"%string
  end.
