(* Spec/Dag.v — the abstract commit graph shared by C42 C43 C47 (and the
   generation numbers of C51).

   A history is a finite DAG whose nodes are numbered 0..n-1 in a topological
   order: every parent of node i has a smaller number ([dag_ok]).  Every finite
   DAG has such a numbering, and the numbering is only a naming: the Go code
   identifies commits by hash and never looks at the number.  A parent number
   >= n denotes a commit whose object is absent from the store (shallow
   histories); [dag_closed] excludes that.

   [reach g c a]  : a is reachable from c through parent edges (a ∈ anc* c).
   [reachb]       : the same, decided with fuel = node count.
   Executable definitions + the small closure lemmas every user needs. *)
From Coq Require Import List Arith ZArith Bool Lia.
Import ListNotations.

Definition node := nat.

Record dag := mkDag { dpar : list (list node); dtime : list Z }.

Definition nnodes (g : dag) : nat := List.length (dpar g).
Definition parents (g : dag) (c : node) : list node := nth c (dpar g) [].
Definition ctime (g : dag) (c : node) : Z := nth c (dtime g) 0%Z.
Definition present (g : dag) (c : node) : bool := c <? nnodes g.
Definition nodes (g : dag) : list node := seq 0 (nnodes g).

Definition mem (x : node) (l : list node) : bool := existsb (Nat.eqb x) l.

(* parents of node i are smaller than i, or absent (>= n) *)
Fixpoint pars_ok (n i : nat) (l : list (list node)) : bool :=
  match l with
  | [] => true
  | ps :: r => forallb (fun p => (p <? i) || (n <=? p)) ps && pars_ok n (S i) r
  end.

Definition dag_ok (g : dag) : bool := pars_ok (nnodes g) 0 (dpar g).
Definition dag_closed (g : dag) : bool :=
  forallb (forallb (fun p => p <? nnodes g)) (dpar g).
(* committer clocks are monotone: every present parent is strictly older *)
Definition dag_monotone (g : dag) : bool :=
  forallb (fun c => forallb (fun p => negb (present g p) || (ctime g p <? ctime g c)%Z) (parents g c)) (nodes g).

Inductive reach (g : dag) : node -> node -> Prop :=
| reach_refl : forall c, reach g c c
| reach_step : forall c p a, In p (parents g c) -> reach g p a -> reach g c a.

(* first-parent chain (git rev-list --first-parent) *)
Inductive fp_reach (g : dag) : node -> node -> Prop :=
| fp_refl : forall c, fp_reach g c c
| fp_step : forall c p r a, parents g c = p :: r -> fp_reach g p a -> fp_reach g c a.

Fixpoint reachb (g : dag) (fuel : nat) (c a : node) : bool :=
  (c =? a) ||
  match fuel with
  | O => false
  | S f => existsb (fun p => reachb g f p a) (parents g c)
  end.

(* a ∈ anc* c, fuel = node count *)
Definition is_anc (g : dag) (a c : node) : bool := reachb g (nnodes g) c a.

(* the set anc* c as an increasing list *)
Definition ancs (g : dag) (c : node) : list node :=
  filter (fun a => is_anc g a c) (nodes g).

Definition common (g : dag) (a b : node) : list node :=
  filter (fun x => is_anc g x a && is_anc g x b) (nodes g).

(* elements of X that are not a proper ancestor of another element of X *)
Definition maximal (g : dag) (X : list node) : list node :=
  filter (fun x => negb (existsb (fun y => negb (x =? y) && is_anc g x y) X)) X.

Definition merge_bases (g : dag) (a b : node) : list node := maximal g (common g a b).
Definition independent (g : dag) (X : list node) : list node :=
  maximal g (filter (fun x => mem x X) (nodes g)).

(* topological level (git's generation number v1) and corrected commit date (v2) *)
Fixpoint gen_table (i : nat) (l : list (list node)) (acc : list nat) : list nat :=
  match l with
  | [] => acc
  | ps :: r => gen_table (S i) r (acc ++ [S (fold_right (fun p m => Nat.max (nth p acc 0) m) 0 ps)])
  end.
Definition generation (g : dag) (c : node) : nat := nth c (gen_table 0 (dpar g) []) 0.

(* ------------------------------------------------------------------ lemmas *)

Lemma mem_In : forall x l, mem x l = true <-> In x l.
Proof.
  intros x l. unfold mem. rewrite existsb_exists. split.
  - intros [y [Hy He]]. apply Nat.eqb_eq in He. now subst.
  - intros H. exists x. split; [assumption | apply Nat.eqb_refl].
Qed.

Lemma mem_false_In : forall x l, mem x l = false <-> ~ In x l.
Proof.
  intros x l. rewrite <- mem_In. destruct (mem x l); split; congruence.
Qed.

Lemma parents_absent : forall g c, nnodes g <= c -> parents g c = [].
Proof. intros g c H. unfold parents. apply nth_overflow. exact H. Qed.

Lemma pars_ok_nth : forall n l i k p,
  pars_ok n i l = true -> In p (nth k l []) -> p < i + k \/ n <= p.
Proof.
  induction l as [|ps r IH]; intros i k p Hok Hin.
  - destruct k; simpl in Hin; contradiction.
  - simpl in Hok. apply andb_true_iff in Hok. destruct Hok as [H1 H2].
    destruct k as [|k].
    + simpl in Hin. rewrite forallb_forall in H1. specialize (H1 _ Hin).
      apply orb_true_iff in H1. destruct H1 as [H1|H1].
      * apply Nat.ltb_lt in H1. left. lia.
      * apply Nat.leb_le in H1. now right.
    + simpl in Hin. destruct (IH (S i) k p H2 Hin) as [H|H]; [left; lia | now right].
Qed.

Lemma dag_ok_parent : forall g c p,
  dag_ok g = true -> In p (parents g c) -> p < c \/ nnodes g <= p.
Proof.
  intros g c p Hok Hin. unfold dag_ok in Hok. unfold parents in Hin.
  destruct (pars_ok_nth _ _ 0 c p Hok Hin) as [H|H]; [left; lia | now right].
Qed.

Lemma dag_closed_parent : forall g c p,
  dag_closed g = true -> In p (parents g c) -> p < nnodes g.
Proof.
  intros g c p Hc Hin. unfold dag_closed in Hc. rewrite forallb_forall in Hc.
  unfold parents in Hin.
  destruct (Nat.lt_ge_cases c (nnodes g)) as [Hlt|Hge].
  - assert (Hn : In (nth c (dpar g) []) (dpar g)) by (apply nth_In; exact Hlt).
    specialize (Hc _ Hn). rewrite forallb_forall in Hc. specialize (Hc _ Hin).
    now apply Nat.ltb_lt in Hc.
  - rewrite nth_overflow in Hin by exact Hge. contradiction.
Qed.

Lemma dag_ok_closed_parent : forall g c p,
  dag_ok g = true -> dag_closed g = true -> In p (parents g c) -> p < c.
Proof.
  intros g c p Hok Hc Hin.
  destruct (dag_ok_parent g c p Hok Hin) as [H|H]; [exact H|].
  pose proof (dag_closed_parent g c p Hc Hin). lia.
Qed.

Lemma reach_trans : forall g a b c, reach g a b -> reach g b c -> reach g a c.
Proof.
  intros g a b c H. induction H; intros H2; [exact H2|].
  eapply reach_step; eauto.
Qed.

Lemma reach_absent : forall g c a, nnodes g <= c -> reach g c a -> a = c.
Proof.
  intros g c a Hc H. destruct H; [reflexivity|].
  rewrite parents_absent in H by exact Hc. contradiction.
Qed.

(* in a closed, topologically numbered graph ancestors have smaller numbers *)
Lemma reach_le : forall g c a,
  dag_ok g = true -> dag_closed g = true -> reach g c a -> a <= c.
Proof.
  intros g c a Hok Hc H. induction H; [lia|].
  pose proof (dag_ok_closed_parent g c p Hok Hc H). lia.
Qed.

Lemma reach_antisym : forall g a b,
  dag_ok g = true -> dag_closed g = true -> reach g a b -> reach g b a -> a = b.
Proof.
  intros g a b Hok Hc H1 H2.
  pose proof (reach_le g a b Hok Hc H1). pose proof (reach_le g b a Hok Hc H2). lia.
Qed.

Lemma reach_present : forall g c a,
  dag_closed g = true -> c < nnodes g -> reach g c a -> a < nnodes g.
Proof.
  intros g c a Hc Hlt H. induction H; [exact Hlt|].
  apply IHreach. eapply dag_closed_parent; eauto.
Qed.

Lemma reachb_sound : forall g fuel c a, reachb g fuel c a = true -> reach g c a.
Proof.
  induction fuel as [|f IH]; intros c a H; simpl in H.
  - rewrite orb_false_r in H. apply Nat.eqb_eq in H. subst. constructor.
  - apply orb_true_iff in H. destruct H as [H|H].
    + apply Nat.eqb_eq in H. subst. constructor.
    + apply existsb_exists in H. destruct H as [p [Hp Hr]].
      eapply reach_step; eauto.
Qed.

Lemma reachb_complete : forall g, dag_ok g = true ->
  forall fuel c a, (c < fuel \/ nnodes g <= c) -> reach g c a -> reachb g fuel c a = true.
Proof.
  intros g Hok. induction fuel as [|f IH]; intros c a Hc H; destruct H as [c|c p a Hp Hr].
  - simpl. now rewrite Nat.eqb_refl.
  - destruct Hc as [Hc|Hc]; [lia|]. rewrite parents_absent in Hp by exact Hc. contradiction.
  - simpl. now rewrite Nat.eqb_refl.
  - simpl. apply orb_true_iff. right. apply existsb_exists. exists p. split; [exact Hp|].
    apply IH; [|exact Hr].
    destruct Hc as [Hc|Hc].
    + destruct (dag_ok_parent g c p Hok Hp) as [H|H]; [left; lia | now right].
    + rewrite parents_absent in Hp by exact Hc. contradiction.
Qed.

Lemma is_anc_spec : forall g a c, dag_ok g = true -> (is_anc g a c = true <-> reach g c a).
Proof.
  intros g a c Hok. unfold is_anc. split.
  - apply reachb_sound.
  - apply reachb_complete; [exact Hok|]. lia.
Qed.

Lemma is_anc_refl : forall g c, is_anc g c c = true.
Proof.
  intros g c. unfold is_anc. destruct (nnodes g); simpl; now rewrite Nat.eqb_refl.
Qed.

Lemma ancs_spec : forall g c a, dag_ok g = true -> dag_closed g = true -> c < nnodes g ->
  (In a (ancs g c) <-> reach g c a).
Proof.
  intros g c a Hok Hc Hlt. unfold ancs.
  rewrite filter_In. unfold nodes. rewrite in_seq. rewrite is_anc_spec by exact Hok.
  split; [tauto|]. intros H. split; [|exact H].
  pose proof (reach_present g c a Hc Hlt H). lia.
Qed.

Lemma ancs_NoDup : forall g c, NoDup (ancs g c).
Proof. intros g c. unfold ancs, nodes. apply NoDup_filter. apply seq_NoDup. Qed.
