(* Spec/GitFields.v — S for C02: the fields git 2.39 itself reports.
   Commits: `git log -1 --no-walk --date=raw --format=%T %P %an %ae %ad %cn %ce %cd %e %B`
     = commit.c parse_commit_buffer (tree, contiguous parents, acceptance),
       pretty.c parse_commit_header (LAST author/committer line before the first
       empty line; message after it), ident.c split_ident_line, pretty.c
       show_ident_date + date.c show_date(raw), commit.c find_commit_header
       (FIRST "encoding " line).
   Tags: `git for-each-ref --format=%(object) %(type) %(tag) %(taggername)
     %(taggeremail) %(taggerdate:raw) %(contents)`
     = tag.c parse_tag_buffer, ref-filter.c find_wholine / copy_name /
       copy_email / grab_date / find_subpos.
   Transcribed from git's source; trusted only as far as the C-git suite
   compares it with the git 2.39.5 binary on every check.  Inputs containing a
   NUL byte are outside the transcription (git handles them as C strings). *)
From Coq Require Import List NArith ZArith Bool String.
From GoGit Require Import Base.Out Model.ObjLines Model.Commit Model.Tag.
Import ListNotations.
Local Open Scope N_scope.

(* sane_ctype isspace: SP TAB LF CR *)
Definition git_isspace (c : N) : bool := (c =? 32) || (c =? 9) || (c =? 10) || (c =? 13).

Fixpoint drop_while (f : N -> bool) (b : bytes) : bytes :=
  match b with c :: r => if f c then drop_while f r else b | [] => [] end.
Fixpoint take_while (f : N -> bool) (b : bytes) : bytes :=
  match b with c :: r => if f c then c :: take_while f r else [] | [] => [] end.
Definition rstrip (f : N -> bool) (b : bytes) : bytes := rev (drop_while f (rev b)).

(* value of a digit string, unbounded *)
Definition dval (b : bytes) : N := fold_left (fun a c => 10 * a + (c - 48)) b 0.

Record gident := mk_gident { g_name : bytes; g_mail : bytes; g_date : option (bytes * N * bytes) }.
(* date digits, sign byte, zone digits *)

(* ident.c split_ident_line on the text after "author " (no LF) *)
Definition git_split_ident (line : bytes) : option gident :=
  match index_of 60 line with
  | None => None
  | Some lt =>
    let name := rstrip git_isspace (firstn lt line) in
    let after := skipn (S lt) line in
    match index_of 62 after with
    | None => None
    | Some gt =>
      let mail := firstn gt after in
      (* text after the LAST '>' of the line *)
      let tail := match last_index_of 62 line with Some i => skipn (S i) line | None => [] end in
      let t1 := drop_while git_isspace tail in
      let ds := take_while is_digit t1 in
      let t2 := drop_while git_isspace (skipn (List.length ds) t1) in
      let date :=
        match ds, t2 with
        | _ :: _, s :: t3 =>
          if (s =? 43) || (s =? 45) then
            match take_while is_digit t3 with
            | [] => None
            | zs => Some (ds, s, zs)
            end
          else None
        | _, _ => None
        end in
      Some (mk_gident name mail date)
    end
  end.

(* printf "%+05d" *)
Definition fmt_plus05 (z : Z) : bytes :=
  let a := print_dec (Z.to_N (Z.abs z)) in
  (if (z <? 0)%Z then 45 else 43) :: repeat 48 (4 - List.length a) ++ a.

(* pretty.c show_ident_date + show_date(DATE_RAW) *)
Definition git_show_date (d : bytes * N * bytes) : bytes :=
  let '(ds, s, zs) := d in
  let date := dval ds in
  if 2 ^ 63 <=? date then str "0 +0000"
  else
    let tzv := Z.of_N (dval zs) in
    let tz := if s =? 45 then (- tzv)%Z else tzv in
    let tz' := if ((2147483647 <=? tz) || (tz <=? -2147483648))%Z then 0%Z else tz in
    print_dec date ++ [SPC] ++ fmt_plus05 tz'.

(* %an %ae %ad of one header value *)
Definition git_person (v : option bytes) : bytes * bytes * bytes :=
  match v with
  | None => ([], [], [])
  | Some line =>
    match git_split_ident line with
    | None => ([], [], [])
    | Some g => (g_name g, g_mail g, match g_date g with Some d => git_show_date d | None => [] end)
    end
  end.

(* a header line without its LF *)
Definition chomp (l : bytes) : bytes := if ends_nl l then removelast l else l.

(* pretty.c parse_commit_header: scan the lines up to the first empty one;
   returns (author, committer, body) where body = None when no empty line exists *)
Fixpoint git_scan_header (ls : list bytes) (a c : option bytes)
  : option bytes * option bytes * option bytes :=
  match ls with
  | [] => (a, c, None)
  | l :: r =>
    if first_is LF l then (a, c, Some (List.concat r))
    else if starts_with (str "author ") l then git_scan_header r (Some (skipn 7 (chomp l))) c
    else if starts_with (str "committer ") l then git_scan_header r a (Some (skipn 10 (chomp l)))
    else git_scan_header r a c
  end.

(* commit.c find_commit_header(msg, "encoding"): first line "encoding <v>" before the first empty line *)
Fixpoint git_find_header (key : bytes) (ls : list bytes) : option bytes :=
  match ls with
  | [] => None
  | l :: r =>
    if first_is LF l then None
    else if starts_with (key ++ [SPC]) l then Some (skipn (List.length key + 1) (chomp l))
    else git_find_header key r
  end.

Definition all_hex (b : bytes) : bool := forallb (fun c => match hexv c with Some _ => true | None => false end) b.
Definition lower_hex (b : bytes) : bytes :=
  map (fun c => if (65 <=? c) && (c <=? 70) then c + 32 else c) b.

(* commit.c parse_commit_buffer, SHA-1 repository: the parents loop on the
   bytes after the tree line.  None = "bad parents" *)
Fixpoint git_parents (fuel : nat) (b : bytes) : option (list bytes) :=
  match fuel with
  | O => Some []
  | S f =>
    if Nat.ltb 47 (List.length b) && starts_with (str "parent ") b then
      if Nat.leb (List.length b) 48 then None
      else
        let h := firstn 40 (skipn 7 b) in
        if all_hex h && (nth 47 b 0 =? LF) then
          match git_parents f (skipn 48 b) with
          | Some ps => Some (lower_hex h :: ps)
          | None => None
          end
        else None
    else Some []
  end.

Record glog := mk_glog {
  gl_tree : bytes; gl_parents : list bytes;
  gl_an : bytes; gl_ae : bytes; gl_ad : bytes;
  gl_cn : bytes; gl_ce : bytes; gl_cd : bytes;
  gl_enc : bytes; gl_body : option bytes }.

Definition has_nul (b : bytes) : bool := existsb (N.eqb 0) b.

Inductive gres (A : Type) := GOk (a : A) | GRefused | GOutside.
Arguments GOk {A} a.  Arguments GRefused {A}.  Arguments GOutside {A}.

Definition git_log_fields (raw : bytes) : gres glog :=
  if has_nul raw then GOutside
  else if negb (Nat.ltb 46 (List.length raw)) then GRefused
  else if negb (starts_with (str "tree ") raw) then GRefused
  else if negb (nth 45 raw 0 =? LF) then GRefused
  else
    let th := firstn 40 (skipn 5 raw) in
    if negb (all_hex th) then GRefused
    else
      match git_parents (List.length raw) (skipn 46 raw) with
      | None => GRefused
      | Some ps =>
        let ls := split_lines raw in
        let '(a, c, body) := git_scan_header ls None None in
        let '(an, ae, ad) := git_person a in
        let '(cn, ce, cd) := git_person c in
        let enc := match git_find_header k_encoding ls with Some e => e | None => [] end in
        GOk (mk_glog (lower_hex th) ps an ae ad cn ce cd enc body)
      end.

(* ---- tags: tag.c parse_tag_buffer + ref-filter.c ---- *)
Record gtag := mk_gtag {
  gt_object : bytes; gt_type : bytes; gt_tag : bytes;
  gt_tn : bytes; gt_te : bytes; gt_td : option bytes;   (* None: outside the transcription *)
  gt_contents : bytes }.

Definition git_tag_types : list bytes := [str "blob"; str "tree"; str "commit"; str "tag"].

(* ref-filter.c find_wholine("tagger"): first line "tagger ..." of the header
   (returns the text up to the end of the BUFFER; callers stop at LF) *)
Fixpoint git_find_wholine (who : bytes) (ls : list bytes) : bytes :=
  match ls with
  | [] => []
  | l :: r =>
    if starts_with (who ++ [SPC]) l then skipn (List.length who + 1) (List.concat (l :: r))
    else if negb (ends_nl l) then []
    else match r with
         | n :: _ => if first_is LF n then [] else git_find_wholine who r
         | [] => []
         end
  end.

(* copy_name: up to the first " <" on the line; "" when the line has none *)
Fixpoint copy_name_aux (b : bytes) : option bytes :=
  match b with
  | [] => None
  | c :: r =>
    if c =? LF then None
    else if (c =? SPC) && first_is 60 r then Some []
    else match copy_name_aux r with Some n => Some (c :: n) | None => None end
  end.
Definition git_copy_name (b : bytes) : bytes :=
  match copy_name_aux b with Some n => n | None => [] end.

(* copy_email: from the first '<' of the buffer to the first '>' after it, brackets included *)
Definition git_copy_email (b : bytes) : bytes :=
  match index_of 60 b with
  | None => []
  | Some i =>
    let e := skipn i b in
    match index_of 62 e with
    | None => []
    | Some j => firstn (S j) e
    end
  end.

(* grab_date restricted to "> <digits> <sign><digits>" right after the first "> ";
   anything else is outside the transcription (strtoumax/strtol corner cases) *)
Fixpoint find_gt_sp (b : bytes) : option bytes :=
  match b with
  | [] => None
  | c :: r => if (c =? 62) && first_is SPC r then Some (tl r) else find_gt_sp r
  end.
Definition git_grab_date (b : bytes) : option bytes :=
  match find_gt_sp b with
  | None => Some []
  | Some t =>
    let ds := take_while is_digit t in
    match ds, skipn (List.length ds) t with
    | _ :: _, sp :: s :: t3 =>
      if (sp =? SPC) && ((s =? 43) || (s =? 45)) then
        match take_while is_digit t3 with
        | [] => None
        | zs =>
          if (2 ^ 63 <=? dval ds) || (Nat.ltb 9 (List.length zs)) then None
          else
            let tzv := Z.of_N (dval zs) in
            Some (print_dec (dval ds) ++ [SPC] ++ fmt_plus05 (if s =? 45 then (- tzv)%Z else tzv))
        end
      else None
    | _, _ => None
    end
  end.

(* find_subpos: the contents start after the first "\n\n", leading LFs skipped *)
Fixpoint git_contents (b : bytes) : bytes :=
  match b with
  | [] => []
  | c :: r => if (c =? LF) && first_is LF r then drop_while (N.eqb LF) r else git_contents r
  end.

Definition git_tag_fields (raw : bytes) : gres gtag :=
  if has_nul raw then GOutside
  else if Nat.ltb (List.length raw) 64 then GRefused
  else if negb (starts_with (str "object ") raw) then GRefused
  else
    let oh := firstn 40 (skipn 7 raw) in
    if negb (all_hex oh && (nth 47 raw 0 =? LF)) then GRefused
    else
      let b1 := skipn 48 raw in
      if negb (starts_with (str "type ") b1) then GRefused
      else
        let b2 := skipn 5 b1 in
        match index_of LF b2 with
        | None => GRefused
        | Some n =>
          let ty := firstn n b2 in
          if Nat.leb 20 n then GRefused
          else if negb (existsb (beqb ty) git_tag_types) then GRefused
          else
            let b3 := skipn (S n) b2 in
            if negb (Nat.ltb 4 (List.length b3) && starts_with (str "tag ") b3) then GRefused
            else
              let b4 := skipn 4 b3 in
              match index_of LF b4 with
              | None => GRefused
              | Some m =>
                let nm := firstn m b4 in
                let w := git_find_wholine k_tagger (split_lines raw) in
                GOk (mk_gtag (lower_hex oh) ty nm (git_copy_name w) (git_copy_email w)
                             (match w with [] => Some [] | _ => git_grab_date w end)
                             (git_contents raw))
              end
        end.

(* ---- observables for the C-git comparison ---- *)
Definition c02_spec_commit (raw : string) : out :=
  match git_log_fields (unhex raw) with
  | GOutside => OSym "outside"
  | GRefused => OSym "refused"
  | GOk g => OOk [OBytes (gl_tree g); OList (map OBytes (gl_parents g));
                  OBytes (gl_an g); OBytes (gl_ae g); OBytes (gl_ad g);
                  OBytes (gl_cn g); OBytes (gl_ce g); OBytes (gl_cd g);
                  OBytes (gl_enc g); OOpt OBytes (gl_body g)]
  end.
Definition c02_spec_tag (raw : string) : out :=
  match git_tag_fields (unhex raw) with
  | GOutside => OSym "outside"
  | GRefused => OSym "refused"
  | GOk g => OOk [OBytes (gt_object g); OBytes (gt_type g); OBytes (gt_tag g);
                  OBytes (gt_tn g); OBytes (gt_te g); OOpt OBytes (gt_td g); OBytes (gt_contents g)]
  end.
