(* Spec/GitArchive.v — S for C50: the entry list of `git archive` (git 2.39:
   archive.c write_archive_entries / queue_or_write_archive_entry /
   path_exists, archive-tar.c and archive-zip.c modes), for literal pathspecs.
     * a directory is queued and only written when some entry below it is
       written (so a sub-tree holding no file, link or gitlink never appears);
     * a gitlink is written as a directory entry;
     * every pathspec must match something (path_exists), else the request
       is refused;
     * tar modes: (mode | 0777 or 0666) & ~tar.umask(002); links 0777;
       zip: external attributes 0 for plain files and directories, the tree
       mode for executables (0100755) and 0120777 for links; the prefix gets a
       directory entry in both formats.
   Validated against /usr/bin/git on every run (C-git, props/C50.py). *)
From Coq Require Import List NArith ZArith Bool String.
From GoGit Require Import Base.Out Model.Archive.
Import ListNotations.
Local Open Scope N_scope.

(* literal pathspec f against the path p of a non-directory entry:
   p == f, or p lies below the directory f names ("d" and "d/" alike) *)
Definition strip_slash (f : bytes) : bytes :=
  match rev f with c :: r => if c =? SLASH then rev r else f | [] => f end.
Definition git_match_file (p f : bytes) : bool :=
  bytes_eq p f || has_prefix p (strip_slash f ++ [SLASH]).
(* ... against a directory p (path_exists only): also "p/" itself *)
Definition git_match_dir (p f : bytes) : bool :=
  bytes_eq p (strip_slash f) || has_prefix p (strip_slash f ++ [SLASH]).

(* a gitlink is matched like a directory ("sub/" selects the gitlink sub) *)
Definition git_match_entry (n : node) (p f : bytes) : bool :=
  match n with NDir _ | NSub => git_match_dir p f | _ => git_match_file p f end.

Definition git_sel (n : node) (filters : list bytes) (p : bytes) : bool :=
  match filters with [] => true | _ => existsb (git_match_entry n p) filters end.

Definition git_tar_mode (n : node) : Z :=
  match n with
  | NDir _ | NSub => 509          (* 0775 *)
  | NLink _ => 511                (* 0777 *)
  | NFile true _ => 509
  | NFile false _ => 436          (* 0664 *)
  end.
Definition git_zip_mode (n : node) : Z :=
  match n with
  | NDir _ | NSub => 0
  | NLink _ => 41471              (* 0120777 *)
  | NFile true _ => 33261         (* 0100755 *)
  | NFile false _ => 0
  end.

Definition git_entry (mode : node -> Z) (full : bytes) (n : node) : aent :=
  match n with
  | NDir _ | NSub => ADir (full ++ [SLASH]) (mode n)
  | NLink t => ALink full (mode n) t
  | NFile _ d => AFile full (mode n) d
  end.

(* read_tree + queue_or_write_archive_entry: lazy directories *)
Fixpoint git_walk (mode : node -> Z) (prefix : bytes) (filters : list bytes) (base : bytes) (f : forest) : list aent :=
  match f with
  | FNil => []
  | FCons name n rest =>
    let p := join base name in
    (match n with
     | NDir sub =>
       match git_walk mode prefix filters p sub with
       | [] => []
       | inner => git_entry mode (prefix ++ p) n :: inner
       end
     | _ => if git_sel n filters p then [git_entry mode (prefix ++ p) n] else []
     end) ++ git_walk mode prefix filters base rest
  end.

(* path_exists for one pathspec *)
Definition git_path_exists (f : forest) (flt : bytes) : bool :=
  existsb (fun pn => git_match_entry (snd pn) (fst pn) flt) (walk [] f).

(* trailing slashes of the prefix collapse to one for its directory entry *)
Fixpoint drop_slashes (r : bytes) : bytes :=
  match r with c :: r' => if c =? SLASH then drop_slashes r' else r | [] => [] end.
Definition prefix_dir (prefix : bytes) : bytes := rev (drop_slashes (rev prefix)) ++ [SLASH].

Definition git_archive_entries (zip : bool) (commit : option bytes) (prefix : bytes) (filters : list bytes) (f : forest)
  : aerr + list aent :=
  if existsb (fun flt => match flt with [] => true | _ => false end) filters then inl ENoMatch   (* empty pathspec refused *)
  else if negb (forallb (git_path_exists f) filters) then inl ENoMatch
  else
    let mode := if zip then git_zip_mode else git_tar_mode in
    inr ((match commit with Some id => [APax id] | None => [] end) ++
         (if ends_with_slash prefix then [ADir (prefix_dir prefix) (if zip then 0%Z else 509%Z)] else []) ++
         git_walk mode prefix filters [] f).

(* the request as git sees it: <commit> / <tree> / <commit>:<path> *)
Definition git_archive (t : treeish) (format : fmt) (commit : bytes) (prefix : bytes) (filters : list bytes) (f : forest)
  : aerr + (bool * list aent) :=
  match format with
  | FBad => inl EFormat
  | _ =>
    let resolved :=
      match t with
      | TCommit => inr (Some commit, true, f)
      | TTree => inr (None, false, f)
      | TSub [] => inr (None, false, f)
      | TSub path =>
        match find_dir f (split_slash path []) with
        | inl e => inl e
        | inr sub => inr (None, false, sub)
        end
      end in
    match resolved with
    | inl e => inl e
    | inr (c, timed, tree) =>
      match git_archive_entries (match format with FZip => true | _ => false end) c prefix filters tree with
      | inl e => inl e
      | inr l => inr (timed, l)
      end
    end
  end.

Definition c50_git (t : treeish) (format : fmt) (commit_hex : string) (time : Z) (prefix : string)
           (filters : list string) (f : forest) : out :=
  result_out format time (git_archive t format (bytes_of_string commit_hex) (unhex prefix) (map unhex filters) f).
