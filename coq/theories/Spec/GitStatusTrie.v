(* Spec/GitStatusTrie.v — S for C27 on the tree-shaped state of Model/StatusTrie.v:
   git's ignore verdict is the one of Spec/GitIgnore.v (dir.c, with
   .git/info/exclude), and an entry flagged skip-worktree is never compared
   with the working tree (diff-lib.c run_diff_files: ce_skip_worktree -> continue)
   while its HEAD-vs-index side is reported as usual.
   Validated against /usr/bin/git on every run. *)
From Coq Require Import List NArith Bool String.
From GoGit Require Import Base.Out Model.Status Model.StatusTrie Spec.GitStatus.
From GoGit Require Spec.GitIgnore.
Import ListNotations.
Local Open Scope N_scope.

Definition ign_git (ts : tstate) (p : dpath) : bool := GitIgnore.git_ignored (ts_excl ts) (ts_ign ts ++ ts_ign_idx ts) p false.
Definition flat_git (ts : tstate) : state := flat_of ts (ign_git ts).

Definition git_records_ts (ts : tstate) (p : path) : list (path * code * code) :=
  let s := flat_git ts in
  (let x := git_x s p in
   let y := if mem_path p (ts_skip ts) then CUnmod else git_y s p in
   if code_eqb x CUnmod && code_eqb y CUnmod then [] else [(p, x, y)])
  ++ (if git_untracked s p then [(p, CUntracked, CUntracked)] else []).

Definition git_status_ts (ts : tstate) (ps : list path) : list (path * code * code) :=
  flat_map (git_records_ts ts) ps.

Definition c27_git_trie_run (ts : tstate) : out :=
  OOk (map out_rec (git_status_ts ts (all_paths_ts ts))).
