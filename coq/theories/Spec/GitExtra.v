(* Spec/GitExtra.v — S for C02, extra headers: what git 2.39 itself takes to be
   the extra headers of a commit: commit.c read_commit_extra_header_lines with
   exclude = {gpgsig, gpgsig-sha256} (read_commit_extra_headers(commit,
   exclude_gpgsig), what `git commit --amend` carries over into the new
   commit), and add_extra_header, the way git writes them back.
   Transcribed from git's source; trusted only as far as the C-git suite
   compares it with `git commit --amend` of the git 2.39.5 binary.  Inputs
   with a NUL byte are outside the transcription (keys are C strings). *)
From Coq Require Import List NArith ZArith Bool String.
From GoGit Require Import Base.Out Model.ObjLines Model.Commit Spec.ObjWf.
Import ListNotations.
Local Open Scope N_scope.

(* standard_header_field: exact keys *)
Definition git_std_field (k : bytes) : bool :=
  beqb k k_tree || beqb k k_parent || beqb k k_author || beqb k k_committer || beqb k k_encoding.
(* excluded_header_field with exclude_gpgsig *)
Definition git_excl_field (k : bytes) : bool := beqb k k_gpgsig || beqb k k_gpgsig256.

Definition flush_extra (acc : list (bytes * bytes)) (it : option (bytes * bytes)) : list (bytes * bytes) :=
  match it with Some kv => acc ++ [kv] | None => acc end.

(* the loop over the lines of the buffer; [it] = the header being assembled
   (key, strbuf).  A line without any space is a header whose key is the whole
   line, LF included, and is NOT filtered (git's `else if`). *)
Fixpoint git_extras_run (ls : list bytes) (acc : list (bytes * bytes)) (it : option (bytes * bytes))
  : list (bytes * bytes) :=
  match ls with
  | [] => flush_extra acc it
  | l :: r =>
    if first_is LF l then flush_extra acc it
    else if first_is SPC l then
      git_extras_run r acc (match it with Some (k, b) => Some (k, b ++ tl l) | None => None end)
    else
      let acc' := flush_extra acc it in
      match index_of SPC l with
      | None => git_extras_run r acc' (Some (l, []))
      | Some i =>
        let k := firstn i l in
        if git_std_field k || git_excl_field k then git_extras_run r acc' None
        else git_extras_run r acc' (Some (k, skipn (S i) l))
      end
  end.

Definition git_extras (raw : bytes) : list (bytes * bytes) := git_extras_run (split_lines raw) [] None.

(* add_extra_header: key, then every line of the value prefixed by one space
   (strbuf_add_lines + strbuf_complete_line); "key LF" for an empty value *)
Definition git_render_extra (kv : bytes * bytes) : bytes :=
  let '(k, v) := kv in
  match v with
  | [] => k ++ [LF]
  | _ => k ++ List.concat (map (fun ln => SPC :: ln) (split_lines v)) ++ (if ends_nl v then [] else [LF])
  end.

(* ---- boolean clause: where go-git's ExtraHeaders are git's extra headers.
   Every header line is LF-terminated (go-git drops a last header that ends
   with the object), every header line that is not a continuation has a space
   (git takes a space-less line, LF included, as a key and does not filter it),
   and a continuation line never follows a standard header (tree, parent,
   author, committer, encoding: git drops such a line, go-git turns it into an
   extra header with an empty key).  [ok] = a continuation may come now. ---- *)
Fixpoint extras_guard_run (ok : bool) (ls : list bytes) : bool :=
  match ls with
  | [] => true
  | l :: r =>
    if first_is LF l then true
    else if first_is SPC l then ok && extras_guard_run ok r
    else match index_of SPC l with
         | None => false
         | Some i => extras_guard_run (negb (git_std_field (firstn i l))) r
         end
  end.
Definition extras_guard (raw : bytes) : bool :=
  forallb ends_nl (header_of (split_lines raw)) &&
  match split_lines raw with _ :: r => extras_guard_run false r | [] => true end.

(* go-git's view of one of git's extra headers: the value without its trailing LFs *)
Definition extra_norm (kv : bytes * bytes) : bytes * bytes := (fst kv, trim_right LF (snd kv)).

(* the clause, and which part of it fails (finding classes of the check): header
   lines LF-terminated; every non-continuation header line has a space *)
Definition extras_terminated (raw : bytes) : bool := forallb ends_nl (header_of (split_lines raw)).
Definition extras_spaced (raw : bytes) : bool :=
  forallb (fun l => first_is SPC l || has_byte SPC l) (header_of (split_lines raw)).
Definition c02_extras_guard (raw : string) : out :=
  let b := unhex raw in OList [OBool (extras_guard b); OBool (extras_terminated b); OBool (extras_spaced b)].
Definition c02_spec_extras (raw : string) : out :=
  let xs := git_extras (unhex raw) in
  OList [OList (map (fun kv => OList [OBytes (fst kv); OBytes (snd kv)]) xs);
         OBytes (List.concat (map git_render_extra xs))].
