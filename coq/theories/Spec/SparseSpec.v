(* Spec/SparseSpec.v — S for C32: "path p lies inside directory d by whole
   path components", declaratively, and by component lists (strings.Split). *)
From Coq Require Import List NArith Bool.
From GoGit Require Import Base.Out.
Import ListNotations.
Local Open Scope N_scope.

Definition SEP : N := 47.

(* p is d itself or d/<something> *)
Definition Inside (d p : bytes) : Prop := p = d \/ exists rest, p = d ++ SEP :: rest.
Definition Selected (D : list bytes) (p : bytes) : Prop := exists d, In d D /\ Inside d p.

(* strings.Split(s, "/") *)
Fixpoint split_go (cur s : bytes) : list bytes :=
  match s with
  | [] => [cur]
  | c :: r => if c =? SEP then cur :: split_go [] r else split_go (cur ++ [c]) r
  end.
Definition components (s : bytes) : list bytes := split_go [] s.

(* d's components are a prefix of p's components *)
Definition ComponentPrefix (d p : bytes) : Prop := exists l, components p = components d ++ l.
