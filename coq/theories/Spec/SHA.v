(* Spec/SHA.v — executable SHA-1 and SHA-256 (FIPS 180-4) over byte lists.
   Shared by every property whose model names objects or checks trailers
   (C01 C05 and later batches).  Validated on every run of ./check C01 / C05
   against Go's crypto/sha1, crypto/sha256 and `git hash-object`.

   Interface
     sha1   : bytes -> bytes      (20 bytes)
     sha256 : bytes -> bytes      (32 bytes)
     sha1_state / sha256_state : the chaining value after absorbing a
       block-aligned prefix (used for Merkle–Damgard extension arguments)
   Executable definitions only; lemmas are in Proofs/SHA.v. *)
From Coq Require Import List NArith.
From GoGit Require Import Base.Out.
Import ListNotations.
Local Open Scope N_scope.

(* ---------- 32-bit word arithmetic ---------- *)
Definition mask32 : N := 4294967295.
Definition w32 (x : N) : N := N.land x mask32.
Definition add32 (a b : N) : N := w32 (a + b).
Definition rotl (n x : N) : N := w32 (N.lor (N.shiftl x n) (N.shiftr x (32 - n))).
Definition rotr (n x : N) : N := w32 (N.lor (N.shiftr x n) (N.shiftl x (32 - n))).
Definition not32 (x : N) : N := N.lxor x mask32.

(* big-endian 32-bit words of a byte list (a trailing partial word is dropped;
   callers only pass whole blocks) *)
Fixpoint be32s (l : bytes) : list N :=
  match l with
  | a :: b :: c :: d :: r =>
      (N.shiftl a 24 + N.shiftl b 16 + N.shiftl c 8 + d) :: be32s r
  | _ => []
  end.

Definition be32 (x : N) : bytes :=
  [N.land (N.shiftr x 24) 255; N.land (N.shiftr x 16) 255; N.land (N.shiftr x 8) 255; N.land x 255].

Definition be64 (x : N) : bytes :=
  map (fun i => N.land (N.shiftr x (8 * i)) 255) [7;6;5;4;3;2;1;0].

(* ---------- padding and blocking (shared: both use 64-byte blocks) ---------- *)
(* the padding suffix depends on the message length only *)
Definition pad_tail (len : N) : bytes :=
  let k := N.to_nat ((119 - (len mod 64)) mod 64) in
  [128] ++ repeat 0 k ++ be64 (8 * len).

Definition pad (m : bytes) : bytes := m ++ pad_tail (N.of_nat (List.length m)).

(* split into 64-byte blocks; fuel = an upper bound of the number of blocks *)
Fixpoint blocks (fuel : nat) (l : bytes) : list bytes :=
  match fuel with
  | O => []
  | S f => match l with
           | [] => []
           | _ => firstn 64 l :: blocks f (skipn 64 l)
           end
  end.

Definition blocks_of (l : bytes) : list bytes := blocks (S (Nat.div (List.length l) 64)) l.

(* ---------- SHA-1 ---------- *)
Definition st5 := (N * N * N * N * N)%type.

(* message schedule: [rev16] holds the last 16 words, newest first *)
Fixpoint sched1 (n : nat) (rev16 : list N) (acc : list N) : list N :=
  match n with
  | O => rev acc
  | S n' =>
    let w := rotl 1 (N.lxor (N.lxor (nth 2 rev16 0) (nth 7 rev16 0))
                            (N.lxor (nth 13 rev16 0) (nth 15 rev16 0))) in
    sched1 n' (w :: firstn 15 rev16) (w :: acc)
  end.

Definition expand1 (ws : list N) : list N := ws ++ sched1 64 (rev ws) [].

Definition round1 (t : nat) (st : st5) (w : N) : st5 :=
  let '(a, b, c, d, e) := st in
  let '(f, k) :=
    if Nat.ltb t 20 then (N.lor (N.land b c) (N.land (not32 b) d), 1518500249)
    else if Nat.ltb t 40 then (N.lxor (N.lxor b c) d, 1859775393)
    else if Nat.ltb t 60 then (N.lor (N.lor (N.land b c) (N.land b d)) (N.land c d), 2400959708)
    else (N.lxor (N.lxor b c) d, 3395469782) in
  let tmp := add32 (add32 (add32 (add32 (rotl 5 a) f) e) k) w in
  (tmp, a, rotl 30 b, c, d).

Fixpoint rounds1 (t : nat) (ws : list N) (st : st5) : st5 :=
  match ws with
  | [] => st
  | w :: r => rounds1 (S t) r (round1 t st w)
  end.

Definition block1 (h : st5) (blk : bytes) : st5 :=
  let '(a, b, c, d, e) := h in
  let '(a', b', c', d', e') := rounds1 0 (expand1 (be32s blk)) h in
  (add32 a a', add32 b b', add32 c c', add32 d d', add32 e e').

Definition iv1 : st5 := (1732584193, 4023233417, 2562383102, 271733878, 3285377520).

(* chaining value after absorbing [l] (whole blocks) starting from [st] *)
Definition absorb1 (st : st5) (l : bytes) : st5 := fold_left block1 (blocks_of l) st.

Definition out1 (st : st5) : bytes :=
  let '(a, b, c, d, e) := st in be32 a ++ be32 b ++ be32 c ++ be32 d ++ be32 e.

Definition sha1_state (m : bytes) : st5 := absorb1 iv1 m.
Definition sha1 (m : bytes) : bytes := out1 (absorb1 iv1 (pad m)).

(* ---------- SHA-256 ---------- *)
Definition K256 : list N :=
 [1116352408; 1899447441; 3049323471; 3921009573; 961987163; 1508970993; 2453635748; 2870763221;
  3624381080; 310598401; 607225278; 1426881987; 1925078388; 2162078206; 2614888103; 3248222580;
  3835390401; 4022224774; 264347078; 604807628; 770255983; 1249150122; 1555081692; 1996064986;
  2554220882; 2821834349; 2952996808; 3210313671; 3336571891; 3584528711; 113926993; 338241895;
  666307205; 773529912; 1294757372; 1396182291; 1695183700; 1986661051; 2177026350; 2456956037;
  2730485921; 2820302411; 3259730800; 3345764771; 3516065817; 3600352804; 4094571909; 275423344;
  430227734; 506948616; 659060556; 883997877; 958139571; 1322822218; 1537002063; 1747873779;
  1955562222; 2024104815; 2227730452; 2361852424; 2428436474; 2756734187; 3204031479; 3329325298].

Definition ssig0 (x : N) : N := N.lxor (N.lxor (rotr 7 x) (rotr 18 x)) (N.shiftr x 3).
Definition ssig1 (x : N) : N := N.lxor (N.lxor (rotr 17 x) (rotr 19 x)) (N.shiftr x 10).
Definition bsig0 (x : N) : N := N.lxor (N.lxor (rotr 2 x) (rotr 13 x)) (rotr 22 x).
Definition bsig1 (x : N) : N := N.lxor (N.lxor (rotr 6 x) (rotr 11 x)) (rotr 25 x).

(* W_t = ssig1 W_{t-2} + W_{t-7} + ssig0 W_{t-15} + W_{t-16}; newest first *)
Fixpoint sched256 (n : nat) (rev16 : list N) (acc : list N) : list N :=
  match n with
  | O => rev acc
  | S n' =>
    let w := add32 (add32 (add32 (ssig1 (nth 1 rev16 0)) (nth 6 rev16 0)) (ssig0 (nth 14 rev16 0))) (nth 15 rev16 0) in
    sched256 n' (w :: firstn 15 rev16) (w :: acc)
  end.

Definition expand256 (ws : list N) : list N := ws ++ sched256 48 (rev ws) [].

Definition st8 := (N * N * N * N * N * N * N * N)%type.

Definition round256 (st : st8) (kw : N * N) : st8 :=
  let '(a, b, c, d, e, f, g, h) := st in
  let '(k, w) := kw in
  let ch := N.lxor (N.land e f) (N.land (not32 e) g) in
  let maj := N.lxor (N.lxor (N.land a b) (N.land a c)) (N.land b c) in
  let t1 := add32 (add32 (add32 (add32 h (bsig1 e)) ch) k) w in
  let t2 := add32 (bsig0 a) maj in
  (add32 t1 t2, a, b, c, add32 d t1, e, f, g).

Definition block256 (h0 : st8) (blk : bytes) : st8 :=
  let '(a, b, c, d, e, f, g, h) := h0 in
  let '(a', b', c', d', e', f', g', h') :=
    fold_left round256 (combine K256 (expand256 (be32s blk))) h0 in
  (add32 a a', add32 b b', add32 c c', add32 d d', add32 e e', add32 f f', add32 g g', add32 h h').

Definition iv256 : st8 :=
  (1779033703, 3144134277, 1013904242, 2773480762, 1359893119, 2600822924, 528734635, 1541459225).

Definition absorb256 (st : st8) (l : bytes) : st8 := fold_left block256 (blocks_of l) st.

Definition out256 (st : st8) : bytes :=
  let '(a, b, c, d, e, f, g, h) := st in
  be32 a ++ be32 b ++ be32 c ++ be32 d ++ be32 e ++ be32 f ++ be32 g ++ be32 h.

Definition sha256_state (m : bytes) : st8 := absorb256 iv256 m.
Definition sha256 (m : bytes) : bytes := out256 (absorb256 iv256 (pad m)).

(* ---------- object formats ---------- *)
Inductive hfmt := FSha1 | FSha256.
Definition H (f : hfmt) (m : bytes) : bytes :=
  match f with FSha1 => sha1 m | FSha256 => sha256 m end.
Definition hsize (f : hfmt) : nat := match f with FSha1 => 20%nat | FSha256 => 32%nat end.

(* correspondence / validation entry points: hex message -> digest *)
From Coq Require Import String.
Definition sha_run (alg : string) (m : string) : out :=
  if String.eqb alg "sha1" then OBytes (sha1 (unhex m))
  else if String.eqb alg "sha256" then OBytes (sha256 (unhex m))
  else OErr "alg".
