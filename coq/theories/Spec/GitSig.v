(* Spec/GitSig.v — S for C03: what git 2.39 verifies.
   Commits (verify-commit): commit.c parse_buffer_signed_by_header with the
   header of the repository's object format ("gpgsig" in a SHA-1 repository,
   "gpgsig-sha256" in a SHA-256 repository) — one pass over the
   lines; the signature header and its continuation lines go to the signature
   buffer, other "gpgsig"-prefixed headers and their continuation lines are
   dropped, everything else goes to the payload, the body is copied verbatim.
   Tags (verify-tag, the same in SHA-1 and SHA-256 repositories):
   gpg-interface.c parse_signature = parse_signed_buffer
   (last line that starts a signature block, searched in the WHOLE object),
   payload = remove_signature(buf[:match]) with commit.c's two-slot
   remove_signature, signature = buf[match:].
   Transcribed from git's source and validated against the git 2.39.5 binary
   (fake gpg.program dumping payload and signature) on every check (C-git). *)
From Coq Require Import List NArith ZArith Bool String.
From GoGit Require Import Base.Out Model.ObjLines Model.Commit Model.Tag.
Import ListNotations.
Local Open Scope N_scope.

(* ---- parse_buffer_signed_by_header ---- *)
(* returns (payload, signature, saw_signature) *)
Fixpoint pbsh (hdr : bytes) (in_sig other : bool) (ls : list bytes) : bytes * bytes * bool :=
  match ls with
  | [] => ([], [], false)
  | l :: r =>
    if in_sig && first_is SPC l then
      let '(p, s, _) := pbsh hdr true other r in (p, tl l ++ s, true)
    else if starts_with (hdr ++ [SPC]) l then
      let '(p, s, _) := pbsh hdr true false r in (p, skipn (List.length hdr + 1) l ++ s, true)
    else
      let other' := if starts_with k_gpgsig l then true
                    else if other && negb (first_is SPC l) then false else other in
      if first_is LF l then ((if other' then [] else List.concat (l :: r)), [], false)
      else
        let '(p, s, f) := pbsh hdr false other' r in
        ((if other' then p else l ++ p), s, f)
  end.

Definition git_commit_payload (raw : bytes) : bytes * bytes * bool :=
  pbsh k_gpgsig false false (split_lines raw).

(* the repository's object format selects THE signature header
   (commit.c gpg_sig_headers[hash_algo_by_ptr(algop)]): "gpgsig" in a SHA-1
   repository, "gpgsig-sha256" in a SHA-256 repository; the other one is then
   just another gpgsig-prefixed header, dropped from the payload *)
Inductive repo_fmt := SHA1 | SHA256.
Definition sig_header_of (f : repo_fmt) : bytes := match f with SHA1 => k_gpgsig | SHA256 => k_gpgsig256 end.
Definition git_commit_payload_fmt (f : repo_fmt) (raw : bytes) : bytes * bytes * bool :=
  pbsh (sig_header_of f) false false (split_lines raw).

(* ---- parse_signed_buffer: byte offset of the last signature-block line, or size ---- *)
Definition git_parse_signed_buffer (raw : bytes) : nat :=
  match parse_signed_bytes raw with Some n => n | None => List.length raw end.

(* ---- remove_signature (two slots) on the lines of buf[:match] ----
   [k] = sigp - sigs, slots as (start line index, end line index).  A third
   signature region writes past the array (undefined behaviour; git 2.39.5
   aborts with "stack smashing detected"): [None]. *)
Definition slot := option (nat * nat).
Definition is_git_sig_header (l : bytes) : bool :=
  starts_with (k_gpgsig ++ [SPC]) l || starts_with (k_gpgsig256 ++ [SPC]) l.

Fixpoint rs_scan (i : nat) (in_sig : bool) (k : nat) (s0 s1 : slot) (ls : list bytes)
  : option (slot * slot) :=
  match ls with
  | [] => Some (s0, s1)
  | l :: r =>
    if in_sig && first_is SPC l then
      (* sigp->end = next *)
      match k with
      | O => rs_scan (S i) true k (match s0 with Some (a, _) => Some (a, S i) | None => Some (O, S i) end) s1 r
      | S O => rs_scan (S i) true k s0 (match s1 with Some (a, _) => Some (a, S i) | None => Some (O, S i) end) r
      | _ => None
      end
    else if starts_with k_gpgsig l then
      if is_git_sig_header l then
        match k with
        | O => rs_scan (S i) true k (Some (i, S i)) s1 r
        | S O => rs_scan (S i) true k s0 (Some (i, S i)) r
        | _ => None
        end
      else rs_scan (S i) in_sig k s0 s1 r
    else
      let k' := if in_sig && negb (Nat.eqb k 2) then S k else k in
      if first_is LF l then Some (s0, s1)     (* the remainder is the body *)
      else rs_scan (S i) false k' s0 s1 r
  end.

Definition in_slot (s : slot) (i : nat) : bool :=
  match s with Some (a, b) => Nat.leb a i && Nat.ltb i b | None => false end.

Fixpoint drop_slots (i : nat) (s0 s1 : slot) (ls : list bytes) : bytes :=
  match ls with
  | [] => []
  | l :: r => (if in_slot s0 i || in_slot s1 i then [] else l) ++ drop_slots (S i) s0 s1 r
  end.

Definition git_remove_signature (b : bytes) : option bytes :=
  let ls := split_lines b in
  match rs_scan 0 false 0 None None ls with
  | Some (s0, s1) => Some (drop_slots 0 s0 s1 ls)
  | None => None
  end.

(* parse_signature: None = "no signature found"; Some None = undefined *)
Definition git_tag_payload (raw : bytes) : option (option (bytes * bytes)) :=
  match parse_signed_bytes raw with
  | None => None
  | Some m =>
    Some (match git_remove_signature (firstn m raw) with
          | Some p => Some (p, skipn m raw)
          | None => None
          end)
  end.

(* ---- observables for the C-git comparison ---- *)
Definition c03_spec_commit (raw : string) : out :=
  let '(p, s, f) := git_commit_payload (unhex raw) in
  if f then OOk [OBytes p; OBytes s] else OSym "nosig".
Definition c03_spec_commit256 (raw : string) : out :=
  let '(p, s, f) := git_commit_payload_fmt SHA256 (unhex raw) in
  if f then OOk [OBytes p; OBytes s] else OSym "nosig".
Definition c03_spec_tag (raw : string) : out :=
  match git_tag_payload (unhex raw) with
  | None => OSym "nosig"
  | Some None => OSym "undefined"
  | Some (Some (p, s)) => OOk [OBytes p; OBytes s]
  end.
