(* Model/FetchProto.v — G for C36.  Executable definitions only.

   (a) remote.go Remote.fetch reference logic: referenceStorageFromRefs,
       calculateRefs / doCalculateRefs (exact-hash, wildcard and short-name
       sources, ExpandRef, symbolic references), getWants, pruneRemotes,
       updateLocalReferenceStorage, buildFetchedTags, the up-to-date verdict.
   (b) plumbing/transport/negotiate.go NegotiatePack's round loop as a
       transition system: have batches (nextFlush), inVein/maxInVein,
       gotContinue/gotReady, sendDoneAfterReady, stateless common re-sending,
       applyServerACKs — the server is any ACK script.
   (c) plumbing/transport/upload_pack.go getShallowCommits (depth boundary).
   (d) plumbing/transport/upload_pack.go serveFetchV2: which boundary the
       history is grafted at (the client's old shallow commits, or the new
       ones of a deepen — an EMPTY new boundary means full history), the two
       views whose difference is sent to an already-shallow client,
       shallow-info (unshallowedCommits), and the client's updateShallow.

   Names are byte strings, hashes abstract ids, stores Model/RevList's. *)
From Coq Require Import List NArith ZArith Bool String.
From GoGit Require Import Base.Out Model.RefSpec Model.RevList Model.PushRules.
Import ListNotations.
Local Open Scope N_scope.

(* ------------------------------------------------------------------ (a) *)
Inductive tagmode := TagFollowing | AllTags | NoTags.
Record fopts := mkFO { fo_specs : list bytes; fo_tags : tagmode; fo_force : bool;
                       fo_prune : bool; fo_depth : nat }.

Inductive ferr := FInvalid | FRefNotFound | FFail.
Inductive fres (A : Type) := FOk (a : A) | FErr (e : ferr).
Arguments FOk {A} _.  Arguments FErr {A} _.

Definition PEELED : bytes := s2b "^{}".
Definition REFS : bytes := s2b "refs/".
Definition ALL_TAGS_SPEC : bytes := s2b "refs/tags/*:refs/tags/*".

(* referenceStorageFromRefs(refs, filterPeeled = true) *)
Definition adv_refs (rs : refs) : refs := filter (fun r => negb (has_suffix PEELED (fst r))) rs.

(* storer.ResolveReference keeping the name of the reference that holds the hash *)
Fixpoint resolve_named (fuel : nat) (rs : refs) (n : bytes) : option (bytes * oid) :=
  match fuel with
  | O => None
  | S f => match ref_get rs n with
           | None => None
           | Some (RHash h) => Some (n, h)
           | Some (RSym t) => resolve_named f rs t
           end
  end.

(* plumbing.RefRevParseRules *)
Definition rev_parse_names (s : bytes) : list bytes :=
  [s; s2b "refs/" ++ s; s2b "refs/tags/" ++ s; s2b "refs/heads/" ++ s; s2b "refs/remotes/" ++ s;
   s2b "refs/remotes/" ++ s ++ s2b "/HEAD"].

Fixpoint first_resolved (rs : refs) (names : list bytes) : option (bytes * oid) :=
  match names with
  | [] => None
  | n :: r => match resolve_named (S (List.length rs)) rs n with
              | Some x => Some x
              | None => first_resolved rs r
              end
  end.
Definition expand_ref (rs : refs) (s : bytes) : option (bytes * oid) := first_resolved rs (rev_parse_names s).

(* the fetched-reference map (memory.ReferenceStorage): last write wins *)
Definition fmap := list (bytes * oid).
Fixpoint fmap_set (m : fmap) (n : bytes) (h : oid) : fmap :=
  match m with
  | [] => [(n, h)]
  | (k, v) :: r => if beq_bytes k n then (k, h) :: r else (k, v) :: fmap_set r n h
  end.

(* onMatched over the references a wildcard refspec matches *)
Fixpoint match_all (s : bytes) (remote iter : refs) (acc : list (bytes * oid)) (m : fmap)
  : option (list (bytes * oid) * fmap) :=
  match iter with
  | [] => Some (acc, m)
  | (n, t) :: r =>
    if negb (rs_match s n) then match_all s remote r acc m else
    match t with
    | RHash h => match_all s remote r (acc ++ [(n, h)]) (fmap_set m n h)
    | RSym _ => match resolve_named (S (List.length remote)) remote n with
                | Some (_, h) => match_all s remote r (acc ++ [(n, h)]) (fmap_set m n h)
                | None => None
                end
    end
  end.

(* doCalculateRefs *)
Definition do_calc (hexes : list (bytes * oid)) (s : bytes) (remote : refs) (m : fmap)
  : fres (list (bytes * oid) * fmap) :=
  if is_hash_text (rs_src s) then
    let h := match hex_lookup hexes (rs_src s) with Some h => h | None => 0 end in
    FOk ([(rs_dst s [], h)], fmap_set m (rs_dst s []) h)
  else if rs_wild s then
    match match_all s remote remote [] m with
    | Some x => FOk x
    | None => FErr FFail
    end
  else
    match expand_ref remote (rs_src s) with
    | Some (n, h) => FOk ([(n, h)], fmap_set m n h)
    | None => FErr FRefNotFound
    end.

Fixpoint calc_refs (hexes : list (bytes * oid)) (specs : list bytes) (remote : refs) (m : fmap)
  : fres (list (list (bytes * oid)) * fmap) :=
  match specs with
  | [] => FOk ([], m)
  | s :: r => match do_calc hexes s remote m with
              | FErr e => FErr e
              | FOk (l, m') => match calc_refs hexes r remote m' with
                               | FErr e => FErr e
                               | FOk (ls, m'') => FOk (l :: ls, m'')
                               end
              end
  end.

(* getWants *)
Definition get_wants (client : store) (sh : list oid) (depth : nat) (m : fmap) : list oid :=
  let shallow_mode := negb (Nat.eqb depth 1) && negb (Nat.eqb (List.length sh) 0) in
  fold_right (fun nh acc =>
                let h := snd nh in
                if (match get client h with Some _ => false | None => true end) || shallow_mode
                then (if mem h acc then acc else h :: acc) else acc) [] m.

(* local reference store *)
Fixpoint ref_set (rs : refs) (n : bytes) (t : rtarget) : refs :=
  match rs with
  | [] => [(n, t)]
  | (k, v) :: r => if beq_bytes k n then (k, t) :: r else (k, v) :: ref_set r n t
  end.
Fixpoint ref_del (rs : refs) (n : bytes) : refs :=
  match rs with
  | [] => []
  | (k, v) :: r => if beq_bytes k n then ref_del r n else (k, v) :: ref_del r n
  end.

(* pruneRemotes: the local references are listed once, before any removal *)
Fixpoint prune_spec (rv : bytes) (remote : refs) (iter : refs) (local : refs) (changed : bool) : refs * bool :=
  match iter with
  | [] => (local, changed)
  | (n, _) :: r =>
    if rs_match rv n then
      match ref_get remote (rs_dst rv n) with
      | None => prune_spec rv remote r (ref_del local n) true
      | Some _ => prune_spec rv remote r local changed
      end
    else prune_spec rv remote r local changed
  end.
Fixpoint prune_remotes (specs : list bytes) (remote snapshot local : refs) (changed : bool) : refs * bool :=
  match specs with
  | [] => (local, changed)
  | s :: r => let '(l', c') := prune_spec (rs_reverse s) remote snapshot local changed in
              prune_remotes r remote snapshot l' c'
  end.

Definition is_tag_name (n : bytes) : bool := has_prefix TAGS n.
Definition target_hash (t : rtarget) : oid := match t with RHash h => h | RSym _ => 0 end.

(* checkAndUpdateReferenceStorerIfNeeded on the memory reference store.
   None = ErrReferenceHasChanged *)
Definition check_and_update (local : refs) (n : bytes) (h : oid) (old : option oid) : option (refs * bool) :=
  match ref_get local n with
  | Some (RHash h') =>
    if h' =? h then Some (local, false)
    else match old with
         | Some oh => if h' =? oh then Some (ref_set local n (RHash h), true) else None
         | None => Some (ref_set local n (RHash h), true)
         end
  | Some (RSym _) =>
    match old with
    | Some oh => if 0 =? oh then Some (ref_set local n (RHash h), true) else None
    | None => Some (ref_set local n (RHash h), true)
    end
  | None => Some (ref_set local n (RHash h), true)
  end.

Record ustate := mkU { u_local : refs; u_updated : bool; u_force_needed : bool }.

(* the loop body of updateLocalReferenceStorage for one fetched reference *)
Definition update_one (st : store) (sh : list oid) (force : bool) (spec : bytes) (nh : bytes * oid) (u : ustate)
  : option ustate :=
  let raw := rs_dst spec (fst nh) in
  let named := if has_prefix REFS raw then Some raw
               else if is_hash_text raw then None else Some (HEADS ++ raw) in
  match named with
  | None => Some u
  | Some lname =>
    let old := resolve_named (S (List.length (u_local u))) (u_local u) lname in
    let forced := force || rs_force spec in
    match old with
    | Some (oname, oh) =>
      if is_tag_name lname && negb (oh =? snd nh) && negb forced then Some (mkU (u_local u) (u_updated u) true)
      else
        let ffres := if negb (is_tag_name oname) && negb forced then
                       match is_ff st sh oh (snd nh) with Ok b => Some b | Err _ => None end
                     else Some true in
        match ffres with
        | None => None
        | Some false => Some (mkU (u_local u) (u_updated u) true)
        | Some true =>
          match check_and_update (u_local u) lname (snd nh) (Some oh) with
          | None => None
          | Some (l', c) => Some (mkU l' (u_updated u || c) (u_force_needed u))
          end
        end
    | None =>
      match check_and_update (u_local u) lname (snd nh) None with
      | None => None
      | Some (l', c) => Some (mkU l' (u_updated u || c) (u_force_needed u))
      end
    end
  end.

Fixpoint update_refs (st : store) (sh : list oid) (force : bool) (spec : bytes) (l : list (bytes * oid)) (u : ustate)
  : option ustate :=
  match l with
  | [] => Some u
  | nh :: r => match update_one st sh force spec nh u with
               | Some u' => update_refs st sh force spec r u'
               | None => None
               end
  end.

Fixpoint update_specs (st : store) (sh : list oid) (force : bool) (specs : list bytes)
         (per : list (list (bytes * oid))) (u : ustate) : option ustate :=
  match specs, per with
  | s :: r, l :: pr => match update_refs st sh force s l u with
                       | Some u' => update_specs st sh force r pr u'
                       | None => None
                       end
  | _, _ => Some u
  end.

(* buildFetchedTags *)
Fixpoint build_tags (st : store) (all_tags force : bool) (tags : list (bytes * oid)) (u : ustate) : ustate :=
  match tags with
  | [] => u
  | (n, h) :: r =>
    if negb (is_tag_name n) then build_tags st all_tags force r u else
    match get st h with
    | None => build_tags st all_tags force r u
    | Some _ =>
      let cur := ref_get (u_local u) n in
      let differs := match cur with Some t => negb (target_hash t =? h) | None => false end in
      if differs && negb all_tags then build_tags st all_tags force r u
      else if differs && negb force then build_tags st all_tags force r (mkU (u_local u) (u_updated u) true)
      else
        let same := match cur with Some (RHash h') => h' =? h | _ => false end in
        if same then build_tags st all_tags force r u
        else build_tags st all_tags force r (mkU (ref_set (u_local u) n (RHash h)) true (u_force_needed u))
    end
  end.

Definition hash_refs (rs : refs) : list (bytes * oid) :=
  flat_map (fun r => match snd r with RHash h => [(fst r, h)] | RSym _ => [] end) rs.

Inductive fverdict := VOk | VUpToDate | VForceNeeded.

(* Remote.fetch from the advertisement on; the transport is assumed to deliver
   what was asked for: after a fetch with wants the client store is [server]
   (a superset of [client]) *)
Definition fetch (client server : store) (sh : list oid) (hexes : list (bytes * oid))
           (config_specs : list bytes) (local remote0 : refs) (o : fopts)
  : fres (fverdict * list oid * refs) :=
  if negb (forallb rs_valid (fo_specs o)) then FErr FInvalid else
  let specs := match fo_specs o with [] => config_specs | l => l end in
  let remote := adv_refs remote0 in
  let cspecs := match fo_tags o with AllTags => specs ++ [ALL_TAGS_SPEC] | _ => specs end in
  match calc_refs hexes cspecs remote [] with
  | FErr e => FErr e
  | FOk (per, m) =>
    let wants := get_wants client sh (fo_depth o) m in
    let st := match wants with [] => client | _ => server end in
    let '(local1, pruned) := if fo_prune o then prune_remotes specs remote local local false else (local, false) in
    match update_specs st sh (fo_force o) specs per (mkU local1 false false) with
    | None => FErr FFail
    | Some u =>
      let u' := match fo_tags o with
                | NoTags => u
                | tm => let all_wild := forallb rs_wild specs in
                        build_tags st (match tm with AllTags => true | _ => false end) (fo_force o)
                                   (if all_wild then hash_refs remote else m) u
                end in
      (* depthChanged: the shallow list is read before the fetch only when a depth
         is given, so a shallow repository fetching without depth always differs *)
      let depth_changed := Nat.eqb (fo_depth o) 0 && negb (Nat.eqb (List.length sh) 0) in
      let verdict :=
          if u_force_needed u' then VForceNeeded
          else if u_updated u' || depth_changed || pruned then VOk
          else if existsb (fun w => match get st w with Some _ => true | None => false end) wants then VOk
          else VUpToDate in
      FOk (verdict, wants, u_local u')
    end
  end.

(* ------------------------------------------------------------------ (b) *)
Definition INITIAL_FLUSH : nat := 16.
Definition PIPESAFE_FLUSH : nat := 32.
Definition LARGE_FLUSH : nat := 16384.
Definition MAX_IN_VEIN : nat := 256.

Definition next_flush (stateless : bool) (count : nat) : nat :=
  if stateless then (if Nat.ltb count LARGE_FLUSH then count * 2 else count * 11 / 10)%nat
  else (if Nat.ltb count PIPESAFE_FLUSH then count * 2 else count + PIPESAFE_FLUSH)%nat.

Inductive ackstatus := AckPlain | AckContinue | AckCommon | AckReady.
Definition ack := (oid * ackstatus)%type.

Record nstate := mkN {
  n_haves : list oid;        (* req.Haves, consumed from the END *)
  n_common : list oid;
  n_stateless_common : list oid;
  n_in_vein : nat;
  n_got_continue : bool;
  n_got_ready : bool;
  n_done_after_ready : bool;
  n_flush_at : nat;
  n_first : bool
}.

Fixpoint apply_acks (stateless : bool) (acks : list ack) (s : nstate) : nstate :=
  match acks with
  | [] => s
  | (h, stt) :: r =>
    let gc := n_got_continue s || match stt with AckPlain => false | _ => true end in
    let s1 := mkN (n_haves s) (n_common s) (n_stateless_common s) (n_in_vein s) gc (n_got_ready s)
                  (n_done_after_ready s) (n_flush_at s) (n_first s) in
    let s2 :=
      match stt with
      | AckContinue => mkN (n_haves s1) (n_common s1) (n_stateless_common s1) O gc (n_got_ready s1)
                           (n_done_after_ready s1) (n_flush_at s1) (n_first s1)
      | AckReady => mkN (n_haves s1) (n_common s1) (n_stateless_common s1) O gc true
                        (n_done_after_ready s1) (n_flush_at s1) (n_first s1)
      | AckCommon =>
        let already := mem h (n_common s1) in
        let common' := if already then n_common s1 else h :: n_common s1 in
        if stateless && negb already then
          mkN (n_haves s1) common' (n_stateless_common s1 ++ [h]) O gc (n_got_ready s1)
              (n_done_after_ready s1) (n_flush_at s1) (n_first s1)
        else mkN (n_haves s1) common' (n_stateless_common s1) (n_in_vein s1) gc (n_got_ready s1)
                 (n_done_after_ready s1) (n_flush_at s1) (n_first s1)
      | AckPlain => s1
      end in
    apply_acks stateless r s2
  end.

(* take up to n haves from the end of the list, last first *)
Fixpoint take_rev (n : nat) (rl : list oid) : list oid * list oid :=
  match n, rl with
  | S k, x :: r => let '(t, rest) := take_rev k r in (x :: t, rest)
  | _, _ => ([], rl)
  end.

Record nround := mkR { r_haves : list oid; r_done : bool; r_upreq : bool }.

Inductive nstep := NRound (r : nround) (s : nstate) | NNoChange.

(* one iteration of the for !done loop up to the point where the haves are sent *)
Definition neg_send (stateless : bool) (wants : list oid) (no_shallows : bool) (s : nstate) : nstep :=
  let pre := if stateless && negb (n_done_after_ready s) then n_stateless_common s else [] in
  let batch :=
    if n_done_after_ready s then O
    else if n_got_continue s then
           let remaining := (MAX_IN_VEIN - n_in_vein s)%nat in
           if Nat.leb remaining 0 then O else Nat.min (n_flush_at s) remaining
         else n_flush_at s in
  let '(taken, rest_rev) := take_rev batch (rev (n_haves s)) in
  let haves' := rev rest_rev in
  let in_vein' := (n_in_vein s + List.length taken)%nat in
  let done := n_done_after_ready s || Nat.eqb (List.length haves') 0
              || (n_got_continue s && Nat.leb MAX_IN_VEIN in_vein') in
  let sent := pre ++ taken in
  if forallb (fun w => mem w sent) wants && no_shallows then NNoChange
  else NRound (mkR sent done (n_first s || stateless))
              (mkN haves' (n_common s) (n_stateless_common s) in_vein' (n_got_continue s) (n_got_ready s)
                   (n_done_after_ready s) (n_flush_at s) (n_first s)).

(* after the server's answer: true = leave the loop *)
Definition neg_recv (stateless : bool) (r : nround) (acks : list ack) (s : nstate) : nstate * bool :=
  let s1 := if r_done r || negb (Nat.eqb (List.length (r_haves r)) 0) then apply_acks stateless acks s else s in
  if n_done_after_ready s1 then (s1, true) else
  let s2 := mkN (n_haves s1) (n_common s1) (n_stateless_common s1) (n_in_vein s1) (n_got_continue s1)
                (n_got_ready s1) (n_got_ready s1) (next_flush stateless (n_flush_at s1)) false in
  (s2, r_done r).

(* the server: it acknowledges a have according to a fixed table (have ->
   status), answering each round for the haves of that round *)
Fixpoint ack_lookup (t : list ack) (h : oid) : option ackstatus :=
  match t with [] => None | (k, s) :: r => if k =? h then Some s else ack_lookup r h end.

Fixpoint dedup_sorted (l : list oid) : list oid :=
  match l with
  | x :: ((y :: _) as r) => if x =? y then dedup_sorted r else x :: dedup_sorted r
  | _ => l
  end.
Definition wire_haves (l : list oid) : list oid := dedup_sorted (sort_N l).

Definition round_acks (t : list ack) (r : nround) : list ack :=
  flat_map (fun h => match ack_lookup t h with Some s => [(h, s)] | None => [] end) (wire_haves (r_haves r)).

Fixpoint negotiate (fuel : nat) (stateless : bool) (wants : list oid) (no_shallows : bool)
         (table : list ack) (s : nstate) (rounds : list nround) : option (list nround * bool) :=
  match fuel with
  | O => None
  | S f =>
    match neg_send stateless wants no_shallows s with
    | NNoChange => Some (rounds, true)
    | NRound r s1 =>
      let '(s2, stop) := neg_recv stateless r (round_acks table r) s1 in
      if stop then Some (rounds ++ [r], false)
      else negotiate f stateless wants no_shallows table s2 (rounds ++ [r])
    end
  end.

Definition neg_init (haves : list oid) : nstate :=
  mkN haves [] [] O false false false INITIAL_FLUSH true.

(* ------------------------------------------------------------------ (c) *)
(* getShallowCommits: depth-first walk with an explicit stack.

   Two peculiarities of the Go code are modelled as they are:
   - the map `depths` is keyed by *object.Commit pointers and every parent is
     decoded afresh, so a lookup of a parent never finds an entry: the pruning
     test is dead, every path is walked, and a commit's depth is the depth of
     the path it was reached by (carried here with the stacked commit);
   - the inner loop peeks with a second parents.Next() to see whether a parent
     is the last one, which consumes the following parent: of the parents
     p1 p2 p3 ... only p1, p3, p5 ... are walked (the second parent of a merge
     is never visited); the last one, when it sits at an odd position, becomes
     the current commit, the others go on the stack (LIFO). *)
Record swork := mkSW { sw_id : oid; sw_depth : nat }.

Fixpoint push_parents (d : nat) (ps : list oid) (stack : list swork) : option swork * list swork :=
  match ps with
  | [] => (None, stack)
  | [p] => (Some (mkSW p d), stack)
  | p :: _ :: rest => push_parents d rest (mkSW p d :: stack)
  end.

Fixpoint shallow_walk (fuel : nat) (st : store) (depth : nat) (cur : option swork) (heads : list oid)
         (stack : list swork) (sh un : list oid) : option (list oid * list oid) :=
  match fuel with
  | O => None
  | S f =>
    match cur with
    | None =>
      match heads with
      | h :: hs =>
        match get_commit st h with
        | Some _ => shallow_walk f st depth (Some (mkSW h 0)) hs stack sh un
        | None => shallow_walk f st depth None hs stack sh un
        end
      | [] =>
        match stack with
        | [] => Some (sh, un)
        | w :: ws => shallow_walk f st depth (Some w) [] ws sh un
        end
      end
    | Some w =>
      let d := S (sw_depth w) in
      if Nat.leb depth d then shallow_walk f st depth None heads stack (sh ++ [sw_id w]) un else
      match get_commit st (sw_id w) with
      | None => None
      | Some (_, ps, _) =>
        if forallb (fun p => match get_commit st p with Some _ => true | None => false end) ps then
          let '(nxt, stack') := push_parents d ps stack in
          shallow_walk f st depth nxt heads stack' sh (un ++ [sw_id w])
        else None
      end
    end
  end.

(* ------------------------------------------------------------------ (d) *)
(* serveFetchV2 on the final round of a fetch whose haves the server holds
   (depth > 0 = "deepen <n>"; deepen-relative/-since/-not and include-tag are
   not sent by the go-git client paths modelled here) *)
Definition diff_list (a b : list oid) : list oid := filter (fun x => negb (mem x b)) a.

Record v2out := mkV2 { vo_objs : list oid; vo_shallow : option (list oid * list oid) }.

(* the boundary the wanted history is grafted at for an already-shallow client *)
Definition v2_boundary (csh : list oid) (have_new : bool) (newb : list oid) : list oid :=
  if have_new then newb else csh.

(* unshallowedCommits *)
Definition unshallowed (csh newb new_view : list oid) : list oid :=
  filter (fun c => mem c new_view && negb (mem c newb)) csh.

Definition serve_fetch_v2 (fuel : nat) (st : store) (wants haves csh : list oid) (depth : nat) : res v2out :=
  match (if Nat.eqb depth 0 then Some (false, [])
         else match shallow_walk fuel st depth None wants [] [] [] with
              | Some (shl, _) => Some (true, shl)
              | None => None
              end) with
  | None => Err ETree
  | Some (have_new, newb) =>
    match csh with
    | _ :: _ =>
      let boundary := v2_boundary csh have_new newb in
      match objects st boundary wants [] with
      | Err e => Err e
      | Ok new_view =>
        match objects st csh haves [] with
        | Err e => Err e
        | Ok client_view =>
          Ok (mkV2 (diff_list new_view client_view)
                   (if have_new then Some (newb, unshallowed csh newb new_view) else None))
        end
      end
    | [] =>
      let graft := have_new && negb (Nat.eqb (List.length newb) 0) in
      match objects st (if graft then newb else []) wants haves with
      | Err e => Err e
      | Ok objs => Ok (mkV2 objs (if graft then Some (newb, []) else None))
      end
    end
  end.

(* the client's updateShallow *)
Fixpoint add_missing (l add : list oid) : list oid :=
  match add with [] => l | x :: r => add_missing (if mem x l then l else l ++ [x]) r end.
Fixpoint remove_first (x : oid) (l : list oid) : list oid :=
  match l with [] => [] | y :: r => if y =? x then r else y :: remove_first x r end.
Definition update_shallow (csh : list oid) (info : option (list oid * list oid)) : list oid :=
  match info with
  | None => csh
  | Some (shl, un) => fold_left (fun l x => remove_first x l) un (add_missing csh shl)
  end.

(* ---- correspondence entry points ---- *)
Definition ferr_name (e : ferr) : string :=
  match e with FInvalid => "invalid" | FRefNotFound => "ref_not_found" | FFail => "fail" end.

Fixpoint ins_ref (x : bytes * rtarget) (l : refs) : refs :=
  match l with [] => [x] | y :: r => if ble_bytes (fst x) (fst y) then x :: l else y :: ins_ref x r end.
Definition sort_refs (l : refs) : refs := fold_right ins_ref [] l.

Definition oref (r : bytes * rtarget) : out :=
  match snd r with
  | RHash h => OList [OBytes (fst r); OSym "h"; ON h]
  | RSym t => OList [OBytes (fst r); OSym "s"; OBytes t]
  end.

Definition c36_fetch (client server : store) (sh : list oid) (hexes : list (bytes * oid))
           (config_specs : list bytes) (local remote : refs) (o : fopts) : out :=
  match fetch client server sh hexes config_specs local remote o with
  | FErr FFail => OList [OSym "fail"]
  | FErr e => OList [OSym (ferr_name e)]
  | FOk (v, wants, l) =>
    OList [OSym (match v with VOk => "ok" | VUpToDate => "uptodate" | VForceNeeded => "force_needed" end);
           OList (map ON (sort_N wants)); OList (map oref (sort_refs l))]
  end.

Definition oround (r : nround) : out :=
  OList [OList (map ON (wire_haves (r_haves r))); OBool (r_done r); OBool (r_upreq r)].

Definition c36_negotiate (stateless : bool) (wants haves : list oid) (no_shallows : bool)
           (table : list ack) : out :=
  if forallb (fun w => mem w haves) wants && no_shallows then OOk [OBool true; OList []] else
  match negotiate (S (S (List.length haves))) stateless wants no_shallows table (neg_init haves) [] with
  | None => OErr "fuel"
  | Some (rounds, nochange) => OOk [OBool nochange; OList (map oround rounds)]
  end.

Definition c36_shallow (st : store) (heads : list oid) (depth : nat) (fuel : nat) : out :=
  match shallow_walk fuel st depth None heads [] [] [] with
  | None => OErr "walk"
  | Some (sh, un) => OOk [OList (map ON (sort_N sh)); OList (map ON (sort_N un))]
  end.

(* what a client holding [client] (shallow at csh) gains from a v2 fetch, and its shallow list afterwards *)
Definition c36_v2serve (st client : store) (wants haves csh : list oid) (depth fuel : nat) : out :=
  if Nat.eqb depth 0 && negb (Nat.eqb (List.length wants) 0) && forallb (fun w => mem w haves) wants
  then OErr "nochange" else
  match serve_fetch_v2 fuel st wants haves csh depth with
  | Err _ => OErr "fail"
  | Ok o =>
    let gained := filter (fun x => match get client x with Some _ => false | None => true end) (vo_objs o) in
    OOk [OList (map ON (dedup_sorted (sort_N gained)));
         OList (map ON (dedup_sorted (sort_N (update_shallow csh (vo_shallow o)))))]
  end.
