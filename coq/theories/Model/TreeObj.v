(* Model/TreeObj.v — G for C04: plumbing/object/tree.go Tree.Decode, Tree.Encode,
   Tree.Validate, treeEntrySortName, with filemode.FromBytes and
   internal/pathutil: ValidTreePath, IsDotGitName, the IsHFSDot family,
   IsNTFSDotGit and the IsNTFSDot family.  canonicalTreeMode, isValidTreeMode, asciiToLower, the filemode
   constants and maxTreeEntryNameLen come from the regenerated Gen/C04.v.
   Executable definitions only. *)
From Coq Require Import List NArith ZArith Bool String.
From GoGit Require Import Base.Out Gen.C04.
Import ListNotations.
Local Open Scope N_scope.

Record tentry := mkT { t_mode : Z; t_name : bytes; t_hash : bytes }.

(* ------------------------------------------------------------------ bytes *)
Fixpoint tcut (c : N) (s : bytes) : option (bytes * bytes) :=
  match s with
  | [] => None
  | x :: r => if x =? c then Some ([], r)
              else match tcut c r with Some (a, b) => Some (x :: a, b) | None => None end
  end.

Fixpoint beq (a b : bytes) : bool :=
  match a, b with
  | [], [] => true
  | x :: a', y :: b' => (x =? y) && beq a' b'
  | _, _ => false
  end.

(* Go string comparison a > b (bytewise lexicographic) *)
Fixpoint bgt (a b : bytes) : bool :=
  match a, b with
  | [], _ => false
  | _ :: _, [] => true
  | x :: a', y :: b' => if x =? y then bgt a' b' else y <? x
  end.

Definition lower (c : N) : N := Z.to_N (pathutil_asciiToLower (Z.of_N c)).

(* ------------------------------------------------------------------ modes *)
Definition is_octal (c : N) : bool := (48 <=? c) && (c <=? 55).
Fixpoint octal_val (s : bytes) (acc : N) : N :=
  match s with [] => acc | c :: r => octal_val r (8 * acc + (c - 48)) end.
(* filemode.FromBytes: 1..7 octal digits *)
Definition mode_of_bytes (b : bytes) : option Z :=
  let n := List.length b in
  if Nat.eqb n 0 || Nat.ltb 7 n then None
  else if forallb is_octal b then Some (Z.of_N (octal_val b 0)) else None.

(* fmt %o of a uint32 *)
Fixpoint oct_digits_rev (fuel : nat) (n : N) : bytes :=
  match fuel with
  | O => []
  | S f => (48 + n mod 8) :: (if n / 8 =? 0 then [] else oct_digits_rev f (n / 8))
  end.
Definition oct_of (m : Z) : bytes := rev (oct_digits_rev 12 (Z.to_N m)).

(* ------------------------------------------------------------------ Decode *)
Inductive derr := DMalformed | DFuel.

(* hsz = the object-id size of the repository's format (20 or 32) *)
Fixpoint decode_go (fuel : nat) (hsz : nat) (b : bytes) (acc : list tentry) : derr + list tentry :=
  match b with
  | [] => inr (rev acc)
  | _ =>
    match fuel with
    | O => inl DFuel
    | S f =>
      match tcut 32 b with
      | None => inl DMalformed                          (* missing mode terminator *)
      | Some (m, r) =>
        match mode_of_bytes m with
        | None => inl DMalformed                        (* malformed mode *)
        | Some mode =>
          match tcut 0 r with
          | None => inl DMalformed                      (* missing filename terminator *)
          | Some (name, r2) =>
            match name with
            | [] => inl DMalformed                      (* empty filename *)
            | _ =>
              if Nat.ltb (List.length r2) hsz then inl DMalformed      (* truncated object id *)
              else decode_go f hsz (skipn hsz r2)
                             (mkT (treeobj_canonicalTreeMode mode) name (firstn hsz r2) :: acc)
            end
          end
        end
      end
    end
  end.
Definition decode (hsz : nat) (b : bytes) : derr + list tentry := decode_go (S (List.length b)) hsz b [].

(* ------------------------------------------------------------------ pathutil *)
Definition is_sep (c : N) : bool := (c =? 92) || (c =? 47).        (* '\\' or '/' *)
(* strings.FieldsFunc(p, isSep) *)
Fixpoint parts_go (s : bytes) (cur : bytes) : list bytes :=
  match s with
  | [] => match cur with [] => [] | _ => [rev cur] end
  | c :: r => if is_sep c then (match cur with [] => parts_go r [] | _ => rev cur :: parts_go r [] end)
              else parts_go r (c :: cur)
  end.
Definition parts (s : bytes) : list bytes := parts_go s [].

Definition is_control (c : N) : bool := (c <? 32) || (c =? 127).

(* strings.ToLower as far as it can reach ".git" / "git~1": ASCII letters, and
   U+0130 (C4 B0), the one non-ASCII rune whose simple lower case is ASCII ('i') *)
Fixpoint lower_go (s : bytes) : bytes :=
  match s with
  | 196 :: 176 :: r => 105 :: lower_go r
  | c :: r => lower c :: lower_go r
  | [] => []
  end.
Definition DOTGIT : bytes := [46; 103; 105; 116].                  (* ".git" *)
Definition GIT1 : bytes := [103; 105; 116; 126; 49].               (* "git~1" *)
Definition is_dotgit_name (n : bytes) : bool :=
  let l := lower_go n in beq l DOTGIT || beq l GIT1.

(* hfsIgnoredCodepoints as UTF-8: U+200C..200F, U+202A..202E, U+206A..206F, U+FEFF.
   []rune(part) maps any other byte sequence to runes that are neither ignored
   nor ASCII unless the byte itself is ASCII, so scanning bytes is exact. *)
Definition is_ign (a b c : N) : bool :=
  ((a =? 226) && (b =? 128) && (((140 <=? c) && (c <=? 143)) || ((170 <=? c) && (c <=? 174)))) ||
  ((a =? 226) && (b =? 129) && ((170 <=? c) && (c <=? 175))) ||
  ((a =? 239) && (b =? 187) && (c =? 191)).
Fixpoint skip_ign (s : bytes) : bytes :=
  match s with
  | a :: b :: c :: r => if is_ign a b c then skip_ign r else s
  | _ => s
  end.
Fixpoint hfs_needle (fuel : nat) (s : bytes) (needle : bytes) : bool :=
  match fuel with
  | O => false
  | S f =>
    match needle with
    | [] => match skip_ign s with [] => true | _ => false end
    | e :: ns =>
      match skip_ign s with
      | c :: r => (c <? 128) && (lower c =? e) && hfs_needle f r ns
      | [] => false
      end
    end
  end.
(* IsHFSDot(part, needle) *)
Definition is_hfs_dot (part needle : bytes) : bool :=
  match skip_ign part with
  | c :: r => (c =? 46) && hfs_needle (S (List.length needle)) r needle
  | [] => false
  end.

Definition N_git : bytes := [103; 105; 116].
Definition N_gitmodules : bytes := [103; 105; 116; 109; 111; 100; 117; 108; 101; 115].
Definition N_gitattributes : bytes := [103; 105; 116; 97; 116; 116; 114; 105; 98; 117; 116; 101; 115].
Definition N_gitignore : bytes := [103; 105; 116; 105; 103; 110; 111; 114; 101].
Definition N_mailmap : bytes := [109; 97; 105; 108; 109; 97; 112].

(* tail of spaces and periods, possibly ended by ':' *)
Fixpoint only_spaces_periods (s : bytes) : bool :=
  match s with
  | [] => true
  | c :: r => if c =? 58 then true else if (c =? 46) || (c =? 32) then only_spaces_periods r else false
  end.

(* IsNTFSDotGit *)
(* the switch: case 1 = len >= 4 && ".git" (folded), case 2 = len >= 5 && "git~1" *)
Definition is_ntfs_dotgit (p : bytes) : bool :=
  match p with
  | a :: g :: i :: t :: r =>
    if (a =? 46) && (lower g =? 103) && (lower i =? 105) && (lower t =? 116) then only_spaces_periods r
    else match r with
         | e :: r' => (lower a =? 103) && (lower g =? 105) && (lower i =? 116) && (t =? 126) && (e =? 49) &&
                      only_spaces_periods r'
         | [] => false
         end
  | _ => false
  end.

(* ASCII case-insensitive equality of equal-length byte strings
   (strings.EqualFold against an ASCII needle of the same byte length) *)
Fixpoint fold_eq (a b : bytes) : bool :=
  match a, b with
  | [], [] => true
  | x :: a', y :: b' => (lower x =? lower y) && (x <? 128) && fold_eq a' b'
  | _, _ => false
  end.

(* pattern 3 of IsNTFSDot: the 8 leading bytes against the short-name prefix *)
Fixpoint ntfs_short (i : nat) (s : bytes) (pre : bytes) (saw_tilde : bool) : bool :=
  (* i = position (0..8); pre = remaining prefix letters *)
  match Nat.leb 8 i with
  | true => only_spaces_periods s
  | false =>
    match s with
    | [] => false
    | c :: r =>
      if saw_tilde then
        (if (c <? 48) || (57 <? c) then false else ntfs_short (S i) r (tl pre) true)
      else if c =? 126 then
        (* a tilde in the last of the 8 positions leaves its digit at index 8,
           where onlySpacesAndPeriods(8) then fails *)
        if Nat.eqb i 7 then false else
        match r with
        | d :: r' => if (d <? 49) || (57 <? d) then false else ntfs_short (S (S i)) r' (tl (tl pre)) true
        | [] => false
        end
      else if Nat.leb 6 i then false
      else if 128 <=? c then false
      else match pre with
           | e :: pre' => if lower c =? e then ntfs_short (S i) r pre' false else false
           | [] => false
           end
    end
  end.

(* IsNTFSDot(name, dotgit, shortnamePrefix) *)
Definition is_ntfs_dot (name dotgit short : bytes) : bool :=
  let n := List.length dotgit in
  (match name with
   | c :: r => (c =? 46) && Nat.leb n (List.length r) && fold_eq (firstn n r) dotgit && only_spaces_periods (skipn n r)
   | [] => false
   end) ||
  (Nat.leb 6 n && Nat.leb 8 (List.length name) && fold_eq (firstn 6 name) (firstn 6 dotgit) &&
   (match skipn 6 name with
    | t :: d :: r => (t =? 126) && (49 <=? d) && (d <=? 52) && only_spaces_periods r
    | _ => false
    end)) ||
  (Nat.leb 6 (List.length short) && Nat.leb 8 (List.length name) && ntfs_short 0 name short false).

Definition S_gi7eba : bytes := [103; 105; 55; 101; 98; 97].
Definition S_gi7d29 : bytes := [103; 105; 55; 100; 50; 57].
Definition S_gi250a : bytes := [103; 105; 50; 53; 48; 97].
Definition S_maba30 : bytes := [109; 97; 98; 97; 51; 48].

Definition dot_symlink_name (n : bytes) : bool :=
  is_hfs_dot n N_gitmodules || is_ntfs_dot n N_gitmodules S_gi7eba ||
  is_hfs_dot n N_gitattributes || is_ntfs_dot n N_gitattributes S_gi7d29 ||
  is_hfs_dot n N_gitignore || is_ntfs_dot n N_gitignore S_gi250a ||
  is_hfs_dot n N_mailmap || is_ntfs_dot n N_mailmap S_maba30.

(* ValidTreePath (on unix, where filepath.VolumeName is always "") *)
Definition bad_part (p : bytes) : bool :=
  beq p [46] || beq p [46; 46] || is_dotgit_name p || is_hfs_dot p N_git || is_ntfs_dotgit p.
Definition valid_tree_path (p : bytes) : bool :=
  negb (existsb is_control p) &&
  match parts p with
  | [] => false
  | ps => negb (existsb bad_part ps)
  end.

(* ------------------------------------------------------------------ Validate *)
(* treeEntrySortName *)
Definition sort_name (e : tentry) : bytes :=
  if (t_mode e =? fmode_Dir)%Z then t_name e ++ [47] else t_name e.

Definition is_zero_hash (h : bytes) : bool := forallb (fun c => c =? 0) h.

Record vres := mkV { v_invalid : bool; v_dup : bool; v_unsorted : bool }.

(* one loop iteration: returns the three flags raised by entry e *)
Definition validate_entry (seen : list bytes) (prev : option bytes) (e : tentry) : vres :=
  let n := t_name e in
  let name_ok := match n with [] => false | _ => negb (existsb (fun c => c =? 47) n) end in
  let dup := name_ok && existsb (beq n) seen in
  let bad_name :=
    negb name_ok ||
    negb (valid_tree_path n) || dup ||
    (treeobj_maxTreeEntryNameLen <? Z.of_nat (List.length n))%Z in
  let bad_mode := negb (treeobj_isValidTreeMode (t_mode e)) in
  let bad_link := (t_mode e =? fmode_Symlink)%Z && dot_symlink_name n in
  let unsorted := match prev with Some p => bgt p (sort_name e) | None => false end in
  mkV (is_zero_hash (t_hash e) || bad_name || bad_mode || bad_link || unsorted) dup unsorted.

Fixpoint validate_go (es : list tentry) (seen : list bytes) (prev : option bytes) (acc : vres) : vres :=
  match es with
  | [] => acc
  | e :: r =>
    let v := validate_entry seen prev e in
    let n := t_name e in
    let seen' := match n with [] => seen | _ => if existsb (fun c => c =? 47) n then seen else n :: seen end in
    validate_go r seen' (Some (sort_name e))
                (mkV (v_invalid acc || v_invalid v) (v_dup acc || v_dup v) (v_unsorted acc || v_unsorted v))
  end.
Definition validate (es : list tentry) : vres := validate_go es [] None (mkV false false false).

(* ------------------------------------------------------------------ Encode *)
Definition encode_entry (e : tentry) : bytes := oct_of (t_mode e) ++ 32 :: t_name e ++ 0 :: t_hash e.
Definition encode (es : list tentry) : option bytes :=
  if v_invalid (validate es) then None else Some (List.concat (map encode_entry es)).

(* sort.Sort(TreeEntrySorter(es)) — any sort by sort_name; for duplicate-free
   names the result is unique.  Insertion sort, stable. *)
Fixpoint insert_entry (e : tentry) (l : list tentry) : list tentry :=
  match l with
  | [] => [e]
  | x :: r => if bgt (sort_name x) (sort_name e) then e :: l else x :: insert_entry e r
  end.
Definition sort_entries (es : list tentry) : list tentry := fold_right insert_entry [] es.

(* ------------------------------------------------------------------ observables *)
Definition tentry_out (e : tentry) : out := OList [ONum (t_mode e); OBytes (t_name e); OBytes (t_hash e)].
Definition vres_out (v : vres) : out :=
  if v_invalid v then OList [OSym "invalid"; OBool (v_dup v); OBool (v_unsorted v)] else OList [OSym "ok"].

Definition c04_dec (hsz : nat) (raw : string) : out :=
  match decode hsz (unhex raw) with
  | inr es => OOk (map tentry_out es)
  | inl _ => OErr "malformed"
  end.

Definition mk_entries (l : list (Z * string * string)) : list tentry :=
  map (fun x => mkT (fst (fst x)) (unhex (snd (fst x))) (unhex (snd x))) l.

(* op=enc: (sort first?) entries -> validation flags and bytes *)
Definition c04_enc (sort : bool) (l : list (Z * string * string)) : out :=
  let es := (if sort then sort_entries else (fun x => x)) (mk_entries l) in
  match encode es with
  | Some b => OOk [OBytes b]
  | None => vres_out (validate es)
  end.
