(* Model/CommitHead.v — G for C28 (commit): what Worktree.Commit does to the
   history and the references, apart from building the tree (Model/IndexOps.v,
   Model/WriteTree.v):
     options.go         CommitOptions.Validate (All+Amend, Amend+Parents, default parent = HEAD)
     worktree_commit.go Commit (Amend takes the parents of HEAD's commit, the two
                        empty-commit tests, buildCommitObject's tree / parents), updateHEAD
   Commit ids and tree ids are abstract numbers; the new commit is NEW.
   .git/MERGE_HEAD is part of the state because `git commit` reads it; go-git never does.
   Executable definitions only, the code AS IT IS. *)
From Coq Require Import List NArith Bool String.
From GoGit Require Import Base.Out.
Import ListNotations.
Local Open Scope N_scope.

Record crepo := mkRepo {
  r_sym : bool;                            (* HEAD is a symbolic reference (to a branch) *)
  r_branch : option N;                     (* the commit that branch points at, if it exists *)
  r_detached : option N;                   (* the commit HEAD holds when it is not symbolic *)
  r_commits : list (N * (N * list N));     (* commit id -> (tree id, parents) *)
  r_merge_head : option N }.               (* .git/MERGE_HEAD *)

Record copts := mkOpts { o_all : bool; o_amend : bool; o_allow_empty : bool; o_parents : list N }.

Inductive cerr := EOptions | ENoHead | ENoObject | EEmpty.
Inductive cres := CErr (e : cerr) | COk (tree : N) (parents : list N) (r : crepo).

Definition NEW : N := 1000.
Definition ZERO_TREE : N := 999.          (* plumbing.ZeroHash as a tree id: no tree has it *)
Definition EMPTY_TREE : N := 0.           (* the id of the tree without entries *)

(* Repository.Head: HEAD resolved *)
Definition head_of (r : crepo) : option N := if r_sym r then r_branch r else r_detached r.

Fixpoint commit_of (l : list (N * (N * list N))) (h : N) : option (N * list N) :=
  match l with [] => None | (k, v) :: t => if k =? h then Some v else commit_of t h end.

Definition is_nil {A} (l : list A) : bool := match l with [] => true | _ => false end.

(* updateHEAD: the reference HEAD names, or HEAD itself when it holds a hash *)
Definition update_head (r : crepo) (c : N) : crepo :=
  if r_sym r then mkRepo true (Some c) (r_detached r) (r_commits r) (r_merge_head r)
  else mkRepo false (r_branch r) (Some c) (r_commits r) (r_merge_head r).

(* tree: the id BuildTree returns for the index; idx_empty: len(idx.Entries) == 0 *)
Definition g_commit_head (r : crepo) (o : copts) (tree : N) (idx_empty : bool) : cres :=
  if o_all o && o_amend o then CErr EOptions
  else if o_amend o && negb (is_nil (o_parents o)) then CErr EOptions
  else
    let parents0 := match o_parents o with
                    | [] => match head_of r with Some h => [h] | None => [] end
                    | l => l
                    end in
    let parents :=
      if o_amend o then
        match head_of r with
        | None => inl ENoHead
        | Some h => match commit_of (r_commits r) h with None => inl ENoObject | Some (_, ps) => inr ps end
        end
      else inr parents0 in
    match parents with
    | inl e => CErr e
    | inr ps =>
      if is_nil ps && idx_empty && negb (o_allow_empty o) then CErr EEmpty
      else
        let prev := match ps with
                    | [] => inr ZERO_TREE
                    | p :: _ => match commit_of (r_commits r) p with None => inl ENoObject | Some (t, _) => inr t end
                    end in
        match prev with
        | inl e => CErr e
        | inr pt =>
          if (tree =? pt) && negb (o_allow_empty o) then CErr EEmpty
          else COk tree ps (update_head r NEW)
        end
    end.

(* ------------------------------------------------------------ correspondence entry point *)

(* the repositories the harness builds: hk 0 unborn branch, 1 on a branch, 2 detached;
   hist = 0: no commit; 1: HEAD's commit 1 is a root; 2: commit 1 has parent 2 (a root);
   3: commit 1 is a merge of 2 and 4 (4 a child of 2); every commit has the tree th;
   merge: MERGE_HEAD = commit 3 (an unrelated root commit with the same tree) *)
Definition mk_repo (hk hist : N) (th : N) (merge : bool) : crepo :=
  let commits := (if 1 <=? hist then [(1, (th, if hist =? 3 then [2; 4] else if hist =? 2 then [2] else []))] else []) ++
                 (if 2 <=? hist then [(2, (th, []))] else []) ++
                 (if hist =? 3 then [(4, (th, [2]))] else []) ++
                 (if merge then [(3, (th, []))] else []) in
  mkRepo (negb (hk =? 2)) (if (hk =? 0) || (hist =? 0) then None else Some 1)
         (if hk =? 2 then Some 1 else None) commits (if merge then Some 3 else None).

Definition out_commit (n : N) : out :=
  OSym (if N.eqb n 1 then "h" else if N.eqb n 2 then "p" else if N.eqb n 3 then "m" else if N.eqb n 4 then "s"
        else if N.eqb n NEW then "new" else "other")%string.

Definition out_cres (r0 : crepo) (c : cres) : out :=
  match c with
  | CErr e => OList [OSym (match e with EEmpty => "empty" | _ => "err" end)%string; OList [];
                     OSym (if r_sym r0 then "sym" else "det")%string; OBool false; OBool false]
  | COk _ ps r => OList [OSym "ok"%string; OList (map out_commit ps);
                         OSym (if r_sym r then "sym" else "det")%string;
                         OBool (match head_of r with Some h => h =? NEW | None => false end);
                         OBool (match r_branch r with Some h => h =? NEW | None => false end)]
  end.

Definition c28_commithead (hk hist : N) (amend allow merge : bool) (th tree : N) (idx_empty : bool) : out :=
  let r := mk_repo hk hist th merge in
  out_cres r (g_commit_head r (mkOpts false amend allow []) tree idx_empty).
