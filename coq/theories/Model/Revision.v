(* Model/Revision.v — G: internal/revision (scanner.go, parser.go) on ASCII
   input for the grammar  <ref> (~[n] | ^[n] | ^{type} | ^{} | ^{/re})*  and
   "@", and repository.go ResolveRevision / resolveHashPrefix / expandRef over
   an abstract repository (Spec/Dag history + object ids + references).
   Definitions only.

   Not modelled: the "@{...}" and ":..." forms (the parser accepts them, the
   resolver ignores the items); non-ASCII input; regular expressions other
   than literal text (the matcher is a parameter of the resolver). *)
From Coq Require Import List Arith NArith ZArith Bool String Ascii.
From GoGit Require Import Base.Out Spec.Dag Model.CommitWalk.
Import ListNotations.
Local Open Scope N_scope.

(* ------------------------------------------------------------------ scanner *)
Inductive tok :=
| TEof | TAslash | TAsterisk | TAt | TCaret | TCbrace | TColon | TControl | TDot | TEmark
| TMinus | TNumber | TObrace | TObracket | TQmark | TSlash | TSpace | TTilde | TError | TWord.

Definition tok_eqb (a b : tok) : bool :=
  match a, b with
  | TEof, TEof | TAslash, TAslash | TAsterisk, TAsterisk | TAt, TAt | TCaret, TCaret
  | TCbrace, TCbrace | TColon, TColon | TControl, TControl | TDot, TDot | TEmark, TEmark
  | TMinus, TMinus | TNumber, TNumber | TObrace, TObrace | TObracket, TObracket
  | TQmark, TQmark | TSlash, TSlash | TSpace, TSpace | TTilde, TTilde | TError, TError
  | TWord, TWord => true
  | _, _ => false
  end.

Definition is_letter (c : N) : bool := ((65 <=? c) && (c <=? 90)) || ((97 <=? c) && (c <=? 122)).
Definition is_digit (c : N) : bool := (48 <=? c) && (c <=? 57).
Definition is_space (c : N) : bool := ((9 <=? c) && (c <=? 13)) || (c =? 32).
Definition is_control (c : N) : bool := (c <? 32) || (c =? 127).

(* tokenizeExpression: the maximal run of [check] characters *)
Fixpoint take_run (check : N -> bool) (s : bytes) : bytes * bytes :=
  match s with
  | [] => ([], [])
  | c :: r => if c =? 0 then ([], r) else   (* the NUL is consumed and only ends the run *)
              if check c then let '(a, b) := take_run check r in (c :: a, b) else ([], s)
  end.

(* one token: (token, literal, rest) *)
Definition scan (s : bytes) : tok * bytes * bytes :=
  match s with
  | [] => (TEof, [], [])
  | c :: r =>
    if c =? 0 then (TEof, [], r)    (* a NUL reads as EOF, but the reader has only consumed the NUL *)
    else if c =? 58 then (TColon, [c], r)
    else if c =? 126 then (TTilde, [c], r)
    else if c =? 94 then (TCaret, [c], r)
    else if c =? 46 then (TDot, [c], r)
    else if c =? 47 then (TSlash, [c], r)
    else if c =? 123 then (TObrace, [c], r)
    else if c =? 125 then (TCbrace, [c], r)
    else if c =? 45 then (TMinus, [c], r)
    else if c =? 64 then
      match r with
      | [] => (TAt, [c], [])
      | n :: r' => if n =? 0 then (TAt, [c], r') else if n =? 123 then (TAt, [c], r) else (TWord, [c], r)
      end
    else if c =? 92 then (TAslash, [c], r)
    else if c =? 63 then (TQmark, [c], r)
    else if c =? 42 then (TAsterisk, [c], r)
    else if c =? 91 then (TObracket, [c], r)
    else if c =? 33 then (TEmark, [c], r)
    else if is_space c then (TSpace, [c], r)
    else if is_control c then (TControl, [c], r)
    else if is_letter c then let '(a, b) := take_run is_letter r in (TWord, c :: a, b)
    else if is_digit c then let '(a, b) := take_run is_digit r in (TNumber, c :: a, b)
    else (TError, [c], r)
  end.

(* ------------------------------------------------------------------- parser *)
Inductive item :=
| IRef (name : bytes)
| ITilde (n : N)
| ICaret (n : N)
| ICaretReg (re : bytes) (negate : bool)
| ICaretType (t : bytes)
| IOther.                     (* @{...} and :... items: ignored by the resolver *)

Inductive pres (A : Type) := POk (a : A) | PErr | PUnmodelled.
Arguments POk {A} a. Arguments PErr {A}. Arguments PUnmodelled {A}.

(* strconv.Atoi with the error dropped: saturates at MaxInt64 *)
Fixpoint atoi_acc (s : bytes) (acc : N) : N :=
  match s with
  | [] => acc
  | c :: r => atoi_acc r (acc * 10 + (c - 48))
  end.
Definition atoi (s : bytes) : N := N.min (atoi_acc s 0) 9223372036854775807.

Definition ends_with_lock (buf : bytes) : bool :=
  let n := List.length buf in
  (4 <? N.of_nat n) &&
  match skipn (n - 5) buf with
  | [46; 108; 111; 99; 107] => true
  | _ => false
  end.

Definition is_nil {A} (l : list A) : bool := match l with [] => true | _ => false end.

(* checkRefFormat: true = error *)
Definition check_ref_format (t : tok) (prev : tok) (buf : bytes) (end_of_ref : bool) : bool :=
  match t with
  | TAslash | TSpace | TControl | TQmark | TAsterisk | TObracket => true
  | _ =>
    ((tok_eqb t TDot || tok_eqb t TSlash) && is_nil buf)
    || (tok_eqb prev TSlash && end_of_ref)
    || (tok_eqb prev TDot && end_of_ref)
    || (tok_eqb t TDot && tok_eqb prev TSlash)
    || (tok_eqb prev TDot && tok_eqb t TDot)
    || (tok_eqb prev TSlash && tok_eqb t TSlash)
    || ((tok_eqb t TSlash || end_of_ref) && ends_with_lock buf)
  end.

(* parseRef: returns the name and the unconsumed input (the ending token is unscanned) *)
Fixpoint parse_ref (fuel : nat) (s : bytes) (prev : tok) (buf : bytes) : pres (bytes * bytes) :=
  match fuel with
  | O => PErr
  | S k =>
    let '(t, lit, rest) := scan s in
    let eor := match t with TEof | TAt | TColon | TTilde | TCaret => true | _ => false end in
    if check_ref_format t prev buf eor then PErr
    else if eor then POk (match buf with [64] => [72; 69; 65; 68] | _ => buf end, s)
    else parse_ref k rest t (buf ++ lit)
  end.

Definition caret_types : list bytes :=
  [[99;111;109;109;105;116]; [116;114;101;101]; [98;108;111;98]; [116;97;103]; [111;98;106;101;99;116]].
Fixpoint bytes_eqb (a b : bytes) : bool :=
  match a, b with
  | [], [] => true
  | x :: a', y :: b' => (x =? y) && bytes_eqb a' b'
  | _, _ => false
  end.

(* parseCaretBraces; every iteration scans TWO tokens; [unscan] puts the second back *)
Fixpoint caret_braces (fuel : nat) (s : bytes) (start : bool) (re : bytes) (negate : bool) : pres (item * bytes) :=
  match fuel with
  | O => PErr
  | S k =>
    let '(t, lit, r1) := scan s in
    let '(nt, _, r2) := scan r1 in
    if tok_eqb t TWord && tok_eqb nt TCbrace && existsb (bytes_eqb lit) caret_types then POk (ICaretType lit, r2)
    else if is_nil re && tok_eqb t TCbrace then POk (ICaretType [116;97;103], r2)
    else if is_nil re && tok_eqb t TEmark && tok_eqb nt TEmark then caret_braces k r2 false (re ++ lit) negate
    else if is_nil re && tok_eqb t TEmark && tok_eqb nt TMinus then caret_braces k r2 false re true
    else if is_nil re && tok_eqb t TEmark then PErr
    else if is_nil re && tok_eqb t TSlash then caret_braces k r1 false re negate
    else if negb (tok_eqb t TSlash) && start then PErr
    else if tok_eqb t TEof then PErr
    else if negb (tok_eqb t TCbrace) then caret_braces k r1 false (re ++ lit) negate
    else POk (ICaretReg re negate, r1)
  end.

Definition parse_caret (s : bytes) : pres (item * bytes) :=
  let '(t, lit, r) := scan s in
  match t with
  | TObrace => caret_braces (S (List.length r)) r true [] false
  | TNumber => if 2 <? atoi lit then PErr else POk (ICaret (atoi lit), r)
  | _ => POk (ICaret 1, s)
  end.

Definition parse_tilde (s : bytes) : item * bytes :=
  let '(t, lit, r) := scan s in
  match t with
  | TNumber => (ITilde (atoi lit), r)
  | _ => (ITilde 1, s)
  end.

(* validateFullRevision on the modelled items *)
Fixpoint validate (items : list item) (i : nat) (has_ref : bool) : bool :=
  match items with
  | [] => true
  | IRef _ :: r => if Nat.eqb i 0 then validate r (S i) true else false
  | (ITilde _ | ICaret _ | ICaretReg _ _) :: r => if has_ref then validate r (S i) has_ref else false
  | _ :: r => validate r (S i) has_ref
  end.

Fixpoint parse_loop (fuel : nat) (s : bytes) (acc : list item) : pres (list item) :=
  match fuel with
  | O => PErr
  | S k =>
    let '(t, lit, r) := scan s in
    match t with
    | TEof => if validate (rev acc) 0 false then POk (rev acc) else PErr
    | TAt =>
      let '(t2, _, _) := scan r in
      if tok_eqb t2 TObrace then PUnmodelled else parse_loop k r (IRef [72; 69; 65; 68] :: acc)
    | TTilde => let '(it, r') := parse_tilde r in parse_loop k r' (it :: acc)
    | TCaret => match parse_caret r with
                | POk (it, r') => parse_loop k r' (it :: acc)
                | PErr => PErr
                | PUnmodelled => PUnmodelled
                end
    | TColon => PUnmodelled
    | _ => match parse_ref (S (List.length s)) s TEof [] with
           | POk (name, r') => parse_loop k r' (IRef name :: acc)
           | PErr => PErr
           | PUnmodelled => PUnmodelled
           end
    end
  end.

Definition parse (s : bytes) : pres (list item) := parse_loop (S (S (List.length s))) s [].

(* ----------------------------------------------------------------- resolver *)
Inductive okind := KCommit (n : node) | KTag (target : bytes) | KOther.   (* object ids are 40 hex bytes *)

Inductive rtarget := RHash (h : bytes) | RSym (name : bytes).

Record repo := mkRepo {
  r_dag : dag;
  r_msgs : list bytes;
  r_objects : list (bytes * okind);      (* every object, ascending id: ObjectsWithPrefix order *)
  r_refs : list (bytes * rtarget)
}.

Fixpoint lookup_obj (h : bytes) (objs : list (bytes * okind)) : option okind :=
  match objs with
  | [] => None
  | (h', k) :: r => if bytes_eqb h h' then Some k else lookup_obj h r
  end.

Fixpoint lookup_ref (name : bytes) (refs : list (bytes * rtarget)) : option rtarget :=
  match refs with
  | [] => None
  | (n, t) :: r => if bytes_eqb name n then Some t else lookup_ref name r
  end.

(* storer.ResolveReference: follow symbolic references (bounded) *)
Fixpoint resolve_ref (fuel : nat) (refs : list (bytes * rtarget)) (name : bytes) : option bytes :=
  match fuel with
  | O => None
  | S k => match lookup_ref name refs with
           | None => None
           | Some (RHash h) => Some h
           | Some (RSym n) => resolve_ref k refs n
           end
  end.

Definition b (s : string) : bytes := bytes_of_string s.

(* RefRevParseRules *)
Definition rev_parse_rules (name : bytes) : list bytes :=
  [name; b "refs/" ++ name; b "refs/tags/" ++ name; b "refs/heads/" ++ name;
   b "refs/remotes/" ++ name; b "refs/remotes/" ++ name ++ b "/HEAD"].

Fixpoint first_some {A B} (f : A -> option B) (l : list A) : option B :=
  match l with
  | [] => None
  | x :: r => match f x with Some y => Some y | None => first_some f r end
  end.

Definition expand_ref (rp : repo) (name : bytes) : option bytes :=
  first_some (resolve_ref 10 (r_refs rp)) (rev_parse_rules name).

Definition is_hex (c : N) : bool := is_digit c || ((97 <=? c) && (c <=? 102)) || ((65 <=? c) && (c <=? 70)).
Definition lower (c : N) : N := if (65 <=? c) && (c <=? 90) then c + 32 else c.

Fixpoint is_prefix (p s : bytes) : bool :=
  match p, s with
  | [], _ => true
  | x :: p', y :: s' => (x =? y) && is_prefix p' s'
  | _, [] => false
  end.

(* resolveHashPrefix *)
Definition resolve_hash_prefix (rp : repo) (s : bytes) : list bytes :=
  let n := List.length s in
  if Nat.eqb n 0 then []
  else if Nat.eqb n 40 then (if forallb is_hex s then [map lower s] else [])
  else
    let even := firstn (2 * (n / 2)) s in
    if negb (forallb is_hex even) then []
    else
      let cands := filter (fun h => is_prefix (map lower even) h) (map fst (r_objects rp)) in
      if Nat.eqb (List.length even) n then cands
      else filter (fun h => is_prefix s h) cands.

Inductive rres := ROk (n : node) | RNotFound | RErr.

(* the Ref item: first candidate that is a commit, or a tag (peeled one level) *)
Fixpoint try_hashes (rp : repo) (hs : list bytes) : rres :=
  match hs with
  | [] => RNotFound
  | h :: r =>
    match lookup_obj h (r_objects rp) with
    | Some (KCommit n) => ROk n
    | Some (KTag t) => match lookup_obj t (r_objects rp) with
                       | Some (KCommit n) => ROk n
                       | _ => RErr
                       end
    | _ => try_hashes rp r
    end
  end.

Definition resolve_ref_item (rp : repo) (name : bytes) : rres :=
  try_hashes rp (resolve_hash_prefix rp name ++ match expand_ref rp name with Some h => [h] | None => [] end).

Fixpoint first_parents (g : dag) (n : nat) (c : node) : option node :=
  match n with
  | O => Some c
  | S k => match parents g c with
           | p :: _ => if present g p then first_parents g k p else None
           | [] => None
           end
  end.

Section Resolve.
  (* regexp.MatchString(re, message): literal text in the generated cases *)
  Variable matches : bytes -> bytes -> bool.

  Definition msg_of (rp : repo) (c : node) : bytes := nth c (r_msgs rp) [].

  Fixpoint resolve_items (rp : repo) (items : list item) (cur : option node) : rres :=
    match items with
    | [] => match cur with Some c => ROk c | None => RNotFound end
    | it :: rest =>
      match it with
      | IRef name =>
        match resolve_ref_item rp name with
        | ROk n => resolve_items rp rest (Some n)
        | e => e
        end
      | ICaret d =>
        match cur with
        | None => RErr
        | Some c =>
          if d =? 0 then resolve_items rp rest cur
          else match parents (r_dag rp) c with
               | [] => RErr
               | p1 :: ps =>
                 (* iter.Next() loads the first parent even when the second is asked for *)
                 if negb (present (r_dag rp) p1) then RErr
                 else if d =? 1 then resolve_items rp rest (Some p1)
                 else match ps with
                      | p2 :: _ => if present (r_dag rp) p2 then resolve_items rp rest (Some p2) else RErr
                      | [] => RErr
                      end
               end
        end
      | ITilde d =>
        match cur with
        | None => RErr
        | Some c =>
          (* a depth beyond the history length fails like any too large depth *)
          match first_parents (r_dag rp) (N.to_nat (N.min d (N.of_nat (S (nnodes (r_dag rp)))))) c with
          | Some p => resolve_items rp rest (Some p)
          | None => RErr
          end
        end
      | ICaretReg re neg =>
        match cur with
        | None => RErr
        | Some c =>
          let g := r_dag rp in
          let hit x := if neg then negb (matches re (msg_of rp x)) else matches re (msg_of rp x) in
          match pre_walk g hit (walk_fuel g) c [] with
          | (l, WStop) => resolve_items rp rest (Some (last l c))
          | _ => RErr
          end
        end
      | _ => resolve_items rp rest cur
      end
    end.
End Resolve.

(* literal matcher: re occurs in msg *)
Fixpoint occurs (re msg : bytes) (fuel : nat) : bool :=
  is_prefix re msg ||
  match fuel with
  | O => false
  | S k => match msg with [] => false | _ :: r => occurs re r k end
  end.
Definition lit_match (re msg : bytes) : bool := occurs re msg (List.length msg).

(* ------------------------------------------------------------ observables *)
Definition out_item (i : item) : out :=
  match i with
  | IRef n => OList [OSym "ref"; OBytes n]
  | ITilde n => OList [OSym "tilde"; ON n]
  | ICaret n => OList [OSym "caret"; ON n]
  | ICaretReg re neg => OList [OSym "caretreg"; OBytes re; OBool neg]
  | ICaretType t => OList [OSym "carettype"; OBytes t]
  | IOther => OSym "other"
  end.

Definition c47_parse (s : string) : out :=
  match parse (unhex s) with
  | POk l => OOk [OList (map out_item l)]
  | PErr => OErr "invalid"
  | PUnmodelled => OErr "unmodelled"
  end.

Definition mk_repo (par : list (list node)) (times : list Z) (msgs : list string)
           (objs : list (string * okind)) (refs : list (string * rtarget)) : repo :=
  mkRepo (mkDag par times) (map unhex msgs) (map (fun o => (b (fst o), snd o)) objs)
         (map (fun r => (b (fst r), snd r)) refs).

Definition kc (n : nat) : okind := KCommit n.
Definition kt (t : string) : okind := KTag (b t).
Definition rh (h : string) : rtarget := RHash (b h).
Definition rs (n : string) : rtarget := RSym (b n).

Definition c47_resolve_one (rp : repo) (s : string) : out :=
  match parse (unhex s) with
  | PErr => OErr "invalid"
  | PUnmodelled => OErr "unmodelled"
  | POk items =>
    if is_nil (unhex s) then OErr "notfound" else
    match resolve_items lit_match rp items None with
    | ROk n => OOk [ONat n]
    | RNotFound => OErr "notfound"
    | RErr => OErr "fail"
    end
  end.

Definition c47_resolve (rp : repo) (exprs : list string) : out :=
  OList (map (c47_resolve_one rp) exprs).
