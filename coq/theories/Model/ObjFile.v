(* Model/ObjFile.v — G for C01: how go-git names objects and writes / reads
   loose objects.  Executable definitions only.

   Go code modelled (as it is):
     plumbing/object.go      ObjectType.String/Bytes/Valid, ParseObjectType
     plumbing/hash.go        NewHasher, Hasher.Reset, Hasher.Sum
     plumbing/hasher.go      ObjectHasher.Compute, writeHeader
     plumbing/memory.go      MemoryObject (SetType SetSize Write Hash)
     plumbing/format/objfile writer.go WriteHeader/writeHeader/Write/Hash,
                             reader.go Header/readUntil/Read/Hash
     storage/filesystem/object.go  SetEncodedObject, RawObjectWriter, LazyWriter,
                             getFromUnpacked;  dotgit/writers.go ObjectWriter.save
     storage/memory/storage.go     SetEncodedObject, RawObjectWriter
   A hash.Hash is modelled as the list of bytes written so far; Sum applies the
   executable Spec/SHA function of the object format (the streaming
   implementation in Go's crypto packages is exercised by the correspondence,
   not modelled).  zlib is not part of the model: the writer's observable is the
   byte stream handed to the zlib writer, the reader's input the inflated
   stream. *)
From Coq Require Import List NArith ZArith Bool.
From GoGit Require Import Base.Out Spec.SHA Gen.C01.
Import ListNotations.
Local Open Scope N_scope.

(* ---------- object types (plumbing/object.go) ---------- *)
Inductive otype := TCommit | TTree | TBlob | TTag | TOfsDelta | TRefDelta | TAny | TInvalid.
(* TInvalid stands for every int8 value without a name (0, 5, 8, ...). *)

Definition otype_eqb (a b : otype) : bool :=
  match a, b with
  | TCommit, TCommit | TTree, TTree | TBlob, TBlob | TTag, TTag
  | TOfsDelta, TOfsDelta | TRefDelta, TRefDelta | TAny, TAny | TInvalid, TInvalid => true
  | _, _ => false
  end.

(* ObjectType.String / Bytes *)
Definition type_bytes (t : otype) : bytes :=
  match t with
  | TCommit => [99;111;109;109;105;116]               (* commit *)
  | TTree => [116;114;101;101]                        (* tree *)
  | TBlob => [98;108;111;98]                          (* blob *)
  | TTag => [116;97;103]                              (* tag *)
  | TOfsDelta => [111;102;115;45;100;101;108;116;97]  (* ofs-delta *)
  | TRefDelta => [114;101;102;45;100;101;108;116;97]  (* ref-delta *)
  | TAny => [97;110;121]                              (* any *)
  | TInvalid => [117;110;107;110;111;119;110]         (* unknown *)
  end.

(* ObjectType.Valid *)
Definition type_valid (t : otype) : bool :=
  match t with TCommit | TTree | TBlob | TTag | TOfsDelta | TRefDelta => true | _ => false end.

(* the four types git stores *)
Definition type_git (t : otype) : bool :=
  match t with TCommit | TTree | TBlob | TTag => true | _ => false end.

Fixpoint bytes_eqb (a b : bytes) : bool :=
  match a, b with
  | [], [] => true
  | x :: a', y :: b' => (x =? y) && bytes_eqb a' b'
  | _, _ => false
  end.

(* ParseObjectType *)
Definition parse_type (s : bytes) : option otype :=
  if bytes_eqb s (type_bytes TCommit) then Some TCommit
  else if bytes_eqb s (type_bytes TTree) then Some TTree
  else if bytes_eqb s (type_bytes TBlob) then Some TBlob
  else if bytes_eqb s (type_bytes TTag) then Some TTag
  else if bytes_eqb s (type_bytes TOfsDelta) then Some TOfsDelta
  else if bytes_eqb s (type_bytes TRefDelta) then Some TRefDelta
  else None.

(* ---------- strconv.FormatInt(_, 10) / strconv.ParseInt(_, 10, 64) ---------- *)
Fixpoint digits_fuel (fuel : nat) (n : N) (acc : bytes) : bytes :=
  match fuel with
  | O => acc
  | S f =>
    let acc' := (48 + n mod 10) :: acc in
    if n / 10 =? 0 then acc' else digits_fuel f (n / 10) acc'
  end.

Definition print_dec (n : N) : bytes := digits_fuel (S (N.to_nat (N.size n))) n [].

Definition print_int (z : Z) : bytes :=
  match z with
  | Zneg p => 45 :: print_dec (Npos p)
  | _ => print_dec (Z.to_N z)
  end.

Definition is_digit (c : N) : bool := (48 <=? c) && (c <=? 57).

(* ParseUint's digit loop, without the 64-bit cut-off: None = syntax error *)
Fixpoint parse_digits (l : bytes) (acc : N) : option N :=
  match l with
  | [] => Some acc
  | c :: r => if is_digit c then parse_digits r (10 * acc + (c - 48)) else None
  end.

Definition two63 : N := 9223372036854775808.

(* ParseInt(s, 10, 64): optional sign, at least one digit, no underscores;
   a value outside int64 is a range error (also an error for the caller) *)
Definition parse_int64 (s : bytes) : option Z :=
  match s with
  | [] => None
  | c :: r =>
    let '(neg, ds) := if c =? 43 then (false, r) else if c =? 45 then (true, r) else (false, s) in
    match ds with
    | [] => None
    | _ =>
      match parse_digits ds 0 with
      | None => None
      | Some u =>
        if neg then (if two63 <? u then None else Some (- Z.of_N u)%Z)
        else (if two63 <=? u then None else Some (Z.of_N u))
      end
    end
  end.

(* ---------- the object header ---------- *)
(* Hasher.Reset / hasher.go writeHeader: no validation at all *)
Definition hdr (t : otype) (size : Z) : bytes := type_bytes t ++ [32] ++ print_int size ++ [0].

Definition blen (b : bytes) : Z := Z.of_nat (List.length b).

(* object formats: format.SHA256 selects SHA-256, everything else SHA-1 *)
Definition oid (f : hfmt) (t : otype) (c : bytes) : bytes := H f (hdr t (blen c) ++ c).

(* ---------- plumbing.Hasher ---------- *)
(* state = bytes written since the last Reset *)
Definition hasher_new (t : otype) (size : Z) : bytes := hdr t size.
Definition hasher_write (h p : bytes) : bytes := h ++ p.
Definition hasher_sum (f : hfmt) (h : bytes) : bytes := H f h.

(* ObjectHasher.Compute *)
Definition compute (f : hfmt) (t : otype) (d : bytes) : bytes :=
  hasher_sum f (hasher_write (hasher_new t (blen d)) d).

(* ---------- errors ---------- *)
Inductive err :=
| EInvalidType | ENegativeSize | EHeaderTooLong | EHeader | EOverflow | EClosed | EUnsupportedType.

Inductive res (A : Type) := Ok (a : A) | Err (e : err).
Arguments Ok {A} a.
Arguments Err {A} e.

Definition max_header_len : nat := Z.to_nat objfile01_maxHeaderLen.

(* ---------- objfile.Writer ---------- *)
Record wstate := mkW {
  w_z : bytes;        (* bytes handed to the zlib writer so far *)
  w_h : bytes;        (* bytes handed to the hasher since prepareForWrite *)
  w_pending : Z;      (* declared size not yet written *)
}.

(* WriteHeader + writeHeader + prepareForWrite on a fresh writer *)
Definition w_header (t : otype) (size : Z) : res wstate :=
  if negb (type_valid t) then Err EInvalidType
  else if (size <? 0)%Z then Err ENegativeSize
  else
    let b := type_bytes t ++ [32] ++ print_int size ++ [0] in
    if Nat.ltb max_header_len (List.length b) then Err EHeaderTooLong
    else Ok (mkW b (hasher_new t size) size).

(* Write: at most [pending] bytes are accepted; more is ErrOverflow *)
Definition w_write (st : wstate) (p : bytes) : wstate * option err :=
  let over := (w_pending st <? blen p)%Z in
  let p' := if over then firstn (Z.to_nat (w_pending st)) p else p in
  (mkW (w_z st ++ p') (hasher_write (w_h st) p') (w_pending st - blen p'), if over then Some EOverflow else None).

(* a caller's sequence of Write calls; io.Copy-like callers stop at the first error *)
Fixpoint w_writes (st : wstate) (chunks : list bytes) : wstate * option err :=
  match chunks with
  | [] => (st, None)
  | p :: r => match w_write st p with
              | (st', Some e) => (st', Some e)
              | (st', None) => w_writes st' r
              end
  end.

Definition w_hash (f : hfmt) (st : wstate) : bytes := hasher_sum f (w_h st).

(* ---------- objfile.Reader over the inflated stream ---------- *)
Fixpoint read_until (delim : N) (budget : nat) (l acc : bytes) : res (bytes * nat * bytes) :=
  match budget with
  | O => Err EHeaderTooLong
  | S b =>
    match l with
    | [] => Err EHeader
    | c :: r => if c =? delim then Ok (rev acc, b, r) else read_until delim b r (c :: acc)
    end
  end.

(* Reader.Header: (type, size, rest of the stream) *)
Definition read_header (raw : bytes) : res (otype * Z * bytes) :=
  match read_until 32 max_header_len raw [] with
  | Err e => Err e
  | Ok (ty, budget, r1) =>
    match parse_type ty with
    | None => Err EInvalidType
    | Some t =>
      match read_until 0 budget r1 [] with
      | Err e => Err e
      | Ok (sz, _, r2) =>
        match parse_int64 sz with
        | None => Err EHeader
        | Some n => Ok (t, n, r2)
        end
      end
    end
  end.

(* Header, then Read to EOF, then Hash: the reader never compares the declared
   size with what it read, and hashes the re-rendered header *)
Definition read_loose (f : hfmt) (raw : bytes) : res (otype * Z * bytes * bytes) :=
  match read_header raw with
  | Err e => Err e
  | Ok (t, n, c) => Ok (t, n, c, hasher_sum f (hasher_write (hasher_new t n) c))
  end.

(* ---------- plumbing.MemoryObject ---------- *)
Record memobj := mkM {
  m_t : otype;
  m_h : option bytes;   (* cached hash; None = zero *)
  m_cont : bytes;
  m_sz : Z;
}.
Definition m_new : memobj := mkM TInvalid None [] 0.
Definition m_set_type (o : memobj) (t : otype) : memobj := mkM t (m_h o) (m_cont o) (m_sz o).
Definition m_set_size (o : memobj) (s : Z) : memobj := mkM (m_t o) (m_h o) (m_cont o) s.
Definition m_write (o : memobj) (p : bytes) : memobj :=
  mkM (m_t o) (m_h o) (m_cont o ++ p) (blen (m_cont o ++ p)).
(* Hash(): computed once, only when len(cont) = sz; otherwise the zero hash *)
Definition m_hash (f : hfmt) (o : memobj) : memobj * option bytes :=
  match m_h o with
  | Some h => (o, Some h)
  | None =>
    if (blen (m_cont o) =? m_sz o)%Z
    then let h := compute f (m_t o) (m_cont o) in (mkM (m_t o) (Some h) (m_cont o) (m_sz o), Some h)
    else (o, None)
  end.

(* ---------- write paths, reduced to (format, type, declared size, chunks) ---------- *)
(* what a write leaves behind: the ID it reports, and the loose file (name = ID
   the file is stored under, content = the inflated stream) if one is saved *)
Record wres := mkR {
  r_id : option bytes;            (* returned ID (None = zero hash) *)
  r_err : option err;
  r_file : option (bytes * bytes) (* (ID the file is stored under, inflated bytes) *)
}.

(* filesystem RawObjectWriter(t, size); Write chunks; Close; ID = writer.Hash() *)
Definition path_raw (f : hfmt) (t : otype) (size : Z) (chunks : list bytes) : wres :=
  match w_header t size with
  | Err e => mkR None (Some e) None
  | Ok st =>
    let '(st', e) := w_writes st chunks in
    (* Close saves whatever was written, under the hash of what was written *)
    mkR (Some (w_hash f st')) e (Some (w_hash f st', w_z st'))
  end.

(* filesystem LazyWriter(): same writer, header supplied through the callback *)
Definition path_lazy := path_raw.

(* a MemoryObject filled the usual way: SetType, SetSize(declared), Write chunks *)
Definition m_fill (t : otype) (size : Z) (chunks : list bytes) : memobj :=
  fold_left m_write chunks (m_set_size (m_set_type m_new t) size).
(* ... or with SetSize called after the last Write (the only way the declared
   size of a MemoryObject can differ from its content) *)
Definition m_fill_late (t : otype) (size : Z) (chunks : list bytes) : memobj :=
  m_set_size (fold_left m_write chunks (m_set_type m_new t)) size.

(* filesystem SetEncodedObject(o): every type that is not commit/tree/blob/tag is
   refused up front (ErrInvalidType); then header from o.Type()/o.Size(), one
   copy of the content, deferred Close (which saves), returns o.Hash().
   [fd] = the format the DotGit object writer hashes with (names the file),
   [fo] = the format of the ObjectHasher the MemoryObject was created with
   (the returned ID): two different fields of the storage, see [fs_state].
   None = the call panics: when WriteHeader fails (negative size), the deferred
   ObjectWriter.Close still runs save(), which calls Hash() on a Writer whose
   hasher was never set (nil hash.Hash) — observed on the real code, recorded
   as a known finding. *)
Definition path_set2 (fd fo : hfmt) (o : memobj) : option wres :=
  if negb (type_git (m_t o)) then Some (mkR None (Some EInvalidType) None)
  else
    match w_header (m_t o) (m_sz o) with
    | Err e => None
    | Ok st =>
      let '(st', e) := w_writes st [m_cont o] in
      let file := Some (w_hash fd st', w_z st') in
      match e with
      | Some e => Some (mkR None (Some e) file)
      | None => Some (mkR (snd (m_hash fo o)) None file)
      end
    end.

Definition path_set (f : hfmt) (o : memobj) : option wres := path_set2 f f o.

(* memory storage SetEncodedObject(o): keyed by o.Hash(), content = o itself *)
Definition path_mem (f : hfmt) (o : memobj) : wres :=
  let id := snd (m_hash f o) in
  let e := if type_git (m_t o) then None else Some EUnsupportedType in
  mkR id e None.

(* ---------- which format each write path hashes with ----------
   storage/filesystem: NewStorageWithOptions, Storage.SetObjectFormat,
   ConfigStorage.Config; storage/memory: NewStorage, Storage.SetObjectFormat.
   The filesystem storage keeps the format in several places that the write
   paths read independently: DotGit.options.ObjectFormat (object writer: file
   name, RawObjectWriter/LazyWriter ID), ObjectStorage.oh (NewEncodedObject:
   the ID SetEncodedObject / worktree Add return), ObjectStorage.options
   (loose-object reader), and the configuration (what git sees). *)
Inductive cfmt := CUnset | CSha1 | CSha256.
Definition hfmt_of (c : cfmt) : hfmt := match c with CSha256 => FSha256 | _ => FSha1 end.
Definition cfmt_eqb (a b : cfmt) : bool :=
  match a, b with CUnset, CUnset | CSha1, CSha1 | CSha256, CSha256 => true | _, _ => false end.

Record fs_state := mkFS {
  fs_cfg : cfmt;     (* extensions.objectformat as Storage.Config() reports it *)
  fs_dir : hfmt;     (* DotGit.options.ObjectFormat *)
  fs_oh : hfmt;      (* ObjectStorage.oh *)
  fs_opts : hfmt;    (* ObjectStorage.options.ObjectFormat *)
}.

(* NewStorageWithOptions(fs, cache, Options{ObjectFormat: opt}); [file] = the
   objectformat of an existing "config" file (which overrides the option, even
   when it does not mention a format).  Without a file, Config() reports the
   option unless it is SHA-1. *)
Definition fs_new (opt : cfmt) (file : option cfmt) : fs_state :=
  match file with
  | Some c => mkFS c (hfmt_of c) (hfmt_of c) (hfmt_of c)
  | None => mkFS (match opt with CSha256 => CSha256 | _ => CUnset end) (hfmt_of opt) (hfmt_of opt) (hfmt_of opt)
  end.

(* Storage.SetObjectFormat(of), no packs present: only sha1 / sha256 are
   accepted; nothing happens when the configuration already says [of] *)
Definition fs_set_format (st : fs_state) (of : cfmt) : fs_state :=
  match of with
  | CUnset => st
  | _ => if cfmt_eqb (fs_cfg st) of then st else mkFS of (hfmt_of of) (hfmt_of of) (hfmt_of of)
  end.

Definition fs_run (opt : cfmt) (file : option cfmt) (ofs : list cfmt) : fs_state :=
  fold_left fs_set_format ofs (fs_new opt file).

(* the format the repository is in, as git would see it *)
Definition last_format (ofs : list cfmt) (dflt : cfmt) : cfmt :=
  fold_left (fun cur of => match of with CUnset => cur | _ => of end) ofs dflt.
Definition repo_format (opt : cfmt) (file : option cfmt) (ofs : list cfmt) : hfmt :=
  hfmt_of (last_format ofs (match file with Some c => c | None => opt end)).

(* memory storage: options.objectFormat and the ObjectHasher *)
Record ms_state := mkMS { ms_opts : cfmt; ms_oh : hfmt }.
Definition ms_new (opt : cfmt) : ms_state := mkMS opt (hfmt_of opt).
Definition ms_set_format (st : ms_state) (of : cfmt) : ms_state :=
  match of with
  | CUnset => st
  | _ => if cfmt_eqb (ms_opts st) of then st else mkMS of (hfmt_of of)
  end.
Definition ms_run (opt : cfmt) (ofs : list cfmt) : ms_state := fold_left ms_set_format ofs (ms_new opt).

(* the write paths on a storage in state [st] *)
Definition st_raw (st : fs_state) := path_raw (fs_dir st).
Definition st_set (st : fs_state) (o : memobj) := path_set2 (fs_dir st) (fs_oh st) o.
Definition st_mem (st : ms_state) (o : memobj) := path_mem (ms_oh st) o.

(* ---------- correspondence entry points ---------- *)
From Coq Require Import String.
Local Open Scope string_scope.

Definition err_name (e : err) : string :=
  match e with
  | EInvalidType => "invalid_type"
  | ENegativeSize => "negative_size"
  | EHeaderTooLong => "header_too_long"
  | EHeader => "header"
  | EOverflow => "overflow"
  | EClosed => "closed"
  | EUnsupportedType => "unsupported_type"
  end.

Definition fmt_of (s : string) : hfmt := if String.eqb s "sha256" then FSha256 else FSha1.
Definition type_of (s : string) : otype :=
  if String.eqb s "commit" then TCommit else if String.eqb s "tree" then TTree
  else if String.eqb s "blob" then TBlob else if String.eqb s "tag" then TTag
  else if String.eqb s "ofs-delta" then TOfsDelta else if String.eqb s "ref-delta" then TRefDelta
  else if String.eqb s "any" then TAny else TInvalid.

Definition OType (t : otype) : out := OBytes (type_bytes t).
Definition OErrE (e : err) : out := OErr (err_name e).
Definition OId (o : option bytes) : out :=
  match o with Some h => OBytes h | None => OSym "zero" end.

Definition render_wres (r : wres) : out :=
  OList [OSym "w"; OId (r_id r);
         match r_err r with Some e => OErrE e | None => OSym "noerr" end;
         match r_file r with
         | Some (n, z) => OList [OSym "file"; OBytes n; OBytes z]
         | None => OSym "nofile"
         end].

Definition render_owres (r : option wres) : out :=
  match r with Some r => render_wres r | None => OList [OSym "panic"] end.

(* case: entry point, format, type, declared size, chunks (hex) *)
Definition c01_run_write (entry fmt ty : string) (size : Z) (chunks : list string) : out :=
  let f := fmt_of fmt in let t := type_of ty in let cs := map unhex chunks in
  if String.eqb entry "raw" then render_wres (path_raw f t size cs)
  else if String.eqb entry "lazy" then render_wres (path_lazy f t size cs)
  else if String.eqb entry "set" then render_owres (path_set f (m_fill t size cs))
  else if String.eqb entry "set_late" then render_owres (path_set f (m_fill_late t size cs))
  else if String.eqb entry "set_stale" then
    (* fill with the first chunk, call Hash(), write the remaining chunks, SetEncodedObject *)
    match cs with
    | [] => OErr "entry"
    | c :: rest => render_owres (path_set f (fold_left m_write rest (fst (m_hash f (m_fill t (blen c) [c])))))
    end
  else if String.eqb entry "mem" then render_wres (path_mem f (m_fill t size cs))
  else if String.eqb entry "mem_late" then render_wres (path_mem f (m_fill_late t size cs))
  else if String.eqb entry "add" then render_owres (path_set f (m_fill TBlob (blen (List.concat cs)) [List.concat cs]))
  else if String.eqb entry "compute" then OBytes (compute f t (List.concat cs))
  else if String.eqb entry "hasher" then
    OBytes (hasher_sum f (fold_left hasher_write cs (hasher_new t size)))
  else OErr "entry".

Definition cfmt_of (s : string) : cfmt :=
  if String.eqb s "sha256" then CSha256 else if String.eqb s "sha1" then CSha1 else CUnset.

(* case with a storage history: constructor option, format of a pre-existing
   config file ("none" = no file), SetObjectFormat calls, then the write *)
Definition c01_run_write_st (entry ctor file : string) (switch : list string) (ty : string) (size : Z) (chunks : list string) : out :=
  let t := type_of ty in let cs := map unhex chunks in
  let fileo := if String.eqb file "none" then None else Some (cfmt_of file) in
  let st := fs_run (cfmt_of ctor) fileo (map cfmt_of switch) in
  let ms := ms_run (cfmt_of ctor) (map cfmt_of switch) in
  if String.eqb entry "raw" then render_wres (st_raw st t size cs)
  else if String.eqb entry "lazy" then render_wres (st_raw st t size cs)
  else if String.eqb entry "set" then render_owres (st_set st (m_fill t size cs))
  else if String.eqb entry "set_late" then render_owres (st_set st (m_fill_late t size cs))
  else if String.eqb entry "add" then render_owres (st_set st (m_fill TBlob (blen (List.concat cs)) [List.concat cs]))
  else if String.eqb entry "mem" then render_wres (st_mem ms (m_fill t size cs))
  else if String.eqb entry "mem_late" then render_wres (st_mem ms (m_fill_late t size cs))
  else OErr "entry".

(* case: inflated bytes of a loose object -> what objfile.Reader reports *)
Definition c01_run_read (fmt raw : string) : out :=
  match read_loose (fmt_of fmt) (unhex raw) with
  | Err e => OErrE e
  | Ok (t, n, c, h) => OOk [OType t; ONum n; OBytes c; OBytes h]
  end.
