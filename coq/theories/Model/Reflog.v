(* Model/Reflog.v — G for C52: plumbing/format/reflog/reflog.go
     Encode, normalizeMessage (isGitSpace), Decode/Decoder.Next, decodeLine,
     decodeTimestamp, plus the stdlib pieces they rely on (hex, strconv.ParseInt,
     strconv.Atoi on two bytes, bytes.Fields, bytes.Trim, fmt %d / %02d).
   Executable definitions only. *)
From Coq Require Import List NArith ZArith Bool String.
From GoGit Require Import Base.Out.
Import ListNotations.
Local Open Scope N_scope.

(* ------------------------------------------------------------------ bytes *)
Definition SP : N := 32.  Definition TAB : N := 9.  Definition LF : N := 10.
Definition LT : N := 60.  Definition GT : N := 62.
Definition PLUS : N := 43. Definition MINUS : N := 45.

(* bytes.IndexByte / bytes.Cut: split at the first c *)
Fixpoint cut (c : N) (s : bytes) : option (bytes * bytes) :=
  match s with
  | [] => None
  | x :: r => if x =? c then Some ([], r)
              else match cut c r with Some (a, b) => Some (x :: a, b) | None => None end
  end.

(* bytes.LastIndexByte: split at the last c *)
Fixpoint cut_last (c : N) (s : bytes) : option (bytes * bytes) :=
  match s with
  | [] => None
  | x :: r => match cut_last c r with
              | Some (a, b) => Some (x :: a, b)
              | None => if x =? c then Some ([], r) else None
              end
  end.

(* ------------------------------------------------------------------ hex *)
Definition hexdig (n : N) : N := if n <? 10 then 48 + n else 87 + n.

(* hex.EncodeToString (lower case) *)
Fixpoint hex_enc (b : bytes) : bytes :=
  match b with
  | [] => []
  | c :: r => hexdig (c / 16) :: hexdig (c mod 16) :: hex_enc r
  end.

Definition hexval_opt (c : N) : option N :=
  if (48 <=? c) && (c <=? 57) then Some (c - 48)
  else if (97 <=? c) && (c <=? 102) then Some (c - 87)
  else if (65 <=? c) && (c <=? 70) then Some (c - 55)
  else None.

(* hex.DecodeString: both cases accepted, odd length / foreign byte refused *)
Fixpoint hex_dec (s : bytes) : option bytes :=
  match s with
  | [] => Some []
  | a :: b :: r =>
    match hexval_opt a, hexval_opt b, hex_dec r with
    | Some x, Some y, Some t => Some (16 * x + y :: t)
    | _, _, _ => None
    end
  | _ => None
  end.

(* plumbing.IsHash + plumbing.NewHash: 40 or 64 hex digits -> 20 or 32 bytes *)
Definition parse_hash (s : bytes) : option bytes :=
  let n := List.length s in
  if Nat.eqb n 40 || Nat.eqb n 64 then hex_dec s else None.

(* ------------------------------------------------------------------ decimal *)
Fixpoint dec_digits_rev (fuel : nat) (n : N) : bytes :=
  match fuel with
  | O => []
  | S f => (48 + n mod 10) :: (if n / 10 =? 0 then [] else dec_digits_rev f (n / 10))
  end.
Definition dec_N (n : N) : bytes := rev (dec_digits_rev (S (N.to_nat (N.size n))) n).
(* fmt %d *)
Definition dec_Z (z : Z) : bytes :=
  match z with
  | Zneg p => MINUS :: dec_N (Npos p)
  | _ => dec_N (Z.to_N z)
  end.
(* fmt %02d of a non-negative int *)
Definition pad2 (n : N) : bytes :=
  let d := dec_N n in if Nat.ltb (List.length d) 2 then 48 :: d else d.

Definition is_digit (c : N) : bool := (48 <=? c) && (c <=? 57).

(* the digit loop of strconv.ParseUint(base 10): None on a non-digit *)
Fixpoint digits_val (s : bytes) (acc : N) : option N :=
  match s with
  | [] => Some acc
  | c :: r => if is_digit c then digits_val r (10 * acc + (c - 48)) else None
  end.

(* strconv.ParseInt(s, 10, 64): optional sign, at least one digit, int64 range *)
Definition parse_int64 (s : bytes) : option Z :=
  let '(neg, body) :=
    match s with
    | c :: r => if c =? PLUS then (false, r) else if c =? MINUS then (true, r) else (false, s)
    | [] => (false, [])
    end in
  match body with
  | [] => None
  | _ =>
    match digits_val body 0 with
    | None => None
    | Some u =>
      if neg then (if u <=? 2 ^ 63 then Some (- Z.of_N u)%Z else None)
      else (if u <? 2 ^ 63 then Some (Z.of_N u) else None)
    end
  end.

(* strconv.Atoi on exactly two bytes (tz[1:3], tz[3:5]): "dd", "+d" or "-d" *)
Definition atoi2 (a b : N) : option Z :=
  if is_digit b then
    if is_digit a then Some (Z.of_N (10 * (a - 48) + (b - 48)))
    else if a =? PLUS then Some (Z.of_N (b - 48))
    else if a =? MINUS then Some (- Z.of_N (b - 48))%Z
    else None
  else None.

(* ------------------------------------------------------------------ spaces *)
(* isGitSpace (reflog.go): SP HT LF CR *)
Definition is_gitspace (c : N) : bool := (c =? 32) || (c =? 9) || (c =? 10) || (c =? 13).

Definition is_ascii_space (c : N) : bool :=
  (c =? 9) || (c =? 10) || (c =? 11) || (c =? 12) || (c =? 13) || (c =? 32).

(* unicode.IsSpace seen through UTF-8 decoding: length of the white-space rune
   starting at the head of s, 0 if the head does not start one.  The runes are
   U+0009..000D, U+0020, U+0085, U+00A0, U+1680, U+2000..200A, U+2028, U+2029,
   U+202F, U+205F, U+3000; each has exactly one (minimal) encoding. *)
Definition uspace_len (s : bytes) : nat :=
  match s with
  | [] => O
  | c :: r =>
    if is_ascii_space c then 1%nat
    else if c =? 194 then
      match r with d :: _ => if (d =? 133) || (d =? 160) then 2%nat else O | _ => O end
    else if c =? 225 then
      match r with d :: e :: _ => if (d =? 154) && (e =? 128) then 3%nat else O | _ => O end
    else if c =? 226 then
      match r with
      | d :: e :: _ =>
        if (d =? 128) && (((128 <=? e) && (e <=? 138)) || (e =? 168) || (e =? 169) || (e =? 175)) then 3%nat
        else if (d =? 129) && (e =? 159) then 3%nat else O
      | _ => O
      end
    else if c =? 227 then
      match r with d :: e :: _ => if (d =? 128) && (e =? 128) then 3%nat else O | _ => O end
    else O
  end.

Definition gitspace_len (s : bytes) : nat :=
  match s with c :: _ => if is_gitspace c then 1%nat else O | [] => O end.

(* strings.FieldsFunc / bytes.Fields: maximal runs of non-space bytes.
   tok gives the byte length of the separator rune at the head (0 = none);
   skip counts the remaining bytes of a multi-byte separator; cur is the
   current field, reversed. *)
Definition flush (cur : bytes) (k : list bytes) : list bytes :=
  match cur with [] => k | _ => rev cur :: k end.

Fixpoint fields_go (tok : bytes -> nat) (s : bytes) (skip : nat) (cur : bytes) : list bytes :=
  match s with
  | [] => flush cur []
  | c :: r =>
    match skip with
    | S k => fields_go tok r k cur
    | O =>
      match tok s with
      | O => fields_go tok r O (c :: cur)
      | S k => flush cur (fields_go tok r k [])
      end
    end
  end.
Definition fields (tok : bytes -> nat) (s : bytes) : list bytes := fields_go tok s O [].

(* strings.Join(_, " ") *)
Definition join_sp (l : list bytes) : bytes :=
  match l with [] => [] | x :: r => x ++ flat_map (fun y => SP :: y) r end.

(* normalizeMessage *)
Definition normalize (m : bytes) : bytes := join_sp (fields gitspace_len m).

(* bytes.Trim(_, " \t\n\r") *)
Fixpoint trim_left (s : bytes) : bytes :=
  match s with c :: r => if is_gitspace c then trim_left r else s | [] => [] end.
Definition trim (s : bytes) : bytes := rev (trim_left (rev (trim_left s))).

(* ------------------------------------------------------------------ entries *)
Record entry := mkEntry {
  e_old : bytes; e_new : bytes;          (* raw object ids: 20 or 32 bytes *)
  e_name : bytes; e_email : bytes;
  e_secs : Z;                            (* Committer.When.Unix() *)
  e_off : Z;                             (* zone offset in seconds east of UTC *)
  e_msg : bytes }.

(* Encode: "%s %s %s <%s> %d %c%02d%02d[\t%s]\n" *)
Definition zone_text (off : Z) : bytes :=
  let sign := if (off <? 0)%Z then MINUS else PLUS in
  let a := Z.to_N (Z.abs off) in
  sign :: pad2 (a / 3600) ++ pad2 ((a mod 3600) / 60).

Definition encode (e : entry) : bytes :=
  let msg := normalize (e_msg e) in
  hex_enc (e_old e) ++ [SP] ++ hex_enc (e_new e) ++ [SP] ++
  e_name e ++ [SP; LT] ++ e_email e ++ [GT; SP] ++
  dec_Z (e_secs e) ++ [SP] ++ zone_text (e_off e) ++
  (match msg with [] => [] | _ => TAB :: msg end) ++ [LF].

(* decodeTimestamp: bytes.Fields must give exactly [secs; tz] *)
Definition decode_tz (tz : bytes) : option Z :=
  match tz with
  | [s; h1; h2; m1; m2] =>
    if (s =? PLUS) || (s =? MINUS) then
      match atoi2 h1 h2, atoi2 m1 m2 with
      | Some h, Some m =>
        let off := (h * 3600 + m * 60)%Z in
        Some (if s =? MINUS then (- off)%Z else off)
      | _, _ => None
      end
    else None
  | _ => None
  end.

Definition decode_timestamp (s : bytes) : option (Z * Z) :=
  match fields uspace_len s with
  | [a; b] =>
    match parse_int64 a, decode_tz b with
    | Some secs, Some off => Some (secs, off)
    | _, _ => None
    end
  | _ => None
  end.

(* decodeLine, second half: identEnd = max(IndexByte(line,'>'),0); the message
   starts after the first TAB at or after identEnd *)
Definition split_msg (l2 : bytes) : bytes * bytes :=
  match cut GT l2 with
  | Some (a, b) =>
    match cut TAB b with
    | Some (b1, m) => (a ++ GT :: b1, m)
    | None => (l2, [])
    end
  | None =>
    match cut TAB l2 with Some (a, m) => (a, m) | None => (l2, []) end
  end.

(* ... then Name <email> timestamp timezone, located by the LAST '<' and '>' *)
Definition decode_sig (old new sig msg : bytes) : option entry :=
  match cut_last LT sig, cut_last GT sig with
  | Some (a1, b1), Some (a2, b2) =>
    let open := List.length a1 in
    let close := List.length a2 in
    if Nat.ltb close open then None
    else if Nat.leb (List.length b2) 1 then None
    else
      match decode_timestamp (skipn 1 b2) with
      | None => None
      | Some (secs, off) =>
        Some (mkEntry old new (trim a1) (firstn (close - open - 1) b1) secs off msg)
      end
  | _, _ => None
  end.

(* decodeLine (line without its LF) *)
Definition decode_line (line : bytes) : option entry :=
  match cut SP line with
  | None => None
  | Some (oldh, l1) =>
    match parse_hash oldh with
    | None => None
    | Some old =>
      match cut SP l1 with
      | None => None
      | Some (newh, l2) =>
        match parse_hash newh with
        | None => None
        | Some new => decode_sig old new (fst (split_msg l2)) (snd (split_msg l2))
        end
      end
    end
  end.

(* Decoder.Next / Decode: lines split at LF, empty lines skipped, a last line
   without LF is decoded too; the first malformed line fails the whole read *)
Fixpoint decode_go (s : bytes) (cur : bytes) : option (list entry) :=
  match s with
  | [] =>
    match cur with
    | [] => Some []
    | _ => match decode_line (rev cur) with Some e => Some [e] | None => None end
    end
  | c :: r =>
    if c =? LF then
      match cur with
      | [] => decode_go r []
      | _ =>
        match decode_line (rev cur) with
        | Some e => match decode_go r [] with Some l => Some (e :: l) | None => None end
        | None => None
        end
      end
    else decode_go r (c :: cur)
  end.
Definition decode (file : bytes) : option (list entry) := decode_go file [].

(* ------------------------------------------------------------------ observables *)
Definition entry_out (e : entry) : out :=
  OList [OBytes (e_old e); OBytes (e_new e); OBytes (e_name e); OBytes (e_email e);
         ONum (e_secs e); ONum (e_off e); OBytes (e_msg e)].

Definition c52_enc (old new name email : string) (secs off : Z) (msg : string) : out :=
  OOk [OBytes (encode (mkEntry (unhex old) (unhex new) (unhex name) (unhex email) secs off (unhex msg)))].

Definition c52_dec (file : string) : out :=
  match decode (unhex file) with
  | Some l => OOk (map entry_out l)
  | None => OErr "malformed"%string
  end.
