(* Model/CommitWalk.v — G: executable model of go-git's commit iterators
   (plumbing/object/commit_walker*.go) over the abstract graph of Spec/Dag.v.
   Definitions only.

   A commit is its node number; looking a hash up in the object store is
   [present]; a missing object makes the iterator fail ([WFail]) exactly where
   the Go code performs the lookup.  Every loop carries explicit fuel and
   reports [WFuel] when it runs out (excluded by the theorems).  Each walker is
   a loop "pop a candidate; skip if seen; otherwise emit it, mark it, push its
   parents" — what differs is the container and when parents are filtered and
   looked up, and that is modelled per walker as the code does it.

   [stop] is the callback's ErrStop condition: the element that satisfies it is
   still emitted (the callback has seen it) and the walk ends with [WStop]. *)
From Coq Require Import List Arith ZArith Bool.
From GoGit Require Import Spec.Dag.
Import ListNotations.

Inductive wend := WEof | WStop | WFail | WFuel.
Definition wres := (list node * wend)%type.

Definition nostop (_ : node) : bool := false.

(* ---------------------------------------------------------------- pre-order
   commitPreIterator: a stack of parent iterators; each frame holds the parent
   hashes that were unseen when the frame was created (filteredParentIter);
   the lookup happens when the hash is taken from the frame. *)
Fixpoint pop_frames (st : list (list node)) : option (node * list (list node)) :=
  match st with
  | [] => None
  | [] :: r => pop_frames r
  | (h :: t) :: r => Some (h, t :: r)
  end.

Fixpoint pre_loop (g : dag) (stop : node -> bool) (fuel : nat)
         (st : list (list node)) (seen acc : list node) : wres :=
  match fuel with
  | O => (rev acc, WFuel)
  | S f =>
    match pop_frames st with
    | None => (rev acc, WEof)
    | Some (h, st') =>
      if negb (present g h) then (rev acc, WFail)
      else if mem h seen then pre_loop g stop f st' seen acc
      else
        let seen' := h :: seen in
        let st'' := filter (fun p => negb (mem p seen')) (parents g h) :: st' in
        if stop h then (rev (h :: acc), WStop)
        else pre_loop g stop f st'' seen' (h :: acc)
    end
  end.

(* NewCommitPreorderIter(c, nil, ignore) *)
Definition pre_walk (g : dag) (stop : node -> bool) (fuel : nat) (start : node) (ignore : list node) : wres :=
  pre_loop g stop fuel [[start]] ignore [].

(* --------------------------------------------------------------- post-order
   commitPostIterator: a stack of loaded commits; every parent is looked up and
   pushed (no seen test at push time); a missing parent fails the Next call
   that would have returned the commit, so the commit is not emitted. *)
Fixpoint post_loop (g : dag) (stop : node -> bool) (fuel : nat)
         (st : list node) (seen acc : list node) : wres :=
  match fuel with
  | O => (rev acc, WFuel)
  | S f =>
    match st with
    | [] => (rev acc, WEof)
    | c :: st' =>
      if mem c seen then post_loop g stop f st' seen acc
      else if negb (forallb (present g) (parents g c)) then (rev acc, WFail)
      else
        let st'' := rev (parents g c) ++ st' in
        if stop c then (rev (c :: acc), WStop)
        else post_loop g stop f st'' (c :: seen) (c :: acc)
    end
  end.

Definition post_walk (g : dag) (stop : node -> bool) (fuel : nat) (start : node) (ignore : list node) : wres :=
  post_loop g stop fuel [start] ignore [].

(* commitPostIteratorFirstParent: all parents are looked up, only those equal
   to ParentHashes[0] are pushed *)
Definition first_parent_pushes (ps : list node) : list node :=
  match ps with
  | [] => []
  | p0 :: _ => filter (Nat.eqb p0) ps
  end.

Fixpoint postfp_loop (g : dag) (stop : node -> bool) (fuel : nat)
         (st : list node) (seen acc : list node) : wres :=
  match fuel with
  | O => (rev acc, WFuel)
  | S f =>
    match st with
    | [] => (rev acc, WEof)
    | c :: st' =>
      if mem c seen then postfp_loop g stop f st' seen acc
      else if negb (forallb (present g) (parents g c)) then (rev acc, WFail)
      else
        let st'' := rev (first_parent_pushes (parents g c)) ++ st' in
        if stop c then (rev (c :: acc), WStop)
        else postfp_loop g stop f st'' (c :: seen) (c :: acc)
    end
  end.

Definition postfp_walk (g : dag) (stop : node -> bool) (fuel : nat) (start : node) (ignore : list node) : wres :=
  postfp_loop g stop fuel [start] ignore [].

(* ---------------------------------------------------------------------- BFS
   bfsCommitIterator: a FIFO of loaded commits; appendHash skips hashes seen at
   push time, then looks the hash up (failing the Next call) and appends. *)
Definition unseen_parents (g : dag) (seen : list node) (c : node) : list node :=
  filter (fun p => negb (mem p seen)) (parents g c).

Fixpoint bfs_loop (g : dag) (stop : node -> bool) (fuel : nat)
         (q : list node) (seen acc : list node) : wres :=
  match fuel with
  | O => (rev acc, WFuel)
  | S f =>
    match q with
    | [] => (rev acc, WEof)
    | c :: q' =>
      if mem c seen then bfs_loop g stop f q' seen acc
      else
        let seen' := c :: seen in
        let add := unseen_parents g seen' c in
        if negb (forallb (present g) add) then (rev acc, WFail)
        else if stop c then (rev (c :: acc), WStop)
        else bfs_loop g stop f (q' ++ add) seen' (c :: acc)
    end
  end.

Definition bfs_walk (g : dag) (stop : node -> bool) (fuel : nat) (start : node) (ignore : list node) : wres :=
  bfs_loop g stop fuel [start] ignore [].

(* ----------------------------------------------------------- committer time
   commitIteratorByCTime: emirpasic/gods binaryheap (array list + bubbleUp /
   bubbleDown) with the comparator "1 if a is older than b, else -1". *)
Definition swap (i j : nat) (l : list node) : list node :=
  let a := nth i l 0 in
  let b := nth j l 0 in
  map (fun kx => if fst kx =? i then b else if fst kx =? j then a else snd kx) (combine (seq 0 (length l)) l).

Definition hcmp (g : dag) (a b : node) : Z :=
  if (ctime g a <? ctime g b)%Z then 1%Z else (-1)%Z.

Fixpoint bubble_up (g : dag) (fuel idx : nat) (l : list node) : list node :=
  match fuel with
  | O => l
  | S f =>
    if idx =? 0 then l
    else
      let p := (idx - 1) / 2 in
      if (hcmp g (nth p l O) (nth idx l O) <=? 0)%Z then l
      else bubble_up g f p (swap idx p l)
  end.

Fixpoint bubble_down (g : dag) (fuel idx : nat) (l : list node) : list node :=
  match fuel with
  | O => l
  | S f =>
    let size := length l in
    let li := 2 * idx + 1 in
    if li <? size then
      let ri := 2 * idx + 2 in
      let si := if (ri <? size) && (0 <? hcmp g (nth li l O) (nth ri l O))%Z then ri else li in
      if (0 <? hcmp g (nth idx l O) (nth si l O))%Z then bubble_down g f si (swap idx si l)
      else l
    else l
  end.

Definition heap_push (g : dag) (x : node) (l : list node) : list node :=
  let l' := l ++ [x] in bubble_up g (length l') (length l' - 1) l'.

(* Pop: Swap(0, last); Remove(last); bubbleDown() — i.e. the last element takes
   the root's place in the remaining array *)
Definition heap_pop (g : dag) (l : list node) : option (node * list node) :=
  match l with
  | [] => None
  | v :: t =>
    let l' := match t with [] => [] | _ => last t 0 :: removelast t end in
    Some (v, bubble_down g (length l') 0 l')
  end.

Fixpoint ctime_loop (g : dag) (stop : node -> bool) (fuel : nat)
         (h : list node) (seen acc : list node) : wres :=
  match fuel with
  | O => (rev acc, WFuel)
  | S f =>
    match heap_pop g h with
    | None => (rev acc, WEof)
    | Some (c, h') =>
      if mem c seen then ctime_loop g stop f h' seen acc
      else
        let seen' := c :: seen in
        let add := unseen_parents g seen' c in
        if negb (forallb (present g) add) then (rev acc, WFail)
        else if stop c then (rev (c :: acc), WStop)
        else ctime_loop g stop f (fold_left (fun hh p => heap_push g p hh) add h') seen' (c :: acc)
    end
  end.

Definition ctime_walk (g : dag) (stop : node -> bool) (fuel : nat) (start : node) (ignore : list node) : wres :=
  ctime_loop g stop fuel (heap_push g start []) ignore [].

(* ------------------------------------------------------- filtered BFS
   filterCommitIter (commit_walker_bfs_filtered.go) with isValid = isLimit =
   membership in a fixed set (the use made by MergeBase). *)
Fixpoint fbfs_loop (g : dag) (inset : node -> bool) (fuel : nat)
         (q : list node) (visited acc : list node) : wres :=
  match fuel with
  | O => (rev acc, WFuel)
  | S f =>
    match q with
    | [] => (rev acc, WEof)
    | c :: q' =>
      if mem c visited then fbfs_loop g inset f q' visited acc
      else
        let visited' := c :: visited in
        if inset c then fbfs_loop g inset f q' visited' (c :: acc)
        else
          let add := unseen_parents g visited' c in
          if negb (forallb (present g) add) then (rev acc, WFail)
          else fbfs_loop g inset f (q' ++ add) visited' acc
    end
  end.

(* --------------------------------------------------------------- limits
   commitLimitIter over an already produced sequence: Since/Until filter and
   the tail hash (emitted, then ErrStop). *)
Fixpoint limit_list (g : dag) (since until : option Z) (tail : option node) (l : list node) : list node :=
  match l with
  | [] => []
  | c :: r =>
    if match since with Some s => (ctime g c <? s)%Z | None => false end then limit_list g since until tail r
    else if match until with Some u => (u <? ctime g c)%Z | None => false end then limit_list g since until tail r
    else if match tail with Some t => t =? c | None => false end then [c]
    else c :: limit_list g since until tail r
  end.

(* ------------------------------------------------------------------- fuel
   every iteration pops one container element; elements are pushed only when a
   commit is emitted (at most once per node), at most |parents| each *)
Definition nedges (g : dag) : nat := fold_right (fun ps n => length ps + n) 0 (dpar g).
Definition walk_fuel (g : dag) : nat := S (S (nnodes g + nedges g)).

(* LogOrder: 0 default (DFS), 1 DFS, 2 DFS post, 3 BFS, 4 committer time, 5 DFS post first parent *)
Definition walk_by_order (order : nat) (g : dag) (stop : node -> bool) (fuel : nat) (start : node) (ignore : list node) : wres :=
  match order with
  | 0 | 1 => pre_walk g stop fuel start ignore
  | 2 => post_walk g stop fuel start ignore
  | 3 => bfs_walk g stop fuel start ignore
  | 4 => ctime_walk g stop fuel start ignore
  | _ => postfp_walk g stop fuel start ignore
  end.

(* ----------------------------------------------------- NewCommitAllIter
   addReference: walk from a ref tip and collect commits UNTIL THE FIRST ONE
   ALREADY LISTED (the loop breaks there); the collected commits are appended
   to the list when no listed commit was met, else inserted before it. *)
Fixpoint take_until_known (known : list node) (l : list node) : list node * option node :=
  match l with
  | [] => ([], None)
  | c :: r => if mem c known then ([], Some c)
              else let '(t, k) := take_until_known known r in (c :: t, k)
  end.

Fixpoint insert_before (k : node) (ins : list node) (l : list node) : list node :=
  match l with
  | [] => []
  | c :: r => if c =? k then ins ++ c :: r else c :: insert_before k ins r
  end.

Definition add_reference (order : nat) (g : dag) (path : list node) (tip : node) : option (list node) :=
  if mem tip path then Some path
  else
    match walk_by_order order g nostop (walk_fuel g) tip [] with
    | (l, WFuel) => None
    | (l, _) =>
      (* an iterator error simply ends the collection loop (`e == nil` test) *)
      let '(t, k) := take_until_known path l in
      match k with
      | None => Some (path ++ t)
      | Some k => Some (insert_before k t path)
      end
    end.

Fixpoint all_walk (order : nat) (g : dag) (path : list node) (tips : list node) : option (list node) :=
  match tips with
  | [] => Some path
  | t :: r => match add_reference order g path t with
              | None => None
              | Some p => all_walk order g p r
              end
  end.
