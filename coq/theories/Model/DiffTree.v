(* Model/DiffTree.v — G for C44.
   utils/merkletrie/difftree.go  DiffTree / diffNodes / diffNodesSameName / diffDirs
   utils/merkletrie/{doubleiter,iter}.go + internal/frame  (children sorted by name, depth-first)
   utils/merkletrie/change.go    AddRecursiveInsert / AddRecursiveDelete
   plumbing/object/treenoder.go  Hash (mode 0100664 hashed as 0100644), IsDir
   plumbing/object/change_adaptor.go newChanges (paths joined with '/')
   plumbing/object/rename.go     DetectRenames: detectExactRenames, bestNameMatch,
                                 nameSimilarityScore, the claim loops, compactChanges;
                                 the content-similarity matrix is a parameter (score oracle).
   The flat two-iterator walk is written as the equivalent recursive merge of the name-sorted
   children; Merkle hash equality of directories is structural equality (no collisions).
   Executable definitions only. *)
From Coq Require Import List NArith ZArith Bool Arith String.
From GoGit Require Import Base.Out Gen.C44.
Import ListNotations.
Local Open Scope N_scope.

(* ---------- byte strings: Go strings.Compare / == *)
Fixpoint bytes_cmp (a b : bytes) : comparison :=
  match a, b with
  | [], [] => Eq
  | [], _ :: _ => Lt
  | _ :: _, [] => Gt
  | x :: a', y :: b' => match N.compare x y with Eq => bytes_cmp a' b' | c => c end
  end.
Definition bytes_eqb (a b : bytes) : bool := match bytes_cmp a b with Eq => true | _ => false end.
Definition bytes_ltb (a b : bytes) : bool := match bytes_cmp a b with Lt => true | _ => false end.

(* ---------- trees *)
Definition name := bytes.
Definition leaf := (N * bytes)%type.            (* tree entry mode, object id *)
Inductive node := File (l : leaf) | Dir (cs : list (name * node)).
Definition tree := list (name * node).
Definition path := list name.

Definition mode_regular : N := Z.to_N filemode_Regular.        (* 0100644, regenerated from the source *)
Definition mode_deprecated : N := Z.to_N filemode_Deprecated.  (* 0100664 *)
(* Tree.Decode stores canonicalTreeMode(mode) in every entry (generated leaf) *)
Definition decode_mode (m : N) : N := Z.to_N (object_canonicalTreeMode (Z.of_N m)).
(* treeNoder.Hash: hash ++ mode bytes, Deprecated hashed as Regular *)
Definition canon_mode (m : N) : N := if m =? mode_deprecated then mode_regular else m.
Definition leaf_eqb (a b : leaf) : bool :=
  (canon_mode (fst a) =? canon_mode (fst b)) && bytes_eqb (snd a) (snd b).
Definition leaf_raw_eqb (a b : leaf) : bool := (fst a =? fst b) && bytes_eqb (snd a) (snd b).

(* structural equality = equality of tree object ids (no collisions) *)
Fixpoint node_eqb (x y : node) : bool :=
  match x, y with
  | File a, File b => leaf_raw_eqb a b
  | Dir c1, Dir c2 =>
    (fix go (c1 c2 : list (name * node)) : bool :=
       match c1, c2 with
       | [], [] => true
       | (n1, x1) :: r1, (n2, y1) :: r2 => bytes_eqb n1 n2 && node_eqb x1 y1 && go r1 r2
       | _, _ => false
       end) c1 c2
  | _, _ => false
  end.

(* hashEqual on two noders of the same name *)
Definition same_hash (x y : node) : bool :=
  match x, y with
  | File a, File b => leaf_eqb a b
  | Dir _, Dir _ => node_eqb x y
  | _, _ => false
  end.

(* frame.New: children sorted by name *)
Fixpoint insert_child (c : name * node) (l : tree) : tree :=
  match l with
  | [] => [c]
  | d :: r => if bytes_ltb (fst d) (fst c) then d :: insert_child c r else c :: l
  end.
Definition sort_children (l : tree) : tree := fold_right insert_child [] l.

Fixpoint sort_node (x : node) : node :=
  match x with
  | File l => File l
  | Dir cs => Dir (sort_children (map (fun c => (fst c, sort_node (snd c))) cs))
  end.
Definition sort_tree (t : tree) : tree := sort_children (map (fun c => (fst c, sort_node (snd c))) t).

(* the file-like noders below a node, depth first, relative paths (addRecursive) *)
Fixpoint files (x : node) : list (path * leaf) :=
  match x with
  | File l => [([], l)]
  | Dir cs =>
    (fix go (cs : list (name * node)) : list (path * leaf) :=
       match cs with
       | [] => []
       | (n, c) :: r => map (fun pl => (n :: fst pl, snd pl)) (files c) ++ go r
       end) cs
  end.
Definition files_l (cs : tree) : list (path * leaf) :=
  flat_map (fun c => map (fun pl => (fst c :: fst pl, snd pl)) (files (snd c))) cs.

Inductive mchange :=
| MIns (p : path) (l : leaf)
| MDel (p : path) (l : leaf)
| MMod (p : path) (a b : leaf).

Definition pre (n : name) (c : mchange) : mchange :=
  match c with
  | MIns p l => MIns (n :: p) l
  | MDel p l => MDel (n :: p) l
  | MMod p a b => MMod (n :: p) a b
  end.

Definition ins_all (n : name) (x : node) : list mchange := map (fun pl => MIns (n :: fst pl) (snd pl)) (files x).
Definition del_all (n : name) (x : node) : list mchange := map (fun pl => MDel (n :: fst pl) (snd pl)) (files x).

Fixpoint node_size (x : node) : nat :=
  match x with
  | File _ => 1
  | Dir cs => S ((fix go (cs : list (name * node)) : nat :=
                    match cs with [] => O | (_, c) :: r => (node_size c + go r)%nat end) cs)
  end.
Definition tree_size (t : tree) : nat := fold_right (fun c a => (node_size (snd c) + a)%nat) O t.

(* the merge walk; None = out of fuel *)
Fixpoint diffl (fuel : nat) (xs ys : tree) : option (list mchange) :=
  match fuel with
  | O => None
  | S f =>
    match xs, ys with
    | [], [] => Some []
    | (n, x) :: xs', [] => option_map (app (del_all n x)) (diffl f xs' [])
    | [], (n, y) :: ys' => option_map (app (ins_all n y)) (diffl f [] ys')
    | (n1, x) :: xs', (n2, y) :: ys' =>
      match bytes_cmp n1 n2 with
      | Lt => option_map (app (del_all n1 x)) (diffl f xs' ys)
      | Gt => option_map (app (ins_all n2 y)) (diffl f xs ys')
      | Eq =>
        let here :=
          if same_hash x y then Some []
          else match x, y with
               | File a, File b => Some [MMod [n1] a b]
               | Dir [], Dir _ => Some (ins_all n1 y)
               | Dir _, Dir [] => Some (del_all n1 x)
               | Dir c1, Dir c2 => option_map (map (pre n1)) (diffl f c1 c2)
               | _, _ => Some (del_all n1 x ++ ins_all n1 y)
               end in
        match here with
        | None => None
        | Some h => option_map (app h) (diffl f xs' ys')
        end
      end
    end
  end.

Definition difftree (a b : tree) : option (list mchange) :=
  let a' := sort_tree a in let b' := sort_tree b in
  diffl (S (tree_size a' + tree_size b')) a' b'.

(* ---------- object layer: Change{From,To}, names joined with '/' *)
Definition SLASH : N := 47.
Fixpoint join_path (p : path) : bytes :=
  match p with
  | [] => []
  | [n] => n
  | n :: r => n ++ SLASH :: join_path r
  end.

Definition ent := (bytes * leaf)%type.
Definition chg := (option ent * option ent)%type.

Definition to_chg (c : mchange) : chg :=
  match c with
  | MIns p l => (None, Some (join_path p, l))
  | MDel p l => (Some (join_path p, l), None)
  | MMod p a b => (Some (join_path p, a), Some (join_path p, b))
  end.

(* changeName / changeHash / changeMode prefer To *)
Definition ch_ent (c : chg) : ent :=
  match c with
  | (_, Some t) => t
  | (Some f, None) => f
  | (None, None) => ([], (0, []))
  end.
Definition ch_name (c : chg) : bytes := fst (ch_ent c).
Definition ch_mode (c : chg) : N := fst (snd (ch_ent c)).
Definition ch_hash (c : chg) : bytes := snd (snd (ch_ent c)).
Definition same_mode (a b : chg) : bool := ch_mode a =? ch_mode b.

(* ---------- nameSimilarityScore *)
Fixpoint common_prefix (a b : bytes) : nat :=
  match a, b with
  | x :: a', y :: b' => if x =? y then S (common_prefix a' b') else O
  | _, _ => O
  end.
(* strings.LastIndexByte(s,'/')+1 *)
Fixpoint dir_len_aux (s : bytes) (i : nat) (last : nat) : nat :=
  match s with
  | [] => last
  | c :: r => dir_len_aux r (S i) (if c =? SLASH then S i else last)
  end.
Definition dir_len (s : bytes) : nat := dir_len_aux s O O.

Definition name_score (a b : bytes) : nat :=
  let al := dir_len a in let bl := dir_len b in
  let da := firstn al a in let db := firstn bl b in
  let fa := skipn al a in let fb := skipn bl b in
  let dmax := Nat.max al bl in
  let '(ltr, rtl) :=
    if Nat.eqb dmax 0 then (100, 100)%nat
    else
      let l := (common_prefix da db * 100 / dmax)%nat in
      if Nat.eqb l 100 then (l, 100%nat)
      else (l, (common_prefix (rev da) (rev db) * 100 / dmax)%nat) in
  let fmax := Nat.max (List.length fa) (List.length fb) in
  let fscore := (common_prefix (rev fa) (rev fb) * 100 / fmax)%nat in
  (((ltr + rtl) * 25 + fscore * 50) / 100)%nat.

(* bestNameMatch: index of the first candidate with the strictly highest positive score *)
Fixpoint best_match_aux (cname : bytes) (cs : list chg) (i : nat) (best : option nat) (bscore : nat) : option nat :=
  match cs with
  | [] => best
  | c :: r =>
    let s := name_score cname (ch_name c) in
    if Nat.ltb bscore s then best_match_aux cname r (S i) (Some i) s
    else best_match_aux cname r (S i) best bscore
  end.
Definition best_match (c : chg) (cs : list chg) : option nat := best_match_aux (ch_name c) cs O None O.

Fixpoint remove_nth {A} (i : nat) (l : list A) : list A :=
  match l, i with
  | [], _ => []
  | _ :: r, O => r
  | x :: r, S j => x :: remove_nth j r
  end.

(* ---------- groupChangesByHash as an association list in first-appearance order *)
Definition groups := list (bytes * list chg).
Fixpoint group_add (h : bytes) (c : chg) (g : groups) : groups :=
  match g with
  | [] => [(h, [c])]
  | (h', cs) :: r => if bytes_eqb h h' then (h', cs ++ [c]) :: r else (h', cs) :: group_add h c r
  end.
Definition group_by_hash (cs : list chg) : groups := fold_left (fun g c => group_add (ch_hash c) c g) cs [].
Fixpoint g_get (h : bytes) (g : groups) : list chg :=
  match g with
  | [] => []
  | (h', cs) :: r => if bytes_eqb h h' then cs else g_get h r
  end.
Fixpoint g_set (h : bytes) (v : list chg) (g : groups) : groups :=
  match g with
  | [] => [(h, v)]
  | (h', cs) :: r => if bytes_eqb h h' then (h', v) :: r else (h', cs) :: g_set h v r
  end.

(* ---------- the claim loop shared by the exact (several adds x several deletes) and content phases:
   pairs (deleted index, added index) in processing order; a pair is taken when both are still unclaimed *)
Fixpoint set_none {A} (i : nat) (l : list (option A)) : list (option A) :=
  match l, i with
  | [], _ => []
  | _ :: r, O => None :: r
  | x :: r, S j => x :: set_none j r
  end.
Definition nth_opt {A} (i : nat) (l : list (option A)) : option A :=
  match nth_error l i with Some (Some x) => Some x | _ => None end.

Fixpoint claim (pairs : list (nat * nat)) (dels adds : list (option chg)) (acc : list chg)
  : list chg * list (option chg) * list (option chg) :=
  match pairs with
  | [] => (acc, dels, adds)
  | (di, ai) :: r =>
    match nth_opt di dels, nth_opt ai adds with
    | Some d, Some a => claim r (set_none di dels) (set_none ai adds) (acc ++ [(fst d, snd a)])
    | _, _ => claim r dels adds acc
    end
  end.
(* compactChanges *)
Fixpoint compact {A} (l : list (option A)) : list A :=
  match l with [] => [] | Some x :: r => x :: compact r | None :: r => compact r end.

(* similarityMatrix of the exact phase: (score, added, deleted), sort.Stable ascending, walked backwards *)
Definition tri := (nat * nat * nat)%type.   (* score, added, deleted *)
Definition tri_ltb (a b : tri) : bool :=
  let '(s1, a1, d1) := a in let '(s2, a2, d2) := b in
  if Nat.eqb s1 s2 then (if Nat.eqb a1 a2 then Nat.ltb d1 d2 else Nat.ltb a1 a2) else Nat.ltb s1 s2.
Fixpoint tri_insert (x : tri) (l : list tri) : list tri :=
  match l with
  | [] => [x]
  | y :: r => if tri_ltb x y then x :: l else y :: tri_insert x r
  end.
Definition tri_sort (l : list tri) : list tri := fold_right tri_insert [] l.

Definition exact_matrix (limit : nat) (added deleted : list chg) : list (nat * nat) :=
  let full :=
    flat_map (fun dp => map (fun ap => (name_score (ch_name (snd ap)) (ch_name (snd dp)), fst ap, fst dp))
                            (combine (seq 0 (List.length added)) added))
             (combine (seq 0 (List.length deleted)) deleted) in
  let total := (List.length deleted * List.length added)%nat in
  let maxsize := if andb (Nat.ltb 0 limit) (Nat.ltb limit total) then limit else total in
  map (fun t => let '(_, a, d) := t in (d, a)) (rev (tri_sort (firstn maxsize full))).

(* ---------- detectExactRenames (with the repair of the dropped addition: see findings/C44.json) *)
Record xstate := { x_dels : groups; x_left : list chg; x_mod : list chg }.

Definition exact_unique (c : chg) (st : xstate) : xstate :=
  let h := ch_hash c in
  let ds := g_get h st.(x_dels) in
  match ds with
  | [] => {| x_dels := st.(x_dels); x_left := st.(x_left) ++ [c]; x_mod := st.(x_mod) |}
  | [d] =>
    if same_mode c d
    then {| x_dels := g_set h [] st.(x_dels); x_left := st.(x_left); x_mod := st.(x_mod) ++ [(fst d, snd c)] |}
    else {| x_dels := st.(x_dels); x_left := st.(x_left) ++ [c]; x_mod := st.(x_mod) |}
  | _ =>
    match best_match c ds with
    | Some i =>
      match nth_error ds i with
      | Some d =>
        if same_mode c d
        then {| x_dels := g_set h (remove_nth i ds) st.(x_dels); x_left := st.(x_left); x_mod := st.(x_mod) ++ [(fst d, snd c)] |}
        else {| x_dels := st.(x_dels); x_left := st.(x_left) ++ [c]; x_mod := st.(x_mod) |}
      | None => {| x_dels := st.(x_dels); x_left := st.(x_left) ++ [c]; x_mod := st.(x_mod) |}
      end
    | None => {| x_dels := st.(x_dels); x_left := st.(x_left) ++ [c]; x_mod := st.(x_mod) |}
    end
  end.

Definition exact_multi (limit : nat) (added : list chg) (st : xstate) : xstate :=
  match added with
  | [] => st
  | a0 :: _ =>
    let h := ch_hash a0 in
    let ds := g_get h st.(x_dels) in
    match ds with
    | [] => {| x_dels := st.(x_dels); x_left := st.(x_left) ++ added; x_mod := st.(x_mod) |}
    | [d] =>
      match best_match d added with
      | Some i =>
        match nth_error added i with
        | Some a =>
          if same_mode d a
          then {| x_dels := g_set h [] st.(x_dels); x_left := st.(x_left) ++ remove_nth i added;
                  x_mod := st.(x_mod) ++ [(fst d, snd a)] |}
          else {| x_dels := st.(x_dels); x_left := st.(x_left) ++ added; x_mod := st.(x_mod) |}
        | None => {| x_dels := st.(x_dels); x_left := st.(x_left) ++ added; x_mod := st.(x_mod) |}
        end
      | None => {| x_dels := st.(x_dels); x_left := st.(x_left) ++ added; x_mod := st.(x_mod) |}
      end
    | _ =>
      let '(ren, ds', as') := claim (exact_matrix limit added ds) (map Some ds) (map Some added) [] in
      {| x_dels := g_set h (compact ds') st.(x_dels); x_left := st.(x_left) ++ compact as'; x_mod := st.(x_mod) ++ ren |}
    end
  end.

Definition is_single {A} (l : list A) : bool := match l with [_] => true | _ => false end.

Definition detect_exact (limit : nat) (added deleted modified : list chg) : list chg * list chg * list chg :=
  let ga := group_by_hash added in
  let st0 := {| x_dels := group_by_hash deleted; x_left := []; x_mod := modified |} in
  let uniq := flat_map (fun g => if is_single (snd g) then snd g else []) ga in
  let multi := filter (fun g => negb (is_single (snd g))) ga in
  let st1 := fold_left (fun st c => exact_unique c st) uniq st0 in
  let st2 := fold_left (fun st g => exact_multi limit (snd g) st) multi st1 in
  (st2.(x_left), flat_map snd st2.(x_dels), st2.(x_mod)).

(* ---------- detectContentRenames: [matrix] = the (deleted, added) index pairs above the score
   threshold in the order the loop visits them — whatever the similarity scoring says *)
Definition detect_content (matrix : list (nat * nat)) (added deleted modified : list chg)
  : list chg * list chg * list chg :=
  let '(ren, ds', as') := claim matrix (map Some deleted) (map Some added) [] in
  (compact as', compact ds', modified ++ ren).

Definition is_ins (c : chg) : bool := match c with (None, Some _) => true | _ => false end.
Definition is_del (c : chg) : bool := match c with (Some _, None) => true | _ => false end.
Definition is_mod (c : chg) : bool := negb (is_ins c) && negb (is_del c).

(* DetectRenames + renameDetector.detect; [oracle added deleted] = None when the rename limit
   suppresses the content phase, else the visiting order of the similarity matrix *)
Definition detect_renames (limit : nat) (only_exact : bool)
           (oracle : list chg -> list chg -> list (nat * nat)) (changes : list chg) : list chg :=
  let added := filter is_ins changes in
  let deleted := filter is_del changes in
  let modified := filter is_mod changes in
  match added, deleted with
  | _ :: _, _ :: _ =>
    let '(a1, d1, m1) := detect_exact limit added deleted modified in
    let '(a2, d2, m2) :=
      if only_exact then (a1, d1, m1)
      else if andb (Nat.ltb 0 limit) (Nat.ltb limit (Nat.max (List.length a1) (List.length d1))) then (a1, d1, m1)
      else detect_content (oracle a1 d1) a1 d1 m1 in
    a2 ++ d2 ++ m2
  | _, _ => added ++ deleted ++ modified
  end.

(* ---------- canonical output order: by change name (To preferred) *)
Fixpoint chg_insert (c : chg) (l : list chg) : list chg :=
  match l with
  | [] => [c]
  | d :: r => if bytes_ltb (ch_name d) (ch_name c) then d :: chg_insert c r else c :: l
  end.
Definition chg_sort (l : list chg) : list chg := fold_right chg_insert [] l.

Fixpoint ent_insert (c : ent) (l : list ent) : list ent :=
  match l with
  | [] => [c]
  | d :: r => if bytes_ltb (fst d) (fst c) then d :: ent_insert c r else c :: l
  end.
Definition ent_sort (l : list ent) : list ent := fold_right ent_insert [] l.

Definition froms (l : list chg) : list ent := flat_map (fun c => match fst c with Some e => [e] | None => [] end) l.
Definition tos (l : list chg) : list ent := flat_map (fun c => match snd c with Some e => [e] | None => [] end) l.

(* ---------- correspondence entry points *)
Definition out_ent (e : ent) : out := OList [OBytes (fst e); ON (fst (snd e)); OBytes (snd (snd e))].
Definition out_oent (e : option ent) : out := match e with Some e => out_ent e | None => OSym "none"%string end.
Definition out_chg (c : chg) : out := OList [OSym "chg"%string; out_oent (fst c); out_oent (snd c)].

(* input: trees as nested lists built by the harness: (name hex, mode, payload) *)
Inductive tin := TF (n : String.string) (m : N) (h : String.string) | TD (n : String.string) (cs : list tin).
Fixpoint of_tin (t : tin) : name * node :=
  match t with
  | TF n m h => (unhex n, File (decode_mode m, unhex h))
  | TD n cs => (unhex n, Dir (map of_tin cs))
  end.

Definition c44_changes (a b : list tin) : option (list chg) :=
  option_map (map to_chg) (difftree (map of_tin a) (map of_tin b)).

Definition c44_plain (a b : list tin) : out :=
  match c44_changes a b with
  | Some cs => OOk (map out_chg (chg_sort cs))
  | None => OErr "fuel"%string
  end.

Definition c44_exact (limit : N) (a b : list tin) : out :=
  match c44_changes a b with
  | Some cs => OOk (map out_chg (chg_sort (detect_renames (N.to_nat limit) true (fun _ _ => []) cs)))
  | None => OErr "fuel"%string
  end.

(* conservation projection: independent of the score oracle (C44_renames_conserve) *)
Definition c44_content (limit : N) (a b : list tin) : out :=
  match c44_changes a b with
  | Some cs =>
    let r := detect_renames (N.to_nat limit) false (fun _ _ => []) cs in
    OOk [OList (map out_ent (ent_sort (froms r))); OList (map out_ent (ent_sort (tos r)));
         OList (map (fun c => OList [out_oent (fst c); out_oent (snd c)])
                    (chg_sort (filter (fun c => match c with
                                                | (Some f, Some t) => bytes_eqb (fst f) (fst t)
                                                | _ => false end) r)))]
  | None => OErr "fuel"%string
  end.
