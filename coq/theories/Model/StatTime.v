(* Model/StatTime.v — G for C27, the time stamps of the metadata shortcut.
   utils/merkletrie/filesystem/node.go metadataMatches compares
     n.modTime.Equal(entry.ModifiedAt)        (seconds AND nanoseconds)
     n.modTime.Before(n.idx.ModTime)          (seconds, then nanoseconds)
   on time.Time values that carry a whole-second part and a nanosecond part.
   Model/Status.v keeps a time stamp as one number (nanoseconds since the
   epoch); this file gives the two-part form, the two comparisons exactly as
   the code makes them, and the timeline of one tracked file over two-part
   stamps (the racy-git argument with sub-second resolution).
   Executable definitions only. *)
From Coq Require Import List NArith Bool.
Import ListNotations.
Local Open Scope N_scope.

Record ts := mkTs { t_sec : N; t_nsec : N }.

Definition NANO : N := 1000000000.
Definition ts_wf (t : ts) : bool := t_nsec t <? NANO.
(* the single number Model/Status.v uses *)
Definition ts_ns (t : ts) : N := t_sec t * NANO + t_nsec t.

(* time.Time.Equal / Before on wall-clock stamps *)
Definition ts_eqb (a b : ts) : bool := (t_sec a =? t_sec b) && (t_nsec a =? t_nsec b).
Definition ts_ltb (a b : ts) : bool := (t_sec a <? t_sec b) || ((t_sec a =? t_sec b) && (t_nsec a <? t_nsec b)).
Definition ts_leb (a b : ts) : bool := negb (ts_ltb b a).
Definition ts_zero (t : ts) : bool := (t_sec t =? 0) && (t_nsec t =? 0).

(* ------------------------------------------------------------ timeline *)

(* the clock moves to any later stamp (whatever the granularity of the file
   system); a write stamps the file with the clock; staging records the file and
   rewrites the index now; TouchIdx rewrites the index for another path and copies
   this entry unchanged *)
Inductive ev := ETo (t : ts) | EWrite (cid size : N) | EStage | ETouchIdx.

Record tls := mkTls {
  c_clock : ts;
  c_file : N * N * ts;              (* content id, size, mtime *)
  c_entry : option (N * N * ts);    (* staged content id, size, mtime *)
  c_idx : ts }.

Definition tls_step (s : tls) (e : ev) : tls :=
  match e with
  | ETo t => if ts_ltb (c_clock s) t && ts_wf t then mkTls t (c_file s) (c_entry s) (c_idx s) else s
  | EWrite c sz => mkTls (c_clock s) (c, sz, c_clock s) (c_entry s) (c_idx s)
  | EStage => mkTls (c_clock s) (c_file s) (Some (c_file s)) (c_clock s)
  | ETouchIdx => mkTls (c_clock s) (c_file s) (c_entry s) (c_clock s)
  end.
Definition tls_run (s : tls) (h : list ev) : tls := fold_left tls_step h s.

(* metadataMatches (mode left aside): size, mtime Equal, mtime Before the index's *)
Definition tls_matches (s : tls) : bool :=
  match c_entry s with
  | Some (_, esz, emt) => let '(_, sz, mt) := c_file s in (sz =? esz) && ts_eqb mt emt && ts_ltb mt (c_idx s)
  | None => false
  end.

(* the same test with the mtime compared at whole-second granularity (Unix() ==
   Unix()) while the racy check keeps nanoseconds: NOT the code; the variant a
   careless edit produces *)
Definition tls_matches_sec (s : tls) : bool :=
  match c_entry s with
  | Some (_, esz, emt) => let '(_, sz, mt) := c_file s in (sz =? esz) && (t_sec mt =? t_sec emt) && ts_ltb mt (c_idx s)
  | None => false
  end.

Definition tls_same (s : tls) : bool :=
  match c_entry s with
  | Some (ec, _, _) => let '(c, _, _) := c_file s in c =? ec
  | None => false
  end.

Definition no_touch (h : list ev) : bool :=
  forallb (fun e => match e with ETouchIdx => false | _ => true end) h.

Definition tls_init (c sz : N) : tls := mkTls (mkTs 0 0) (c, sz, mkTs 0 0) None (mkTs 0 0).
