(* Model/ObjLines.v — byte-string helpers shared by the commit/tag models
   (C02, C03): Go's bufio.Reader.ReadBytes('\n') line splitting (terminators
   kept), prefixes, index/last-index, trimming, hex and decimal codecs.
   Executable definitions only; no repository content. *)
From Coq Require Import List NArith ZArith Bool.
From GoGit Require Import Base.Out.
Import ListNotations.
Local Open Scope N_scope.

Definition LF : N := 10.
Definition SPC : N := 32.

Fixpoint beqb (a b : bytes) : bool :=
  match a, b with
  | [], [] => true
  | x :: a', y :: b' => (x =? y) && beqb a' b'
  | _, _ => false
  end.

(* ReadBytes('\n') until EOF: every line keeps its LF; only the last line may
   lack one; the empty buffer has no line. *)
Fixpoint split_lines (b : bytes) : list bytes :=
  match b with
  | [] => []
  | c :: r =>
    if c =? LF then [c] :: split_lines r
    else match split_lines r with
         | [] => [[c]]
         | l :: ls => (c :: l) :: ls
         end
  end.

Fixpoint ends_nl (l : bytes) : bool :=
  match l with
  | [] => false
  | [c] => c =? LF
  | _ :: r => ends_nl r
  end.

(* bytes.HasPrefix *)
Fixpoint starts_with (p b : bytes) : bool :=
  match p, b with
  | [], _ => true
  | x :: p', y :: b' => (x =? y) && starts_with p' b'
  | _ :: _, [] => false
  end.

(* line[0] == c (false on the empty line) *)
Definition first_is (c : N) (l : bytes) : bool :=
  match l with x :: _ => x =? c | [] => false end.

(* len(line) == 1 && line[0] == '\n' *)
Definition is_blank (l : bytes) : bool :=
  match l with [c] => c =? LF | _ => false end.

(* bytes.IndexByte *)
Fixpoint index_of (c : N) (b : bytes) : option nat :=
  match b with
  | [] => None
  | x :: r => if x =? c then Some O
              else match index_of c r with Some i => Some (S i) | None => None end
  end.

(* bytes.LastIndexByte *)
Fixpoint last_index_of (c : N) (b : bytes) : option nat :=
  match b with
  | [] => None
  | x :: r => match last_index_of c r with
              | Some i => Some (S i)
              | None => if x =? c then Some O else None
              end
  end.

(* bytes.TrimLeft / TrimRight with a one-byte cutset *)
Fixpoint trim_left (c : N) (b : bytes) : bytes :=
  match b with
  | x :: r => if x =? c then trim_left c r else b
  | [] => []
  end.
Fixpoint trim_right (c : N) (b : bytes) : bytes :=
  match b with
  | [] => []
  | x :: r => match trim_right c r with
              | [] => if x =? c then [] else [x]
              | t => x :: t
              end
  end.
Definition trim_both (c : N) (b : bytes) : bytes := trim_left c (trim_right c b).

(* strings.TrimSuffix(s, "\n"): at most one LF *)
Fixpoint trim_suffix_lf (b : bytes) : bytes :=
  match b with
  | [] => []
  | [c] => if c =? LF then [] else [c]
  | x :: r => x :: trim_suffix_lf r
  end.

(* bytes.Cut(b, " "): before, after, found *)
Fixpoint cut_at (c : N) (b : bytes) : bytes * bytes * bool :=
  match b with
  | [] => ([], [], false)
  | x :: r => if x =? c then ([], r, true)
              else let '(k, v, f) := cut_at c r in (x :: k, v, f)
  end.

(* strings.Join(strings.Split(s, "\n"), "\n ") *)
Definition indent_nl (b : bytes) : bytes :=
  flat_map (fun c => if c =? LF then [LF; SPC] else [c]) b.

(* ---- hex ---- *)
Definition hexdig (n : N) : N := if n <? 10 then 48 + n else 87 + n.
Definition hex_encode (b : bytes) : bytes :=
  flat_map (fun c => [hexdig (c / 16); hexdig (c mod 16)]) b.

(* encoding/hex.DecodeString digit: 0-9 a-f A-F *)
Definition hexv (c : N) : option N :=
  if (48 <=? c) && (c <=? 57) then Some (c - 48)
  else if (97 <=? c) && (c <=? 102) then Some (c - 87)
  else if (65 <=? c) && (c <=? 70) then Some (c - 55)
  else None.
Fixpoint hex_decode (b : bytes) : option bytes :=
  match b with
  | [] => Some []
  | [_] => None
  | x :: y :: r =>
    match hexv x, hexv y, hex_decode r with
    | Some h, Some l, Some t => Some (16 * h + l :: t)
    | _, _, _ => None
    end
  end.

(* parseObjectIDHex: 40 or 64 hex digits -> raw 20/32-byte id *)
Definition parse_oid (d : bytes) : option bytes :=
  if (Nat.eqb (List.length d) 40 || Nat.eqb (List.length d) 64)%bool then hex_decode d else None.

(* ---- decimal ---- *)
Definition is_digit (c : N) : bool := (48 <=? c) && (c <=? 57).

(* value of a non-empty all-digit string (strconv.ParseUint core, unbounded) *)
Fixpoint digits_acc (acc : N) (b : bytes) : option N :=
  match b with
  | [] => Some acc
  | c :: r => if is_digit c then digits_acc (10 * acc + (c - 48)) r else None
  end.
Definition digits_val (b : bytes) : option N :=
  match b with [] => None | _ => digits_acc 0 b end.

(* strconv.ParseInt(s, 10, 64): optional sign, digits, range [-2^63, 2^63) *)
Definition parse_int64 (b : bytes) : option Z :=
  match b with
  | [] => None
  | c :: r =>
    let '(neg, ds) := if c =? 43 then (false, r) else if c =? 45 then (true, r) else (false, b) in
    match digits_val ds with
    | None => None
    | Some n =>
      let z := if neg then (- Z.of_N n)%Z else Z.of_N n in
      if ((- 2 ^ 63 <=? z) && (z <? 2 ^ 63))%Z then Some z else None
    end
  end.

(* decimal printing, most significant digit first; fuel = bit size suffices *)
Fixpoint dec_aux (fuel : nat) (n : N) (acc : bytes) : bytes :=
  match fuel with
  | O => acc
  | S f => let acc' := (48 + n mod 10) :: acc in
           if n / 10 =? 0 then acc' else dec_aux f (n / 10) acc'
  end.
Definition print_dec (n : N) : bytes := dec_aux (S (N.to_nat (N.size n))) n [].

(* fmt %02d for n >= 0 (Go time appendInt width 2) *)
Definition pad2 (n : N) : bytes := if n <? 10 then 48 :: print_dec n else print_dec n.

Definition str (s : String.string) : bytes := bytes_of_string s.
