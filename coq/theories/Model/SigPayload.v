(* Model/SigPayload.v — G for C03: plumbing/object/signature.go
   (isSignatureHeader, stripHeaderSignatures, stripObjectSignatures) and the
   EncodeWithoutSignature / matchesSource / signatureEqual logic of commit.go
   and tag.go.  Executable definitions only. *)
From Coq Require Import List NArith ZArith Bool String.
From GoGit Require Import Base.Out Model.ObjLines Model.Ident Model.Commit Model.Tag.
Import ListNotations.
Local Open Scope N_scope.

(* isSignatureHeader: "gpgsig " or "gpgsig-sha256 " *)
Definition is_sig_header (l : bytes) : bool :=
  starts_with (k_gpgsig ++ [SPC]) l || starts_with (k_gpgsig256 ++ [SPC]) l.

(* stripHeaderSignatures, header part; the body (from the blank line on) is
   copied verbatim *)
Fixpoint strip_lines (skipping : bool) (ls : list bytes) : bytes :=
  match ls with
  | [] => []
  | l :: r =>
    if skipping && first_is SPC l then strip_lines true r
    else if is_sig_header l then strip_lines true r
    else if is_blank l then l ++ List.concat r
    else l ++ strip_lines false r
  end.
Definition strip_header_sigs (b : bytes) : bytes := strip_lines false (split_lines b).

(* stripObjectSignatures *)
Definition strip_commit (raw : bytes) : bytes := strip_header_sigs raw.
Definition strip_tag (raw : bytes) : bytes :=
  match parse_signed_bytes raw with
  | Some sm => strip_header_sigs (firstn sm raw)
  | None => strip_header_sigs raw
  end.

Fixpoint list_eqb {A} (eq : A -> A -> bool) (a b : list A) : bool :=
  match a, b with
  | [], [] => true
  | x :: a', y :: b' => eq x y && list_eqb eq a' b'
  | _, _ => false
  end.

(* the field comparison of Commit.matchesSource (Hash is a separate flag) *)
Definition commit_fields_eqb (a b : commit) : bool :=
  ident_eqb (c_author a) (c_author b) && ident_eqb (c_committer a) (c_committer b) &&
  beqb (c_msg a) (c_msg b) && beqb (c_tree a) (c_tree b) && beqb (c_enc a) (c_enc b) &&
  list_eqb beqb (c_parents a) (c_parents b) &&
  list_eqb (fun x y => beqb (fst x) (fst y) && beqb (snd x) (snd y)) (c_extra a) (c_extra b).

Definition tag_fields_eqb (a b : tag) : bool :=
  beqb (t_name a) (t_name b) && ident_eqb (t_tagger a) (t_tagger b) && beqb (t_msg a) (t_msg b) &&
  beqb (t_type a) (t_type b) && beqb (t_target a) (t_target b).

(* matchesSource for an object decoded from [src] whose current exported
   fields are [c]; [same_hash]: c.Hash still equals the source hash *)
Definition commit_matches_source (src : bytes) (same_hash : bool) (c : commit) : bool :=
  match decode_commit src with
  | Ok f => same_hash && commit_fields_eqb c f
  | Err _ => false
  end.
Definition tag_matches_source (src : bytes) (same_hash : bool) (t : tag) : bool :=
  match decode_tag src with
  | Ok f => same_hash && tag_fields_eqb t f
  | Err _ => false
  end.

(* EncodeWithoutSignature *)
Definition commit_payload (src : bytes) (same_hash : bool) (c : commit) : bytes :=
  if commit_matches_source src same_hash c then strip_commit src else encode_commit c false.
Definition tag_payload (src : bytes) (same_hash : bool) (t : tag) : bytes :=
  if tag_matches_source src same_hash t then strip_tag src else encode_tag t false.

(* what a verifier is handed for a freshly decoded object *)
Definition g_commit_payload (raw : bytes) : result (bytes * bytes) :=
  match decode_commit raw with
  | Ok c => Ok (commit_payload raw true c, c_sig c)
  | Err e => Err e
  end.
Definition g_tag_payload (raw : bytes) : result (bytes * bytes) :=
  match decode_tag raw with
  | Ok t => Ok (tag_payload raw true t, t_sig t)
  | Err e => Err e
  end.

(* ---- Commit.Verify / Tag.Verify, the OpenPGP check abstracted as
   [V payload signature].  Commit.Verify refuses a Signature that holds more
   than one armored block, then ALWAYS checks Commit.Signature (the "gpgsig"
   header) against EncodeWithoutSignature — also for a commit of a SHA-256
   repository, whose signature git keeps in "gpgsig-sha256"
   (Commit.SignatureSHA256 is never looked at).  Tag.Verify checks
   Tag.Signature. ---- *)
Definition commit_verify (V : bytes -> bytes -> bool) (src : bytes) (same_hash : bool) (c : commit) : bool :=
  if Nat.ltb 1 (count_sig_blocks (c_sig c)) then false
  else V (commit_payload src same_hash c) (c_sig c).
Definition tag_verify (V : bytes -> bytes -> bool) (src : bytes) (same_hash : bool) (t : tag) : bool :=
  V (tag_payload src same_hash t) (t_sig t).

(* ---- mutations of exported fields after Decode (harness cmd/c03) ---- *)
Inductive imut := IName (v : bytes) | IEmail (v : bytes) | ITs (n : Z) | ITz (n : Z) | INsec.
Definition mut_ident (m : imut) (i : ident) : ident :=
  match m with
  | IName v => mk_ident v (id_email i) (id_ts i) (id_tz i)
  | IEmail v => mk_ident (id_name i) v (id_ts i) (id_tz i)
  | ITs n => mk_ident (id_name i) (id_email i) n (id_tz i)
  | ITz n => mk_ident (id_name i) (id_email i) (id_ts i) n
  | INsec => i
  end.

Inductive cmut :=
| CNone | CMsg (v : bytes) | CTree (v : bytes) | CAddParent (v : bytes) | CDropParents | CEnc (v : bytes)
| CAddExtra (v : bytes) | CDropExtras | CSig (v : bytes) | CSig256 (v : bytes) | CHash
| CAuthor (m : imut) | CCommitter (m : imut).
Definition mut_commit (m : cmut) (c : commit) : commit :=
  match m with
  | CNone | CHash => c
  | CMsg v => set_msg c v
  | CTree v => mk_commit v (c_parents c) (c_author c) (c_committer c) (c_enc c) (c_extra c) (c_sig c) (c_sig256 c) (c_msg c)
  | CAddParent v => set_parents c (c_parents c ++ [v])
  | CDropParents => set_parents c []
  | CEnc v => set_enc c v
  | CAddExtra v => set_extra c (c_extra c ++ [(str "x-verif", v)])
  | CDropExtras => set_extra c []
  | CSig v => set_sig c v
  | CSig256 v => set_sig256 c v
  | CAuthor im => set_author c (mut_ident im (c_author c))
  | CCommitter im => set_committer c (mut_ident im (c_committer c))
  end.

Inductive tmut :=
| TNone | TMsg (v : bytes) | TName (v : bytes) | TTarget (v : bytes) | TType (v : bytes)
| TSig (v : bytes) | TSig256 (v : bytes) | THash | TTaggerM (m : imut).
Definition mut_tag (m : tmut) (t : tag) : tag :=
  match m with
  | TNone | THash => t
  | TMsg v => set_tmsg t v
  | TName v => mk_tag (t_target t) (t_type t) v (t_tagger t) (t_sig256 t) (t_msg t) (t_sig t)
  | TTarget v => mk_tag v (t_type t) (t_name t) (t_tagger t) (t_sig256 t) (t_msg t) (t_sig t)
  | TType v => mk_tag (t_target t) v (t_name t) (t_tagger t) (t_sig256 t) (t_msg t) (t_sig t)
  | TSig v => mk_tag (t_target t) (t_type t) (t_name t) (t_tagger t) (t_sig256 t) (t_msg t) v
  | TSig256 v => set_tsig256 t v
  | TTaggerM im => set_ttagger t (mut_ident im (t_tagger t))
  end.

(* ---- correspondence entry points ---- *)
Definition c03_cpay (raw : string) : out :=
  let b := unhex raw in
  match decode_commit b with
  | Ok c => OOk [OBytes (commit_payload b true c); OBytes (c_sig c); OBytes (c_sig256 c); ONat (count_sig_blocks (c_sig c))]
  | Err e => out_derr e
  end.
Definition c03_tpay (raw : string) : out :=
  let b := unhex raw in
  match decode_tag b with
  | Ok t => OOk [OBytes (tag_payload b true t); OBytes (t_sig t); OBytes (t_sig256 t); ONat (count_sig_blocks (t_sig t))]
  | Err e => out_derr e
  end.
Definition c03_cmut (raw : string) (m : cmut) : out :=
  let b := unhex raw in
  match decode_commit b with
  | Ok c =>
    let c' := mut_commit m c in
    let sh := match m with CHash => false | _ => true end in
    OOk [OBool (commit_matches_source b sh c'); OBytes (commit_payload b sh c')]
  | Err e => out_derr e
  end.
Definition c03_tmut (raw : string) (m : tmut) : out :=
  let b := unhex raw in
  match decode_tag b with
  | Ok t =>
    let t' := mut_tag m t in
    let sh := match m with THash => false | _ => true end in
    OOk [OBool (tag_matches_source b sh t'); OBytes (tag_payload b sh t')]
  | Err e => out_derr e
  end.
(* op=cverify / tverify: a real OpenPGP key accepts exactly the pair
   (signed payload, good signature) *)
Definition c03_cverify (raw signed good : string) : out :=
  let b := unhex raw in
  let V := fun p s => beqb p (unhex signed) && beqb s (unhex good) in
  match decode_commit b with
  | Ok c => OOk [OBool (commit_verify V b true c)]
  | Err e => out_derr e
  end.
Definition c03_tverify (raw signed good : string) : out :=
  let b := unhex raw in
  let V := fun p s => beqb p (unhex signed) && beqb s (unhex good) in
  match decode_tag b with
  | Ok t => OOk [OBool (tag_verify V b true t)]
  | Err e => out_derr e
  end.
Definition c03_psb (raw : string) : out :=
  let b := unhex raw in
  OList [match parse_signed_bytes b with Some n => ONat n | None => ONum (-1) end; ONat (count_sig_blocks b)].
Definition c03_strip (raw : string) : out := OBytes (strip_header_sigs (unhex raw)).
