(* Model/C35Utf8.v — the parts of Go's unicode/utf8, unicode, bytes and strings
   packages that the packp codecs (C35) reach with arbitrary bytes:
     utf8.DecodeRune / DecodeLastRune / `for _, r := range s`
     unicode.IsSpace / IsControl / IsGraphic   (IsGraphic through the interval
                                                 table Model/C35UniTable.v)
     bytes.TrimSpace = strings.TrimSpace, strings.Fields, strings.ContainsFunc
   All functions are byte-wise over UTF-8; invalid bytes decode to U+FFFD of
   width 1 exactly as in Go.  Executable definitions only. *)
From Coq Require Import List NArith Bool.
From GoGit Require Import Base.Out Model.C35UniTable.
Import ListNotations.
Local Open Scope N_scope.

Definition RuneError : N := 65533.
Definition u8cont (b : N) : bool := (128 <=? b) && (b <=? 191).

(* utf8.DecodeRune: (rune, width); (RuneError, 0) on empty input, (RuneError, 1) on an invalid or short sequence *)
Definition decode_rune (s : bytes) : N * nat :=
  match s with
  | [] => (RuneError, 0%nat)
  | b0 :: r =>
    if b0 <? 128 then (b0, 1%nat)
    else if b0 <? 194 then (RuneError, 1%nat)
    else if b0 <? 224 then
      match r with
      | b1 :: _ => if u8cont b1 then ((b0 - 192) * 64 + (b1 - 128), 2%nat) else (RuneError, 1%nat)
      | _ => (RuneError, 1%nat)
      end
    else if b0 <? 240 then
      match r with
      | b1 :: b2 :: _ =>
        let lo := if b0 =? 224 then 160 else 128 in
        let hi := if b0 =? 237 then 159 else 191 in
        if (lo <=? b1) && (b1 <=? hi) && u8cont b2
        then ((b0 - 224) * 4096 + (b1 - 128) * 64 + (b2 - 128), 3%nat) else (RuneError, 1%nat)
      | _ => (RuneError, 1%nat)
      end
    else if b0 <? 245 then
      match r with
      | b1 :: b2 :: b3 :: _ =>
        let lo := if b0 =? 240 then 144 else 128 in
        let hi := if b0 =? 244 then 143 else 191 in
        if (lo <=? b1) && (b1 <=? hi) && u8cont b2 && u8cont b3
        then ((b0 - 240) * 262144 + (b1 - 128) * 4096 + (b2 - 128) * 64 + (b3 - 128), 4%nat)
        else (RuneError, 1%nat)
      | _ => (RuneError, 1%nat)
      end
    else (RuneError, 1%nat)
  end.

(* utf8.DecodeLastRune: look back over at most UTFMax bytes for a start byte
   (RuneStart(b) = b&0xC0 != 0x80) and decode forward from there *)
Definition decode_last_rune (s : bytes) : N * nat :=
  match rev s with
  | [] => (RuneError, 0%nat)
  | b :: rest =>
    if b <? 128 then (b, 1%nat)
    else
      let seq : option bytes :=
        match rest with
        | c1 :: rest1 =>
          if negb (u8cont c1) then Some [c1; b]
          else match rest1 with
          | c2 :: rest2 =>
            if negb (u8cont c2) then Some [c2; c1; b]
            else match rest2 with
            | c3 :: _ => if negb (u8cont c3) then Some [c3; c2; c1; b] else None
            | [] => None
            end
          | [] => None
          end
        | [] => None
        end in
      match seq with
      | Some q => let (r, n) := decode_rune q in if Nat.eqb n (List.length q) then (r, n) else (RuneError, 1%nat)
      | None => (RuneError, 1%nat)
      end
  end.

(* unicode.IsSpace (White_Space) *)
Definition is_space_rune (r : N) : bool :=
  ((9 <=? r) && (r <=? 13)) || (r =? 32) || (r =? 133) || (r =? 160) || (r =? 5760)
  || ((8192 <=? r) && (r <=? 8202)) || (r =? 8232) || (r =? 8233) || (r =? 8239) || (r =? 8287) || (r =? 12288).

(* unicode.IsControl (category Cc) *)
Definition is_control_rune (r : N) : bool := (r <? 32) || ((127 <=? r) && (r <=? 159)).

(* unicode.IsGraphic: L, M, N, P, S, Zs — the merged intervals of the Go tables *)
Fixpoint in_ranges (r : N) (t : list (N * N)) : bool :=
  match t with
  | [] => false
  | (lo, hi) :: t' => if r <? lo then false else if r <=? hi then true else in_ranges r t'
  end.
Definition is_graphic_rune (r : N) : bool :=
  if r <? 128 then (32 <=? r) && (r <=? 126) else in_ranges r graphic_ranges.

(* the runes of a byte string with their encodings (`for i, r := range s`) *)
Fixpoint runes_go (fuel : nat) (s : bytes) : list (N * bytes) :=
  match fuel with
  | O => []
  | S f =>
    match s with
    | [] => []
    | _ => let (r, n) := decode_rune s in (r, firstn n s) :: runes_go f (skipn n s)
    end
  end.
Definition runes (s : bytes) : list (N * bytes) := runes_go (List.length s) s.

(* strings.ContainsFunc(s, f) *)
Definition contains_rune (f : N -> bool) (s : bytes) : bool := existsb (fun x => f (fst x)) (runes s).

(* TrimLeftFunc(s, unicode.IsSpace) *)
Fixpoint drop_space_runes (l : list (N * bytes)) : list (N * bytes) :=
  match l with
  | x :: r => if is_space_rune (fst x) then drop_space_runes r else l
  | [] => []
  end.
Definition trim_left_u (s : bytes) : bytes := List.concat (map snd (drop_space_runes (runes s))).

(* TrimRightFunc(s, unicode.IsSpace): backwards with DecodeLastRune *)
Fixpoint trim_right_go (fuel : nat) (s : bytes) : bytes :=
  match fuel with
  | O => s
  | S f =>
    match s with
    | [] => []
    | _ => let (r, n) := decode_last_rune s in
           if is_space_rune r then trim_right_go f (firstn (List.length s - n) s) else s
    end
  end.
Definition trim_right_u (s : bytes) : bytes := trim_right_go (List.length s) s.

(* bytes.TrimSpace / strings.TrimSpace (the ASCII fast path computes the same slice) *)
Definition trim_space_u (s : bytes) : bytes := trim_right_u (trim_left_u s).

(* strings.Fields = FieldsFunc(s, unicode.IsSpace) *)
Fixpoint fields_go (l : list (N * bytes)) (cur : list bytes) (have : bool) : list bytes :=
  match l with
  | [] => if have then [List.concat (rev cur)] else []
  | x :: r =>
    if is_space_rune (fst x)
    then (if have then List.concat (rev cur) :: fields_go r [] false else fields_go r [] false)
    else fields_go r (snd x :: cur) true
  end.
Definition fields_u (s : bytes) : list bytes := fields_go (runes s) [] false.

(* digest of the interval table, compared with the Go tables on every run *)
Definition ranges_digest (t : list (N * N)) : N * N * N :=
  fold_left (fun (a : N * N * N) (iv : N * N) =>
               let '(n, x, y) := a in
               (n + 1, (x * 31 + fst iv) mod 4294967291, (y * 37 + snd iv) mod 4294967291)) t (0, 0, 0).
