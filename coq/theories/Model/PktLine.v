(* Model/PktLine.v — G for C34 (and the framing layer of C35/C53):
   plumbing/format/pktline/{pktline,length,scanner,error}.go.
     Write / WriteFlush / WriteDelim / WriteResponseEnd / WriteError / asciiHex16
     Read / ReadLine / PeekLine / ParseLength / hexDecode / Scanner.Scan
   Readers are lists of chunks (what successive io.Reader.Read calls deliver);
   io.ReadFull and io.CopyN(io.Discard) are [take].  Constants and the two hex
   leaves come from Gen/C34.v (regenerated from the Go sources on every run).
   Executable definitions only. *)
From Coq Require Import List NArith ZArith Bool String.
From GoGit Require Import Base.Out Base.GoInt Gen.C34.
Import ListNotations.

(* ---------- constants (Gen) in the types the model uses ---------- *)
Definition zb (l : list Z) : bytes := map Z.to_N l.
Definition LenSizeN : nat := Z.to_nat pktline_LenSize.          (* 4 *)
Definition MaxSizeN : nat := Z.to_nat pktline_MaxSize.          (* 65520 *)
Definition flushPkt : bytes := zb pktline_flushPkt.
Definition delimPkt : bytes := zb pktline_delimPkt.
Definition responseEndPkt : bytes := zb pktline_responseEndPkt.
Definition emptyPkt : bytes := zb pktline_emptyPkt.
Definition errPrefix : bytes := zb pktline_errPrefix.

Definition zlen (b : bytes) : Z := Z.of_nat (List.length b).

(* ---------- readers ---------- *)
Definition reader := list bytes.

(* gather up to n bytes across chunks (io.ReadFull / io.CopyN): fewer only when
   the stream ends; the unread rest of a chunk stays at the front *)
Fixpoint take (r : reader) (n : nat) : bytes * reader :=
  match r with
  | [] => ([], [])
  | c :: r' =>
    if Nat.leb n (List.length c) then (firstn n c, skipn n c :: r')
    else let (x, r'') := take r' (n - List.length c) in (c ++ x, r'')
  end.

Definition rlen (r : reader) : nat := List.length (List.concat r).

(* ---------- length.go ---------- *)
Definition hex_val (b : N) : option Z :=
  let (v, e) := pktline_asciiHexToByte (Z.of_N b) in if e then None else Some v.

(* hexDecode: ret = 16*ret + n over the first LenSize bytes *)
Fixpoint hex_decode_go (k : nat) (buf : bytes) (acc : Z) : option Z :=
  match k with
  | O => Some acc
  | S k' =>
    match buf with
    | [] => None                       (* unreachable: len(buf) >= 4 checked first *)
    | b :: buf' =>
      match hex_val b with
      | None => None
      | Some n => hex_decode_go k' buf' (16 * acc + n)%Z
      end
    end
  end.

Definition hex_decode (buf : bytes) : option Z :=
  if Nat.ltb (List.length buf) 4 then None else hex_decode_go LenSizeN buf 0%Z.

(* ParseLength: None = ErrInvalidPktLen *)
Definition parse_length (b : bytes) : option Z :=
  match hex_decode b with
  | None => None
  | Some n =>
    if (n =? 3)%Z then None
    else if (n >? pktline_MaxSize)%Z then None
    else Some n
  end.

(* asciiHex16: byte(n & 0xf000 >> 12) ... (Go: & and >> have equal precedence, left to right) *)
Definition hex16 (n : Z) : bytes :=
  let d (m s : Z) := Z.to_N (pktline_byteToASCIIHex (wrapu 8 (Z.shiftr (Z.land n m) s))) in
  [d 61440 12; d 3840 8; d 240 4; d 15 0]%Z.

(* ---------- pktline.go: writers ---------- *)
(* Write: None = ErrPayloadTooLong *)
Definition pkt_write (p : bytes) : option bytes :=
  if Nat.eqb (List.length p) 0 then Some emptyPkt
  else if (zlen p >? pktline_MaxPayloadSize)%Z then None
  else Some (hex16 (zlen p + pktline_LenSize) ++ p).

Inductive pkt :=
| PData (p : bytes)
| PFlush
| PDelim
| PResponseEnd.

Definition NL : N := 10.

(* WriteError(e) = Writef("%s%s\n", "ERR ", e.Error()) *)
Definition err_payload (text : bytes) : bytes := errPrefix ++ text ++ [NL].

Definition enc_pkt (p : pkt) : option bytes :=
  match p with
  | PData b => pkt_write b
  | PFlush => Some flushPkt
  | PDelim => Some delimPkt
  | PResponseEnd => Some responseEndPkt
  end.

(* a whole sequence of writes on one stream; None as soon as one write fails *)
Fixpoint enc_pkts (ps : list pkt) : option bytes :=
  match ps with
  | [] => Some []
  | p :: r =>
    match enc_pkt p, enc_pkts r with
    | Some a, Some b => Some (a ++ b)
    | _, _ => None
    end
  end.

(* ---------- pktline.go: Read ---------- *)
Inductive perr :=
| PEeof                      (* io.EOF *)
| PEunexpected               (* io.ErrUnexpectedEOF *)
| PEinvalid                  (* ErrInvalidPktLen *)
| PEerrline (text : bytes)   (* *ErrorLine *)
| PEbuffull.                 (* bufio.ErrBufferFull (PeekLine only) *)

(* l (Err = -1), payload p[LenSize:l] (nil when l < LenSize), error *)
Record rd := mkrd { rd_len : Z; rd_payload : bytes; rd_err : option perr }.
Definition rd_fail (e : perr) : rd := mkrd pktline_Err [] (Some e).

Fixpoint has_prefix (pre s : bytes) : bool :=
  match pre, s with
  | [], _ => true
  | a :: pre', b :: s' => N.eqb a b && has_prefix pre' s'
  | _ :: _, [] => false
  end.

(* bytes.TrimSpace restricted to ASCII white space (\t \n \v \f \r ' ');
   the Unicode fall-back of TrimSpace is outside the model: the correspondence
   projects ErrorLine.Text only for payloads below 0x80 *)
Definition is_space (c : N) : bool :=
  N.eqb c 9 || N.eqb c 10 || N.eqb c 11 || N.eqb c 12 || N.eqb c 13 || N.eqb c 32.
Fixpoint trim_left (s : bytes) : bytes :=
  match s with
  | c :: r => if is_space c then trim_left r else s
  | [] => []
  end.
Definition trim_space (s : bytes) : bytes := rev (trim_left (rev (trim_left s))).

Definition errline_of (payload : bytes) : option perr :=
  if has_prefix errPrefix payload
  then Some (PEerrline (trim_space (skipn (Z.to_nat pktline_errPrefixSize) payload)))
  else None.

(* Read(r, p) with len(p) = bufsz *)
Definition pkt_read (bufsz : nat) (r : reader) : rd * reader :=
  if Nat.ltb bufsz LenSizeN then (rd_fail PEinvalid, r)
  else
    let (hdr, r1) := take r LenSizeN in
    if Nat.eqb (List.length hdr) 0 then (rd_fail PEeof, r1)
    else if Nat.ltb (List.length hdr) LenSizeN then (rd_fail PEinvalid, r1)
    else
      match parse_length hdr with
      | None => (rd_fail PEinvalid, r1)
      | Some len =>
        if (len =? pktline_Flush)%Z || (len =? pktline_Delim)%Z || (len =? pktline_ResponseEnd)%Z
        then (mkrd len [] None, r1)
        else if (len =? pktline_LenSize)%Z then (mkrd len [] None, r1)
        else
          let want := Z.to_nat (len - pktline_LenSize) in
          let (pl, r2) := take r1 want in
          if (len >? Z.of_nat bufsz)%Z then (rd_fail PEunexpected, r2)   (* CopyN(Discard) *)
          else if Nat.eqb (List.length pl) 0 then (rd_fail PEeof, r2)
          else if Nat.ltb (List.length pl) want then (rd_fail PEunexpected, r2)
          else (mkrd len pl (errline_of pl), r2)
      end.

(* ReadLine: pooled MaxSize buffer *)
Definition read_line (r : reader) : rd * reader := pkt_read MaxSizeN r.

(* PeekLine on a bufio.Reader of size bufsize over a reader: nothing is
   consumed.  Peek(n): ErrBufferFull when n > bufsize, else the reader's error
   (EOF) when fewer than n bytes exist. *)
Definition peek (bufsize : nat) (r : reader) (n : nat) : option bytes * option perr :=
  if Nat.ltb bufsize n then (None, Some PEbuffull)
  else let (x, _) := take r n in
       if Nat.ltb (List.length x) n then (None, Some PEeof) else (Some x, None).

Definition peek_line (bufsize : nat) (r : reader) : rd :=
  match peek bufsize r LenSizeN with
  | (Some hdr, _) =>
    match parse_length hdr with
    | None => rd_fail PEinvalid
    | Some len =>
      if (len =? pktline_Flush)%Z || (len =? pktline_Delim)%Z || (len =? pktline_ResponseEnd)%Z
      then mkrd len [] None
      else if (len =? pktline_LenSize)%Z then mkrd len [] None
      else
        match peek bufsize r (Z.to_nat len) with
        | (Some data, _) =>
          let buf := skipn LenSizeN data in mkrd len buf (errline_of buf)
        | (None, Some e) => rd_fail e
        | (None, None) => rd_fail PEeof
        end
    end
  | (None, Some e) => rd_fail e
  | (None, None) => rd_fail PEeof
  end.

(* Scanner.Scan: (ok, Len, Bytes, Err) — io.EOF becomes a clean stop *)
Record scan_st := mkscan { sc_ok : bool; sc_len : Z; sc_bytes : bytes; sc_err : option perr }.
Definition scan (r : reader) : scan_st * reader :=
  let (d, r') := pkt_read MaxSizeN r in
  match rd_err d with
  | Some PEeof => (mkscan false (rd_len d) [] None, r')
  | Some e => (mkscan false (rd_len d) (rd_payload d) (Some e), r')
  | None => (mkscan true (rd_len d) (rd_payload d) None, r')
  end.

(* ---------- reading a whole stream ---------- *)
(* The decoded view of one Read result *)
Definition pkt_of_rd (d : rd) : option pkt :=
  if (rd_len d =? pktline_Flush)%Z then Some PFlush
  else if (rd_len d =? pktline_Delim)%Z then Some PDelim
  else if (rd_len d =? pktline_ResponseEnd)%Z then Some PResponseEnd
  else if (rd_len d >=? pktline_LenSize)%Z then Some (PData (rd_payload d))
  else None.

(* repeated Read with a buffer of bufsz bytes until io.EOF, an error that
   consumed nothing, or the end of the data; errors that consumed input are
   recorded and reading goes on (this is what "staying in sync" is about).
   fuel: every continued iteration consumes at least one byte. *)
Inductive rall := RAll (items : list rd) | RFuel.

Fixpoint read_all_go (fuel : nat) (bufsz : nat) (r : reader) (acc : list rd) : rall :=
  match fuel with
  | O => RFuel
  | S f =>
    let (d, r') := pkt_read bufsz r in
    match rd_err d with
    | Some PEeof => RAll (rev (d :: acc))
    | _ =>
      if Nat.ltb (rlen r') (rlen r) then read_all_go f bufsz r' (d :: acc)
      else RAll (rev (d :: acc))
    end
  end.

Definition read_all (bufsz : nat) (r : reader) : rall :=
  read_all_go (S (S (rlen r))) bufsz r [].

(* Scanner loop: for sc.Scan() { record } ; then the final (Len, Bytes, Err) *)
Definition rd_of_scan (s : scan_st) : rd := mkrd (sc_len s) (sc_bytes s) (sc_err s).
Fixpoint scan_all_go (fuel : nat) (r : reader) (acc : list rd) : rall :=
  match fuel with
  | O => RFuel
  | S f =>
    let (s, r') := scan r in
    if sc_ok s then scan_all_go f r' (rd_of_scan s :: acc)
    else RAll (rev (rd_of_scan s :: acc))
  end.
Definition scan_all (r : reader) : rall := scan_all_go (S (S (rlen r))) r [].

(* ---------- observables ---------- *)
Definition o_perr (e : option perr) : out :=
  match e with
  | None => OSym "nil"%string
  | Some PEeof => OSym "eof"%string
  | Some PEunexpected => OSym "unexpected_eof"%string
  | Some PEinvalid => OSym "invalid_pktlen"%string
  | Some (PEerrline t) => OList [OSym "errline"%string; OBytes t]
  | Some PEbuffull => OSym "buffer_full"%string
  end.

(* long byte strings are compared through length, both ends and an Adler-32
   style checksum (rendering 10^5 hex digits is slow on the Coq side) *)
Definition adler (b : bytes) : N :=
  let '(x, y) := fold_left (fun (st : N * N) (c : N) =>
                   let x := ((fst st + c) mod 65521)%N in (x, ((snd st + x) mod 65521)%N)) b (1%N, 0%N) in
  (y * 65536 + x)%N.
Definition o_bytes (b : bytes) : out :=
  if Nat.leb (List.length b) 64 then OBytes b
  else OList [OSym "big"%string; ONat (List.length b); OBytes (firstn 16 b);
              OBytes (skipn (List.length b - 16) b); ON (adler b)].

(* ErrorLine.Text is projected only for ASCII payloads (Unicode TrimSpace is not modelled) *)
Definition o_rd (d : rd) : out :=
  let e := match rd_err d with
           | Some (PEerrline t) =>
             if forallb (fun c => N.ltb c 128) (rd_payload d) then o_perr (rd_err d)
             else OSym "errline_nonascii"%string
           | e => o_perr e
           end in
  OList [ONum (rd_len d); o_bytes (rd_payload d); e].

Definition o_optbytes (o : option bytes) : out :=
  match o with Some b => OOk [OBytes b] | None => OErr "too_long"%string end.

(* ---------- correspondence entry points ---------- *)
(* a case describes byte strings by pieces: literal hex or (byte, count) runs *)
Inductive piece := PLit (hex : String.string) | PRep (b : N) (n : N).
Definition piece_bytes (p : piece) : bytes :=
  match p with PLit h => unhex h | PRep b n => repeat b (N.to_nat n) end.
Definition pieces_bytes (ps : list piece) : bytes := flat_map piece_bytes ps.

(* cut a byte string into chunks of the given sizes (cycled by the harness to
   cover the whole input; a final rest chunk takes what is left) *)
Fixpoint chunk_by (sizes : list nat) (b : bytes) : reader :=
  match sizes with
  | [] => match b with [] => [] | _ => [b] end
  | n :: r => match b with
              | [] => []
              | _ => firstn n b :: chunk_by r (skipn n b)
              end
  end.

Inductive cpkt := CData (ps : list piece) | CFlush | CDelim | CRend | CErr (text : String.string).
Definition pkt_of_c (c : cpkt) : pkt :=
  match c with
  | CData ps => PData (pieces_bytes ps)
  | CFlush => PFlush
  | CDelim => PDelim
  | CRend => PResponseEnd
  | CErr t => PData (err_payload (unhex t))
  end.

Definition o_rall (a : rall) : out :=
  match a with RAll l => OList (map o_rd l) | RFuel => OErr "fuel"%string end.

(* encode a packet list, split the stream, read it back with a bufsz buffer *)
Definition nats (l : list N) : list nat := map N.to_nat l.

Definition c34_rt (ps : list cpkt) (sizes : list N) (bufsz : N) : out :=
  match enc_pkts (map pkt_of_c ps) with
  | None => OErr "too_long"%string
  | Some s => OOk [o_bytes s; o_rall (read_all (N.to_nat bufsz) (chunk_by (nats sizes) s))]
  end.

(* read raw bytes *)
Definition c34_raw (ps : list piece) (sizes : list N) (bufsz : N) : out :=
  o_rall (read_all (N.to_nat bufsz) (chunk_by (nats sizes) (pieces_bytes ps))).

Definition c34_scan (ps : list piece) (sizes : list N) : out :=
  o_rall (scan_all (chunk_by (nats sizes) (pieces_bytes ps))).

Definition c34_peek (ps : list piece) (sizes : list N) (bufsize : N) : out :=
  o_rd (peek_line (N.to_nat bufsize) (chunk_by (nats sizes) (pieces_bytes ps))).
