(* Model/RefGuard.v — G for the refusal half of C14:
   storage/filesystem/dotgit validReferenceName, with
   internal/pathutil IsHFSDot(part, ".") and IsNTFSDot(part, ".", "").
   Executable definitions only.

   IsHFSDot works on []rune(part).  Its only accepting runes are '.' (one
   byte) and the sixteen ignored code points (each with exactly one valid
   3-byte UTF-8 encoding; Go's decoder maps every invalid or overlong sequence
   to U+FFFD, which is neither), and any other rune makes it return false at
   once, so the rune loop is modelled as a byte loop. *)
From Coq Require Import List Arith NArith ZArith Bool String.
From GoGit Require Import Base.Out Model.RefStrings Model.RefName Gen.C14.
Import ListNotations.
Local Open Scope N_scope.

Definition is_path_sep (c : N) : bool := dotgit_isPathSep (Z.of_N c).

(* UTF-8 encodings of hfsIgnoredCodepoints:
   U+200C..200F = E2 80 8C..8F, U+202A..202E = E2 80 AA..AE,
   U+206A..206F = E2 81 AA..AF, U+FEFF = EF BB BF *)
Definition hfs_ignored (a b c : N) : bool :=
  ((a =? 226) && (((b =? 128) && (((140 <=? c) && (c <=? 143)) || ((170 <=? c) && (c <=? 174))))
                  || ((b =? 129) && ((170 <=? c) && (c <=? 175)))))
  || ((a =? 239) && (b =? 187) && (c =? 191)).

Fixpoint skip_ignored (s : bytes) : bytes :=
  match s with
  | a :: ((b :: c :: r) as t) => if hfs_ignored a b c then skip_ignored r else s
  | _ => s
  end.

(* pathutil.IsHFSDot(part, "."): ignored* '.' ignored* '.' ignored* *)
Definition is_hfs_dot (part : bytes) : bool :=
  match skip_ignored part with
  | c1 :: s2 =>
    if c1 =? 46 then
      match skip_ignored s2 with
      | c2 :: s4 => if c2 =? 46 then beqb (skip_ignored s4) [] else false
      | [] => false
      end
    else false
  | [] => false
  end.

(* onlySpacesAndPeriods(start): true at the first ':' or at the end *)
Fixpoint only_sp_dot (s : bytes) : bool :=
  match s with
  | [] => true
  | c :: r => if c =? 58 then true else if (c =? 32) || (c =? 46) then only_sp_dot r else false
  end.

(* pathutil.IsNTFSDot(name, ".", ""): only pattern 1 can fire (len(dotgit) = 1,
   len(shortnamePrefix) = 0) *)
Definition is_ntfs_dot (name : bytes) : bool :=
  match name with
  | c0 :: c1 :: r => (c0 =? 46) && (c1 =? 46) && only_sp_dot r
  | _ => false
  end.

Definition ctrl_byte (c : N) : bool := (c <? 32) || (c =? 127).

Definition part_escapes (part : bytes) : bool :=
  beqb part [46] || is_hfs_dot part || is_ntfs_dot part.

(* dotgit.validReferenceName: true = nil error *)
Definition valid_reference_name (name : bytes) : bool :=
  is_safe name
  && negb (existsb ctrl_byte name)
  && negb (existsb part_escapes (fields_func is_path_sep name [])).

Definition c14_guard_run (names : list string) : out :=
  OBytes (map (fun h => if valid_reference_name (unhex h) then 1 else 0) names).
