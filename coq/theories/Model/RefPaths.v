(* Model/RefPaths.v — G for the footprint half of C14: the paths each
   reference / reflog entry point of storage/filesystem/dotgit hands to the
   billy.Filesystem for a given name (SetRef, Ref, RemoveRef, Refs, PackRefs,
   ReflogReader, ReflogWriter, DeleteReflog), in the two repository states the
   correspondence drives (the name absent; the name present loose, packed and
   with a reflog).  Executable definitions only; the guard is
   Model/RefGuard.valid_reference_name. *)
From Coq Require Import List Arith NArith ZArith Bool String.
From GoGit Require Import Base.Out Model.RefStrings Model.RefName Model.RefGuard Model.RefStore Gen.C14.
Import ListNotations.
Local Open Scope N_scope.

Inductive rop := RSet | RCas | RRef | RRm | RList | RPack | RLogRead | RLogWrite | RLogDel.

Definition packedRefsPath : bytes := Zs dotgit_packedRefsPath.
Definition logsPath : bytes := Zs dotgit_logsPath.
(* the temp file of rewritePackedRefsWithoutRef / PackRefs: TempFile("", "._packed-refs"),
   rendered "<tmp>" by the harness whatever directory and random suffix billy picks *)
Definition TMP : bytes := bytes_of_string "<tmp>".

(* fs.Join(logsPath, name) for a name that needs no cleaning *)
Definition log_path (n : bytes) : bytes := logsPath ++ [47] ++ n.
(* filepath.Dir of a clean relative path with at least one '/' *)
Definition dir_of (p : bytes) : bytes := last (parents p) [46].

(* is this operation guarded by validReferenceName(name)? (Refs and PackRefs take no name) *)
Definition guarded (o : rop) : bool :=
  match o with RList | RPack => false | _ => true end.

(* the loose walk below refs/ when only [n] is there *)
Definition walk_paths (pop : bool) (n : bytes) : list bytes :=
  refsDir :: (if pop && under refsDir n then parents n ++ [n] else []).

Definition touched (o : rop) (pop : bool) (n : bytes) : list bytes :=
  let loose := pop || beqb n HEADp in
  match o with
  | RSet => [n]
  | RCas | RRef => if loose then [n] else [n; packedRefsPath]
  | RRm => if pop then [n; packedRefsPath; TMP] else [n; packedRefsPath]
  | RList => HEADp :: packedRefsPath :: walk_paths pop n
  | RPack => packedRefsPath :: walk_paths pop n ++ (if pop && under refsDir n then [TMP] else [])
  | RLogRead | RLogDel => [log_path n]
  | RLogWrite => [dir_of (log_path n); log_path n]
  end.

(* what the entry point does with a name: refuse before any filesystem call, or touch paths *)
Definition footprint (o : rop) (pop : bool) (n : bytes) : option (list bytes) :=
  let ok := valid_reference_name n in
  if guarded o && negb ok then None
  else Some (touched o (pop && ok) n).

(* canonical rendering: distinct paths, sorted bytewise *)
Fixpoint insert_path (p : bytes) (l : list bytes) : list bytes :=
  match l with
  | [] => [p]
  | x :: r => if beqb x p then l else if ble x p then x :: insert_path p r else p :: l
  end.
Definition canon (l : list bytes) : list bytes := fold_left (fun acc p => insert_path p acc) l [].

Definition rop_of (s : string) : rop :=
  if String.eqb s "set" then RSet else if String.eqb s "cas" then RCas
  else if String.eqb s "ref" then RRef else if String.eqb s "rm" then RRm
  else if String.eqb s "list" then RList else if String.eqb s "pack" then RPack
  else if String.eqb s "logread" then RLogRead else if String.eqb s "logwrite" then RLogWrite
  else RLogDel.

Definition c14_run (o : string) (pop : bool) (name : string) : out :=
  match footprint (rop_of o) pop (unhex name) with
  | None => OList [OSym "refused"]
  | Some l => OList (OSym "touched" :: map OBytes (canon l))
  end.
